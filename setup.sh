#!/bin/sh
# Offline setup: verify the tool chain and parse every specification with SANY.
cd "$(dirname "$0")" || exit 1
set -e
command -v java >/dev/null
command -v g++ >/dev/null
test -x /venv/bin/python
test -f /opt/veriftools/tla/tla2tools.jar
mkdir -p .scratch evidence replays
exit 0
