------------------------------- MODULE Deps -------------------------------
(***************************************************************************)
(* C15 -- dependency cycles are rejected; field order respects             *)
(* dependencies.                                                           *)
(*                                                                         *)
(* Written from the property statement, doc/language-reference.md          *)
(* ($next, conditional fields, virtual fields, parameters, automatically   *)
(* generated fields, imports) and doc/compiler-design.md ("Dependency      *)
(* Cycle Checking", "Dependency Order Computation").  Nothing here is a    *)
(* transcription of dependency_checker.py: cycles are found by transitive  *)
(* closure (no depth-first search, no stack, no low-links), the order is   *)
(* specified by a predicate and not by an algorithm.                       *)
(*                                                                         *)
(* A digraph is a set E of pairs <<a, b>> ("a depends on b") over a node   *)
(* set N.                                                                  *)
(***************************************************************************)
EXTENDS Naturals, Sequences, FiniteSets, TLC

SeqToSet(s) == {s[k] : k \in DOMAIN s}

(* the elements of a finite set of numbers in increasing order *)
SortedSeq(S) ==
    CHOOSE q \in {TLCEval([k \in 1 .. Cardinality(T) |-> CHOOSE x \in T : Cardinality({y \in T : y < x}) = k - 1]) :
                     T \in {TLCEval(S)}} : TRUE

---------------------------------------------------------------------------
(* Reachability, cycles, strongly connected components                     *)

Succ(E, a) == {e[2] : e \in {x \in E : x[1] = a}}

(* NOTE for TLC: operator arguments and LET definitions are evaluated by name
   (again at every use), so anything that is used more than once and is not
   trivially cheap is bound by a quantifier / set constructor over a
   singleton set, which evaluates it exactly once; function and set
   constructors are lazy objects as well, TLCEval (the identity) makes them
   explicit.                                                                *)
RECURSIVE ReachFrom(_, _, _)
ReachFrom(E, frontier, seen) ==
    IF frontier = {} THEN seen
    ELSE UNION {ReachFrom(E, new, seen \cup new) :
                   new \in {TLCEval((UNION {Succ(E, a) : a \in frontier}) \ seen)}}

(* nodes reachable from a by a path of at least one edge *)
Reach(E, a) == ReachFrom(E, {a}, {})

(* "depends on itself through references" *)
OnCycle(N, E) == TLCEval({a \in N : a \in Reach(E, a)})
HasCycle(N, E) == OnCycle(N, E) # {}

SCCOf(E, a) == TLCEval({a} \cup {b \in Reach(E, a) : a \in Reach(E, b)})
(* components with more than one node, or one node with a self edge *)
NontrivialSCCs(N, E) == {SCCOf(E, a) : a \in OnCycle(N, E)}

(* Two further, independent characterisations; DepsMC checks that all three
   agree on every digraph on <= 4 nodes.                                   *)
(* (a) a digraph is acyclic iff its nodes can be ranked so that every edge
       goes strictly downwards                                             *)
HasRanking(N, E) ==
    \E r \in [N -> 1 .. Cardinality(N)] : \A e \in E : r[e[1]] > r[e[2]]
(* (b) repeated removal of nodes without outgoing edges empties an acyclic
       graph and gets stuck on a cyclic one                                *)
RECURSIVE Peel(_, _)
Peel(N, E) ==
    UNION {IF sinks = {} THEN M ELSE Peel(M \ sinks, E) :
              M \in {TLCEval(N)}, sinks \in {TLCEval({a \in N : Succ(E, a) \cap N = {}})}}
HasCycleByPeeling(N, E) == Peel(N, E) # {}

---------------------------------------------------------------------------
(* Orders                                                                  *)

IsPerm(order, F) ==
    /\ Len(order) = Cardinality(F)
    /\ SeqToSet(order) = F

Pos(order, x) == CHOOSE k \in DOMAIN order : order[k] = x

(* every field comes after all fields it mentions (mentions of things that
   are not fields of the structure -- parameters -- do not constrain)      *)
Respects(order, F, E) ==
    \A e \in E : (e[1] \in F /\ e[2] \in F) => Pos(order, e[2]) < Pos(order, e[1])

(* order: the structure's dependency ordering; src: its fields in source
   order.  This is everything the property demands.                        *)
StableTopo(order, src, E) ==
    LET F == SeqToSet(src)
    IN  /\ IsPerm(order, F)
        /\ Respects(order, F, E)
        /\ (Respects(src, F, E) => order = src)

---------------------------------------------------------------------------
(* The reference graph of one structure                                    *)
(*                                                                         *)
(* Abstract structure:  S.n  = number of source-level nodes, S.nodes a     *)
(* sequence of n records, in source order,                                 *)
(*   [kind, next, start, size, cond, value, args]                          *)
(* kind  \in {"param", "phys", "arr", "arrn", "comp", "parg", "virt"}      *)
(*   param: run-time parameter of the structure                            *)
(*   phys : start [+1]     UInt         name                               *)
(*   arr  : start [+size]  UInt:8[]     name                               *)
(*   arrn : start [+size]  UInt:8[size] name     (array length = size)     *)
(*   comp : start [+1]     Inner        name     (others mention name.q)   *)
(*   parg : start [+1]     PInner(args) name                               *)
(*   virt : let name = value                                               *)
(* start/size/cond/value/args: sequences of node ids mentioned by that     *)
(* part; next = TRUE: the start expression also contains $next.            *)
(* Ids n+1, n+2, n+3 denote the automatically generated fields             *)
(* $size_in_bytes, $max_size_in_bytes, $min_size_in_bytes.                 *)

PhysKinds == {"phys", "arr", "arrn", "comp", "parg"}
IsPhys(S, i) == S.nodes[i].kind \in PhysKinds
IsParam(S, i) == S.nodes[i].kind = "param"

SizeId(S) == S.n + 1
MaxId(S)  == S.n + 2
MinId(S)  == S.n + 3
AllIds(S) == 1 .. (S.n + 3)
ParamIds(S) == {i \in 1 .. S.n : IsParam(S, i)}
FieldIds(S) == AllIds(S) \ ParamIds(S)

PrevPhys(S, i) ==
    LET c == {j \in 1 .. (i - 1) : IsPhys(S, j)}
    IN  CHOOSE j \in c : \A k \in c : k <= j

(* what the location (start and size) of physical field i mentions; "$next
   translates to ... the end of the previous physical field", i.e. the
   previous field's start + size                                           *)
RECURSIVE LocMentions(_, _)
LocMentions(S, i) ==
    UNION {SeqToSet(nd.start) \cup SeqToSet(nd.size)
           \cup (IF nd.next THEN UNION {LocMentions(S, j) : j \in {PrevPhys(S, i)}} ELSE {}) :
              nd \in {S.nodes[i]}}

Mentions(S, i) ==
    IF i \in 1 .. S.n
    THEN LET nd == S.nodes[i]
         IN  CASE nd.kind = "param" -> {}
               [] nd.kind = "virt"  -> SeqToSet(nd.value)
               [] OTHER -> LocMentions(S, i) \cup SeqToSet(nd.cond) \cup SeqToSet(nd.args)
    ELSE IF i = SizeId(S)
    THEN (* "the size required to hold every field": the end (start + size) of
            every physical field that is present *)
         UNION {LocMentions(S, j) \cup SeqToSet(S.nodes[j].cond) : j \in {k \in 1 .. S.n : IsPhys(S, k)}}
    ELSE {SizeId(S)}   (* $max_/$min_size_in_bytes are bounds of $size_in_bytes *)

DependsOn(S) == TLCEval(UNION {{<<i, j>> : j \in Mentions(S, i)} : i \in AllIds(S)})

---------------------------------------------------------------------------
(* Enum values: node i is a value whose expression mentions value[i]      *)
PlainGraph(S) == TLCEval(UNION {{<<i, j>> : j \in SeqToSet(S.nodes[i].value)} : i \in 1 .. S.n})

(* Module imports: node i is a file, value = the files it imports; node 1 is
   the file given to the compiler.  Only files reachable from it are read. *)
Loaded(S) == TLCEval({1} \cup Reach(PlainGraph(S), 1))
ImportGraph(S) == UNION {TLCEval({e \in G : e[1] \in L}) : G \in {PlainGraph(S)}, L \in {Loaded(S)}}

=============================================================================
