---------------------------- MODULE DepsOrderMC ----------------------------
(* Model-checking instance of DepsOrder: constants NN / SelfLoops come from
   the configuration file written by harness/c15.py.
   quick   : NN = 1..4, all digraphs (2^(NN*NN) initial states)
   thorough: additionally NN = 5 without self edges (2^20 initial states)   *)
EXTENDS DepsOrder
=============================================================================
