----------------------------- MODULE DepsOrder -----------------------------
(***************************************************************************)
(* The greedy ordering loop as a state machine: "repeatedly scan the       *)
(* not-yet-placed fields in source order; place the first one all of whose *)
(* dependencies are already placed; start the scan again; stop when a scan *)
(* places nothing".  One step = one loop-body execution, so termination is *)
(* a property of the machine and not of a recursive definition.            *)
(*                                                                         *)
(* DepsOrderMC runs it from EVERY digraph on NN nodes (Init chooses E) and *)
(* checks                                                                  *)
(*   Terminates   -- a lexicographic measure strictly decreases at every   *)
(*                   step and the machine never deadlocks before "done"    *)
(*   TypeOK, NoDuplicates, PrefixRespects  (at every step)                 *)
(*   AtDone: acyclic  => StableTopo(order, source order, E)                *)
(*           cyclic   => exactly the fields that do not lead to a cycle    *)
(*                       are placed (so the loop cannot be used as a cycle *)
(*                       detector that loops for ever, and the compiler's  *)
(*                       completeness assertion is equivalent to           *)
(*                       acyclicity)                                       *)
(***************************************************************************)
EXTENDS Deps

CONSTANTS NN,        \* number of fields
          SelfLoops  \* TRUE: all digraphs;  FALSE: digraphs without self edges

Nodes == 1 .. NN
Src == [k \in Nodes |-> k]
AllPairs == {<<a, b>> : a \in Nodes, b \in Nodes}
Pairs == IF SelfLoops THEN AllPairs ELSE {p \in AllPairs : p[1] # p[2]}

VARIABLES E, needed, order, scan, pc
vars == <<E, needed, order, scan, pc>>

Placed == SeqToSet(order)
Ready(f) == Succ(E, f) \subseteq Placed

(* The graph is chosen row by row (one Build step per node) only so that TLC's
   workers share the enumeration; after NN Build steps E is an arbitrary
   digraph and the loop starts.                                              *)
Init ==
    /\ E = {}
    /\ needed = Src
    /\ order = <<>>
    /\ scan = 1
    /\ pc = "build"

Build ==
    /\ pc = "build"
    /\ \E R \in SUBSET {p \in Pairs : p[1] = scan} :
           E' = E \cup R
    /\ scan' = IF scan = NN THEN 1 ELSE scan + 1
    /\ pc' = IF scan = NN THEN "scan" ELSE "build"
    /\ UNCHANGED <<needed, order>>

Drop(s, k) == [j \in 1 .. (Len(s) - 1) |-> IF j < k THEN s[j] ELSE s[j + 1]]

(* the field under the scan is not ready: look at the next one *)
Skip ==
    /\ pc = "scan" /\ scan <= Len(needed) /\ ~Ready(needed[scan])
    /\ scan' = scan + 1
    /\ UNCHANGED <<E, needed, order, pc>>

(* the field under the scan is ready: place it and restart the scan *)
Take ==
    /\ pc = "scan" /\ scan <= Len(needed) /\ Ready(needed[scan])
    /\ order' = Append(order, needed[scan])
    /\ needed' = Drop(needed, scan)
    /\ scan' = 1
    /\ UNCHANGED <<E, pc>>

(* a whole scan placed nothing *)
Stop ==
    /\ pc = "scan" /\ scan > Len(needed)
    /\ pc' = "done"
    /\ UNCHANGED <<E, needed, order, scan>>

Next == Build \/ Skip \/ Take \/ Stop
Spec == Init /\ [][Next]_vars /\ WF_vars(Next)

---------------------------------------------------------------------------
TypeOK ==
    /\ E \subseteq Pairs
    /\ scan \in 1 .. (Len(needed) + 1)
    /\ pc \in {"build", "scan", "done"}
    /\ SeqToSet(needed) \cup Placed = Nodes
    /\ SeqToSet(needed) \cap Placed = {}
    /\ Len(needed) + Len(order) = NN

(* needed stays in source order *)
NeededSorted == \A a, b \in DOMAIN needed : a < b => needed[a] < needed[b]

(* what has been placed so far respects the dependencies *)
PrefixRespects ==
    \A k \in DOMAIN order : Succ(E, order[k]) \subseteq {order[j] : j \in 1 .. (k - 1)}

(* everything the scan has passed in this round is not ready *)
ScannedNotReady == pc = "scan" => \A k \in 1 .. (scan - 1) : ~Ready(needed[k])

(* Lexicographic measure (fields still needed, fields still to scan, running):
   strictly decreasing => termination within a known number of steps.      *)
Measure == Len(needed) * (NN + 2) * 2 + (Len(needed) + 1 - scan) * 2 + (IF pc = "scan" THEN 1 ELSE 0)
Decreases == [][pc = "build" \/ Measure' < Measure]_vars
NeverStuck == pc # "done" => ENABLED Next
Terminates == <>(pc = "done")

Leads(f) == \E c \in OnCycle(Nodes, E) : c = f \/ c \in Reach(E, f)

AtDone ==
    pc = "done" =>
        IF HasCycle(Nodes, E)
        THEN Placed = {f \in Nodes : ~Leads(f)} /\ Len(order) < NN
        ELSE StableTopo(order, Src, E)

(* the three characterisations of "has a cycle" agree (evaluated once per graph) *)
CycleDefsAgree ==
    (pc = "scan" /\ order = <<>> /\ scan = 1) =>   \* i.e. once per graph
        /\ (NN <= 4 => HasCycle(Nodes, E) = ~HasRanking(Nodes, E))   \* NN^NN rankings
        /\ HasCycle(Nodes, E) = HasCycleByPeeling(Nodes, E)
        /\ HasCycle(Nodes, E) = (NontrivialSCCs(Nodes, E) # {})
        /\ \A c \in NontrivialSCCs(Nodes, E) : \A d \in NontrivialSCCs(Nodes, E) : c = d \/ c \cap d = {}
        /\ UNION NontrivialSCCs(Nodes, E) = OnCycle(Nodes, E)

=============================================================================
