----------------------------- MODULE DepsCheck -----------------------------
(***************************************************************************)
(* Binding of Deps to the real compiler (C15).                             *)
(*                                                                         *)
(* RECS_FILE is ndjson: one line per generated case (the abstract case as  *)
(* DepsGen printed it) extended by the harness with `obs`, what the real   *)
(* front end did with the rendered module:                                 *)
(*   hang   : the compile did not finish under the watchdog                *)
(*   exc    : an exception escaped the front end                           *)
(*   groups : the error groups returned by the dependency-cycle pass, each *)
(*            as the node ids its messages point at (0 = not attributable) *)
(*   other  : number of error groups from any other pass up to and         *)
(*            including set_dependency_order                               *)
(*   src    : Structure.field as node ids (struct family, accepted only)   *)
(*   order  : Structure.fields_in_dependency_order as node ids             *)
(* This module computes the expected verdict from the abstract case with   *)
(* Deps' operators and prints one JSON line per failing clause.  Python    *)
(* never compares anything.                                                *)
(***************************************************************************)
EXTENDS Deps, Json, IOUtils

(* parsed once, in Init (single worker) *)
Recs == TLCGet(1)

NodesOf(r) ==
    CASE r.fam = "struct" -> AllIds(r)
      [] r.fam = "mods"   -> Loaded(r)
      [] OTHER            -> 1 .. r.n

GraphOf(r) ==
    CASE r.fam = "struct" -> DependsOn(r)
      [] r.fam = "mods"   -> ImportGraph(r)
      [] OTHER            -> PlainGraph(r)

Groups(r) == {SeqToSet(r.obs.groups[k]) : k \in DOMAIN r.obs.groups}

(* user-visible source order is kept in the IR's field list *)
SrcKeepsSourceOrder(r) ==
    LET src == r.obs.src
    IN  /\ IsPerm(src, FieldIds(r))
        /\ \A a, b \in DOMAIN src : (a < b /\ src[a] <= r.n /\ src[b] <= r.n) => src[a] < src[b]

Failures(r, N, E, on) ==
    LET cyc == on # {}
        o == r.obs
        F(c, e, g) == [id |-> r.id, clause |-> c, expected |-> ToString(e), got |-> ToString(g)]
    IN  (IF o.hang THEN {F("hang", "terminates", "watchdog")} ELSE {})
        \cup (IF o.exc # "" THEN {F("exception", "no exception", o.exc)} ELSE {})
        \cup (IF ~o.hang /\ o.exc = ""
              THEN (IF (Groups(r) # {}) # cyc
                    THEN {F(IF cyc THEN "cycle-missed" ELSE "cycle-spurious",
                            IF cyc THEN "cycle error" ELSE "no cycle error", o.groups)}
                    ELSE {})
                   \cup (IF cyc /\ \E g \in Groups(r) : g = {} \/ ~(g \subseteq on)
                         THEN {F("member-not-on-cycle", SortedSeq(on), o.groups)} ELSE {})
                   \cup (IF o.other # 0 THEN {F("other-error", 0, o.other)} ELSE {})
                   \cup (IF ~cyc /\ Groups(r) = {} /\ o.other = 0 /\ r.fam = "struct"
                         THEN (IF ~SrcKeepsSourceOrder(r)
                               THEN {F("src-order", "fields in source order", o.src)}
                               ELSE IF ~IsPerm(o.order, FieldIds(r))
                               THEN {F("order-not-permutation", SortedSeq(FieldIds(r)), o.order)}
                               ELSE IF ~Respects(o.order, FieldIds(r), E)
                               THEN {F("order-ignores-dependency", "topological", o.order)}
                               ELSE IF Respects(o.src, FieldIds(r), E) /\ o.order # o.src
                               THEN {F("order-not-stable", o.src, o.order)}
                               ELSE {})
                         ELSE {})
              ELSE {})

(* classification of the case for the evidence file (which kinds of graph were seen) *)
Class(r, N, E, sccs) ==
    IF sccs # {}
    THEN IF \E a \in N : <<a, a>> \in E THEN
             (IF \E c \in sccs : Cardinality(c) > 1 THEN "cyc-self+multi" ELSE "cyc-self")
         ELSE IF Cardinality(sccs) > 1 THEN "cyc-several-sccs"
         ELSE IF \E c \in sccs : Cardinality(c) > 2 THEN "cyc-long" ELSE "cyc-2"
    ELSE IF r.fam # "struct" THEN "acyclic"
    ELSE IF Respects(r.obs.src, FieldIds(r), E) THEN "acyclic-src-topological" ELSE "acyclic-reorder-needed"

VARIABLES i, nfail, stats
vars == <<i, nfail, stats>>

Classes == {"cyc-self+multi", "cyc-self", "cyc-several-sccs", "cyc-long", "cyc-2", "acyclic",
            "acyclic-src-topological", "acyclic-reorder-needed", "scc-inexact"}

Init == TLCSet(1, ndJsonDeserialize(IOEnv.RECS_FILE)) /\ i = 0 /\ nfail = 0 /\ stats = [c \in Classes |-> 0]

(* Everything derived from the record is bound by \E over a singleton set, so that
   TLC evaluates it exactly once (a LET may be re-evaluated at every use).

   informational "scc-inexact": do the reported groups coincide with the nontrivial
   SCCs?  (compiler-design.md describes the report as the SCCs; the property only
   demands rejection, so a difference is counted, not failed)                    *)
Step ==
    /\ i < Len(Recs)
    /\ \E r \in {Recs[i + 1]} :
       \E N \in {NodesOf(r)} :
       \E E \in {GraphOf(r)} :
       \E on \in {OnCycle(N, E)} :
       \E sccs \in {TLCEval({SCCOf(E, a) : a \in on})} :
       \E fs \in {Failures(r, N, E, on)} :
       \E cl \in {IF fs # {} THEN "none" ELSE Class(r, N, E, sccs)} :
         LET inexact == fs = {} /\ sccs # {} /\ Groups(r) # sccs
         IN  /\ \A f \in fs : PrintT(ToJson(f))
             /\ nfail' = nfail + Cardinality(fs)
             /\ stats' = [c \in Classes |->
                             stats[c] + (IF c = cl \/ (c = "scc-inexact" /\ inexact) THEN 1 ELSE 0)]
    /\ i' = i + 1

Done ==
    /\ i = Len(Recs)
    /\ PrintT(ToJson([summary |-> TRUE, records |-> i, failures |-> nfail, stats |-> stats]))
    /\ i' = i + 1
    /\ UNCHANGED <<nfail, stats>>

Next == Step \/ Done

=============================================================================
