------------------------------ MODULE DepsGen ------------------------------
(***************************************************************************)
(* Case generator for C15 (direction G).                                   *)
(*                                                                         *)
(* Exhaustive mode (InitX/NextX): one state per adjacency mask over GEN_N  *)
(* nodes (bit (i-1)*N + (j-1) of the mask = edge i -> j); the k-th mask is *)
(* (GEN_LO + k * GEN_STRIDE) mod 2^(N*N), k < GEN_CNT.  With stride 1 and  *)
(* GEN_CNT = 2^(N*N) that is ALL digraphs on N nodes; with a large odd     *)
(* stride it is a sample without repetition.  GEN_ONLY = "acyclic" keeps   *)
(* only the acyclic ones (all 543 DAGs on 4 nodes for the order check).    *)
(* Random mode (InitS/NextS, run with -simulate -seed): graphs on          *)
(* GEN_NMIN .. GEN_NMAX nodes grown edge by edge in one of four modes      *)
(*   dag : an edge is only added when it does not close a cycle            *)
(*   mix : any edge, self edges included                                   *)
(*   ring: starts from one cycle through all nodes (a long cycle)          *)
(*   two : starts from two disjoint cycles (several SCCs)                  *)
(*                                                                         *)
(* Each graph is then decorated -- which kind of definition each node is   *)
(* and through which part of it (start / size / condition / value /        *)
(* argument) each edge is realised -- by a small deterministic hash of     *)
(* (salt, node ids), and printed as one JSON case.  The decoration never   *)
(* removes an edge; for the "struct" family it may add mentions of         *)
(* $size_in_bytes and friends, and $next.  What the resulting dependency   *)
(* graph is, is defined by Deps!DependsOn and decided by DepsCheck, not    *)
(* here.                                                                   *)
(***************************************************************************)
EXTENDS Deps, TLC, Json, IOUtils

EnvNat(name, dflt) == IF name \in DOMAIN IOEnv THEN atoi(IOEnv[name]) ELSE dflt
EnvStr(name, dflt) == IF name \in DOMAIN IOEnv THEN IOEnv[name] ELSE dflt

FAM   == EnvStr("GEN_FAM", "struct")     \* "struct" | "static" | "mods"
GN    == EnvNat("GEN_N", 3)
GLO   == EnvNat("GEN_LO", 0)
GCNT  == EnvNat("GEN_CNT", 512)          \* how many masks
GSTRIDE == EnvNat("GEN_STRIDE", 1)       \* odd => a bijection on 0 .. 2^(N*N)-1
GONLY == EnvStr("GEN_ONLY", "all")       \* "all" | "acyclic": print only acyclic graphs
GSALT == EnvNat("GEN_SALT", 0)
NMIN  == EnvNat("GEN_NMIN", 5)
NMAX  == EnvNat("GEN_NMAX", 8)
NSALT == EnvNat("GEN_NSALT", 40)
TAG   == EnvStr("GEN_TAG", "g")

---------------------------------------------------------------------------
(* deterministic hash (quadratic steps modulo a prime < 2^15.5, so nothing
   overflows TLC's 32-bit integers) *)
HP == 46337
H(x) == LET y == x % HP IN (y * y + y * 3 + 12345) % HP
Rnd(salt, a, b) == H(H(H(salt) + a * 7 + 3) + b * 11 + 5)

RECURSIVE Pow2(_)
Pow2(k) == IF k = 0 THEN 1 ELSE 2 * Pow2(k - 1)
Bit(m, k) == (m \div Pow2(k)) % 2 = 1
EdgesOfMask(n, m) == {<<i, j>> \in (1 .. n) \X (1 .. n) : Bit(m, (i - 1) * n + (j - 1))}

---------------------------------------------------------------------------
(* Decoration                                                              *)
KindTable == <<"phys", "phys", "virt", "virt", "arr", "arrn", "comp", "parg">>
SlotsOf(kind) ==
    CASE kind = "phys" -> <<"start", "cond">>
      [] kind = "comp" -> <<"start", "cond">>
      [] kind = "arr"  -> <<"start", "size", "cond">>
      [] kind = "arrn" -> <<"start", "size", "cond">>
      [] kind = "parg" -> <<"start", "cond", "args">>
      [] OTHER         -> <<"value">>

KindOf(n, E, salt, i) ==
    IF FAM = "static" THEN (IF Rnd(salt, i, 2) % 3 = 0 THEN "sv" ELSE "ev")
    ELSE IF FAM = "mods" THEN "mod"
    ELSE IF Succ(E, i) = {} /\ Rnd(salt, i, 1) % 4 = 0 THEN "param"
    ELSE KindTable[(Rnd(salt, i, 2) % 8) + 1]

SlotOf(n, E, salt, i, j) ==
    LET sl == SlotsOf(KindOf(n, E, salt, i))
    IN  sl[(Rnd(salt, i * 16 + j, 3) % Len(sl)) + 1]

NodeOf(n, E, salt, i) ==
    LET kind == KindOf(n, E, salt, i)
        out(slot) == {j \in Succ(E, i) : SlotOf(n, E, salt, i, j) = slot}
        earlierPhys == \E k \in 1 .. (i - 1) : KindOf(n, E, salt, k) \in PhysKinds
        synth == IF kind = "virt" /\ Rnd(salt, i, 5) % 8 = 0
                 THEN {n + 1 + (Rnd(salt, i, 6) % 3)} ELSE {}
    IN  [kind  |-> kind,
         next  |-> kind \in PhysKinds /\ earlierPhys /\ Rnd(salt, i, 4) % 4 = 0,
         alias |-> Rnd(salt, i, 7) % 2 = 0,
         grp   |-> (Rnd(salt, i, 8) % 2) + 1,       \* enum family: which enum holds the value
         start |-> SortedSeq(out("start")),
         size  |-> SortedSeq(out("size")),
         cond  |-> SortedSeq(out("cond")),
         args  |-> SortedSeq(out("args")),
         value |-> SortedSeq(out("value") \cup synth)]

Case(id, n, E, salt) ==
    [id |-> id, fam |-> FAM, n |-> n, salt |-> salt,
     nodes |-> [i \in 1 .. n |-> NodeOf(n, E, salt, i)]]

---------------------------------------------------------------------------
(* Exhaustive enumeration by mask                                          *)
VARIABLE st

InitX == st = [k |-> 0]
NextX ==
    /\ st.k < GCNT
    /\ LET m == (GLO + st.k * GSTRIDE) % Pow2(GN * GN)
           E == EdgesOfMask(GN, m)
       IN  (GONLY = "all" \/ ~HasCycle(1 .. GN, E)) =>
               PrintT(ToJson(Case(TAG \o ToString(GN) \o "-" \o ToString(m), GN, E, (GSALT + m) % HP)))
    /\ st' = [k |-> st.k + 1]

---------------------------------------------------------------------------
(* Random growth (simulation)                                              *)
Ring(lo, hi) == {<<i, IF i = hi THEN lo ELSE i + 1>> : i \in lo .. hi}

StartEdges(n, mode) ==
    CASE mode = "ring" -> Ring(1, n)
      [] mode = "two"  -> Ring(1, n \div 2) \cup Ring(n \div 2 + 1, n)
      [] OTHER -> {}

InitS ==
    \E n \in NMIN .. NMAX, mode \in {"dag", "dag", "mix", "ring", "two"}, salt \in 0 .. (NSALT - 1),
       extra \in 0 .. 2 :
        st = [n |-> n, mode |-> mode, salt |-> (GSALT * 131 + salt) % HP, E |-> StartEdges(n, mode),
              todo |-> IF mode \in {"dag", "mix"} THEN n + extra * (n \div 2) ELSE extra,
              done |-> FALSE]

AddEdge ==
    /\ ~st.done /\ st.todo > 0
    /\ \E i \in 1 .. st.n, j \in 1 .. st.n :
          /\ <<i, j>> \notin st.E
          /\ st.mode = "dag" => (i # j /\ i \notin Reach(st.E, j))
          /\ st' = [st EXCEPT !.E = st.E \cup {<<i, j>>}, !.todo = st.todo - 1]

Emit ==
    /\ ~st.done /\ st.todo = 0
    /\ PrintT(ToJson(Case(TAG \o ToString(st.n) \o st.mode, st.n, st.E, st.salt)))
    /\ st' = [st EXCEPT !.done = TRUE]

NextS == AddEdge \/ Emit

=============================================================================
