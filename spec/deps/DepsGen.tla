------------------------------ MODULE DepsGen ------------------------------
(***************************************************************************)
(* Case generator for C15 (direction G).                                   *)
(*                                                                         *)
(* Exhaustive mode (InitX/NextX): one state per adjacency mask over n      *)
(* nodes (bit (i-1)*n + (j-1) of the mask = edge i -> j); the k-th mask of *)
(* a segment is (lo + k * stride) mod 2^(n*n), k < cnt.  With stride 1 and *)
(* cnt = 2^(n*n) that is ALL digraphs on n nodes; with a large odd stride  *)
(* it is a sample without repetition.  only = "acyclic" walks the digraphs *)
(* without self edges and keeps the acyclic ones (all 543 DAGs on 4        *)
(* nodes, all 29 281 on 5 nodes: the inputs on which the order matters).   *)
(* Pseudo-random segments (mode "rand"): graph number k of a segment is a  *)
(* deterministic function (the hash below) of GEN_SALT and lo + k: its     *)
(* size n in nmin .. nmax, a density, and one of the shapes                *)
(*   dag : edges only from higher to lower hash rank (acyclic, source      *)
(*         order usually not topological)                                  *)
(*   fwd : edges only to earlier nodes (acyclic, source order topological) *)
(*   mix : any edge, self edges included, sparse (several small SCCs)      *)
(*   ring: one cycle through all nodes (a long cycle) plus dag edges       *)
(*   two : two disjoint cycles (several SCCs) plus forward edges           *)
(*                                                                         *)
(* Each graph is then decorated -- which kind of definition each node is   *)
(* and through which part of it (start / size / condition / value /        *)
(* argument) each edge is realised -- by a small deterministic hash of     *)
(* (salt, node ids), and printed as one JSON case.  The decoration never   *)
(* removes an edge; for the "struct" family it may add mentions of         *)
(* $size_in_bytes and friends, and $next.  What the resulting dependency   *)
(* graph is, is defined by Deps!DependsOn and decided by DepsCheck, not    *)
(* here.                                                                   *)
(***************************************************************************)
EXTENDS Deps, Json, IOUtils

EnvNat(name, dflt) == IF name \in DOMAIN IOEnv THEN atoi(IOEnv[name]) ELSE dflt
EnvStr(name, dflt) == IF name \in DOMAIN IOEnv THEN IOEnv[name] ELSE dflt

FAM   == EnvStr("GEN_FAM", "struct")     \* "struct" | "static" | "mods"
GSALT == EnvNat("GEN_SALT", 0)
TAG   == EnvStr("GEN_TAG", "g")

---------------------------------------------------------------------------
(* deterministic hash (quadratic steps modulo a prime < 2^15.5, so nothing
   overflows TLC's 32-bit integers) *)
HP == 46337
H(x) == CHOOSE v \in {(y * y + y * 3 + 12345) % HP : y \in {x % HP}} : TRUE   \* x evaluated once
Rnd(salt, a, b) == H(H(H(salt) + a * 7 + 3) + b * 11 + 5)


Pow2(k) == 2 ^ k
Bit(m, k) == (m \div Pow2(k)) % 2 = 1
EdgesOfMask(n, m) == {<<i, j>> \in (1 .. n) \X (1 .. n) : Bit(m, (i - 1) * n + (j - 1))}

---------------------------------------------------------------------------
(* Decoration                                                              *)
KindTable == <<"phys", "phys", "virt", "virt", "arr", "arrn", "comp", "parg">>
SlotsOf(kind) ==
    CASE kind = "phys" -> <<"start", "cond">>
      [] kind = "comp" -> <<"start", "cond">>
      [] kind = "arr"  -> <<"start", "size", "cond">>
      [] kind = "arrn" -> <<"start", "size", "cond">>
      [] kind = "parg" -> <<"start", "cond", "args">>
      [] OTHER         -> <<"value">>

KindOf(n, E, salt, i) ==
    IF FAM = "static" THEN (IF Rnd(salt, i, 2) % 3 = 0 THEN "sv" ELSE "ev")
    ELSE IF FAM = "mods" THEN "mod"
    ELSE IF Succ(E, i) = {} /\ Rnd(salt, i, 1) % 4 = 0 THEN "param"
    ELSE KindTable[(Rnd(salt, i, 2) % 8) + 1]

Kinds(n, E, salt) == [i \in 1 .. n |-> KindOf(n, E, salt, i)]

SlotOf(kinds, salt, i, j) ==
    LET sl == SlotsOf(kinds[i])
    IN  sl[(Rnd(salt, i * 16 + j, 3) % Len(sl)) + 1]

NodeOf(n, E, salt, kinds, slots, i) ==
    LET kind == kinds[i]
        out(slot) == {j \in Succ(E, i) : slots[<<i, j>>] = slot}
        earlierPhys == \E k \in 1 .. (i - 1) : kinds[k] \in PhysKinds
        synth == IF kind = "virt" /\ Rnd(salt, i, 5) % 8 = 0
                 THEN {n + 1 + (Rnd(salt, i, 6) % 3)} ELSE {}
    IN  [kind  |-> kind,
         next  |-> kind \in PhysKinds /\ earlierPhys /\ Rnd(salt, i, 4) % 4 = 0,
         alias |-> Rnd(salt, i, 7) % 2 = 0,
         grp   |-> (Rnd(salt, i, 8) % 2) + 1,       \* static family: which enum / struct holds it
         start |-> SortedSeq(out("start")),
         size  |-> SortedSeq(out("size")),
         cond  |-> SortedSeq(out("cond")),
         args  |-> SortedSeq(out("args")),
         value |-> SortedSeq(out("value") \cup synth)]

(* kinds and slots are bound over singleton sets so that TLC computes them once.
   Cases are collected in TLC register 3 and written to GEN_OUT (ndjson) in one go
   at the end: a PrintT per case costs more than generating the case.            *)
CaseOf(id, n, E, salt) ==
    CHOOSE c \in UNION {{[id |-> id, fam |-> FAM, n |-> n, salt |-> salt,
                          nodes |-> [i \in 1 .. n |-> NodeOf(n, E, salt, kinds, slots, i)]] :
                            slots \in {TLCEval([e \in E |-> SlotOf(kinds, salt, e[1], e[2])])}} :
                        kinds \in {TLCEval(Kinds(n, E, salt))}} : TRUE

Emitted(id, n, E, salt) == TLCSet(3, Append(TLCGet(3), CaseOf(id, n, E, salt)))

---------------------------------------------------------------------------
(* Exhaustive enumeration by mask                                          *)
VARIABLE st

(* GEN_ONLY = "acyclic": the k-th candidate is a digraph WITHOUT self edges (bit
   (i-1)*(N-1) + position of j among the other nodes), i.e. k ranges over
   0 .. 2^(N*(N-1))-1, and only the acyclic candidates are printed.            *)
EdgesOfOffDiag(n, k) ==
    {<<i, j>> \in (1 .. n) \X (1 .. n) :
        i # j /\ Bit(k, (i - 1) * (n - 1) + (IF j < i THEN j - 1 ELSE j - 2))}

Ring(lo, hi) == {<<i, IF i = hi THEN lo ELSE i + 1>> : i \in lo .. hi}
Shapes == <<"dag", "dag", "fwd", "mix", "ring", "two">>

RandN(sg, salt) == sg.nmin + (Rnd(salt, 0, 12) % (sg.nmax - sg.nmin + 1))
RandShape(salt) == Shapes[(Rnd(salt, 0, 11) % Len(Shapes)) + 1]
RandEdgesWith(n, shape, dens, coin, rank) ==
    LET pairs == DOMAIN coin
        dag == {p \in pairs : rank[p[1]] > rank[p[2]] /\ coin[p] < dens}
        fwd == {p \in pairs : p[2] < p[1] /\ coin[p] < dens}
    IN  CASE shape = "dag"  -> dag
          [] shape = "fwd"  -> fwd
          [] shape = "mix"  -> {p \in pairs : coin[p] < 1 + (dens % 2)}
          [] shape = "ring" -> Ring(1, n) \cup {p \in dag : coin[<<p[2], p[1]>>] < 4}
          [] OTHER          -> Ring(1, n \div 2) \cup Ring(n \div 2 + 1, n) \cup {p \in fwd : coin[<<p[2], p[1]>>] < 6}

RandEdges(n, salt) ==
    UNION {TLCEval(RandEdgesWith(n, RandShape(salt), 2 + (Rnd(salt, 0, 13) % 4), coin, rank)) :
              coin \in {TLCEval([p \in (1 .. n) \X (1 .. n) |-> Rnd(salt, p[1] * 16 + p[2], 9) % 12])},
              rank \in {TLCEval([i \in 1 .. n |-> Rnd(salt, i, 10) * 16 + i])}}

(* GEN_PLAN: a JSON file with a list of segments [n, lo, cnt, stride, only, nmin, nmax]; one
   generator process walks all its segments (a JVM start costs more than a
   thousand cases).                                                           *)
Plan == TLCGet(2)

InitX == TLCSet(2, JsonDeserialize(IOEnv.GEN_PLAN)) /\ TLCSet(3, <<>>) /\ st = [seg |-> 1, k |-> 0]

Flush ==
    /\ st.seg = Len(Plan) + 1
    /\ ndJsonSerialize(IOEnv.GEN_OUT, TLCGet(3))
    /\ PrintT(ToJson([emitted |-> Len(TLCGet(3))]))
    /\ st' = [seg |-> st.seg + 1, k |-> 0]

Walk ==
    /\ st.seg <= Len(Plan)
    /\ \E sg \in {Plan[st.seg]} :
         IF st.k >= sg.cnt
         THEN st' = [seg |-> st.seg + 1, k |-> 0]
         ELSE /\ IF sg.only = "rand"
                 THEN \E salt \in {H(GSALT * 211 + sg.lo + st.k)} :
                      \E n \in {RandN(sg, salt)} :
                      \E E \in {TLCEval(RandEdges(n, salt))} :
                         Emitted(TAG \o ToString(n) \o RandShape(salt) \o ToString(sg.lo + st.k), n, E, salt)
                 ELSE IF sg.only = "acyclic"
                 THEN \E m \in {(sg.lo + st.k * sg.stride) % Pow2(sg.n * (sg.n - 1))} :
                      \E E \in {TLCEval(EdgesOfOffDiag(sg.n, m))} :
                         ~HasCycle(1 .. sg.n, E) =>
                             Emitted(TAG \o ToString(sg.n) \o "a" \o ToString(m), sg.n, E, (GSALT + m) % HP)
                 ELSE \E m \in {(sg.lo + st.k * sg.stride) % Pow2(sg.n * sg.n)} :
                      \E E \in {TLCEval(EdgesOfMask(sg.n, m))} :
                         Emitted(TAG \o ToString(sg.n) \o "-" \o ToString(m), sg.n, E, (GSALT + m) % HP)
              /\ st' = [st EXCEPT !.k = st.k + 1]

NextX == Walk \/ Flush

=============================================================================
