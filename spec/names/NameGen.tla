------------------------------ MODULE NameGen ------------------------------
(***************************************************************************)
(* Identifier-shape catalogue for C07 ("every accepted module yields a     *)
(* header that compiles": all identifier shapes).                          *)
(*                                                                         *)
(* The generated header derives C++ identifiers from the names a module    *)
(* declares: a structure Foo yields GenericFooView, FooView, FooWriter,    *)
(* MakeFooView, a namespace Foo for its nested types; a field x yields the *)
(* members x() and has_x(); the classes have members of their own          *)
(* (backing_, Ok, Equals, ...).  A module is built by three actions        *)
(* (choose the names of two structures, of up to two fields of the first,  *)
(* of an enum and its values); TLC enumerates every combination of the     *)
(* catalogue below exhaustively.  Every state with `sealed' is one module; *)
(* it is printed once as JSON.  Whether the compiler accepts the module is *)
(* observed, not predicted: C07 only demands that an ACCEPTED module's     *)
(* header compiles.                                                        *)
(***************************************************************************)
EXTENDS Integers, Sequences, TLC, Json

(* names adjacent to identifiers the back end generates or the run time uses *)
TypeNames == {"Foo", "FooView", "FooWriter", "GenericFooView", "MakeFooView", "Storage", "View", "Ok", "Read",
              "Equals", "ValueType", "EmbossReservedInternalIsGenericFooView", "Parameters", "Std", "Emboss", "Support",
              "EnumTraits", "Type1a", "A1B2", "Foo1Bar", "IntrinsicSizeInBytes"}
FieldNames == {"x", "has_x", "x_", "backing_", "ok", "is_complete", "size_in_bytes", "intrinsic_size_in_bytes",
               "max_size_in_bytes", "equals", "copy_from", "read", "write", "backing_storage", "view_", "parameters_initialized_",
               "emboss_reserved_local_value", "value", "storage", "std", "emboss", "support", "x1", "x_1y", "a_b_c",
               "update_from_text_stream", "write_to_text_stream", "is_aggregate", "size_is_known", "foo", "generic_foo_view"}
ValueNames == {"AA", "A1", "A_B", "OK", "EOF_", "NULL_VALUE", "K_FOO", "EMBOSS", "VALUE_1_2", "X_", "DOMAIN_", "TRUE_", "NAN_"}

CONSTANT MaxOdd         \* how many of the three name choices may leave their default at once

VARIABLES types, fields, values, phase, odd
vars == <<types, fields, values, phase, odd>>

(* the second structure is always Foo and the second field always x, so that FooView / has_x / ... sit next to
   the declarations whose generated identifiers they resemble *)
Init == types = <<>> /\ fields = <<>> /\ values = <<>> /\ phase = "types" /\ odd = 0

ChooseTypes ==
  /\ phase = "types"
  /\ \E a \in (TypeNames \cup {"Baz"}) \ {"Foo"} :
        /\ types' = <<a, "Foo">>
        /\ odd' = odd + (IF a = "Baz" THEN 0 ELSE 1)
  /\ phase' = "fields" /\ UNCHANGED <<fields, values>>

ChooseFields ==
  /\ phase = "fields"
  /\ \E f \in (FieldNames \cup {"y"}) \ {"x"} :
        /\ (f # "y" => odd < MaxOdd)
        /\ fields' = <<f, "x">>
        /\ odd' = odd + (IF f = "y" THEN 0 ELSE 1)
  /\ phase' = "values" /\ UNCHANGED <<types, values>>

ChooseValues ==
  /\ phase = "values"
  /\ \E v \in ValueNames \cup {"VV"} :
        /\ (v # "VV" => odd < MaxOdd)
        /\ values' = <<v>>
        /\ odd' = odd + (IF v = "VV" THEN 0 ELSE 1)
  /\ phase' = "sealed" /\ UNCHANGED <<types, fields>>

Module == [types |-> types, fields |-> fields, values |-> values]
Seal == phase = "sealed" /\ PrintT(ToJson(Module)) /\ phase' = "done" /\ UNCHANGED <<types, fields, values, odd>>

Next == ChooseTypes \/ ChooseFields \/ ChooseValues \/ Seal
Spec == Init /\ [][Next]_vars

(* every sealed module uses distinct type names and distinct field names (so a rejection by the compiler is
   never a mere duplicate) *)
Distinct == phase \in {"sealed", "done"} => types[1] # types[2] /\ fields[1] # fields[2] /\ odd <= MaxOdd
=============================================================================
