------------------------------ MODULE ConstGen ------------------------------
(***************************************************************************)
(* Compile-time constants for C07 ("the static constants it exposes equal  *)
(* the values the front end computed"): every value at and next to a power *)
(* of two where a C++ integer type ends (2^7, 2^8, 2^15, 2^16, 2^31, 2^32, *)
(* 2^63, 2^64), positive and negative, inside [-2^63, 2^64 - 1].  TLC      *)
(* computes the decimal numerals (BigInt) and prints them once; the        *)
(* harness declares each as `let c<i> = <numeral>`, as `let s<i> = c<i>    *)
(* +/- 1` where that stays in range, and as enum values.                   *)
(***************************************************************************)
EXTENDS Integers, Sequences, TLC, Json
B == INSTANCE BigInt

Exps == <<7, 8, 15, 16, 31, 32, 63, 64>>
Pow2(k) == B!Pow(B!FromInt(2), k)
Lo == B!Neg(Pow2(63))
Hi == B!Sub(Pow2(64), B!One)
InRange(x) == B!Le(Lo, x) /\ B!Le(x, Hi)

Around(x) == {B!Sub(x, B!One), x, B!Add(x, B!One)}
Candidates == UNION {Around(Pow2(Exps[i])) \cup Around(B!Neg(Pow2(Exps[i]))) : i \in 1..Len(Exps)} \cup Around(B!Zero)
Values == {x \in Candidates : InRange(x)}

Numeral(x) == [neg |-> x.neg, d |-> B!ToDecDigits(x)]

VARIABLE done
Init == done = FALSE
Next == ~done /\ PrintT(ToJson([consts |-> {Numeral(x) : x \in Values}])) /\ done' = TRUE
AllInRange == \A x \in Values : InRange(x)
=============================================================================
