------------------------------ MODULE LRCheck ------------------------------
(***************************************************************************)
(* C08, design level.  For each case (a grammar G together with the table  *)
(* set the REAL lr1.Grammar(start, productions).parser() produced for it   *)
(* and the conflicts it reported) TLC explores the shift-reduce machine    *)
(* LRMachine over ALL token strings up to the case's length bound and      *)
(* checks, at every state of every parse, what C08 states:                 *)
(*                                                                         *)
(*   the parser either reports conflicts, or                               *)
(*     AcceptIffDerives       accepts exactly the strings G derives,       *)
(*     TreeIsDerivation       the tree is a derivation of the input,       *)
(*     ErrorAtFirstNonViable  the error is at the first token that no      *)
(*                            sentence can continue with,                  *)
(*     ConsumedPrefixViable   (the step-wise form of the latter: nothing   *)
(*                            is ever shifted that no sentence starts      *)
(*                            with);                                       *)
(*   AmbiguousImpliesConflicts  an ambiguous G is never conflict-free.     *)
(*                                                                         *)
(* "Derives", "viable", "derivation tree", "ambiguous" come from CFG.tla   *)
(* (Earley recognizer etc.), which knows nothing about LR.                 *)
(***************************************************************************)
EXTENDS LRMachine, CFG, TLC, Json, IOUtils

Cases    == JsonDeserialize(IOEnv.CASES_FILE)
NumCases == Len(Cases)

CaseTable(i)  == Cases[i].tables
CaseInputs(i) == StringsUpTo(ToSet(Cases[i].terms), Cases[i].n)
CaseFuel(i)   == Cases[i].fuel

FullG == [i \in 1..NumCases |-> Full(Cases[i].g)]
RedG  == [i \in 1..NumCases |-> Reduced(Cases[i].g)]
AmbG  == [i \in 1..NumCases |->
             IF Cases[i].conflicts = <<>> /\ Cases[i].namb >= 0
             THEN \E u \in StringsUpTo(ToSet(Cases[i].terms), Cases[i].namb) :
                     DerivesP(FullG[i], u) /\ AmbiguousSentence(Cases[i].g, u)
             ELSE FALSE]

ConflictFree == Cases[gi].conflicts = <<>>

Init == MInit
Next == MNext

-----------------------------------------------------------------------------
AcceptIffDerives ==
    ConflictFree =>
        /\ cfg.st = "acc" => DerivesP(FullG[gi], input)
        /\ cfg.st = "err" => ~DerivesP(FullG[gi], input)

TreeIsDerivation ==
    (ConflictFree /\ cfg.st = "acc") => ValidTree(Cases[gi].g, cfg.out, input)

ErrorAtFirstNonViable ==
    (ConflictFree /\ cfg.st = "err") => cfg.out.index = FirstNonViableP(RedG[gi], input)

ConsumedPrefixViable ==
    (ConflictFree /\ cfg.st = "run") => ViablePrefixP(RedG[gi], SubSeq(input, 1, cfg.cur))

AmbiguousImpliesConflicts == ~AmbG[gi]

\* Textbook LR(1) grammars of the catalogue must come out conflict-free (otherwise a generator
\* that always reported conflicts would satisfy everything above vacuously).
ExpectedConflictFree == Cases[gi].expect = "conflict-free" => ConflictFree

\* Every parse by a conflict-free table set ends (it neither loops nor runs out of the move budget).
Terminates == ConflictFree => ~OutOfFuel

\* Not a clause of the property (the docstring defines `expected` by the table, which
\* LRTables!ExpectedAt transcribes); kept as an invariant of the design for productive grammars:
\* the expected set is exactly the set of terminals that keep the consumed prefix viable.
ExpectedAreContinuations ==
    (ConflictFree /\ cfg.st = "err" /\ AllProductive(Cases[gi].g)) =>
        cfg.out.expected =
            ContinuationsFromSet(RedG[gi], EarleySets(RedG[gi], SubSeq(input, 1, cfg.cur))[cfg.cur + 1])
=============================================================================
