------------------------------ MODULE GrammarEq ------------------------------
(***************************************************************************)
(* C09, second half: "... and that grammar is the one published in the     *)
(* grammar reference."                                                     *)
(*                                                                         *)
(* F is a record of facts the harness read off the real objects and the    *)
(* real document (harness/c09.py: gather_facts); every comparison is made  *)
(* here.  Productions are <<lhs, rhs>> pairs; tables of token patterns are *)
(* sequences of <<pattern, symbol>> (order matters: ties go to the earlier *)
(* pattern).                                                               *)
(***************************************************************************)
EXTENDS Naturals, Sequences, FiniteSets, TLC, Json, IOUtils

F == JsonDeserialize(IOEnv.FACTS_FILE)

ToSet(s) == {s[i] : i \in DOMAIN s}

StartPrime == "S'"      \* lr1.START_PRIME: the implicit root S' -> start

IRProds     == ToSet(F.ir_prods)
DocProds    == ToSet(F.doc_prods)
ShippedMod  == ToSet(F.cached_module_prods)
ShippedExpr == ToSet(F.cached_expr_prods)
WantMod     == IRProds \cup {<<StartPrime, <<F.ir_start>>>>}
WantExpr    == IRProds \cup {<<StartPrime, <<F.ir_expr_start>>>>}

\* The shipped module parser was generated for exactly the grammar in the source.
ShippedModuleGrammarIsSourceGrammar == ShippedMod = WantMod
ShippedExpressionGrammarIsSourceGrammar == ShippedExpr = WantExpr

\* The grammar in the source is the one doc/grammar.md publishes.
SourceGrammarIsDocumentedGrammar == IRProds = DocProds

\* The tokenizer's pattern table is the one doc/grammar.md publishes, in the same order.
TokenTableIsDocumented == F.doc_tokens = F.tokenizer_tokens

\* Informational only (not a clause of the property): terminals of the grammar that are neither
\* in the documented token table nor one of the three symbols the document says are "generated
\* using separate logic" are listed in Diffs.
Nonterminals == {pr[1] : pr \in IRProds}
GrammarTerminals == UNION {ToSet(pr[2]) : pr \in IRProds} \ Nonterminals
DocTokenSymbols == {F.doc_tokens[i][2] : i \in DOMAIN F.doc_tokens} \cup {"Indent", "Dedent", "\"\\n\""}

\* What embossc loads (parser.module_parser()) IS the shipped table set, unmodified, and the
\* loader saw no production mismatch (otherwise it silently regenerates at every start).
LoadedModuleParserIsShipped ==
    /\ F.loaded_module_digest = F.cached_module_digest
    /\ F.loaded_module_mismatch = <<<<>>, <<>>>>
LoadedExpressionParserIsShipped ==
    /\ F.loaded_expr_digest = F.cached_expr_digest
    /\ F.loaded_expr_mismatch = <<<<>>, <<>>>>

Diffs == [
    shipped_module_minus_source |-> ShippedMod \ WantMod,
    source_minus_shipped_module |-> WantMod \ ShippedMod,
    shipped_expr_minus_source   |-> ShippedExpr \ WantExpr,
    source_minus_shipped_expr   |-> WantExpr \ ShippedExpr,
    source_minus_doc            |-> IRProds \ DocProds,
    doc_minus_source            |-> DocProds \ IRProds,
    token_rows_differing        |-> {i \in 1..(IF Len(F.doc_tokens) < Len(F.tokenizer_tokens)
                                               THEN Len(F.tokenizer_tokens) ELSE Len(F.doc_tokens)) :
                                        \/ i > Len(F.doc_tokens) \/ i > Len(F.tokenizer_tokens)
                                        \/ F.doc_tokens[i] # F.tokenizer_tokens[i]},
    undocumented_terminals      |-> GrammarTerminals \ DocTokenSymbols,
    n_source |-> Cardinality(IRProds), n_doc |-> Cardinality(DocProds),
    n_shipped_module |-> Cardinality(ShippedMod), n_token_rows |-> Len(F.doc_tokens) ]

\* One step per clause, so that with TLC -continue every false clause is reported by name
\* (TLC reports at most one violated invariant per state).
VARIABLE step
Init == step = 0 /\ PrintT(ToJson(Diffs))
Next == step < 6 /\ step' = step + 1

Inv_ShippedModuleGrammarIsSourceGrammar     == step = 1 => ShippedModuleGrammarIsSourceGrammar
Inv_ShippedExpressionGrammarIsSourceGrammar == step = 2 => ShippedExpressionGrammarIsSourceGrammar
Inv_SourceGrammarIsDocumentedGrammar        == step = 3 => SourceGrammarIsDocumentedGrammar
Inv_TokenTableIsDocumented                  == step = 4 => TokenTableIsDocumented
Inv_LoadedModuleParserIsShipped             == step = 5 => LoadedModuleParserIsShipped
Inv_LoadedExpressionParserIsShipped         == step = 6 => LoadedExpressionParserIsShipped
=============================================================================
