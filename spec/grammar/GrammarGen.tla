------------------------------ MODULE GrammarGen ------------------------------
(***************************************************************************)
(* Generator of small context-free grammars for C08.                       *)
(*                                                                         *)
(* The universe is every production lhs -> rhs with lhs a nonterminal and  *)
(* rhs a string of length <= MaxRhs over nonterminals and terminals (the   *)
(* empty right-hand side included).  A state is a set of at most MaxProds  *)
(* productions, built by adding productions in increasing universe order   *)
(* so that every set is reached exactly once.  Every state that gives the  *)
(* start symbol (the first nonterminal) a production is emitted as one     *)
(* grammar: exhaustive model checking of this module enumerates ALL such   *)
(* grammars; -simulate samples them (Ordered = FALSE then lets a behaviour *)
(* add productions in any order, which makes the sample uniform over       *)
(* sequences rather than biased to low universe indices).                  *)
(*                                                                         *)
(* Nothing about LR-ness, ambiguity, emptiness... is filtered: useless and *)
(* degenerate grammars are legitimate inputs of lr1.Grammar.               *)
(***************************************************************************)
EXTENDS Naturals, Sequences, FiniteSets, SequencesExt, TLC, Json

CONSTANTS NTs,        \* sequence of nonterminal names, the first is the start symbol
          Ts,         \* sequence of terminal names
          MaxRhs, MaxProds, MinProds, Ordered

Syms     == ToSet(NTs) \cup ToSet(Ts)
RhsSet   == UNION {[1..n -> Syms] : n \in 0..MaxRhs}
Universe == SetToSeq(ToSet(NTs) \X RhsSet)      \* fixed (deterministic) enumeration
NU       == Len(Universe)
Start    == NTs[1]

VARIABLES chosen,       \* sequence of universe indices
          emitted       \* the current set has been emitted (or is not a grammar to emit)
vars == <<chosen, emitted>>

GrammarOf(ch) == [start |-> Start, prods |-> [k \in 1..Len(ch) |-> <<Universe[ch[k]][1], Universe[ch[k]][2]>>]]
HasStart(ch)  == \E k \in 1..Len(ch) : Universe[ch[k]][1] = Start
Emittable(ch) == HasStart(ch) /\ Len(ch) >= MinProds

Init == chosen = <<>> /\ emitted = TRUE

\* (The grammar is printed from the state that was actually reached, not inside Add: TLC evaluates
\* Add for every candidate successor.)
Add == /\ emitted
       /\ Len(chosen) < MaxProds
       /\ IF Ordered
          THEN \E j \in 1..NU :
                 /\ (IF chosen = <<>> THEN TRUE ELSE j > chosen[Len(chosen)])
                 /\ chosen' = Append(chosen, j)
          ELSE \* sampling mode: one uniformly drawn unused production (TLC's RandomElement), instead of
               \* building all NU successors just to keep one
               chosen' = Append(chosen, RandomElement((1..NU) \ {chosen[k] : k \in 1..Len(chosen)}))
       /\ emitted' = ~Emittable(chosen')

Emit == /\ ~emitted
        /\ PrintT(ToJson(GrammarOf(chosen)))
        /\ emitted' = TRUE
        /\ UNCHANGED chosen

Next == Add \/ Emit

\* Design-level sanity of the generator itself (checked by the MC configuration):
\* no production is repeated, and in ordered mode each set has exactly one representation.
NoRepeats == \A a, b \in 1..Len(chosen) : a # b => chosen[a] # chosen[b]
Increasing == Ordered => \A a \in 1..(Len(chosen) - 1) : chosen[a] < chosen[a + 1]
WithinBounds == Len(chosen) <= MaxProds /\ \A k \in 1..Len(chosen) : Len(Universe[chosen[k]][2]) <= MaxRhs

\* constant values for the configurations (cfg files cannot write sequences of strings inline)
NT2 == <<"S", "A">>
NT3 == <<"S", "A", "B">>
T2  == <<"a", "b">>
T3  == <<"a", "b", "c">>
=============================================================================
