------------------------------- MODULE IdiomGen -------------------------------
(***************************************************************************)
(* Structured generator of small grammars for C08: the start production is *)
(* a concatenation  S -> X1 ... Xk  (k <= MaxParts) of IDIOM instances,    *)
(* each with a nonterminal of its own:                                     *)
(*    tok    the terminal itself                                           *)
(*    wrap   N -> t                      (a nonterminal in front of what follows)      *)
(*    opt    N -> t | <empty>                                              *)
(*    ll1    N -> N t | t                left-recursive list, non-empty    *)
(*    ll0    N -> N t | <empty>          left-recursive list, nullable     *)
(*    rl1    N -> t N | t                right-recursive list, non-empty   *)
(*    rl0    N -> t N | <empty>          right-recursive list, nullable    *)
(* These are the shapes whose interplay (nullability x recursion x what    *)
(* may follow) an LR(1) generator's FIRST / closure / lookahead code must  *)
(* get right; uniformly random production sets almost never contain them   *)
(* in combination.  Part i uses terminal Ts[i] or (SameTerminals) Ts[1],   *)
(* so that both conflict-free and conflicting / ambiguous combinations     *)
(* occur.  TLC enumerates every combination exhaustively; each complete    *)
(* state is one grammar, printed once.                                     *)
(***************************************************************************)
EXTENDS Naturals, Sequences, TLC, Json

CONSTANTS MaxParts, SameTerminals

Ts == <<"a", "b", "c">>
Idioms == {"tok", "wrap", "opt", "ll1", "ll0", "rl1", "rl0"}

VARIABLES parts,     \* sequence of [idiom, t]
          done
vars == <<parts, done>>

Init == parts = <<>> /\ done = FALSE

AddPart ==
  /\ ~done /\ Len(parts) < MaxParts
  /\ \E id \in Idioms, t \in {Ts[Len(parts) + 1]} \cup (IF SameTerminals THEN {Ts[1]} ELSE {}) :
        parts' = Append(parts, [idiom |-> id, t |-> t])
  /\ done' = FALSE

NT(i) == "N" \o ToString(i)
Sym(i) == IF parts[i].idiom = "tok" THEN parts[i].t ELSE NT(i)
ProdsOf(i) ==
  LET t == parts[i].t  n == NT(i) IN
  CASE parts[i].idiom = "tok"  -> <<>>
    [] parts[i].idiom = "wrap" -> << <<n, <<t>>>> >>
    [] parts[i].idiom = "opt"  -> << <<n, <<t>>>>, <<n, <<>>>> >>
    [] parts[i].idiom = "ll1"  -> << <<n, <<n, t>>>>, <<n, <<t>>>> >>
    [] parts[i].idiom = "ll0"  -> << <<n, <<n, t>>>>, <<n, <<>>>> >>
    [] parts[i].idiom = "rl1"  -> << <<n, <<t, n>>>>, <<n, <<t>>>> >>
    [] parts[i].idiom = "rl0"  -> << <<n, <<t, n>>>>, <<n, <<>>>> >>

RECURSIVE AllProds(_)
AllProds(i) == IF i > Len(parts) THEN <<>> ELSE ProdsOf(i) \o AllProds(i + 1)

Grammar == [start |-> "S",
            prods |-> << <<"S", [i \in 1..Len(parts) |-> Sym(i)]>> >> \o AllProds(1),
            shape |-> [i \in 1..Len(parts) |-> parts[i].idiom \o ":" \o parts[i].t]]

Emit == /\ ~done /\ Len(parts) >= 1
        /\ PrintT(ToJson(Grammar))
        /\ done' = TRUE /\ UNCHANGED parts

\* after emitting, the same prefix may still be extended
Continue == done /\ Len(parts) < MaxParts /\ done' = FALSE /\ UNCHANGED parts

Next == AddPart \/ Emit \/ Continue

Bounded == Len(parts) <= MaxParts
=============================================================================
