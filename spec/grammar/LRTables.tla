------------------------------ MODULE LRTables ------------------------------
(***************************************************************************)
(* What an LR parse table set *means*, as pure operators over a table      *)
(* value T (exported from a real lr1.Parser by harness/grammar_tables.py): *)
(*                                                                         *)
(*   T.prods   : sequence of productions <<lhs, rhs>>                      *)
(*   T.states  : sequence of rows; state number s is T.states[s+1]         *)
(*      row.a  : [terminal -> [k |-> kind, v |-> value]]  explicit ACTION  *)
(*      row.g  : [nonterminal -> state]                   GOTO             *)
(*      row.d  : <<>> or <<code>>      default error code of the state     *)
(*   kinds: "s" shift to state v; "r" reduce by T.prods[v]; "a" accept;    *)
(*          "e" error with code v (<<>> = no code, <<c>> = code c)         *)
(*                                                                         *)
(* Source: the shift-reduce algorithm of ALSU pp. 236-237 that lr1.py's    *)
(* docstrings cite, plus the Parser docstring: a missing ACTION entry is   *)
(* an error whose code is the state's default error, if any.               *)
(***************************************************************************)
EXTENDS Naturals, Sequences, FiniteSets

EOI == "$"      \* the implicit end-of-input terminal (lr1.END_OF_INPUT)

NStates(T)     == Len(T.states)
Row(T, s)      == T.states[s + 1]
ActSyms(T, s)  == DOMAIN Row(T, s).a
GotoSyms(T, s) == DOMAIN Row(T, s).g

ImplicitError(T, s) == [k |-> "e", v |-> Row(T, s).d]

\* ACTION[s, x] with the implicit error entries made explicit.
ActionOf(T, s, x) ==
    IF x \in ActSyms(T, s) THEN Row(T, s).a[x] ELSE ImplicitError(T, s)

HasGoto(T, s, X) == X \in GotoSyms(T, s)
GotoOf(T, s, X)  == Row(T, s).g[X]

\* "expected": the terminals that have a non-Error action in the state (Parser docstring).
ExpectedAt(T, s) == {x \in ActSyms(T, s) : Row(T, s).a[x].k # "e"}

Prod(T, n) == T.prods[n]
ProdSet(T) == {T.prods[i] : i \in 1..Len(T.prods)}

(***************************************************************************)
(* One move of the driver on input w (a sequence of terminal symbols).     *)
(* A configuration is                                                      *)
(*   [stack |-> sequence of [s |-> state, t |-> tree],                     *)
(*    cur   |-> number of tokens consumed,                                 *)
(*    st    |-> "run" | "acc" | "err" | "stuck",                           *)
(*    out   |-> result tree (acc) / error report (err) / <<>>]             *)
(* Trees: leaf [t |-> symbol, i |-> index of the token in w, from 0];      *)
(*        node [p |-> <<lhs, rhs>>, c |-> sequence of child trees].        *)
(***************************************************************************)
NoTree == [t |-> "", i |-> 0]

InitCfg == [stack |-> <<[s |-> 0, t |-> NoTree]>>, cur |-> 0, st |-> "run", out |-> <<>>]

Lookahead(w, c) == IF c.cur < Len(w) THEN w[c.cur + 1] ELSE EOI
TopState(c)     == c.stack[Len(c.stack)].s

StepCfg(T, w, c) ==
    LET s   == TopState(c)
        x   == Lookahead(w, c)
        act == ActionOf(T, s, x)
    IN  CASE act.k = "s" ->
               [c EXCEPT !.stack = Append(@, [s |-> act.v, t |-> [t |-> x, i |-> c.cur]]),
                         !.cur = @ + 1]
          [] act.k = "r" ->
               LET p    == Prod(T, act.v)
                   n    == Len(p[2])
                   m    == Len(c.stack)
               IN  IF n >= m THEN [c EXCEPT !.st = "stuck"]
                   ELSE LET base == SubSeq(c.stack, 1, m - n)
                            kids == [j \in 1..n |-> c.stack[m - n + j].t]
                            b    == base[m - n].s
                        IN  IF ~HasGoto(T, b, p[1]) THEN [c EXCEPT !.st = "stuck"]
                            ELSE [c EXCEPT !.stack =
                                     Append(base, [s |-> GotoOf(T, b, p[1]),
                                                   t |-> [p |-> p, c |-> kids]])]
          [] act.k = "a" ->
               [c EXCEPT !.st = "acc", !.out = c.stack[Len(c.stack)].t]
          [] OTHER ->
               [c EXCEPT !.st = "err",
                         !.out = [code |-> act.v, index |-> c.cur, token |-> x,
                                  expected |-> ExpectedAt(T, s)]]

\* The whole run, for callers that want the verdict of the table set on w as a value.
\* fuel bounds the number of moves (a cyclic table set never terminates otherwise).
RECURSIVE RunFrom(_, _, _, _)
RunFrom(T, w, c, fuel) ==
    IF c.st # "run" THEN c
    ELSE IF fuel = 0 THEN [c EXCEPT !.st = "stuck"]
    ELSE RunFrom(T, w, StepCfg(T, w, c), fuel - 1)

Run(T, w, fuel) == RunFrom(T, w, InitCfg, fuel)
=============================================================================
