------------------------------ MODULE LRMachine ------------------------------
(***************************************************************************)
(* The shift-reduce driver as a state machine (ALSU pp. 236-237, the       *)
(* algorithm lr1.Parser.parse says it implements).                         *)
(*                                                                         *)
(* The machine is parameterised by a family of table sets: case number gi  *)
(* selects TableOf(gi) (ACTION / GOTO / default errors exported from a     *)
(* real lr1.Parser, see LRTables) and the inputs InputsOf(gi) it may be    *)
(* started on.  One behaviour = one parse.                                 *)
(*                                                                         *)
(*   stack : cfg.stack, sequence of [s |-> state, t |-> tree]              *)
(*   cursor: cfg.cur, number of tokens consumed                            *)
(*   actions Shift, Reduce, Accept, Error (one per kind of table entry)    *)
(***************************************************************************)
EXTENDS LRTables

CONSTANTS NCases, TableOf(_), InputsOf(_), FuelOf(_)

VARIABLES gi, input, cfg, steps      \* steps: number of moves made (a table set with conflicts may
mvars == <<gi, input, cfg, steps>>   \* loop; no parse is followed beyond FuelOf(gi) moves)

MInit == /\ gi \in 1..NCases
         /\ input = <<>>
         /\ cfg = [InitCfg EXCEPT !.st = "new"]
         /\ steps = 0

\* Pick the input of this parse.
Start == /\ cfg.st = "new"
         /\ \E w \in InputsOf(gi) : input' = w
         /\ cfg' = InitCfg
         /\ UNCHANGED <<gi, steps>>

CurAction == ActionOf(TableOf(gi), TopState(cfg), Lookahead(input, cfg))

Ready(kind) == /\ cfg.st = "run"
               /\ steps < FuelOf(gi)
               /\ CurAction.k = kind

Step == /\ steps' = steps + 1
        /\ cfg' = StepCfg(TableOf(gi), input, cfg)
        /\ UNCHANGED <<gi, input>>

\* push the lookahead token and the state the table names; advance the cursor
Shift  == /\ Ready("s")
          /\ Step
\* pop |rhs| entries, push the GOTO state of the uncovered state with the new tree
Reduce == /\ Ready("r")
          /\ Step
\* done: the tree on top of the stack is the result
Accept == /\ Ready("a")
          /\ Step
\* done: report code, position, token and the expected set
Error  == /\ Ready("e")
          /\ Step

MNext == Start \/ Shift \/ Reduce \/ Accept \/ Error

-----------------------------------------------------------------------------
(* Properties of the machine alone (no grammar needed).                    *)

IsLeafM(t) == "t" \in DOMAIN t

RECURSIVE LeavesOf(_)
LeavesOf(t) ==
    IF IsLeafM(t) THEN <<t>>
    ELSE LET RECURSIVE cat(_)
             cat(j) == IF j > Len(t.c) THEN <<>> ELSE LeavesOf(t.c[j]) \o cat(j + 1)
         IN  cat(1)

RECURSIVE StackLeaves(_, _)
StackLeaves(st, j) == IF j > Len(st) THEN <<>> ELSE LeavesOf(st[j].t) \o StackLeaves(st, j + 1)

\* The trees on the stack, left to right, spell exactly the consumed input.
StackSpellsConsumedInput ==
    StackLeaves(cfg.stack, 2) = [j \in 1..cfg.cur |-> [t |-> input[j], i |-> j - 1]]

Shape == /\ cfg.cur <= Len(input)
         /\ Len(cfg.stack) >= 1
         /\ cfg.stack[1].s = 0
         /\ \A j \in 1..Len(cfg.stack) : cfg.stack[j].s < NStates(TableOf(gi))

\* "Accepted incompletely-reduced input" / "Accepted parse before end of input" never happen.
AcceptOnlyAtEndWithOneTree ==
    cfg.st = "acc" => cfg.cur = Len(input) /\ Len(cfg.stack) = 2

\* The parse ends within the allotted number of moves.
OutOfFuel == cfg.st = "run" /\ steps = FuelOf(gi)

\* A reduce always finds enough stack and a GOTO entry.
NeverStuck == cfg.st # "stuck"

\* An error is reported at the token the machine is looking at, which is never past the end marker.
ErrorAtLookahead ==
    cfg.st = "err" => cfg.out.index = cfg.cur /\ cfg.out.token = Lookahead(input, cfg)
=============================================================================
