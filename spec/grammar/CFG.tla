--------------------------------- MODULE CFG ---------------------------------
(***************************************************************************)
(* Context-free grammars and what "the language of a grammar" means,       *)
(* independently of any LR construction.                                   *)
(*                                                                         *)
(* A grammar is a record [start |-> symbol, prods |-> sequence of          *)
(* <<lhs, rhs>>] (rhs a sequence of symbols, possibly empty).              *)
(* Nonterminals are the symbols that occur as a left-hand side, every      *)
(* other symbol is a terminal (this is the convention doc/grammar.md and   *)
(* lr1.Grammar's docstring state).                                         *)
(*                                                                         *)
(* Derives(G, w)       : w is a sentence of G.  Decided by an Earley       *)
(*                       recognizer (item sets, predict/scan/complete to   *)
(*                       a fixed point), which handles every CFG incl.     *)
(*                       ambiguous, cyclic and nullable ones.              *)
(* ViablePrefix(G, u)  : some sentence of G starts with u.                 *)
(* FirstNonViable(G,w) : index (from 0) of the first token of w$ that no   *)
(*                       sentence can continue with (Len(w) = the end      *)
(*                       marker), or -1 if w is a sentence.                *)
(* Continuations(G, u) : the terminals (and "$") that keep u viable.       *)
(* ValidTree(G, t, w)  : t is a derivation tree of w from G.start.         *)
(* Ambiguous(G, N)     : some string of length <= N has two derivation     *)
(*                       trees from the start symbol.                      *)
(***************************************************************************)
EXTENDS Naturals, Integers, Sequences, FiniteSets

EndMarker == "$"

ToSet(s) == {s[i] : i \in DOMAIN s}

Lhs(pr) == pr[1]
Rhs(pr) == pr[2]

ProdSetOf(G)    == ToSet(G.prods)
NonterminalsOf(G) == {Lhs(G.prods[i]) : i \in DOMAIN G.prods}
SymbolsOf(G)    == {G.start} \cup NonterminalsOf(G) \cup UNION {ToSet(Rhs(G.prods[i])) : i \in DOMAIN G.prods}
TerminalsOf(G)  == SymbolsOf(G) \ NonterminalsOf(G)

-----------------------------------------------------------------------------
(* Productive nonterminals (derive at least one terminal string) and the   *)
(* grammar restricted to them: it has the same language, and in it every   *)
(* partial derivation can be completed, so "the Earley set is non-empty"   *)
(* coincides with "the prefix is viable".                                  *)

RECURSIVE ProductiveFix(_, _)
ProductiveFix(G, P) ==
    LET NT == NonterminalsOf(G)
        P2 == P \cup {Lhs(G.prods[i]) : i \in {i \in DOMAIN G.prods :
                        \A j \in DOMAIN Rhs(G.prods[i]) :
                            Rhs(G.prods[i])[j] \in P \/ Rhs(G.prods[i])[j] \notin NT}}
    IN  IF P2 = P THEN P ELSE ProductiveFix(G, P2)

Productive(G) == ProductiveFix(G, {})
AllProductive(G) == Productive(G) = NonterminalsOf(G)

\* Left-corner closure: lc[X] = nonterminals Y with X =>* Y ... by expanding first symbols only.
RECURSIVE LeftCornerFix(_, _)
LeftCornerFix(NT, R) ==
    LET R2 == [X \in NT |-> R[X] \cup UNION {R[Y] : Y \in R[X]}]
    IN  IF R2 = R THEN R ELSE LeftCornerFix(NT, R2)

\* Prepared grammar: what the recognizer needs, computed once.
\*   nts : nonterminals of the ORIGINAL grammar (plus the start symbol);
\*   by[X]: numbers of the kept productions of X;
\*   pc[X]: numbers of the kept productions of X and of every left corner of X (everything that
\*          predicting X will eventually predict through first symbols; prediction after a
\*          nullable first symbol is found by the closure loop itself).
Prepare(G, keep) ==
    LET NT  == NonterminalsOf(G) \cup {G.start}
        by  == [X \in NT |-> {i \in keep : Lhs(G.prods[i]) = X}]
        lc0 == [X \in NT |-> {X} \cup ({Rhs(G.prods[i])[1] : i \in {i \in by[X] : Rhs(G.prods[i]) # <<>>}} \cap NT)]
        lc  == LeftCornerFix(NT, lc0)
    IN  [start |-> G.start, prods |-> G.prods, nts |-> NT, by |-> by,
         pc |-> [X \in NT |-> UNION {by[Y] : Y \in lc[X]}]]

Full(G) == Prepare(G, DOMAIN G.prods)

Reduced(G) ==
    LET P  == Productive(G)
        NT == NonterminalsOf(G)
    IN  Prepare(G, {i \in DOMAIN G.prods :
                      \A j \in DOMAIN Rhs(G.prods[i]) :
                          Rhs(G.prods[i])[j] \in P \/ Rhs(G.prods[i])[j] \notin NT})

-----------------------------------------------------------------------------
(* Earley recognizer over a prepared grammar PG.  An item is               *)
(* <<production number, dot, origin>>.                                     *)

ItemRhs(PG, it)  == Rhs(PG.prods[it[1]])
ItemDone(PG, it) == it[2] = Len(ItemRhs(PG, it))
ItemNext(PG, it) == ItemRhs(PG, it)[it[2] + 1]       \* only when ~ItemDone
ItemLhs(PG, it)  == Lhs(PG.prods[it[1]])
Advance(it)      == <<it[1], it[2] + 1, it[3]>>

(* Closure of an item set at position k under predict and complete, as a   *)
(* work-list fixed point.  prev = <<S_0, ..., S_{k-1}>>; I = all items so  *)
(* far; F \subseteq I = items not yet processed; O = the items of I with   *)
(* the dot not at the end; PX = nonterminals already predicted here; ND =  *)
(* nonterminals already completed with origin k (they derive the empty     *)
(* string here), so an item that starts waiting for one of them later is   *)
(* advanced at once.                                                       *)
RECURSIVE EarleyWork(_, _, _, _, _, _, _, _)
EarleyWork(PG, prev, k, I, F, O, PX, ND) ==
    IF F = {} THEN I
    ELSE
    LET openF == {it \in F : ~ItemDone(PG, it)}
        doneF == F \ openF
        want  == ({ItemNext(PG, it) : it \in openF} \cap PG.nts) \ PX
        pred  == UNION {{<<q, 0, k>> : q \in PG.pc[X]} : X \in want}
        O2    == O \cup openF
        ND2   == ND \cup {ItemLhs(PG, it) : it \in {it \in doneF : it[3] = k}}
        comp  == UNION {LET A   == ItemLhs(PG, it)
                            src == IF it[3] = k THEN O2
                                   ELSE {j \in prev[it[3] + 1] : ~ItemDone(PG, j)}
                        IN  {Advance(j) : j \in {j \in src : ItemNext(PG, j) = A}}
                        : it \in doneF}
        late  == {Advance(j) : j \in {j \in openF : ItemNext(PG, j) \in ND2}}
        new   == (pred \cup comp \cup late) \ I
    IN  EarleyWork(PG, prev, k, I \cup new, new, O2, PX \cup want, ND2)

EarleyClose(PG, prev, k, seed) == EarleyWork(PG, prev, k, seed, seed, {}, {}, {})

Scan(PG, S, x) == {Advance(it) : it \in {it \in S : ~ItemDone(PG, it) /\ ItemNext(PG, it) = x}}

RECURSIVE EarleyFrom(_, _, _)
EarleyFrom(PG, w, prev) ==
    LET k == Len(prev)
    IN  IF k > Len(w) THEN prev
        ELSE LET seed == Scan(PG, prev[k], w[k])
             IN  EarleyFrom(PG, w, Append(prev, IF seed = {} THEN {} ELSE EarleyClose(PG, prev, k, seed)))

\* <<S_0, ..., S_n>> for w of length n   (element k+1 is S_k)
EarleySets(PG, w) ==
    EarleyFrom(PG, w, <<EarleyClose(PG, <<>>, 0, {<<q, 0, 0>> : q \in PG.by[PG.start]})>>)

Complete(PG, S) == \E it \in S : it[3] = 0 /\ ItemDone(PG, it) /\ ItemLhs(PG, it) = PG.start

DerivesP(PG, w) == Complete(PG, EarleySets(PG, w)[Len(w) + 1])
Derives(G, w)   == DerivesP(Full(G), w)

\* The following take the REDUCED prepared grammar RG == Reduced(G).
ViablePrefixP(RG, u) == EarleySets(RG, u)[Len(u) + 1] # {}
ViablePrefix(G, u)   == ViablePrefixP(Reduced(G), u)

\* From the Earley sets of the whole string: first position whose token cannot continue.
FirstNonViableFromSets(RG, w, sets) ==
    IF sets[1] = {} THEN 0
    ELSE IF \E k \in 1..Len(w) : sets[k + 1] = {}
         THEN (CHOOSE k \in 1..Len(w) : sets[k + 1] = {} /\ \A j \in 1..(k - 1) : sets[j + 1] # {}) - 1
         ELSE IF Complete(RG, sets[Len(w) + 1]) THEN -1 ELSE Len(w)

FirstNonViableP(RG, w) == FirstNonViableFromSets(RG, w, EarleySets(RG, w))
FirstNonViable(G, w)   == FirstNonViableP(Reduced(G), w)

\* Terminals (and the end marker) that can follow u in some sentence, from u's last Earley set.
ContinuationsFromSet(RG, S) ==
    ({ItemNext(RG, it) : it \in {it \in S : ~ItemDone(RG, it)}} \ RG.nts)
        \cup (IF Complete(RG, S) THEN {EndMarker} ELSE {})

-----------------------------------------------------------------------------
(* Derivation trees.  Leaf: [t |-> terminal, i |-> position in w from 0];  *)
(* node: [p |-> <<lhs, rhs>>, c |-> sequence of subtrees].                 *)

IsLeaf(t)  == "t" \in DOMAIN t
RootSym(t) == IF IsLeaf(t) THEN t.t ELSE Lhs(t.p)

RECURSIVE Frontier(_)
Frontier(t) ==
    IF IsLeaf(t) THEN <<t>>
    ELSE LET RECURSIVE cat(_)
             cat(j) == IF j > Len(t.c) THEN <<>> ELSE Frontier(t.c[j]) \o cat(j + 1)
         IN  cat(1)

RECURSIVE NodesAreProductions(_, _)
NodesAreProductions(PS, t) ==
    \/ IsLeaf(t)
    \/ /\ t.p \in PS
       /\ Len(t.c) = Len(Rhs(t.p))
       /\ \A j \in 1..Len(t.c) : RootSym(t.c[j]) = Rhs(t.p)[j] /\ NodesAreProductions(PS, t.c[j])

ValidTree(G, t, w) ==
    /\ ~IsLeaf(t)
    /\ RootSym(t) = G.start
    /\ NodesAreProductions(ProdSetOf(G), t)
    /\ Frontier(t) = [j \in 1..Len(w) |-> [t |-> w[j], i |-> j - 1]]
    /\ \A j \in 1..Len(w) : w[j] \notin NonterminalsOf(G)

-----------------------------------------------------------------------------
(* Bounded ambiguity: number of derivation trees, saturating at 2, of      *)
(* every string of length <= N from every nonterminal, as the least fixed  *)
(* point of the production equations (cyclic derivations A =>+ A saturate  *)
(* to 2, as they should: they give infinitely many trees).                 *)

Sat(n) == IF n > 2 THEN 2 ELSE n

StringsUpTo(T, N) == UNION {[1..n -> T] : n \in 0..N}

\* ways for the symbols rhs[j..] to derive u, given tree counts cnt[X][v]
RECURSIVE Ways(_, _, _, _, _)
Ways(NT, cnt, rhs, j, u) ==
    IF j > Len(rhs) THEN (IF u = <<>> THEN 1 ELSE 0)
    ELSE LET X == rhs[j]
         IN  IF X \notin NT
             THEN (IF Len(u) >= 1 /\ u[1] = X THEN Ways(NT, cnt, rhs, j + 1, Tail(u)) ELSE 0)
             ELSE LET RECURSIVE sum(_)
                      sum(l) == IF l > Len(u) THEN 0
                                ELSE LET c == cnt[X][SubSeq(u, 1, l)]
                                     IN  Sat((IF c = 0 THEN 0
                                              ELSE c * Ways(NT, cnt, rhs, j + 1, SubSeq(u, l + 1, Len(u))))
                                             + sum(l + 1))
                  IN  sum(0)

RECURSIVE TreeCountFix(_, _, _, _)
TreeCountFix(G, NT, Strs, cnt) ==
    LET nxt == [X \in NT |-> [u \in Strs |->
                   LET RECURSIVE tot(_)
                       tot(i) == IF i > Len(G.prods) THEN 0
                                 ELSE Sat((IF Lhs(G.prods[i]) = X
                                           THEN Ways(NT, cnt, Rhs(G.prods[i]), 1, u) ELSE 0) + tot(i + 1))
                   IN  tot(1)]]
    IN  IF nxt = cnt THEN cnt ELSE TreeCountFix(G, NT, Strs, nxt)

TreeCounts(G, N) ==
    LET NT   == NonterminalsOf(G)
        Strs == StringsUpTo(TerminalsOf(G), N)
    IN  TreeCountFix(G, NT, Strs, [X \in NT |-> [u \in Strs |-> 0]])

Ambiguous(G, N) ==
    /\ G.start \in NonterminalsOf(G)
    /\ LET c == TreeCounts(G, N)[G.start] IN \E u \in DOMAIN c : c[u] >= 2
=============================================================================
