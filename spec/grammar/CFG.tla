--------------------------------- MODULE CFG ---------------------------------
(***************************************************************************)
(* Context-free grammars and what "the language of a grammar" means,       *)
(* independently of any LR construction.                                   *)
(*                                                                         *)
(* A grammar is a record [start |-> symbol, prods |-> sequence of          *)
(* <<lhs, rhs>>] (rhs a sequence of symbols, possibly empty).              *)
(* Nonterminals are the symbols that occur as a left-hand side, every      *)
(* other symbol is a terminal (this is the convention doc/grammar.md and   *)
(* lr1.Grammar's docstring state).                                         *)
(*                                                                         *)
(* Derives(G, w)       : w is a sentence of G.  Decided by an Earley       *)
(*                       recognizer (item sets, predict/scan/complete to   *)
(*                       a fixed point), which handles every CFG incl.     *)
(*                       ambiguous, cyclic and nullable ones.              *)
(* ViablePrefix(G, u)  : some sentence of G starts with u.                 *)
(* FirstNonViable(G,w) : index (from 0) of the first token of w$ that no   *)
(*                       sentence can continue with (Len(w) = the end      *)
(*                       marker), or -1 if w is a sentence.                *)
(* Continuations(G, u) : the terminals (and "$") that keep u viable.       *)
(* ValidTree(G, t, w)  : t is a derivation tree of w from G.start.         *)
(* TreeCount(G, w)     : number of derivation trees of w (0, 1, "2 or more")*)
(* Ambiguous(G, T, N)  : some string over T of length <= N has two         *)
(*                       derivation trees from the start symbol.           *)
(***************************************************************************)
EXTENDS Naturals, Integers, Sequences, FiniteSets

EndMarker == "$"

ToSet(s) == {s[i] : i \in DOMAIN s}

Lhs(pr) == pr[1]
Rhs(pr) == pr[2]

ProdSetOf(G)    == ToSet(G.prods)
NonterminalsOf(G) == {Lhs(G.prods[i]) : i \in DOMAIN G.prods}
SymbolsOf(G)    == {G.start} \cup NonterminalsOf(G) \cup UNION {ToSet(Rhs(G.prods[i])) : i \in DOMAIN G.prods}
TerminalsOf(G)  == SymbolsOf(G) \ NonterminalsOf(G)

-----------------------------------------------------------------------------
(* Productive nonterminals (derive at least one terminal string) and the   *)
(* grammar restricted to them: it has the same language, and in it every   *)
(* partial derivation can be completed, so "the Earley set is non-empty"   *)
(* coincides with "the prefix is viable".                                  *)

RECURSIVE ProductiveFix(_, _)
ProductiveFix(G, P) ==
    LET NT == NonterminalsOf(G)
        P2 == P \cup {Lhs(G.prods[i]) : i \in {i \in DOMAIN G.prods :
                        \A j \in DOMAIN Rhs(G.prods[i]) :
                            Rhs(G.prods[i])[j] \in P \/ Rhs(G.prods[i])[j] \notin NT}}
    IN  IF P2 = P THEN P ELSE ProductiveFix(G, P2)

Productive(G) == ProductiveFix(G, {})
AllProductive(G) == Productive(G) = NonterminalsOf(G)

\* Left-corner closure: lc[X] = nonterminals Y with X =>* Y ... by expanding first symbols only.
RECURSIVE LeftCornerFix(_, _)
LeftCornerFix(NT, R) ==
    LET R2 == [X \in NT |-> R[X] \cup UNION {R[Y] : Y \in R[X]}]
    IN  IF R2 = R THEN R ELSE LeftCornerFix(NT, R2)

\* Prepared grammar: what the recognizer needs, computed once.
\*   nts : nonterminals of the ORIGINAL grammar (plus the start symbol);
\*   by[X]: numbers of the kept productions of X;
\*   pc[X]: numbers of the kept productions of X and of every left corner of X (everything that
\*          predicting X will eventually predict through first symbols; prediction after a
\*          nullable first symbol is found by the closure loop itself).
Prepare(G, keep) ==
    LET NT  == NonterminalsOf(G) \cup {G.start}
        by  == [X \in NT |-> {i \in keep : Lhs(G.prods[i]) = X}]
        lc0 == [X \in NT |-> {X} \cup ({Rhs(G.prods[i])[1] : i \in {i \in by[X] : Rhs(G.prods[i]) # <<>>}} \cap NT)]
        lc  == LeftCornerFix(NT, lc0)
    IN  [start |-> G.start, prods |-> G.prods, nts |-> NT, by |-> by,
         pc |-> [X \in NT |-> UNION {by[Y] : Y \in lc[X]}]]

Full(G) == Prepare(G, DOMAIN G.prods)

Reduced(G) ==
    LET P  == Productive(G)
        NT == NonterminalsOf(G)
    IN  Prepare(G, {i \in DOMAIN G.prods :
                      \A j \in DOMAIN Rhs(G.prods[i]) :
                          Rhs(G.prods[i])[j] \in P \/ Rhs(G.prods[i])[j] \notin NT})

-----------------------------------------------------------------------------
(* Earley recognizer over a prepared grammar PG.  An item is               *)
(* <<production number, dot, origin>>.                                     *)

ItemRhs(PG, it)  == Rhs(PG.prods[it[1]])
ItemDone(PG, it) == it[2] = Len(ItemRhs(PG, it))
ItemNext(PG, it) == ItemRhs(PG, it)[it[2] + 1]       \* only when ~ItemDone
ItemLhs(PG, it)  == Lhs(PG.prods[it[1]])
Advance(it)      == <<it[1], it[2] + 1, it[3]>>

(* Closure of an item set at position k under predict and complete, as a   *)
(* work-list fixed point.  opens = <<O_0, ..., O_{k-1}>> where O_j is the   *)
(* part of S_j with the dot not at the end (all a later completion needs); *)
(* I = all items so far; F \subseteq I = items not yet processed; O = the   *)
(* items of I with the dot not at the end; PX = nonterminals already       *)
(* predicted here; ND = nonterminals already completed with origin k (they *)
(* derive the empty string here), so an item that starts waiting for one   *)
(* of them later is advanced at once.                                      *)
RECURSIVE EarleyWork(_, _, _, _, _, _, _, _)
EarleyWork(PG, opens, k, I, F, O, PX, ND) ==
    IF F = {} THEN I
    ELSE
    LET openF == {it \in F : ~ItemDone(PG, it)}
        doneF == F \ openF
        want  == ({ItemNext(PG, it) : it \in openF} \cap PG.nts) \ PX
        pred  == UNION {{<<q, 0, k>> : q \in PG.pc[X]} : X \in want}
        O2    == O \cup openF
        keys  == {<<it[3], ItemLhs(PG, it)>> : it \in doneF}       \* (origin, completed nonterminal)
        ND2   == ND \cup {ky[2] : ky \in {ky \in keys : ky[1] = k}}
        comp  == UNION {LET src == IF ky[1] = k THEN O2 ELSE opens[ky[1] + 1]
                        IN  {Advance(j) : j \in {j \in src : ItemNext(PG, j) = ky[2]}}
                        : ky \in keys}
        late  == {Advance(j) : j \in {j \in openF : ItemNext(PG, j) \in ND2}}
        new   == (pred \cup comp \cup late) \ I
    IN  EarleyWork(PG, opens, k, I \cup new, new, O2, PX \cup want, ND2)

EarleyClose(PG, opens, k, seed) == EarleyWork(PG, opens, k, seed, seed, {}, {}, {})

OpenPart(PG, S) == {it \in S : ~ItemDone(PG, it)}

Scan(PG, O, x) == {Advance(it) : it \in {it \in O : ItemNext(PG, it) = x}}

RECURSIVE EarleyFrom(_, _, _, _)
EarleyFrom(PG, w, sets, opens) ==
    LET k == Len(sets)
    IN  IF k > Len(w) THEN sets
        ELSE LET seed == Scan(PG, opens[k], w[k])
                 S    == IF seed = {} THEN {} ELSE EarleyClose(PG, opens, k, seed)
             IN  EarleyFrom(PG, w, Append(sets, S), Append(opens, OpenPart(PG, S)))

\* <<S_0, ..., S_n>> for w of length n   (element k+1 is S_k)
EarleySets(PG, w) ==
    LET S0 == EarleyClose(PG, <<>>, 0, {<<q, 0, 0>> : q \in PG.by[PG.start]})
    IN  EarleyFrom(PG, w, <<S0>>, <<OpenPart(PG, S0)>>)

Complete(PG, S) == \E it \in S : it[3] = 0 /\ ItemDone(PG, it) /\ ItemLhs(PG, it) = PG.start

DerivesP(PG, w) == Complete(PG, EarleySets(PG, w)[Len(w) + 1])
Derives(G, w)   == DerivesP(Full(G), w)

\* The following take the REDUCED prepared grammar RG == Reduced(G).
ViablePrefixP(RG, u) == EarleySets(RG, u)[Len(u) + 1] # {}
ViablePrefix(G, u)   == ViablePrefixP(Reduced(G), u)

\* From the Earley sets of the whole string: first position whose token cannot continue.
FirstNonViableFromSets(RG, w, sets) ==
    IF sets[1] = {} THEN 0
    ELSE IF \E k \in 1..Len(w) : sets[k + 1] = {}
         THEN (CHOOSE k \in 1..Len(w) : sets[k + 1] = {} /\ \A j \in 1..(k - 1) : sets[j + 1] # {}) - 1
         ELSE IF Complete(RG, sets[Len(w) + 1]) THEN -1 ELSE Len(w)

FirstNonViableP(RG, w) == FirstNonViableFromSets(RG, w, EarleySets(RG, w))
FirstNonViable(G, w)   == FirstNonViableP(Reduced(G), w)

\* Terminals (and the end marker) that can follow u in some sentence, from u's last Earley set.
ContinuationsFromSet(RG, S) ==
    ({ItemNext(RG, it) : it \in {it \in S : ~ItemDone(RG, it)}} \ RG.nts)
        \cup (IF Complete(RG, S) THEN {EndMarker} ELSE {})

-----------------------------------------------------------------------------
(* Derivation trees.  Leaf: [t |-> terminal, i |-> position in w from 0];  *)
(* node: [p |-> <<lhs, rhs>>, c |-> sequence of subtrees].                 *)

IsLeaf(t)  == "t" \in DOMAIN t
RootSym(t) == IF IsLeaf(t) THEN t.t ELSE Lhs(t.p)

RECURSIVE Frontier(_)
Frontier(t) ==
    IF IsLeaf(t) THEN <<t>>
    ELSE LET RECURSIVE cat(_)
             cat(j) == IF j > Len(t.c) THEN <<>> ELSE Frontier(t.c[j]) \o cat(j + 1)
         IN  cat(1)

RECURSIVE NodesAreProductions(_, _)
NodesAreProductions(PS, t) ==
    IF IsLeaf(t) THEN TRUE
    ELSE /\ t.p \in PS
         /\ Len(t.c) = Len(Rhs(t.p))
         /\ \A j \in 1..Len(t.c) : RootSym(t.c[j]) = Rhs(t.p)[j] /\ NodesAreProductions(PS, t.c[j])

ValidTree(G, t, w) ==
    /\ ~IsLeaf(t)
    /\ RootSym(t) = G.start
    /\ NodesAreProductions(ProdSetOf(G), t)
    /\ Frontier(t) = [j \in 1..Len(w) |-> [t |-> w[j], i |-> j - 1]]
    /\ \A j \in 1..Len(w) : w[j] \notin NonterminalsOf(G)

-----------------------------------------------------------------------------
(* Ambiguity.  TreeCount(G, w) is the number of derivation trees of w from *)
(* G.start, saturating at 2, computed as the least fixed point of the      *)
(* production equations over the spans of w: cnt[X][a][b] = number of      *)
(* trees with root X and frontier w[a+1..b].  Cyclic derivations A =>+ A   *)
(* saturate to 2, as they should (they give infinitely many trees).        *)
(* Ambiguous(G, T, N): some string over T of length <= N has two trees.    *)

Sat(n) == IF n > 2 THEN 2 ELSE n

StringsUpTo(T, N) == UNION {[1..n -> T] : n \in 0..N}

\* ways for the symbols rhs[j..] to derive w[a+1..b], given tree counts cnt
RECURSIVE SpanWays(_, _, _, _, _, _, _)
SpanWays(NT, cnt, rhs, j, w, a, b) ==
    IF j > Len(rhs) THEN (IF a = b THEN 1 ELSE 0)
    ELSE LET X == rhs[j]
         IN  IF X \notin NT
             THEN (IF a < b /\ w[a + 1] = X THEN SpanWays(NT, cnt, rhs, j + 1, w, a + 1, b) ELSE 0)
             ELSE LET RECURSIVE sum(_)
                      sum(m) == IF m > b THEN 0
                                ELSE LET c == cnt[X][a][m]
                                     IN  Sat((IF c = 0 THEN 0 ELSE c * SpanWays(NT, cnt, rhs, j + 1, w, m, b))
                                             + sum(m + 1))
                  IN  sum(a)

RECURSIVE TreeCountFix(_, _, _, _)
TreeCountFix(G, NT, w, cnt) ==
    LET n   == Len(w)
        nxt == [X \in NT |-> [a \in 0..n |-> [b \in 0..n |->
                   IF a > b THEN 0
                   ELSE LET RECURSIVE tot(_)
                            tot(i) == IF i > Len(G.prods) THEN 0
                                      ELSE Sat((IF Lhs(G.prods[i]) = X
                                                THEN SpanWays(NT, cnt, Rhs(G.prods[i]), 1, w, a, b) ELSE 0)
                                               + tot(i + 1))
                        IN  tot(1)]]]
    IN  IF nxt = cnt THEN cnt ELSE TreeCountFix(G, NT, w, nxt)

TreeCount(G, w) ==
    LET NT == NonterminalsOf(G)
        n  == Len(w)
    IN  IF G.start \notin NT THEN 0
        ELSE TreeCountFix(G, NT, w, [X \in NT |-> [a \in 0..n |-> [b \in 0..n |-> 0]]])[G.start][0][n]

AmbiguousSentence(G, w) == TreeCount(G, w) >= 2

Ambiguous(G, T, N) == \E u \in StringsUpTo(T, N) : AmbiguousSentence(G, u)
=============================================================================
