------------------------------ MODULE LRBisim ------------------------------
(***************************************************************************)
(* C09.  Two LR table sets A (the shipped, pre-generated parser) and B (a  *)
(* parser freshly generated from the grammar in the source plus the error  *)
(* example file) behave identically on EVERY token sequence.               *)
(*                                                                         *)
(* The two drivers run the same algorithm (LRTables!StepCfg), so it is     *)
(* enough to exhibit a relation R on states with (0,0) in R such that for  *)
(* related states the ACTION rows agree symbol by symbol (same kind, same  *)
(* production for a reduce, same code for an error, same default error)    *)
(* and shift / goto successors are related again.  Then by induction on    *)
(* the number of moves both stacks have the same length, are pointwise     *)
(* related and carry the same trees, hence: same accept/reject decision,   *)
(* same parse tree, same error position, same error code and the same set  *)
(* of expected tokens.                                                     *)
(*                                                                         *)
(* TLC computes the least such R: the pairs reachable from (0,0) by        *)
(* following every shift and every goto in lock-step.  State NUMBERS never *)
(* enter any comparison, so a generator refactoring that renumbers states  *)
(* is silent, while a stale or hand-edited table is not.                   *)
(***************************************************************************)
EXTENDS LRTables, TLC, Json, IOUtils

A == JsonDeserialize(IOEnv.TABLES_A)
B == JsonDeserialize(IOEnv.TABLES_B)

VARIABLES p, q, via     \* p: state of A, q: state of B, via: the symbol this pair was entered on
vars == <<p, q, via>>

Init == p = 0 /\ q = 0 /\ via = ""

Terminals(s, t) == ActSyms(A, s) \cup ActSyms(B, t)

FollowShift ==
    \E x \in ActSyms(A, p) \cap ActSyms(B, q) :
        /\ Row(A, p).a[x].k = "s"
        /\ Row(B, q).a[x].k = "s"
        /\ p' = Row(A, p).a[x].v
        /\ q' = Row(B, q).a[x].v
        /\ via' = x

FollowGoto ==
    \E X \in GotoSyms(A, p) \cap GotoSyms(B, q) :
        /\ p' = GotoOf(A, p, X)
        /\ q' = GotoOf(B, q, X)
        /\ via' = X

Next == FollowShift \/ FollowGoto

-----------------------------------------------------------------------------
(* Match, split into named clauses so that a violation says what differs.  *)

\* Both in range (a table that points outside itself is broken, not merely different).
InRange == p < NStates(A) /\ q < NStates(B)

\* Same action kind for every terminal either side mentions; terminals neither side
\* mentions are implicit errors on both sides and are covered by MatchDefaultError.
MatchKind ==
    \A x \in Terminals(p, q) : ActionOf(A, p, x).k = ActionOf(B, q, x).k

\* A reduce is by the same production (compared as <<lhs, rhs>>, not by number).
MatchReduce ==
    \A x \in Terminals(p, q) :
        LET a == ActionOf(A, p, x)  b == ActionOf(B, q, x)
        IN  (a.k = "r" /\ b.k = "r") => Prod(A, a.v) = Prod(B, b.v)

\* An error (explicit entry or implicit) carries the same code.
MatchErrorCode ==
    \A x \in Terminals(p, q) :
        LET a == ActionOf(A, p, x)  b == ActionOf(B, q, x)
        IN  (a.k = "e" /\ b.k = "e") => a.v = b.v

\* Any other terminal: same default error.
MatchDefaultError == Row(A, p).d = Row(B, q).d

\* The same nonterminals can be pushed after a reduce.
MatchGotoDomain == GotoSyms(A, p) = GotoSyms(B, q)

\* Hence the same set of expected tokens in a syntax error message.
MatchExpected == ExpectedAt(A, p) = ExpectedAt(B, q)

Match == /\ InRange /\ MatchKind /\ MatchReduce /\ MatchErrorCode
         /\ MatchDefaultError /\ MatchGotoDomain /\ MatchExpected
=============================================================================
