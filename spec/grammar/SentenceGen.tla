------------------------------ MODULE SentenceGen ------------------------------
(***************************************************************************)
(* Sentences of a grammar G (in practice the REAL Emboss grammar, exported *)
(* from module_ir.PRODUCTIONS) as behaviours of a leftmost derivation:     *)
(*                                                                         *)
(*   done : the terminals produced so far (a prefix of the sentence)       *)
(*   todo : the rest of the sentential form; its first symbol is always a  *)
(*          nonterminal (leading terminals move to `done` at once)         *)
(*   need : the least number of terminals `todo` can still produce         *)
(*                                                                         *)
(*   Expand(p)  replace the leftmost nonterminal by the rhs of one of its  *)
(*              productions, provided the sentence can still be finished   *)
(*              within MaxTokens tokens (the budget)                       *)
(*   Finish     the sentential form is all terminals: emit the sentence    *)
(*   Mutate     delete / insert / replace / swap one token of the emitted  *)
(*              sequence (up to MaxMut times); EmitMutant emits the result *)
(*                                                                         *)
(* Used with -simulate as a generator (every Finish / Mutate prints one    *)
(* JSON case) and model-checked exhaustively on a small grammar            *)
(* (SentenceDerives etc. below, with CFG.tla's Earley recognizer).         *)
(* While fewer than Target tokens are guaranteed, Bias-1 out of Bias       *)
(* choices refuse the shortest alternative, so that samples use the        *)
(* budget instead of collapsing to the empty module.                       *)
(***************************************************************************)
EXTENDS CFG, TLC, Json, IOUtils

G         == JsonDeserialize(IOEnv.GRAMMAR_FILE)
MaxTokens == atoi(IOEnv.MAX_TOKENS)
Target    == atoi(IOEnv.TARGET_TOKENS)
MaxMut    == atoi(IOEnv.MAX_MUTANTS)
Bias      == atoi(IOEnv.BIAS)
FastMutate == IOEnv.FAST_MUTATE = "1"

NT   == NonterminalsOf(G)
Term == TerminalsOf(G)
By   == [X \in NT |-> {i \in DOMAIN G.prods : Lhs(G.prods[i]) = X}]
Inf  == 1000000

\* least yield length of every nonterminal (Inf: derives no terminal string)
RECURSIVE SumLen(_, _, _)
SumLen(ml, rhs, j) ==
    IF j > Len(rhs) THEN 0
    ELSE LET a == IF rhs[j] \in NT THEN ml[rhs[j]] ELSE 1
             b == SumLen(ml, rhs, j + 1)
         IN  IF a + b >= Inf THEN Inf ELSE a + b

Min(S) == CHOOSE x \in S : \A y \in S : x <= y

RECURSIVE MinLenFix(_)
MinLenFix(ml) ==
    LET nxt == [X \in NT |-> Min({ml[X]} \cup {SumLen(ml, Rhs(G.prods[i]), 1) : i \in By[X]})]
    IN  IF nxt = ml THEN ml ELSE MinLenFix(nxt)

MinLen  == MinLenFix([X \in NT |-> Inf])
Yield   == [i \in DOMAIN G.prods |-> SumLen(MinLen, Rhs(G.prods[i]), 1)]   \* least yield of each production

VARIABLES done, todo, need, phase, nmut, prev, target, lastop, used, cap,
          origin,     \* for every symbol of todo: the production whose right-hand side put it there (0: the start symbol)
          pairs       \* <<parent production, child production>> applications so far (context-dependent coverage)
vars == <<done, todo, need, phase, nmut, prev, target, lastop, used, cap, origin, pairs>>

\* move leading terminals of a sentential form to the produced prefix
RECURSIVE LeadTerms(_)
LeadTerms(s) == IF s = <<>> \/ s[1] \in NT THEN 0 ELSE 1 + LeadTerms(Tail(s))

Init == /\ done = <<>>
        /\ todo = <<G.start>>
        /\ need = IF G.start \in NT THEN MinLen[G.start] ELSE 1
        /\ phase = "derive"
        /\ nmut = 0
        /\ prev = <<>>
        /\ lastop = ""
        /\ target \in {0, Target \div 3, Target}      \* how long this derivation is pushed to grow
        /\ used = [p \in DOMAIN G.prods |-> 0]        \* how often each production was applied
        /\ cap \in 1..3                               \* ... and how often it may be (see Expand)
        /\ origin = <<0>>
        /\ pairs = {}

Expand ==
    /\ phase = "derive"
    /\ todo # <<>>
    /\ LET X == todo[1]
       IN  \E coin \in 1..Bias : \E p \in By[X] :
             LET need2 == need - MinLen[X] + Yield[p]
                 short == Len(done) + need < target
                 alt   == \E q \in By[X] : Yield[q] > MinLen[X] /\ Len(done) + need - MinLen[X] + Yield[q] <= MaxTokens
                 form  == Rhs(G.prods[p]) \o Tail(todo)
                 k     == LeadTerms(form)
             IN  /\ Yield[p] < Inf
                 /\ Len(done) + need2 <= MaxTokens
                 /\ (coin > 1 /\ short /\ alt) => Yield[p] > MinLen[X]
                 \* a production is applied at most cap times, except that a shortest alternative
                 \* stays available (so every derivation can finish): early lists cannot eat the
                 \* whole budget and later parts of the sentence get their share
                 /\ used[p] < cap \/ Yield[p] = MinLen[X]
                 /\ used' = [used EXCEPT ![p] = @ + 1]
                 /\ done' = done \o SubSeq(form, 1, k)
                 /\ todo' = SubSeq(form, k + 1, Len(form))
                 /\ need' = need2 - k
                 /\ pairs' = pairs \cup {<<origin[1], p>>}
                 /\ origin' = SubSeq([j \in 1..Len(Rhs(G.prods[p])) |-> p] \o Tail(origin), k + 1, Len(form))
    /\ UNCHANGED <<phase, nmut, prev, target, lastop, cap>>

Finish ==
    /\ phase = "derive"
    /\ todo = <<>>
    \* ps: the productions this derivation applied (lets a caller select sentences for production coverage)
    \* pp: the (parent, child) production pairs: which alternative was taken in which context
    /\ PrintT(ToJson([kind |-> "sentence", op |-> "", w |-> done, ps |-> {p \in DOMAIN G.prods : used[p] > 0}, pp |-> pairs]))
    /\ phase' = "sentence"
    /\ UNCHANGED <<done, todo, need, nmut, prev, target, lastop, used, cap, origin, pairs>>

Delete(s, k)     == SubSeq(s, 1, k - 1) \o SubSeq(s, k + 1, Len(s))
Insert(s, k, x)  == SubSeq(s, 1, k) \o <<x>> \o SubSeq(s, k + 1, Len(s))        \* after position k
Replace(s, k, x) == [s EXCEPT ![k] = x]
Swap(s, k)       == [s EXCEPT ![k] = s[k + 1], ![k + 1] = s[k]]

Mutants(s) ==
    {[op |-> "delete", w |-> Delete(s, k)] : k \in 1..Len(s)}
    \cup {[op |-> "insert", w |-> Insert(s, k, x)] : k \in 0..Len(s), x \in Term}
    \cup UNION {{[op |-> "replace", w |-> Replace(s, k, x)] : x \in Term \ {s[k]}} : k \in 1..Len(s)}
    \cup {[op |-> "swap", w |-> Swap(s, k)] : k \in {j \in 1..(Len(s) - 1) : s[j] # s[j + 1]}}

\* One mutation.  In generator mode (FastMutate, -simulate) the instance is drawn with TLC's
\* RandomElement so that TLC does not have to build all ~|w| x |terminals| successors just to keep
\* one; in model-checking mode every mutant is a successor.
\* (Printing happens in EmitMutant, from the state actually reached: TLC evaluates an action for
\* every candidate successor, so a print inside Mutate would list all mutants, not the chosen one.)
PickMutant(op) ==
    LET n == Len(done)
    IN  CASE op = "delete"  -> IF n = 0 THEN {} ELSE {[op |-> op, w |-> Delete(done, RandomElement(1..n))]}
          [] op = "insert"  -> {[op |-> op, w |-> Insert(done, RandomElement(0..n), RandomElement(Term))]}
          [] op = "replace" -> IF n = 0 THEN {}
                               ELSE LET k == RandomElement(1..n) IN
                                    {[op |-> op, w |-> Replace(done, k, RandomElement(Term \ {done[k]}))]}
          [] OTHER          -> LET ks == {j \in 1..(n - 1) : done[j] # done[j + 1]}
                               IN  IF ks = {} THEN {} ELSE {[op |-> op, w |-> Swap(done, RandomElement(ks))]}

Mutate ==
    /\ phase \in {"sentence", "mutant"}
    /\ nmut < MaxMut
    /\ \E op \in {"delete", "insert", "replace", "swap"} :       \* one operation kind, then one instance
         \E m \in (IF FastMutate THEN PickMutant(op) ELSE {m \in Mutants(done) : m.op = op}) :
            /\ done' = m.w
            /\ lastop' = m.op
    /\ prev' = done
    /\ phase' = "pending"
    /\ nmut' = nmut + 1
    /\ UNCHANGED <<todo, need, target, used, cap, origin, pairs>>

EmitMutant ==
    /\ phase = "pending"
    /\ PrintT(ToJson([kind |-> "mutant", op |-> lastop, w |-> done]))
    /\ phase' = "mutant"
    /\ UNCHANGED <<done, todo, need, nmut, prev, target, lastop, used, cap, origin, pairs>>

Next == Expand \/ Finish \/ Mutate \/ EmitMutant

-----------------------------------------------------------------------------
(* Design-level properties (model-checked on a small grammar).             *)

SentenceDerives == phase = "sentence" => Derives(G, done)

DerivationStaysViable == phase = "derive" => ViablePrefix(G, done)

BudgetRespected ==
    /\ phase = "derive" => Len(done) + need <= MaxTokens
    /\ phase = "sentence" => Len(done) <= MaxTokens

NeedIsLeastYield == phase = "derive" => need = SumLen(MinLen, todo, 1)

LeftmostIsNonterminal == (phase = "derive" /\ todo # <<>>) => todo[1] \in NT

OriginTracksTodo == phase = "derive" =>
    /\ Len(origin) = Len(todo)
    /\ \A j \in 1..Len(todo) : origin[j] = 0 \/ \E m \in 1..Len(Rhs(G.prods[origin[j]])) : Rhs(G.prods[origin[j]])[m] = todo[j]

OneEditApart(s, t) ==
    \/ Len(t) = Len(s) - 1 /\ \E k \in 1..Len(s) : t = Delete(s, k)
    \/ Len(t) = Len(s) + 1 /\ \E k \in 1..Len(t) : s = Delete(t, k)
    \/ Len(t) = Len(s) /\ Cardinality({k \in 1..Len(s) : s[k] # t[k]}) \in {1, 2}

MutantIsOneEditAway == phase \in {"pending", "mutant"} => OneEditApart(prev, done)
=============================================================================
