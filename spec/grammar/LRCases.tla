------------------------------ MODULE LRCases ------------------------------
(***************************************************************************)
(* C08, binding.  Each case was produced by the REAL code                  *)
(* (harness/grammar_cases.py):                                             *)
(*    g         the grammar given to lr1.Grammar(start, productions)       *)
(*    tables    ACTION/GOTO/default errors of the Parser it returned       *)
(*    conflicts the conflicts that Parser reports                          *)
(*    gen_exc   "" or the exception the generator raised instead           *)
(*    runs      what the REAL Parser.parse did on each input string w:     *)
(*              ok/tree, or idx/tok/exp/code of the ParseError, or exc     *)
(*                                                                         *)
(* For every case TLC recomputes, from the grammar alone (CFG.tla) and     *)
(* from the tables alone (LRTables!Run), what C08 allows, and prints one   *)
(* JSON record per disagreement (see Checked at the end).  Clauses:        *)
(*                                                                         *)
(*   GeneratorRaises        the generator returned no parser at all        *)
(*   DriverConforms         Parser.parse did what the shift-reduce machine *)
(*                          does on those tables (same tree / same error   *)
(*                          index, token, expected set, code)              *)
(*   -- when no conflicts are reported:                                    *)
(*   AcceptIffDerives, TreeIsDerivation, ErrorAtFirstNonViable             *)
(*   AmbiguousImpliesConflicts                                             *)
(*   ExpectedConflictFree   (catalogue / Emboss grammar: non-vacuity)      *)
(***************************************************************************)
EXTENDS LRTables, CFG, TLC, Json, IOUtils

Cases == JsonDeserialize(IOEnv.CASES_FILE)

VARIABLE i
vars == <<i>>

ConflictFreeCase(c) == c.conflicts = <<>> /\ c.gen_exc = ""

Recorded(r) ==
    IF r.exc # "" THEN [st |-> "stuck", out |-> <<>>]
    ELSE IF r.ok THEN [st |-> "acc", out |-> r.tree]
    ELSE [st |-> "err", out |-> [code |-> r.code, index |-> r.idx, token |-> r.tok, expected |-> ToSet(r.exp)]]

Predicted(c, w) ==
    LET e == Run(c.tables, w, c.fuel)
    IN  [st |-> e.st, out |-> IF e.st = "stuck" THEN <<>> ELSE e.out]

SameOutcome(x, y) ==
    /\ x.st = y.st
    /\ x.st = "acc" => x.out = y.out
    /\ x.st = "err" => /\ x.out.index = y.out.index
                       /\ x.out.token = y.out.token
                       /\ x.out.expected = y.out.expected
                       /\ x.out.code = y.out.code

Brief(x) == [st |-> x.st, index |-> IF x.st = "err" THEN x.out.index ELSE 0]

\* Disagreements of one run with the property, as a set of [clause, want, got] records.
\*
\* For a big grammar (c.cert, the Emboss grammar) the recognizer is only run where it is needed:
\*   - an accepted string needs no recognizer: a valid derivation tree IS a proof that G derives it;
\*   - for a rejected string it is enough to look at the prefix up to and including the token the
\*     parser complained about: the report is right iff that prefix without its last token is
\*     viable and with it is not (at the end marker: viable but not a sentence).  Only if that fails
\*     is the whole string analysed, to say where the error should have been.
RunMismatches(c, ap, full, red, r) ==
    LET w     == r.w
        n     == Len(w)
        free  == ConflictFreeCase(c)
        plain == r.exc = ""
        skipE == c.cert /\ plain /\ r.ok
        u     == IF c.cert /\ plain /\ ~r.ok /\ r.idx < n THEN SubSeq(w, 1, r.idx + 1) ELSE w
        sets  == IF free /\ ~skipE THEN EarleySets(red, u) ELSE <<>>
        tree  == free /\ plain /\ r.ok /\ ValidTree(c.g, r.tree, w)
        fnv   == IF free /\ ~skipE
                 THEN LET f == FirstNonViableFromSets(red, u, sets)
                      IN  IF Len(u) < n /\ f # r.idx THEN FirstNonViableP(red, w) ELSE f
                 ELSE -1
        inL   == IF ~free THEN FALSE
                 ELSE IF skipE THEN tree
                 ELSE IF Len(u) < n THEN fnv = -1
                 ELSE IF ap THEN Complete(red, sets[n + 1]) ELSE DerivesP(full, w)
        pred  == Predicted(c, w)
        rec   == Recorded(r)
    IN  (IF ~SameOutcome(pred, rec)
         THEN {[clause |-> "DriverConforms", want |-> Brief(pred), got |-> Brief(rec)]} ELSE {})
        \cup
        (IF free /\ ~skipE /\ (~plain \/ r.ok # inL)
         THEN {[clause |-> "AcceptIffDerives", want |-> [derives |-> inL], got |-> [accepted |-> r.ok, exc |-> r.exc]]} ELSE {})
        \cup
        (IF free /\ plain /\ r.ok /\ ~tree
         THEN {[clause |-> "TreeIsDerivation", want |-> [valid |-> TRUE], got |-> [valid |-> FALSE]]} ELSE {})
        \cup
        (IF free /\ plain /\ ~r.ok /\ ~inL /\ r.idx # fnv
         THEN {[clause |-> "ErrorAtFirstNonViable", want |-> [index |-> fnv], got |-> [index |-> r.idx]]} ELSE {})
        \cup
        \* the generator reported no conflicts, yet this sentence has two derivation trees
        (IF free /\ c.namb >= 0 /\ Len(w) <= c.namb /\ inL /\ AmbiguousSentence(c.g, w)
         THEN {[clause |-> "AmbiguousImpliesConflicts", want |-> [conflicts |-> "some"], got |-> [conflicts |-> "none"]]} ELSE {})

CaseMismatches(c) ==
    LET full == Full(c.g)
        red  == Reduced(c.g)
        ap   == AllProductive(c.g)
        perRun == UNION {{[id |-> c.id, name |-> c.name, clause |-> m.clause, w |-> c.runs[k].w,
                           want |-> m.want, got |-> m.got, allprod |-> ap]
                          : m \in RunMismatches(c, ap, full, red, c.runs[k])} : k \in DOMAIN c.runs}
        whole ==
            (IF c.gen_exc # ""
             THEN {[id |-> c.id, name |-> c.name, clause |-> "GeneratorRaises", w |-> <<>>,
                    want |-> [exc |-> ""], got |-> [exc |-> c.gen_exc], allprod |-> ap]} ELSE {})
            \cup
            (IF c.expect = "conflict-free" /\ ~ConflictFreeCase(c)
             THEN {[id |-> c.id, name |-> c.name, clause |-> "ExpectedConflictFree", w |-> <<>>,
                    want |-> [conflicts |-> "none"], got |-> [conflicts |-> "some"], allprod |-> ap]} ELSE {})
    IN  perRun \cup whole

\* One line per (case, clause): how many runs disagree and one of them.
Report(ms) ==
    {[count |-> Cardinality({m \in ms : m.clause = cl}), ex |-> CHOOSE m \in ms : m.clause = cl]
        : cl \in {m.clause : m \in ms}}

(***************************************************************************)
(* The walk over the cases.  The state is just the case number; the work   *)
(* is done by the state predicate Checked, which is evaluated once per     *)
(* state as an INVARIANT.  (TLC caches LET-bound values when it evaluates  *)
(* a state predicate but not while it enumerates the successors of an      *)
(* action, which makes the same recognizer run two orders of magnitude     *)
(* faster here than inside Next.)  Checked prints one JSON line per        *)
(* violated (case, clause) and one summary line per case, and is TRUE: the *)
(* harness reads the verdict from those lines, so that one run names every *)
(* failing case.                                                           *)
(***************************************************************************)
Init == i = 1
Next == i < Len(Cases) /\ i' = i + 1

Checked ==
    IF i > Len(Cases) THEN TRUE
    ELSE LET c  == Cases[i]
             ms == CaseMismatches(c)
         IN  /\ \A m \in Report(ms) : PrintT(ToJson(m))
             /\ PrintT(ToJson([summary |->
                    [cases        |-> 1,
                     conflictFree |-> IF ConflictFreeCase(c) THEN 1 ELSE 0,
                     runs         |-> Len(c.runs),
                     accepted     |-> Cardinality({k \in DOMAIN c.runs : c.runs[k].ok}),
                     mismatches   |-> Cardinality(ms)]]))
=============================================================================
