------------------------------ MODULE LRCases ------------------------------
(***************************************************************************)
(* C08, binding.  Each case was produced by the REAL code                  *)
(* (harness/grammar_cases.py):                                             *)
(*    g         the grammar given to lr1.Grammar(start, productions)       *)
(*    tables    ACTION/GOTO/default errors of the Parser it returned       *)
(*    conflicts the conflicts that Parser reports                          *)
(*    gen_exc   "" or the exception the generator raised instead           *)
(*    runs      what the REAL Parser.parse did on each input string w:     *)
(*              ok/tree, or idx/tok/exp/code of the ParseError, or exc     *)
(*                                                                         *)
(* For every case TLC recomputes, from the grammar alone (CFG.tla) and     *)
(* from the tables alone (LRTables!Run), what C08 allows, and prints one   *)
(* JSON record per disagreement; the walk over the cases is the state      *)
(* machine (variable i).  Clauses:                                         *)
(*                                                                         *)
(*   GeneratorRaises        the generator returned no parser at all        *)
(*   DriverConforms         Parser.parse did what the shift-reduce machine *)
(*                          does on those tables (same tree / same error   *)
(*                          index, token, expected set, code)              *)
(*   -- when no conflicts are reported:                                    *)
(*   AcceptIffDerives, TreeIsDerivation, ErrorAtFirstNonViable             *)
(*   AmbiguousImpliesConflicts                                             *)
(*   ExpectedConflictFree   (catalogue / Emboss grammar: non-vacuity)      *)
(***************************************************************************)
EXTENDS LRTables, CFG, TLC, Json, IOUtils

Cases == JsonDeserialize(IOEnv.CASES_FILE)

VARIABLES i, stats
vars == <<i, stats>>

ConflictFreeCase(c) == c.conflicts = <<>> /\ c.gen_exc = ""

Recorded(r) ==
    IF r.exc # "" THEN [st |-> "stuck", out |-> <<>>]
    ELSE IF r.ok THEN [st |-> "acc", out |-> r.tree]
    ELSE [st |-> "err", out |-> [code |-> r.code, index |-> r.idx, token |-> r.tok, expected |-> ToSet(r.exp)]]

Predicted(c, w) ==
    LET e == Run(c.tables, w, c.fuel)
    IN  [st |-> e.st, out |-> IF e.st = "stuck" THEN <<>> ELSE e.out]

SameOutcome(x, y) ==
    /\ x.st = y.st
    /\ x.st = "acc" => x.out = y.out
    /\ x.st = "err" => /\ x.out.index = y.out.index
                       /\ x.out.token = y.out.token
                       /\ x.out.expected = y.out.expected
                       /\ x.out.code = y.out.code

Brief(x) == [st |-> x.st, index |-> IF x.st = "err" THEN x.out.index ELSE 0]

\* Disagreements of one run with the property, as a set of [clause, want, got] records.
RunMismatches(c, ap, full, red, r) ==
    LET w    == r.w
        free == ConflictFreeCase(c)
        sets == IF free THEN EarleySets(red, w) ELSE <<>>
        inL  == IF free THEN (IF ap THEN Complete(red, sets[Len(w) + 1]) ELSE DerivesP(full, w)) ELSE FALSE
        fnv  == IF free THEN FirstNonViableFromSets(red, w, sets) ELSE 0
        pred == Predicted(c, w)
        rec  == Recorded(r)
    IN  (IF ~SameOutcome(pred, rec)
         THEN {[clause |-> "DriverConforms", want |-> Brief(pred), got |-> Brief(rec)]} ELSE {})
        \cup
        (IF free /\ (r.exc # "" \/ r.ok # inL)
         THEN {[clause |-> "AcceptIffDerives", want |-> [derives |-> inL], got |-> [accepted |-> r.ok, exc |-> r.exc]]} ELSE {})
        \cup
        (IF free /\ r.exc = "" /\ r.ok /\ ~ValidTree(c.g, r.tree, w)
         THEN {[clause |-> "TreeIsDerivation", want |-> [valid |-> TRUE], got |-> [valid |-> FALSE]]} ELSE {})
        \cup
        (IF free /\ r.exc = "" /\ ~r.ok /\ ~inL /\ r.idx # fnv
         THEN {[clause |-> "ErrorAtFirstNonViable", want |-> [index |-> fnv], got |-> [index |-> r.idx]]} ELSE {})

CaseMismatches(c) ==
    LET full == Full(c.g)
        red  == Reduced(c.g)
        ap   == AllProductive(c.g)
        perRun == UNION {{[id |-> c.id, name |-> c.name, clause |-> m.clause, w |-> c.runs[k].w,
                           want |-> m.want, got |-> m.got, allprod |-> ap]
                          : m \in RunMismatches(c, ap, full, red, c.runs[k])} : k \in DOMAIN c.runs}
        whole ==
            (IF c.gen_exc # ""
             THEN {[id |-> c.id, name |-> c.name, clause |-> "GeneratorRaises", w |-> <<>>,
                    want |-> [exc |-> ""], got |-> [exc |-> c.gen_exc], allprod |-> ap]} ELSE {})
            \cup
            (IF ConflictFreeCase(c) /\ c.namb >= 0 /\ Ambiguous(c.g, c.namb)
             THEN {[id |-> c.id, name |-> c.name, clause |-> "AmbiguousImpliesConflicts", w |-> <<>>,
                    want |-> [conflicts |-> "some"], got |-> [conflicts |-> "none"], allprod |-> ap]} ELSE {})
            \cup
            (IF c.expect = "conflict-free" /\ ~ConflictFreeCase(c)
             THEN {[id |-> c.id, name |-> c.name, clause |-> "ExpectedConflictFree", w |-> <<>>,
                    want |-> [conflicts |-> "none"], got |-> [conflicts |-> "some"], allprod |-> ap]} ELSE {})
    IN  perRun \cup whole

\* One line per (case, clause): how many runs disagree and one of them.
Report(ms) ==
    {[count |-> Cardinality({m \in ms : m.clause = cl}), ex |-> CHOOSE m \in ms : m.clause = cl]
        : cl \in {m.clause : m \in ms}}

ZeroStats == [cases |-> 0, conflictFree |-> 0, runs |-> 0, accepted |-> 0, mismatches |-> 0]

Init == i = 1 /\ stats = ZeroStats

CheckCase ==
    /\ i <= Len(Cases)
    /\ LET c  == Cases[i]
           ms == CaseMismatches(c)
       IN  /\ \A m \in Report(ms) : PrintT(ToJson(m))
           /\ stats' = [cases        |-> stats.cases + 1,
                        conflictFree |-> stats.conflictFree + (IF ConflictFreeCase(c) THEN 1 ELSE 0),
                        runs         |-> stats.runs + Len(c.runs),
                        accepted     |-> stats.accepted + Cardinality({k \in DOMAIN c.runs : c.runs[k].ok}),
                        mismatches   |-> stats.mismatches + Cardinality(ms)]
    /\ i' = i + 1

Finish ==
    /\ i = Len(Cases) + 1
    /\ PrintT(ToJson([summary |-> stats]))
    /\ i' = i + 1
    /\ UNCHANGED stats

Next == CheckCase \/ Finish

\* every case was consumed (the harness also checks the summary line)
AllConsumed == i <= Len(Cases) + 2
=============================================================================
