------------------------------ MODULE ParsePairs ------------------------------
(***************************************************************************)
(* C09, cross-check (thorough tier).  Each case is one token sequence w    *)
(* together with what two REAL parsers did on it: a = the shipped          *)
(* (pre-generated) module parser, b = a parser generated now from the      *)
(* grammar in the source and the error examples.  LRBisim proves the two   *)
(* table sets bisimilar; this module checks the consequence on concrete    *)
(* runs of the real driver: same accept/reject decision, same parse tree,  *)
(* same error position, same error token, same error code (the message),   *)
(* same expected-token set.  State numbers are not compared.               *)
(***************************************************************************)
EXTENDS Naturals, Sequences, FiniteSets, TLC, Json, IOUtils

Cases == JsonDeserialize(IOEnv.CASES_FILE)

ToSet(s) == {s[i] : i \in DOMAIN s}

Clauses(c) ==
    (IF c.a.exc # c.b.exc THEN {"SameException"} ELSE {})
    \cup (IF c.a.ok # c.b.ok THEN {"SameDecision"} ELSE {})
    \cup (IF c.a.ok /\ c.b.ok /\ c.a.tree # c.b.tree THEN {"SameTree"} ELSE {})
    \cup (IF ~c.a.ok /\ ~c.b.ok /\ c.a.idx # c.b.idx THEN {"SameErrorPosition"} ELSE {})
    \cup (IF ~c.a.ok /\ ~c.b.ok /\ c.a.tok # c.b.tok THEN {"SameErrorToken"} ELSE {})
    \cup (IF ~c.a.ok /\ ~c.b.ok /\ c.a.code # c.b.code THEN {"SameErrorCode"} ELSE {})
    \cup (IF ~c.a.ok /\ ~c.b.ok /\ ToSet(c.a.exp) # ToSet(c.b.exp) THEN {"SameExpectedTokens"} ELSE {})

VARIABLE i
Init == i = 1
Next == i < Len(Cases) /\ i' = i + 1

\* evaluated as an INVARIANT (always TRUE; prints one line per disagreeing case, and a final count)
Checked ==
    IF i > Len(Cases) THEN TRUE
    ELSE LET c  == Cases[i]
             cl == Clauses(c)
         IN  /\ \A x \in cl : PrintT(ToJson([id |-> c.id, clause |-> x]))
             /\ (i = Len(Cases)) => PrintT(ToJson([checked |-> i]))
=============================================================================
