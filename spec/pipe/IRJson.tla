------------------------------- MODULE IRJson -------------------------------
(***************************************************************************)
(* The IR data model and its JSON form (property C18).                     *)
(*                                                                         *)
(* The IR is a tree of messages (doc/compiler-design.md "IR"); each class  *)
(* has named fields, each field is a scalar or a message, and is optional, *)
(* a list, or one alternative of a "oneof" group (ir_data_fields).  The    *)
(* class table `Schema' is not written down here: it is exported by        *)
(* reflection from the ir_data module of the tree under test, so the       *)
(* specification speaks about every class and field that exists.           *)
(*                                                                         *)
(* Abstract tree    node  == [cls |-> C, fields |-> [name |-> val]]         *)
(*                  val   == [k |-> "str"|"bool"|"int"|"enum", v |-> ...]  *)
(*                         | [k |-> "loc", v |-> [l1,c1,l2,c2,dj,syn]]     *)
(*                         | [k |-> "msg", v |-> node]                      *)
(*                         | [k |-> "list", v |-> <<val, ...>>]             *)
(*   A field that is unset is absent from `fields'; list fields are always *)
(*   present (an empty list and a missing list are the same IR).           *)
(* JSON value       [j |-> "obj", v |-> [name |-> jv]] | [j |-> "arr", ..] *)
(*                  | [j |-> "str"|"num"|"bool", v |-> ...]                 *)
(*   numbers are carried as decimal strings (no 32-bit limit).             *)
(*                                                                         *)
(* JSON form (compiler-design.md shows it): an object with one member per  *)
(* set field, named like the field; messages nest; lists are arrays;       *)
(* strings, booleans, integers are JSON strings, booleans, numbers;        *)
(* integers that may exceed 64 bits are *strings* of digits in the IR      *)
(* itself; a source location is the string "l:c-l:c".  Named decisions     *)
(* where the documentation is silent: flags of a location are the suffix   *)
(* "^" (disjoint from parent) then "*" (synthetic), as SourceLocation      *)
(* documents for itself; an enum value may be written as its number or as  *)
(* its name (both are read back).                                           *)
(***************************************************************************)
EXTENDS Naturals, Sequences, FiniteSets, TLC

CONSTANTS Schema,      \* [classes |-> [C |-> <<[name, kind, type, container, oneof]>>], enums |-> [E |-> <<<<name, number>>>>]]
          JsonVariant  \* "doc", or a named defect of ToJson used to show the properties are not vacuous

Range(s) == {s[i] : i \in DOMAIN s}
Classes == DOMAIN Schema.classes
Specs(c) == Range(Schema.classes[c])
Names(c) == {s.name : s \in Specs(c)}
Spec(c, n) == CHOOSE s \in Specs(c) : s.name = n
ListNames(c) == {s.name : s \in {x \in Specs(c) : x.container = "list"}}

EnumNames(e) == {p[1] : p \in Range(Schema.enums[e])}
EnumNumber(e, name) == (CHOOSE p \in Range(Schema.enums[e]) : p[1] = name)[2]
EnumHasNumber(e, num) == \E p \in Range(Schema.enums[e]) : p[2] = num
EnumName(e, num) == (CHOOSE p \in Range(Schema.enums[e]) : p[2] = num)[1]

---------------------------------------------------------------------------
(* Well-formedness of an abstract tree against the class table             *)

RECURSIVE WFNode(_), WFVal(_, _), WFElem(_, _)

WFElem(s, x) ==
  IF s.kind = "msg" THEN x.k = "msg" /\ x.v.cls = s.type /\ WFNode(x.v)
  ELSE /\ x.k = s.kind
       /\ (s.kind = "enum" => x.v \in EnumNames(s.type))
       /\ (s.kind = "bool" => x.v \in BOOLEAN)

WFVal(s, x) ==
  IF s.container = "list"
  THEN x.k = "list" /\ \A i \in DOMAIN x.v : WFElem(s, x.v[i])
  ELSE WFElem(s, x)

WFNode(t) ==
  /\ t.cls \in Classes
  /\ DOMAIN t.fields \subseteq Names(t.cls)
  /\ ListNames(t.cls) \subseteq DOMAIN t.fields
  /\ \A n \in DOMAIN t.fields : WFVal(Spec(t.cls, n), t.fields[n])
  /\ \A a \in DOMAIN t.fields : \A b \in DOMAIN t.fields :      \* at most one member of a oneof group
        (a # b /\ Spec(t.cls, a).oneof # "") => Spec(t.cls, a).oneof # Spec(t.cls, b).oneof

WellFormed(t) == WFNode(t)

---------------------------------------------------------------------------
(* ToJson *)

PosStr(l, c) == ToString(l) \o ":" \o ToString(c)
LocStr(x) == PosStr(x.l1, x.c1) \o "-" \o PosStr(x.l2, x.c2)
             \o (IF x.dj THEN "^" ELSE "")
             \o (IF x.syn /\ JsonVariant # "loc-loses-synthetic" THEN "*" ELSE "")

JStr(s) == [j |-> "str", v |-> s]
JNum(s) == [j |-> "num", v |-> s]
JBool(b) == [j |-> "bool", v |-> b]

RECURSIVE ToJson(_), ValToJson(_, _), ElemToJson(_, _)

ElemToJson(s, x) ==
  CASE x.k = "msg"  -> ToJson(x.v)
    [] x.k = "str"  -> JStr(x.v)
    [] x.k = "bool" -> JBool(x.v)
    [] x.k = "int"  -> JNum(x.v)
    [] x.k = "enum" -> JNum(EnumNumber(s.type, x.v))
    [] x.k = "loc"  -> JStr(LocStr(x.v))

ValToJson(s, x) ==
  IF x.k = "list" THEN [j |-> "arr", v |-> [i \in DOMAIN x.v |-> ElemToJson(s, x.v[i])]]
  ELSE ElemToJson(s, x)

Falsy(x) == (x.k = "bool" /\ x.v = FALSE) \/ (x.k = "str" /\ x.v = "") \/ (x.k = "int" /\ x.v = "0")
            \/ (x.k = "enum" /\ FALSE)

Written(t) ==   \* the fields that appear as members: the set ones, lists only when non-empty
  {n \in DOMAIN t.fields :
      /\ ~(t.fields[n].k = "list" /\ t.fields[n].v = <<>>)
      /\ ~(JsonVariant = "drop-falsy" /\ Falsy(t.fields[n]))}

ToJson(t) == [j |-> "obj", v |-> [n \in Written(t) |-> ValToJson(Spec(t.cls, n), t.fields[n])]]

---------------------------------------------------------------------------
(* Renders(t, j): j is a JSON form of t.  Same as j = ToJson(t) except     *)
(* that an enum may be written as its name.                                 *)

RECURSIVE Renders(_, _), RendersElem(_, _, _)

RendersElem(s, x, j) ==
  CASE x.k = "msg"  -> Renders(x.v, j)
    [] x.k = "enum" -> (j.j = "num" /\ j.v = EnumNumber(s.type, x.v)) \/ (j.j = "str" /\ j.v = x.v)
    [] OTHER        -> j = ElemToJson(s, x)

Renders(t, j) ==
  /\ j.j = "obj"
  /\ DOMAIN j.v = Written(t)
  /\ \A n \in Written(t) :
        LET s == Spec(t.cls, n)
            x == t.fields[n]
            y == j.v[n]
        IN IF x.k = "list"
           THEN y.j = "arr" /\ Len(y.v) = Len(x.v) /\ \A i \in DOMAIN x.v : RendersElem(s, x.v[i], y.v[i])
           ELSE RendersElem(s, x, y)

(* where a tree and a JSON value part ways (path of the first difference), *)
(* for diagnostics only                                                     *)
RECURSIVE Diff(_, _, _)
Diff(t, j, path) ==
  IF j.j # "obj" THEN <<path, "not-an-object">>
  ELSE IF DOMAIN j.v # Written(t)
  THEN <<path, "members", (DOMAIN j.v) \ Written(t), Written(t) \ (DOMAIN j.v)>>
  ELSE LET badn == {n \in Written(t) :
                      LET s == Spec(t.cls, n)
                          x == t.fields[n]
                          y == j.v[n]
                      IN ~(IF x.k = "list"
                           THEN y.j = "arr" /\ Len(y.v) = Len(x.v) /\ \A i \in DOMAIN x.v : RendersElem(s, x.v[i], y.v[i])
                           ELSE RendersElem(s, x, y))}
       IN IF badn = {} THEN <<>>
          ELSE LET n == CHOOSE n \in badn : TRUE
                   x == t.fields[n]
                   y == j.v[n]
               IN IF x.k = "msg" THEN Diff(x.v, y, path \o "." \o n)
                  ELSE IF x.k = "list" /\ y.j = "arr" /\ Len(y.v) = Len(x.v)
                  THEN LET i == CHOOSE i \in DOMAIN x.v : ~RendersElem(Spec(t.cls, n), x.v[i], y.v[i])
                       IN IF x.v[i].k = "msg" THEN Diff(x.v[i].v, y.v[i], path \o "." \o n \o "[" \o ToString(i) \o "]")
                          ELSE <<path \o "." \o n \o "[" \o ToString(i) \o "]", x.v[i], y.v[i]>>
                  ELSE <<path \o "." \o n, x.k, y.j>>

RECURSIVE TreeDiff(_, _, _)
TreeDiff(a, b, path) ==
  IF a.cls # b.cls THEN <<path, "class", a.cls, b.cls>>
  ELSE IF DOMAIN a.fields # DOMAIN b.fields
  THEN <<path, "set-fields", (DOMAIN a.fields) \ (DOMAIN b.fields), (DOMAIN b.fields) \ (DOMAIN a.fields)>>
  ELSE LET badn == {n \in DOMAIN a.fields : a.fields[n] # b.fields[n]} IN
       IF badn = {} THEN <<>>
       ELSE LET n == CHOOSE n \in badn : TRUE
                x == a.fields[n]
                y == b.fields[n]
            IN IF x.k = "msg" /\ y.k = "msg" THEN TreeDiff(x.v, y.v, path \o "." \o n)
               ELSE IF x.k = "list" /\ y.k = "list" /\ Len(x.v) = Len(y.v)
               THEN LET i == CHOOSE i \in DOMAIN x.v : x.v[i] # y.v[i]
                    IN IF x.v[i].k = "msg" /\ y.v[i].k = "msg"
                       THEN TreeDiff(x.v[i].v, y.v[i].v, path \o "." \o n \o "[" \o ToString(i) \o "]")
                       ELSE <<path \o "." \o n \o "[" \o ToString(i) \o "]", x.v[i], y.v[i]>>
               ELSE IF x.k = "list" /\ y.k = "list" THEN <<path \o "." \o n, "length", Len(x.v), Len(y.v)>>
               ELSE <<path \o "." \o n, x, y>>

---------------------------------------------------------------------------
(* FromJson: the inverse.  `locs' is the set of location values among      *)
(* which a location string is looked up.                                    *)

RECURSIVE FromJson(_, _, _), ElemFromJson(_, _, _)

Unreadable == [k |-> "unreadable", v |-> ""]

ElemFromJson(s, j, locs) ==
  CASE s.kind = "msg"  -> [k |-> "msg", v |-> FromJson(s.type, j, locs)]
    [] s.kind = "str"  -> IF j.j = "str" THEN [k |-> "str", v |-> j.v] ELSE Unreadable
    [] s.kind = "bool" -> IF j.j = "bool" THEN [k |-> "bool", v |-> j.v] ELSE Unreadable
    [] s.kind = "int"  -> IF j.j = "num" THEN [k |-> "int", v |-> j.v] ELSE Unreadable
    [] s.kind = "enum" -> IF j.j = "num" /\ EnumHasNumber(s.type, j.v) THEN [k |-> "enum", v |-> EnumName(s.type, j.v)]
                          ELSE IF j.j = "str" /\ j.v \in EnumNames(s.type) THEN [k |-> "enum", v |-> j.v]
                          ELSE Unreadable
    [] s.kind = "loc"  -> IF j.j = "str" /\ \E x \in locs : LocStr(x) = j.v
                          THEN [k |-> "loc", v |-> CHOOSE x \in locs : LocStr(x) = j.v]
                          ELSE Unreadable

FromJson(c, j, locs) ==
  IF j.j # "obj" THEN [cls |-> c, fields |-> [n \in {"?"} |-> Unreadable]]
  ELSE
  LET present == (DOMAIN j.v) \cap Names(c)
      extra == (DOMAIN j.v) \ Names(c)
      dom == present \cup ListNames(c) \cup (IF extra = {} THEN {} ELSE {"?"})
  IN [cls |-> c,
      fields |-> [n \in dom |->
         IF n = "?" THEN Unreadable
         ELSE LET s == Spec(c, n) IN
              IF n \notin present THEN [k |-> "list", v |-> <<>>]
              ELSE IF s.container = "list"
              THEN IF j.v[n].j = "arr"
                   THEN [k |-> "list", v |-> [i \in DOMAIN j.v[n].v |-> ElemFromJson(s, j.v[n].v[i], locs)]]
                   ELSE Unreadable
              ELSE ElemFromJson(s, j.v[n], locs)]]

---------------------------------------------------------------------------
(* The properties, for one tree *)

RoundTrip(t, locs) == FromJson(t.cls, ToJson(t), locs) = t
Idempotent(t, locs) == ToJson(FromJson(t.cls, ToJson(t), locs)) = ToJson(t)

RECURSIVE LocsOf(_)
LocsOfVal(x) ==
  CASE x.k = "loc" -> {x.v}
    [] x.k = "msg" -> LocsOf(x.v)
    [] x.k = "list" -> UNION {IF x.v[i].k = "loc" THEN {x.v[i].v} ELSE IF x.v[i].k = "msg" THEN LocsOf(x.v[i].v) ELSE {} : i \in DOMAIN x.v}
    [] OTHER -> {}
LocsOf(t) == UNION {LocsOfVal(t.fields[n]) : n \in DOMAIN t.fields}

=============================================================================
