---------------------------- MODULE PipelineScen ----------------------------
(***************************************************************************)
(* Generator (G) for the control flow of the IR-processing half of the      *)
(* front end (C16: PassOrder, EarlyExit, deferred synthetic errors).       *)
(* A scenario scripts, for each of the NPass passes, how many natural and  *)
(* how many synthetic error groups it returns.  The initial states ARE the *)
(* scenarios: every scenario in which at most two passes report anything,  *)
(* each reporting 0..MaxG natural and 0..MaxG synthetic groups.             *)
(* The harness replays each into the real glue.process_ir over stub passes *)
(* and records the resulting events; PipelineTrace judges them.            *)
(***************************************************************************)
EXTENDS Naturals, Sequences, FiniteSets, TLC, Json

CONSTANTS NPass, MaxG

Outcome == {[user |-> u, synth |-> s] : u \in 0..MaxG, s \in 0..MaxG}
Quiet == [user |-> 0, synth |-> 0]

Scenarios ==
  {[k \in 1..NPass |-> IF k = a THEN x ELSE IF k = b THEN y ELSE Quiet] :
      a \in 1..NPass, b \in 1..NPass, x \in Outcome, y \in Outcome}

VARIABLE s

Init == s \in Scenarios /\ PrintT(ToJson([scen |-> s]))
Next == UNCHANGED s
Spec == Init /\ [][Next]_s
=============================================================================
