------------------------------ MODULE IRJsonMC ------------------------------
(***************************************************************************)
(* Design-level check of IRJson.tla on the REAL class table (exported by   *)
(* reflection to SCHEMA_FILE): abstract trees of every IR class are grown  *)
(* one field at a time (root: up to MaxFields fields set; message-valued   *)
(* fields take an empty child or a child with one field set; lists have    *)
(* 0..2 elements; oneof groups are honoured), and for every such tree      *)
(*     WellFormed, FromJson(ToJson(t)) = t, ToJson idempotent,             *)
(*     Renders(t, ToJson(t)).                                               *)
(* Scalars include the falsy ones ("", false, "0", enum value 0), digit    *)
(* strings beyond 64 bits, and locations with every flag combination.      *)
(* With JsonVariant # "doc" the run must end in a RoundTrip violation.     *)
(***************************************************************************)
EXTENDS Naturals, Sequences, FiniteSets, TLC, Json, IOUtils

CONSTANTS Variant, MaxFields

SchemaFile == JsonDeserialize(IOEnv.SCHEMA_FILE)

I == INSTANCE IRJson WITH Schema <- SchemaFile, JsonVariant <- Variant

Loc(l1, c1, l2, c2, dj, syn) == [l1 |-> l1, c1 |-> c1, l2 |-> l2, c2 |-> c2, dj |-> dj, syn |-> syn]
Locs == {Loc(1, 1, 1, 2, FALSE, FALSE), Loc(1, 1, 1, 2, FALSE, TRUE), Loc(1, 1, 1, 2, TRUE, FALSE),
         Loc(1, 1, 1, 2, TRUE, TRUE), Loc(0, 0, 0, 0, FALSE, FALSE), Loc(3, 10, 12, 1, FALSE, FALSE)}

EmptyNode(c) == [cls |-> c, fields |-> [n \in I!ListNames(c) |-> [k |-> "list", v |-> <<>>]]]

FirstTwo(seq) == {seq[i][1] : i \in {i \in DOMAIN seq : i <= 2}}

ScalarVals(s) ==
  CASE s.kind = "str"  -> {[k |-> "str", v |-> x] : x \in {"", "a", "340282366920938463463374607431768211456"}}
    [] s.kind = "bool" -> {[k |-> "bool", v |-> x] : x \in BOOLEAN}
    [] s.kind = "int"  -> {[k |-> "int", v |-> x] : x \in {"0", "7"}}
    [] s.kind = "enum" -> {[k |-> "enum", v |-> x] : x \in FirstTwo(SchemaFile.enums[s.type])}
    [] s.kind = "loc"  -> {[k |-> "loc", v |-> x] : x \in Locs}
    [] OTHER -> {}

OneScalar(s) ==
  CASE s.kind = "str"  -> [k |-> "str", v |-> ""]
    [] s.kind = "bool" -> [k |-> "bool", v |-> FALSE]
    [] s.kind = "int"  -> [k |-> "int", v |-> "0"]
    [] s.kind = "enum" -> [k |-> "enum", v |-> SchemaFile.enums[s.type][1][1]]
    [] s.kind = "loc"  -> [k |-> "loc", v |-> Loc(1, 1, 1, 2, FALSE, TRUE)]

(* setting a field clears the other members of its oneof group *)
SetField(t, n, x) ==
  LET s == I!Spec(t.cls, n)
      keep == {m \in DOMAIN t.fields : m = n \/ s.oneof = "" \/ I!Spec(t.cls, m).oneof # s.oneof}
  IN [t EXCEPT !.fields = [m \in keep \cup {n} |-> IF m = n THEN x ELSE t.fields[m]]]

(* children: empty, or exactly one field set to a representative value *)
ChildElem(s) ==
  IF s.kind = "msg" THEN [k |-> "msg", v |-> EmptyNode(s.type)] ELSE OneScalar(s)
ChildVal(s) ==
  IF s.container = "list" THEN [k |-> "list", v |-> <<ChildElem(s)>>] ELSE ChildElem(s)
ChildNodes(c) ==
  {EmptyNode(c)} \cup {SetField(EmptyNode(c), s.name, ChildVal(s)) : s \in I!Specs(c)}

ElemVals(s) ==
  IF s.kind = "msg" THEN {[k |-> "msg", v |-> x] : x \in ChildNodes(s.type)} ELSE ScalarVals(s)
RootVals(s) ==
  IF s.container = "list"
  THEN {[k |-> "list", v |-> <<x>>] : x \in ElemVals(s)}
       \cup {[k |-> "list", v |-> <<x, y>>] : x \in ElemVals(s), y \in {ChildElem(s)}}
  ELSE ElemVals(s)

VARIABLES t, nset
vars == <<t, nset>>

Init == t \in {EmptyNode(c) : c \in I!Classes} /\ nset = 0

IsDefault(x) == x.k = "list" /\ x.v = <<>>
Next ==
  /\ nset < MaxFields
  /\ \E s \in I!Specs(t.cls) :
        /\ (IF s.name \in DOMAIN t.fields THEN IsDefault(t.fields[s.name]) ELSE TRUE)
        /\ \E x \in RootVals(s) : t' = SetField(t, s.name, x)
  /\ nset' = nset + 1

Spec == Init /\ [][Next]_vars

WF == I!WellFormed(t)
RoundTrip == I!RoundTrip(t, Locs)
Idempotent == I!Idempotent(t, Locs)
RendersSelf == I!Renders(t, I!ToJson(t))
=============================================================================
