----------------------------- MODULE PipelineMC -----------------------------
(***************************************************************************)
(* Design-level model checking of Pipeline.tla (run on every check of C16, *)
(* C17, C18) and schedule generator for C17.                               *)
(*                                                                         *)
(* An abstract implementation of the compiler (ImplNext) runs over a small *)
(* file system and small abstract source texts; every step it takes is an  *)
(* event that the monitor of Pipeline.tla judges (Blame) and follows (Do). *)
(* Exhaustive over: <= MaxCompiles compilations, 2 OS processes with       *)
(* restarts, 2 hash seeds, all listed source sets and import-directory     *)
(* orders, in-process / split / front-end-only pipelines.                  *)
(*                                                                         *)
(* Variant = "doc" is the documented design: all invariants must hold.     *)
(* Every other variant is a plausible defect of the anchored code; the run *)
(* must end with the named invariant violated (non-vacuity of the monitor):*)
(*   keyfile       parse cache keyed by file name only                      *)
(*   nocopy        cached IR handed out without copying (passes mutate it) *)
(*   setorder      error groups emitted in hash-seed-dependent set order   *)
(*   continue      process_ir keeps running passes after an error           *)
(*   dropdeferred  deferred synthetic errors are forgotten                  *)
(*   synthonly     (a compiler bug) a synthetic error with no natural one  *)
(*   percompile    anonymous counter restarts with every compilation        *)
(*                                                                         *)
(* One job is in flight at a time: processes share nothing but the         *)
(* read-only file system, so finer interleavings add no behaviour.         *)
(***************************************************************************)
EXTENDS Pipeline, Json

CONSTANTS Variant, MaxCompiles, Gen, ChoiceSet, Procs, Seeds

NP == NPass

(* Abstract source texts: what the stages would find in them.              *)
(*  lex/parse: number of error groups; anon: anonymous `bits`; imports;    *)
(*  userAt: pass that reports a natural error (0 none); synthAt: passes    *)
(*  that report an error on a synthetic node; be: back-end error groups.   *)
T(lex, parse, anon, imports, userAt, synthAt, be) ==
  [lex |-> lex, parse |-> parse, anon |-> anon, imports |-> imports,
   userAt |-> userAt, synthAt |-> synthAt, be |-> be]

TextSem ==
  [tPre  |-> T(0, 0, 0, <<>>, 0, {}, 0),
   tA    |-> T(0, 0, 1, <<Prelude, "s">>, 0, {}, 0),          \* accepted, 1 anonymous bits, imports s
   tS1   |-> T(0, 0, 1, <<Prelude>>, 0, {}, 0),               \* shared import, 1 anonymous bits
   tS2   |-> T(0, 0, 2, <<Prelude>>, 3, {}, 0),               \* same name, other text: dependency cycle
   tB    |-> T(0, 1, 0, <<>>, 0, {}, 0),                      \* syntax error
   tC    |-> T(0, 0, 0, <<Prelude, "s", "missing", "s">>, 0, {}, 0),  \* missing + duplicate import
   tD    |-> T(0, 0, 2, <<Prelude, "s">>, 3, {6}, 0),         \* cycle; also a synthetic error later
   tE    |-> T(0, 0, 0, <<Prelude>>, 0, {6}, 0),              \* synthetic error only (compiler bug)
   tF    |-> T(0, 0, 0, <<Prelude, "f">>, 7, {6}, 1),         \* self import; synthetic then natural
   tG    |-> T(1, 0, 0, <<>>, 0, {}, 0),                      \* lexical error
   tH    |-> T(0, 0, 0, <<Prelude>>, 0, {}, 1),               \* accepted by front end, back-end error
   tN    |-> T(0, 0, 0, <<Prelude, "s">>, 2, {}, 0),          \* ambiguous name: symbol resolution error
   tK    |-> T(0, 0, 0, <<Prelude>>, 10, {}, 0),              \* attribute errors (messages that list sets of names)
   \* two disjoint import cycles below one main file: the diagnostics list both (in an order that must not depend on hashing)
   tW    |-> T(0, 0, 0, <<Prelude, "x1", "y1">>, 3, {}, 0),
   tX1   |-> T(0, 0, 0, <<Prelude, "x2">>, 3, {}, 0),
   tX2   |-> T(0, 0, 0, <<Prelude, "x1">>, 3, {}, 0),
   tY1   |-> T(0, 0, 0, <<Prelude, "y2">>, 3, {}, 0),
   tY2   |-> T(0, 0, 0, <<Prelude, "y1">>, 3, {}, 0)]

PreludeText == "tPre"

(* File system: directory -> file -> text.  d3 repeats d1's `s` verbatim;  *)
(* d2 has a *different* text under the same name.                           *)
FS ==
  [d1 |-> [a |-> "tA", s |-> "tS1", b |-> "tB", c |-> "tC", d |-> "tD", e |-> "tE", f |-> "tF", g |-> "tG", h |-> "tH", n |-> "tN", k |-> "tK",
          w |-> "tW", x1 |-> "tX1", x2 |-> "tX2", y1 |-> "tY1", y2 |-> "tY2"],
   d2 |-> [s |-> "tS2"],
   d3 |-> [s |-> "tS1", a |-> "tA"]]

FileNames == {"a", "s", "b", "c", "d", "e", "f", "g", "h", "n", "k", "w", "x1", "x2", "y1", "y2", "missing"}

Has(d, f) == f \in DOMAIN FS[d]
RECURSIVE Resolve(_, _)
(* doc/language-reference.md "Imports": directories are searched in order *)
Resolve(dirs, f) ==
  IF dirs = <<>> THEN "none"
  ELSE IF Has(Head(dirs), f) THEN FS[Head(dirs)][f] ELSE Resolve(Tail(dirs), f)
View(dirs) == [f \in FileNames |-> Resolve(dirs, f)]

C(main, dirs, mode) == [main |-> main, dirs |-> dirs, mode |-> mode]
DeepChoices ==
  {C("a", <<"d1">>, "inproc"), C("a", <<"d3", "d1">>, "split"), C("a", <<"d2", "d1">>, "inproc"),
   C("d", <<"d2", "d1">>, "inproc")}
(* generator sets: schedules to replay in-process ("gen"), fresh processes ("cli") *)
GenChoices == DeepChoices \cup {C("b", <<"d1">>, "inproc"), C("n", <<"d1">>, "inproc"), C("k", <<"d1">>, "inproc")}
CliMains == {"a", "b", "c", "d", "f", "g", "h", "n", "s", "k", "w"}
CliChoices ==
  {C(m, <<"d1">>, mode) : m \in CliMains, mode \in {"inproc", "split"}}
  \cup {C("a", dirs, "inproc") : dirs \in {<<"d1", "d3">>, <<"d3", "d1">>, <<"d2", "d1">>}}
  \cup {C("d", <<"d2", "d1">>, mode) : mode \in {"inproc", "split"}}
Choices ==
  IF ChoiceSet = "deep" THEN DeepChoices
  ELSE IF ChoiceSet = "gen" THEN GenChoices
  ELSE IF ChoiceSet = "cli" THEN CliChoices ELSE
  {C("a", <<"d1">>, "inproc"), C("a", <<"d1", "d3">>, "inproc"), C("a", <<"d3", "d1">>, "split"),
   C("a", <<"d2", "d1">>, "inproc"),                      \* same names, different text of s
   C("b", <<"d1">>, "inproc"), C("c", <<"d1">>, "inproc"), C("d", <<"d1">>, "inproc"),
   C("d", <<"d2", "d1">>, "inproc"),                      \* two cycles (d and its import s)
   C("f", <<"d1">>, "front"), C("g", <<"d1">>, "inproc"), C("h", <<"d1">>, "split"), C("n", <<"d1">>, "inproc"),
   C("s", <<"d1">>, "front")}
  \cup (IF Variant \in {"synthonly", "dropdeferred"} THEN {C("e", <<"d1">>, "inproc")} ELSE {})

VARIABLES proc,    \* Procs -> process state of Pipeline.tla (the monitor's view)
          impl,    \* Procs -> what the abstract implementation keeps for itself
          log,     \* finished compilations (input, ids, raw, norm, fresh)
          blamed   \* clauses any step violated so far
vars == <<proc, impl, log, blamed>>

NoImpl == [dirs |-> <<>>, input |-> "", cache |-> EmptyFn, mods |-> <<>>, counter |-> 0, ser |-> FALSE]

ImplKey(text, file) == IF Variant = "keyfile" THEN <<"", file>> ELSE <<text, file>>

Init ==
  /\ proc = [p \in Procs |-> DeadProc]
  /\ impl = [p \in Procs |-> NoImpl]
  /\ log = <<>>
  /\ blamed = {}

Busy == \E p \in Procs : proc[p].job.ph # "idle"
Started == Len(log) + (IF Busy THEN 1 ELSE 0)

---------------------------------------------------------------------------
(* what the passes and the back end find, as a function of the modules     *)

OddSeed(p) == proc[p].seed \in {"1", "3"}

SynthId(t, k) == "synthetic|" \o t \o "|" \o ToString(k)
UserId(t, k) == "natural|" \o t \o "|" \o ToString(k)
SynthIds == {SynthId(t, k) : t \in DOMAIN TextSem, k \in 1..NP}

RECURSIVE GroupsAt(_, _)
GroupsAt(mods, k) ==
  IF mods = <<>> THEN <<>>
  ELSE LET m == Head(mods)
           sem == TextSem[m.text]
       IN (IF k \in sem.synthAt THEN << <<TRUE, SynthId(m.text, k)>> >> ELSE <<>>)
          \o (IF sem.userAt = k THEN << <<FALSE, UserId(m.text, k)>> >> ELSE <<>>)
          \o GroupsAt(Tail(mods), k)

Reverse(s) == [i \in DOMAIN s |-> s[Len(s) + 1 - i]]

PassGroups(p, k) ==
  LET g == GroupsAt(impl[p].mods, k)
  IN IF Variant = "setorder" /\ OddSeed(p) THEN Reverse(g) ELSE g

RECURSIVE NGroups(_, _)
NGroups(n, tag) == IF n = 0 THEN <<>> ELSE Append(NGroups(n - 1, tag), <<FALSE, tag \o ToString(n)>>)

(* the reported message list: one message per group, at 1:1 of the main    *)
(* file, flagged synthetic exactly when the group is a deferred one        *)
MsgFor(p, id) ==
  IF id = AnyId /\ proc[p].job.unread # {}
  THEN [file |-> CHOOSE f \in proc[p].job.unread : TRUE, l1 |-> 1, c1 |-> 1, l2 |-> 1, c2 |-> 1,
        syn |-> FALSE, sev |-> "error"]
  ELSE [file |-> proc[p].job.main, l1 |-> 1, c1 |-> 1, l2 |-> 1, c2 |-> 2,
        syn |-> (id \in SynthIds), sev |-> "error"]
ErrorsFor(p, ids) == [i \in DOMAIN ids |-> <<MsgFor(p, ids[i])>>]

Out(p, kind, ids) ==
  [kind |-> kind, errs |-> ids,
   mods |-> [i \in DOMAIN impl[p].mods |->
               [file |-> impl[p].mods[i].file, text |-> impl[p].mods[i].text, ids |-> impl[p].mods[i].ids]],
   corrupt |-> \E i \in DOMAIN impl[p].mods : impl[p].mods[i].processed]

Strip(out) ==
  [out EXCEPT !.mods = [i \in DOMAIN out.mods |->
                          [file |-> out.mods[i].file, text |-> out.mods[i].text, n |-> Len(out.mods[i].ids)]]]

---------------------------------------------------------------------------
(* the abstract implementation: next event of the job of p, and the        *)
(* implementation-private state after it                                   *)

Seq1(from, n) == [i \in 1..n |-> from + i]

ImplNext(p) ==
  LET ps == proc[p]
      j == ps.job
      im == impl[p]
      none == [e |-> [ev |-> "none"], im |-> im]
  IN
  IF j.ph = "idle" THEN none
  ELSE IF j.ph = "load" /\ j.cur.st = "none" THEN
    LET f == Head(j.queue) IN
    IF f = Prelude THEN [e |-> [ev |-> "Mod", file |-> Prelude, th |-> PreludeText], im |-> im]
    ELSE LET t == Resolve(im.dirs, f) IN
         [e |-> [ev |-> "Read", file |-> f, ok |-> (t # "none"), th |-> t], im |-> im]
  ELSE IF j.ph = "load" /\ j.cur.st = "read" THEN
    [e |-> [ev |-> "Mod", file |-> j.cur.file, th |-> j.cur.text], im |-> im]
  ELSE IF j.ph = "load" /\ j.cur.st = "lookup" THEN
    LET key == ImplKey(j.cur.text, j.cur.file) IN
    IF key \in DOMAIN im.cache THEN
      LET c == im.cache[key] IN
      [e |-> [ev |-> "ModEnd", groups |-> <<>>, ids |-> c.ids, imports |-> TextSem[c.text].imports],
       im |-> [im EXCEPT !.mods = Append(@, [file |-> j.cur.file, text |-> c.text, ids |-> c.ids,
                                               processed |-> c.processed, key |-> key, hit |-> TRUE])]]
    ELSE [e |-> [ev |-> "Tok", groups |-> NGroups(TextSem[j.cur.text].lex, "lex")], im |-> im]
  ELSE IF j.ph = "load" /\ j.cur.st = "par" THEN
    [e |-> [ev |-> "Par", groups |-> IF TextSem[j.cur.text].parse > 0 THEN << <<FALSE, AnyId>> >> ELSE <<>>], im |-> im]
  ELSE IF j.ph = "load" /\ j.cur.st = "bld" THEN
    LET n == TextSem[j.cur.text].anon
        base == IF Variant = "percompile" THEN im.counter ELSE ps.counter
        ids == Seq1(base, n)
        key == ImplKey(j.cur.text, j.cur.file)
    IN [e |-> [ev |-> "Bld", ids |-> ids],
        im |-> [im EXCEPT !.cache = (key :> [text |-> j.cur.text, ids |-> ids, processed |-> FALSE]) @@ @,
                          !.counter = @ + n]]
  ELSE IF j.ph = "load" /\ j.cur.st = "built" THEN
    [e |-> [ev |-> "ModEnd", groups |-> <<>>, ids |-> j.cur.ids, imports |-> TextSem[j.cur.text].imports],
     im |-> [im EXCEPT !.mods = Append(@, [file |-> j.cur.file, text |-> j.cur.text, ids |-> j.cur.ids,
                                             processed |-> FALSE, key |-> ImplKey(j.cur.text, j.cur.file), hit |-> FALSE])]]
  ELSE IF j.ph = "err" /\ j.cur.st # "none" THEN
    [e |-> [ev |-> "ModEnd", groups |-> [i \in DOMAIN j.errs |-> <<FALSE, j.errs[i]>>], ids |-> <<>>, imports |-> <<>>], im |-> im]
  ELSE IF j.ph = "passes" THEN
    (* the first pass mutates the IR it was given; without a copy that is the cached one *)
    LET marked == IF Variant = "nocopy" /\ j.k = 1
                  THEN [key \in DOMAIN im.cache |->
                          IF \E i \in DOMAIN im.mods : im.mods[i].key = key /\ im.mods[i].hit
                          THEN [im.cache[key] EXCEPT !.processed = TRUE] ELSE im.cache[key]]
                  ELSE im.cache
    IN [e |-> [ev |-> "Pass", k |-> j.k, groups |-> PassGroups(p, j.k)], im |-> [im EXCEPT !.cache = marked]]
  ELSE IF j.ph = "err" /\ ~j.fe THEN
    IF Variant = "continue" /\ j.k \in 1..(NP - 1) THEN
      [e |-> [ev |-> "Pass", k |-> j.k + 1, groups |-> PassGroups(p, j.k + 1)], im |-> im]
    ELSE IF Variant = "dropdeferred" /\ j.k = NP + 1 THEN
      [e |-> [ev |-> "Front", kind |-> "ir", groups |-> <<>>], im |-> im]
    ELSE [e |-> [ev |-> "Front", kind |-> "errors", groups |-> j.errs], im |-> im]
  ELSE IF j.ph = "ir" /\ ~j.fe THEN
    [e |-> [ev |-> "Front", kind |-> "ir", groups |-> <<>>], im |-> im]
  ELSE IF j.ph = "ir" /\ j.mode = "split" /\ ~im.ser THEN
    [e |-> [ev |-> "Serialize"], im |-> [im EXCEPT !.ser = TRUE]]
  ELSE IF j.ph = "ser" THEN
    [e |-> [ev |-> "Deserialize"], im |-> im]
  ELSE IF j.ph = "ir" /\ j.mode # "front" THEN
    [e |-> [ev |-> "Back", groups |-> NGroups(TextSem[im.mods[1].text].be, "be")], im |-> im]
  ELSE (* "header", "ir" in front-only mode, or "err" after the front end returned *)
    LET kind == IF j.ph = "err" THEN "errors" ELSE "done"
        ids == IF j.ph = "err" THEN j.errs ELSE <<>>
    IN [e |-> [ev |-> "Report", kind |-> kind, groups |-> ids,
               errors |-> ErrorsFor(p, ids), lens |-> << <<j.main, <<10, 10>>>> >>,
               plain |-> "ok", colour |-> "ok", out |-> Out(p, kind, ids)],
        im |-> im]

LogEntry(p, e) ==
  [input |-> impl[p].input,
   ids |-> [i \in DOMAIN e.out.mods |-> e.out.mods[i].ids],
   raw |-> e.out,
   norm |-> Strip(e.out),
   fresh |-> proc[p].ncompiles = 1,
   p |-> p, seed |-> proc[p].seed, mode |-> proc[p].job.mode, main |-> proc[p].job.main, dirs |-> impl[p].dirs]

Emit(p, e, im2) ==
  /\ blamed' = blamed \cup Blame(proc[p], e)
  /\ proc' = [proc EXCEPT ![p] = Do(@, e)]
  /\ impl' = [impl EXCEPT ![p] = im2]
  /\ log' = IF e.ev = "Report" THEN Append(log, LogEntry(p, e)) ELSE log

ProcStart(p, s) ==
  /\ ~proc[p].alive /\ ~Busy
  /\ Started < MaxCompiles
  /\ Emit(p, [ev |-> "Start", seed |-> s], [NoImpl EXCEPT !.cache = EmptyFn])

ProcExit(p) ==
  /\ proc[p].alive /\ ~Busy
  /\ Emit(p, [ev |-> "Exit"], NoImpl)

BeginCompile(p, c) ==
  /\ proc[p].alive /\ ~Busy
  /\ Started < MaxCompiles
  /\ Emit(p, [ev |-> "Compile", tid |-> "", main |-> c.main, mode |-> c.mode, key |-> ""],
          [impl[p] EXCEPT !.dirs = c.dirs, !.input = [main |-> c.main, view |-> View(c.dirs), mode |-> c.mode],
                          !.mods = <<>>, !.counter = 0, !.ser = FALSE])

Step(p) ==
  /\ proc[p].job.ph # "idle"
  /\ LET n == ImplNext(p) IN n.e.ev # "none" /\ Emit(p, n.e, n.im)

Next ==
  \E p \in Procs :
     \/ \E s \in Seeds : ProcStart(p, s)
     \/ ProcExit(p)
     \/ \E c \in Choices : BeginCompile(p, c)
     \/ Step(p)

Spec == Init /\ [][Next]_vars

(* The invariants over the log depend only on the *set* of entries (without the  *)
(* bookkeeping fields used by the generator), the future only on proc/impl and   *)
(* the number of finished compilations: a sound state-space reduction.           *)
Core(x) == [input |-> x.input, ids |-> x.ids, raw |-> x.raw, norm |-> x.norm, fresh |-> x.fresh, mode |-> x.mode]
MCView == <<proc, impl, blamed, {Core(log[i]) : i \in DOMAIN log}, Len(log)>>

---------------------------------------------------------------------------
(* Invariants *)

Conforms == blamed = {}

(* C17.  The mode (split or not, front only) is part of `input' only       *)
(* because a front-only run has no header; split vs in-process is compared *)
(* by SplitEqualsInProc.                                                    *)
Pure == PureLog(log)

SameSources(a, b) == a.input.main = b.input.main /\ a.input.view = b.input.view
SplitEqualsInProc ==
  \A i \in DOMAIN log : \A k \in DOMAIN log :
     (SameSources(log[i], log[k]) /\ {log[i].mode, log[k].mode} = {"split", "inproc"})
        => log[i].norm = log[k].norm /\ (log[i].ids = log[k].ids => log[i].raw = log[k].raw)

(* reserved anonymous identifiers never collide inside one compilation     *)
AnonDistinct ==
  \A i \in DOMAIN log :
     LET ids == log[i].ids IN
     \A a \in DOMAIN ids : \A b \in DOMAIN ids :
        \A x \in DOMAIN ids[a] : \A y \in DOMAIN ids[b] :
           (a # b \/ x # y) => ids[a][x] # ids[b][y]

(* the counter counts exactly the identifiers handed out, all distinct     *)
CacheCounter ==
  \A p \in Procs :
     LET c == proc[p].cache
         all == UNION {Range(c[k].ids) : k \in DOMAIN c}
     IN Cardinality(all) = proc[p].counter /\ all = 1..proc[p].counter

(* Total, design level: an in-flight job always has a next step and ends   *)
(* in Report (done xor errors); it never hangs in an intermediate phase.   *)
NoStuck == \A p \in Procs : proc[p].job.ph # "idle" => ImplNext(p).e.ev # "none"

TypeOK ==
  \A p \in Procs : proc[p].job.ph \in {"idle", "load", "passes", "ir", "ser", "header", "err"}
                   /\ proc[p].job.k \in 0..(NP + 1)

---------------------------------------------------------------------------
(* Generator (C17): with Gen = TRUE every schedule of MaxCompiles finished *)
(* compilations is printed once, with what the specification predicts for  *)
(* each compilation (anonymous numbering, which outputs must coincide).    *)

Schedule ==
  [n |-> Len(log),
   steps |-> [i \in DOMAIN log |->
                [p |-> log[i].p, seed |-> log[i].seed, main |-> log[i].main, dirs |-> log[i].dirs,
                 view |-> log[i].input.view,
                 mode |-> log[i].mode, fresh |-> log[i].fresh, ids |-> log[i].ids,
                 kind |-> log[i].raw.kind]]]

(* sampling restriction for the quick fresh-process family: the two-program path *)
(* is replayed under one hash seed only                                           *)
SplitOnlySeedZero == \A p \in Procs : proc[p].job.mode = "split" => proc[p].seed = "0"

(* sampling restriction for the quick in-process family: no process restarts *)
NoRestart == \A p \in Procs : proc[p].alive \/ Len(log) = 0

GenPrint == (Gen /\ ~Busy /\ Len(log) = MaxCompiles) => PrintT(ToJson(Schedule))

=============================================================================
