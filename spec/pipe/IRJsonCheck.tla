----------------------------- MODULE IRJsonCheck -----------------------------
(***************************************************************************)
(* Binds what the REAL serializer did to IRJson.tla (property C18).        *)
(*                                                                         *)
(* Records (ndjson, CASES_FILE), produced by harness/pipe_ir.py + c18.py:  *)
(*  kind "tree": one IR module of one compilation                           *)
(*      t1  the in-memory IR projected by reflection to an abstract tree   *)
(*      j1  IrDataSerializer(ir).to_json(), parsed, as a tagged JSON value *)
(*      t2  from_json(to_json(ir)) projected again                         *)
(*    checked: WellFormed(t1) against the exported class table;            *)
(*             Renders(t1, j1)  -- the text written is a JSON form of the  *)
(*                                 IR: every set field, nothing else;      *)
(*             t2 = t1          -- reading it back gives an equal IR: every*)
(*                                 node, set/unset, digit strings, flags   *)
(*  kind "top": one compilation                                             *)
(*      hashes of to_json(ir), to_json(from_json(to_json(ir))), of the     *)
(*      header generated from the in-memory IR and from the re-read IR,    *)
(*      module counts                                                       *)
(*    checked: serializing again gives the same text; identical headers    *)
(*  kind "cli": emboss_front_end --output-file | emboss_codegen_cpp        *)
(*      --input-file versus embossc, as subprocesses                        *)
(*    checked: same exit status, identical header, identical diagnostics   *)
(* Mismatches are printed (one JSON line each, with the path of the first  *)
(* difference) and counted.                                                 *)
(***************************************************************************)
EXTENDS Naturals, Sequences, FiniteSets, TLC, Json, IOUtils

SchemaFile == JsonDeserialize(IOEnv.SCHEMA_FILE)
Cases == ndJsonDeserialize(IOEnv.CASES_FILE)

I == INSTANCE IRJson WITH Schema <- SchemaFile, JsonVariant <- "doc"

VARIABLES i, bad
vars == <<i, bad>>

TreeFailing(c) ==
  (IF I!WellFormed(c.t1) THEN {} ELSE {"WellFormed"})
  \cup (IF I!WellFormed(c.t1) /\ ~I!Renders(c.t1, c.j1) THEN {"ToJson-renders-the-IR"} ELSE {})
  \cup (IF c.t2 = c.t1 THEN {} ELSE {"RoundTrip"})

TopFailing(c) ==
  (IF c.json1 = c.json2 THEN {} ELSE {"Idempotent"})
  \cup (IF c.header1 = c.header2 THEN {} ELSE {"SplitEqualsInProc-header"})
  \cup (IF c.nmod1 = c.nmod2 /\ c.nmod1 = c.nmodj THEN {} ELSE {"RoundTrip-module-count"})
  \cup (IF c.extra = <<>> THEN {} ELSE {"ToJson-unknown-top-level-members"})
  \cup (IF c.exc = "" THEN {} ELSE {"Total-exception"})

CliFailing(c) ==
  (IF c.exit_split = c.exit_embossc THEN {} ELSE {"SplitEqualsInProc-exit"})
  \cup (IF c.header_split = c.header_embossc THEN {} ELSE {"SplitEqualsInProc-header"})
  \cup (IF c.stderr_split = c.stderr_embossc THEN {} ELSE {"SplitEqualsInProc-diagnostics"})
  \cup (IF c.tb = "" THEN {} ELSE {"Total-exception"})

Failing(c) ==
  CASE c.kind = "tree" -> TreeFailing(c)
    [] c.kind = "top"  -> TopFailing(c)
    [] c.kind = "cli"  -> CliFailing(c)
    [] OTHER -> {"unknown-record"}

Where(c) ==
  IF c.kind = "tree" THEN
     IF ~I!WellFormed(c.t1) THEN <<"t1">>
     ELSE IF ~I!Renders(c.t1, c.j1) THEN I!Diff(c.t1, c.j1, "")
     ELSE IF c.t2 # c.t1 THEN I!TreeDiff(c.t1, c.t2, "")
     ELSE <<>>
  ELSE IF c.kind = "top" THEN <<c.exc>>
  ELSE IF c.kind = "cli" THEN <<c.tb>>
  ELSE <<>>

Init == i = 1 /\ bad = 0

Step ==
  /\ i <= Len(Cases)
  /\ LET c == Cases[i]
         f == Failing(c)
     IN /\ (f # {} => PrintT(ToJson([id |-> c.id, kind |-> c.kind, clauses |-> f, at |-> Where(c)])))
        /\ bad' = bad + (IF f = {} THEN 0 ELSE 1)
  /\ i' = i + 1

Done ==
  /\ i = Len(Cases) + 1
  /\ PrintT(ToJson([summary |-> TRUE, cases |-> Len(Cases), failing |-> bad]))
  /\ i' = i + 1 /\ bad' = bad

Next == Step \/ Done
Spec == Init /\ [][Next]_vars
=============================================================================
