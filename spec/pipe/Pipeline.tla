------------------------------ MODULE Pipeline ------------------------------
(***************************************************************************)
(* The Emboss compiler as a process (properties C16, C17; C18's split      *)
(* pipeline).                                                               *)
(*                                                                         *)
(* Written from the property statements and from doc/compiler-design.md    *)
(* ("Overall Design", "Front End vs Back End(s)", "Error Handling",         *)
(* "Errors on Synthetic Nodes"), doc/language-reference.md ("Imports") and *)
(* the docstrings of glue.parse_emboss_file / process_ir -- not from the   *)
(* code paths.                                                              *)
(*                                                                         *)
(* One OS process p has                                                     *)
(*   cache    parse cache: (source text, file name) -> the module IR that  *)
(*            was built for it, of which only the reserved anonymous       *)
(*            identifier numbers matter here                                *)
(*   counter  the process-wide counter behind                               *)
(*            emboss_reserved_anonymous_field_<n>                           *)
(*   seed     the interpreter's hash seed (nothing may depend on it)       *)
(*   job      the compilation in flight                                     *)
(*                                                                         *)
(* The specification is a *monitor*: every observable step of a compiler   *)
(* process is an event record e; Blame(ps, e) is the set of clauses of the *)
(* properties that e violates in process state ps (empty = the step is a   *)
(* step of this specification) and Do(ps, e) is the successor state.  The  *)
(* same two operators are used                                              *)
(*   - by PipelineMC: an abstract implementation (ImplEvents) emits events *)
(*     over small constants, exhaustively; Conforms/Pure/... are           *)
(*     invariants; named bug variants of the abstract implementation must  *)
(*     be caught;                                                           *)
(*   - by PipelineTrace: events recorded from the real compiler by harness *)
(*     probes are replayed, each step's Blame is evaluated.                *)
(*                                                                         *)
(* Event kinds (field lists in Blame/Do below):                            *)
(*  Start Exit Compile Read Mod Tok Par Bld ModEnd Pass Front Serialize    *)
(*  Deserialize Back Report Exception                                      *)
(* An error group is <<synthetic?, id>>; ids are opaque.                    *)
(***************************************************************************)
EXTENDS Naturals, Sequences, FiniteSets, TLC

CONSTANTS NPass,      \* number of IR passes of the front end (twelve)
          Prelude     \* the file name under which the built-in prelude appears

AnyId == "?"            \* wildcard id: "some error group the monitor cannot name"

---------------------------------------------------------------------------
(* Small helpers *)

EmptyFn == [x \in {} |-> x]
Range(s) == {s[i] : i \in DOMAIN s}
Ids(groups) == [i \in DOMAIN groups |-> groups[i][2]]
UserGroups(groups) == SelectSeq(groups, LAMBDA g : ~g[1])
SynthGroups(groups) == SelectSeq(groups, LAMBDA g : g[1])

RECURSIVE AppendNew(_, _, _)
(* import loop: append, in order, the imports not requested before *)
AppendNew(queue, seen, imports) ==
  IF imports = <<>> THEN [queue |-> queue, seen |-> seen]
  ELSE LET f == Head(imports) IN
       IF f \in seen THEN AppendNew(queue, seen, Tail(imports))
       ELSE AppendNew(Append(queue, f), seen \cup {f}, Tail(imports))

(* errs "matches" a reported id list: equal length, equal ids except wildcards *)
Matches(required, reported) ==
  /\ Len(required) = Len(reported)
  /\ \A i \in DOMAIN required : required[i] = AnyId \/ required[i] = reported[i]

Consecutive(ids, from) == \A i \in DOMAIN ids : ids[i] = from + i
(* the order in which a module lists its anonymous identifiers is not specified *)
SameIds(a, b) == Len(a) = Len(b) /\ Range(a) = Range(b)

---------------------------------------------------------------------------
(* Process and job state *)

NoCur == [st |-> "none", file |-> "", text |-> "", ids |-> <<>>, hit |-> FALSE]

IdleJob == [ph |-> "idle", tid |-> "", main |-> "", mode |-> "", key |-> "",
            queue |-> <<>>, seen |-> {}, readok |-> {}, unread |-> {},
            cur |-> NoCur, mods |-> <<>>, k |-> 0, fe |-> FALSE,
            deferred |-> <<>>, errs |-> <<>>, at |-> ""]

DeadProc == [alive |-> FALSE, seed |-> "", cache |-> EmptyFn, counter |-> 0,
             ncompiles |-> 0, job |-> IdleJob]

(* The parse cache is keyed by source text AND file name (the IR embeds the *)
(* file name; the same file name may carry different text in another run). *)
Key(cur) == <<cur.text, cur.file>>

AllIds(mods) == UNION {Range(mods[i].ids) : i \in DOMAIN mods}
NumIds(mods) ==
  LET RECURSIVE S(_)
      S(i) == IF i = 0 THEN 0 ELSE Len(mods[i].ids) + S(i - 1)
  IN S(Len(mods))

---------------------------------------------------------------------------
(* ErrorsWellFormed: every message names a file the run knows, a position  *)
(* inside it, start <= end, and no synthetic ("[compiler bug]") location.  *)
(* msg = [file, l1, c1, l2, c2, syn, sev]; lens = <<<<file, <<len...>>>>>> *)

LensOf(lens, f) ==
  LET S == {i \in DOMAIN lens : lens[i][1] = f}
  IN IF S = {} THEN <<"missing">> ELSE lens[CHOOSE i \in S : TRUE][2]
HasLens(lens, f) == \E i \in DOMAIN lens : lens[i][1] = f

PosInside(L, l, c) ==
  (* 1-based; the position one past the last character of a line, and the   *)
  (* position (lines+1, 1) one past the end of the text, are inside.         *)
  /\ l >= 1 /\ c >= 1
  /\ l <= Len(L) + 1
  /\ c <= (IF l <= Len(L) THEN L[l] ELSE 0) + 1

MsgBlame(j, lens, m) ==
  LET known == j.seen \cup {Prelude}
      readable == j.readok \cup {Prelude}
      \* which diagnostic it is (first words of the message, digits removed) - only used to name the
      \* finding precisely: "WF.synthetic-location|Potential range of expression"
      what == IF "what" \in DOMAIN m /\ m.what # "" THEN "|" \o m.what ELSE ""
  IN (IF m.file \notin known THEN {"WF.file-known" \o what} ELSE {})
     \cup (IF m.syn THEN {"WF.synthetic-location" \o what} ELSE {})
     \cup (IF m.file \in known /\ ~m.syn THEN
             IF m.file \in readable THEN
               IF ~HasLens(lens, m.file) THEN {"WF.file-known"}
               ELSE LET L == LensOf(lens, m.file) IN
                    (IF PosInside(L, m.l1, m.c1) /\ PosInside(L, m.l2, m.c2)
                     THEN {} ELSE {"WF.position-inside-file" \o what})
                    \cup (IF m.l1 < m.l2 \/ (m.l1 = m.l2 /\ m.c1 <= m.c2)
                          THEN {} ELSE {"WF.start-after-end"})
             ELSE (* a file that could not be read has only the position 1:1 *)
               IF m.l1 = 1 /\ m.c1 = 1 /\ m.l2 = 1 /\ m.c2 = 1 THEN {}
               ELSE {"WF.position-inside-file" \o what}
           ELSE {})

ErrorsBlame(j, lens, errors) ==
  UNION {UNION {MsgBlame(j, lens, errors[g][i]) : i \in DOMAIN errors[g]} : g \in DOMAIN errors}
  \cup (IF \E g \in DOMAIN errors : errors[g] = <<>> THEN {"Total.empty-error-group"} ELSE {})

---------------------------------------------------------------------------
(* Blame: which clauses does event e violate in process state ps?          *)

InJob(ps) == ps.alive /\ ps.job.ph \notin {"idle"}

BlameStart(ps, e) == IF ps.alive THEN {"Start.already-running"} ELSE {}
BlameExit(ps, e) == IF ps.alive /\ ps.job.ph = "idle" THEN {} ELSE {"Exit.job-in-flight"}
BlameCompile(ps, e) ==
  (IF ps.alive THEN {} ELSE {"Compile.no-process"})
  \cup (IF ps.job.ph = "idle" THEN {} ELSE {"Total.previous-compile-never-reported"})

BlameRead(ps, e) ==
  LET j == ps.job IN
  IF j.ph # "load" \/ j.cur.st # "none" THEN {"PassOrder.read-outside-import-loop"}
  ELSE IF j.queue = <<>> \/ Head(j.queue) # e.file THEN {"ImportLoop.read-order"}
  ELSE IF e.file = Prelude THEN {"ImportLoop.prelude-is-built-in"}
  ELSE {}

BlameMod(ps, e) ==
  LET j == ps.job IN
  IF j.ph # "load" THEN {"PassOrder.parse-outside-import-loop"}
  ELSE IF e.file = Prelude THEN
         IF j.cur.st = "none" /\ j.queue # <<>> /\ Head(j.queue) = Prelude THEN {}
         ELSE {"ImportLoop.read-order"}
  ELSE IF j.cur.st = "read" /\ j.cur.file = e.file /\ j.cur.text = e.th THEN {}
  ELSE {"ImportLoop.parses-what-was-read"}

(* cache lookup: a hit exactly when this (text, file) was built before in   *)
(* this process                                                              *)
BlameHit(ps) == IF Key(ps.job.cur) \in DOMAIN ps.cache THEN {} ELSE {"Cache.hit-without-entry"}
BlameMiss(ps) == IF Key(ps.job.cur) \notin DOMAIN ps.cache THEN {} ELSE {"Cache.miss-despite-entry"}

BlameStage(ps, e, st) ==
  IF ps.job.ph = "load" /\ ps.job.cur.st = st THEN {} ELSE {"PassOrder.front-stage-order"}

BlameBld(ps, e) ==
  BlameStage(ps, e, "bld")
  \cup (IF Consecutive(e.ids, ps.counter) THEN {} ELSE {"Counter.anonymous-numbering"})

BlameModEnd(ps, e) ==
  LET j == ps.job IN
  IF j.ph = "err" THEN   \* tokenizer / parser reported: the module fails with those errors
    IF Matches(j.errs, Ids(e.groups)) THEN {} ELSE {"EarlyExit.module-errors"}
  ELSE IF j.ph # "load" \/ j.cur.st # "built" THEN {"PassOrder.front-stage-order"}
  ELSE (IF e.groups # <<>> THEN {"EarlyExit.module-errors"} ELSE {})
       \cup (IF SameIds(e.ids, j.cur.ids) THEN {}
             ELSE IF j.cur.hit THEN {"Cache.hit-returns-cached-module"}
             ELSE {"Counter.anonymous-numbering"})

BlamePass(ps, e) ==
  LET j == ps.job IN
  IF j.ph = "err" THEN {"EarlyExit.pass-after-errors"}
  ELSE IF j.ph # "passes" THEN {"PassOrder.pass-outside-processing"}
  ELSE IF j.k # e.k THEN {"PassOrder.pass-out-of-order"}
  ELSE {}

BlameFront(ps, e) ==
  LET j == ps.job IN
  IF j.fe THEN {"PassOrder.front-end-returned-twice"}
  ELSE IF j.ph = "err" THEN
    (IF e.kind = "errors" THEN {} ELSE {"EarlyExit.errors-dropped"})
    \cup (IF e.kind = "errors" /\ ~Matches(j.errs, e.groups) THEN {"EarlyExit.reported-errors-differ"} ELSE {})
  ELSE IF j.ph = "ir" THEN
    (IF e.kind = "ir" THEN {} ELSE {"Total.errors-from-nowhere"})
  ELSE {"PassOrder.front-end-ended-early"}

BlameSer(ps, e) == IF ps.job.ph = "ir" /\ ps.job.fe /\ ps.job.mode = "split" THEN {} ELSE {"Split.serialize-without-ir"}
BlameDeser(ps, e) == IF ps.job.ph = "ser" THEN {} ELSE {"Split.deserialize-without-json"}

BlameBack(ps, e) ==
  IF ps.job.ph = "ir" /\ ps.job.fe /\ ps.job.mode \notin {"front", "passes"} THEN {} ELSE {"PassOrder.back-end-without-ir"}

BlameReport(ps, e) ==
  LET j == ps.job
      done == IF j.mode \in {"front", "passes"} THEN "ir" ELSE "header"
  IN
  (IF j.ph = "err" THEN
     (IF e.kind = "errors" THEN {} ELSE {"EarlyExit.errors-dropped"})
     \cup (IF e.kind = "errors" /\ ~Matches(j.errs, e.groups) THEN {"EarlyExit.reported-errors-differ"} ELSE {})
   ELSE IF j.ph = done /\ j.fe THEN
     (IF e.kind = "done" THEN {} ELSE {"Total.errors-from-nowhere"})
   ELSE {"Total.reported-before-pipeline-finished"})
  \cup (IF e.kind = "errors" /\ e.errors = <<>> THEN {"Total.errors-empty"} ELSE {})
  \cup (IF e.kind = "done" /\ e.errors # <<>> THEN {"Total.output-and-errors"} ELSE {})
  \cup ErrorsBlame(j, e.lens, e.errors)
  \cup (IF e.plain = "ok" THEN {} ELSE {"Render.plain"})
  \cup (IF e.colour = "ok" THEN {} ELSE {"Render.colour"})

Blame(ps, e) ==
  CASE e.ev = "Start"       -> BlameStart(ps, e)
    [] e.ev = "Exit"        -> BlameExit(ps, e)
    [] e.ev = "Compile"     -> BlameCompile(ps, e)
    [] e.ev = "Read"        -> BlameRead(ps, e)
    [] e.ev = "Mod"         -> BlameMod(ps, e)
    [] e.ev = "Tok"         -> IF ps.job.cur.st = "lookup" THEN BlameMiss(ps) ELSE BlameStage(ps, e, "tok")
    [] e.ev = "Par"         -> BlameStage(ps, e, "par")
    [] e.ev = "Bld"         -> BlameBld(ps, e)
    [] e.ev = "ModEnd"      -> IF ps.job.ph = "load" /\ ps.job.cur.st = "lookup" THEN
                                 LET b == BlameHit(ps) IN
                                 IF b # {} THEN b
                                 ELSE (IF e.groups # <<>> THEN {"EarlyExit.module-errors"} ELSE {})
                                      \cup (IF SameIds(e.ids, ps.cache[Key(ps.job.cur)].ids) THEN {}
                                            ELSE {"Cache.hit-returns-cached-module"})
                               ELSE BlameModEnd(ps, e)
    [] e.ev = "Pass"        -> BlamePass(ps, e)
    [] e.ev = "Front"       -> BlameFront(ps, e)
    [] e.ev = "Serialize"   -> BlameSer(ps, e)
    [] e.ev = "Deserialize" -> BlameDeser(ps, e)
    [] e.ev = "Back"        -> BlameBack(ps, e)
    [] e.ev = "Report"      -> BlameReport(ps, e)
    [] e.ev = "Exception"   -> {"Total.exception"}
    [] e.ev = "Timeout"     -> {"Total.no-termination"}
    [] OTHER                -> {"unknown-event"}

---------------------------------------------------------------------------
(* Do: the successor state (only meaningful when Blame(ps, e) = {})        *)

J(ps, j) == [ps EXCEPT !.job = j]

Fail(j, ids, at) == [j EXCEPT !.ph = "err", !.errs = ids, !.at = at]   \* `at': the stage that reported

DoCompile(ps, e) ==
  IF e.mode = "passes"
  THEN (* only the IR-processing half is driven (scenario replay): an IR is already there *)
       [ps EXCEPT !.ncompiles = @ + 1,
                  !.job = [IdleJob EXCEPT !.ph = "passes", !.k = 1, !.tid = e.tid, !.main = e.main, !.mode = e.mode,
                                          !.key = e.key, !.seen = {e.main}, !.readok = {e.main}]]
  ELSE [ps EXCEPT !.ncompiles = @ + 1,
                  !.job = [IdleJob EXCEPT !.ph = "load", !.tid = e.tid, !.main = e.main, !.mode = e.mode,
                                          !.key = e.key, !.queue = <<e.main>>, !.seen = {e.main}]]

DoRead(ps, e) ==
  LET j == ps.job IN
  IF e.ok THEN J(ps, [j EXCEPT !.queue = Tail(@), !.readok = @ \cup {e.file},
                                !.cur = [NoCur EXCEPT !.st = "read", !.file = e.file, !.text = e.th]])
  ELSE J(ps, [Fail(j, <<AnyId>>, "read") EXCEPT !.queue = Tail(@), !.unread = @ \cup {e.file}])

DoMod(ps, e) ==
  LET j == ps.job IN
  IF e.file = Prelude
  THEN J(ps, [j EXCEPT !.queue = Tail(@),
                        !.cur = [NoCur EXCEPT !.st = "lookup", !.file = e.file, !.text = e.th]])
  ELSE J(ps, [j EXCEPT !.cur.st = "lookup"])

DoMiss(ps) == J(ps, [ps.job EXCEPT !.cur.st = "tok"])
DoHit(ps, e) == J(ps, [ps.job EXCEPT !.cur.st = "built", !.cur.hit = TRUE, !.cur.ids = e.ids])

DoStage(ps, e, next) ==
  (* a front stage that reports anything ends the compilation with exactly that *)
  IF e.groups # <<>> THEN J(ps, Fail(ps.job, Ids(e.groups), IF next = "par" THEN "tokenize" ELSE "parse"))
  ELSE J(ps, [ps.job EXCEPT !.cur.st = next])

DoBld(ps, e) ==
  LET j == ps.job IN
  [ps EXCEPT !.counter = @ + Len(e.ids),
             !.cache = (Key(j.cur) :> [ids |-> e.ids]) @@ @,
             !.job = [j EXCEPT !.cur.st = "built", !.cur.ids = e.ids, !.cur.hit = FALSE]]

DoModEnd(ps, e) ==
  LET j == ps.job IN
  IF j.ph = "err" THEN J(ps, [j EXCEPT !.cur = NoCur])
  ELSE LET q == AppendNew(j.queue, j.seen, e.imports)
           done == q.queue = <<>>
       IN J(ps, [j EXCEPT !.mods = Append(@, [file |-> j.cur.file, text |-> j.cur.text, ids |-> j.cur.ids]),
                          !.queue = q.queue, !.seen = q.seen, !.cur = NoCur,
                          !.ph = IF done THEN "passes" ELSE "load",
                          !.k = IF done THEN 1 ELSE 0])

DoPass(ps, e) ==
  (* doc/compiler-design.md "Error Handling": a stage that returns errors stops   *)
  (* processing; "Errors on Synthetic Nodes": bundles touching a synthetic        *)
  (* location are deferred and shown only if nothing else is reported.            *)
  LET j == ps.job
      user == UserGroups(e.groups)
      def == j.deferred \o Ids(SynthGroups(e.groups))
  IN IF user # <<>> THEN J(ps, Fail(j, Ids(user), "pass" \o ToString(e.k)))
     ELSE IF e.k < NPass THEN J(ps, [j EXCEPT !.k = e.k + 1, !.deferred = def])
     ELSE IF def # <<>> THEN J(ps, [Fail(j, def, "deferred-synthetic") EXCEPT !.k = NPass + 1, !.deferred = def])
     ELSE J(ps, [j EXCEPT !.ph = "ir", !.k = NPass + 1])

DoBack(ps, e) ==
  IF e.groups # <<>> THEN J(ps, Fail(ps.job, Ids(e.groups), "back-end"))
  ELSE J(ps, [ps.job EXCEPT !.ph = "header"])

Do(ps, e) ==
  CASE e.ev = "Start"       -> [DeadProc EXCEPT !.alive = TRUE, !.seed = e.seed]
    [] e.ev = "Exit"        -> DeadProc
    [] e.ev = "Compile"     -> DoCompile(ps, e)
    [] e.ev = "Read"        -> DoRead(ps, e)
    [] e.ev = "Mod"         -> DoMod(ps, e)
    [] e.ev = "Tok"         -> IF ps.job.cur.st = "lookup" THEN DoStage(DoMiss(ps), e, "par") ELSE DoStage(ps, e, "par")
    [] e.ev = "Par"         -> DoStage(ps, e, "bld")
    [] e.ev = "Bld"         -> DoBld(ps, e)
    [] e.ev = "ModEnd"      -> IF ps.job.ph = "load" /\ ps.job.cur.st = "lookup" THEN DoModEnd(DoHit(ps, e), e) ELSE DoModEnd(ps, e)
    [] e.ev = "Pass"        -> DoPass(ps, e)
    [] e.ev = "Front"       -> J(ps, [ps.job EXCEPT !.fe = TRUE])
    [] e.ev = "Serialize"   -> J(ps, [ps.job EXCEPT !.ph = "ser"])
    [] e.ev = "Deserialize" -> J(ps, [ps.job EXCEPT !.ph = "ir"])
    [] e.ev = "Back"        -> DoBack(ps, e)
    [] e.ev = "Report"      -> J(ps, IdleJob)
    [] OTHER                -> J(ps, IdleJob)

---------------------------------------------------------------------------
(* Pure (C17), on a log of finished compilations.  An entry is             *)
(*   [input, ids, raw, norm, fresh]                                         *)
(* input: identity of the set of source files; ids: the anonymous numbers  *)
(* of that compilation; raw: everything observable (IR, header,            *)
(* diagnostics, exit); norm: the same with anonymous numbers replaced by   *)
(* their rank; fresh: first compilation of a new process.                  *)

PurePair(a, b) ==
  a.input = b.input =>
     /\ a.norm = b.norm                       \* constant up to the anonymous numbering
     /\ (a.ids = b.ids => a.raw = b.raw)      \* and byte-identical given the numbering
     /\ (a.fresh /\ b.fresh => a.raw = b.raw) \* in particular in fresh processes

PureLog(log) == \A i \in DOMAIN log : \A k \in DOMAIN log : i < k => PurePair(log[i], log[k])

=============================================================================
