---------------------------- MODULE PipelineTrace ----------------------------
(***************************************************************************)
(* Validates event streams recorded from the REAL compiler (harness/       *)
(* pipe_probe.py: wrappers around the module attributes glue.py looks up   *)
(* at call time; `Cli' events for embossc / emboss_front_end /             *)
(* emboss_codegen_cpp subprocesses) against the monitor of Pipeline.tla.   *)
(*                                                                         *)
(* One TLC state per recorded event: the event's Blame is evaluated in the *)
(* monitor state reached so far (cache, counter, job), a non-empty Blame   *)
(* is printed as one JSON line (which compilation, which clauses, which    *)
(* call site) and counted, then the monitor follows the event (Do).  So    *)
(* one run gives a total verdict over all recorded compilations.           *)
(* A stream is the whole life of one OS process (Start, then compilation   *)
(* after compilation), which is what lets the cache and counter clauses    *)
(* bind across compilations.                                                *)
(*                                                                         *)
(* Pure (C17) is evaluated on the Report / Cli events that carry output    *)
(* hashes and a non-empty input identity `key': outputs recorded for the   *)
(* same input anywhere in the stream (other processes, seeds, directory    *)
(* orders, positions in the schedule) must satisfy Pipeline!PurePair.      *)
(***************************************************************************)
EXTENDS Pipeline, Json, IOUtils

Ev == ndJsonDeserialize(IOEnv.TRACE_FILE)

VARIABLES l,      \* next event
          ps,     \* monitor state of the process whose stream this is
          seen,   \* input identity -> set of distinct outputs recorded so far
          bad,    \* number of blamed events
          skipped \* events ignored while re-synchronising after a blamed event
vars == <<l, ps, seen, bad, skipped>>

Lost(p) == [p EXCEPT !.job = [IdleJob EXCEPT !.ph = "lost", !.tid = p.job.tid]]

StageOf(p) ==
  LET j == p.job IN
  IF j.ph = "err" THEN j.at
  ELSE IF j.k \in 1..NPass THEN "pass" \o ToString(j.k)
  ELSE IF j.k = NPass + 1 THEN "back-end"
  ELSE "module-" \o j.cur.st

(* ----- Pure on recorded outputs ----------------------------------------- *)
HasOut(e) == e.ev \in {"Report", "Cli"} /\ e.key # ""

Entry(e, fresh, tid) ==
  [input |-> e.key, ids |-> e.anon, fresh |-> fresh, tid |-> tid,
   raw |-> <<e.kind, e.ir_json_raw, e.header_raw, e.stderr_raw>>,
   norm |-> <<e.kind, e.ir_json_norm, e.header_norm, e.stderr_norm>>]

Comp == <<"verdict", "ir", "header", "diagnostics">>
Differ(x, y) == {Comp[i] : i \in {i \in 1..4 : x[i] # y[i]}}

PairBlame(a, b) ==
  (* the failing conjuncts of Pipeline!PurePair(a, b), by output component *)
  {"Pure.differs-beyond-anonymous-numbering:" \o c : c \in Differ(a.norm, b.norm)}
  \cup (IF a.ids = b.ids \/ (a.fresh /\ b.fresh)
        THEN {"Pure.not-byte-identical:" \o c : c \in Differ(a.raw, b.raw)} ELSE {})

Known(k) == IF k \in DOMAIN seen THEN seen[k] ELSE {}

PureBlame(x) ==
  LET S == Known(x.input) IN
  IF \A y \in S : PurePair(x, y) THEN {}
  ELSE UNION {PairBlame(x, y) : y \in S}

Against(x) ==
  LET S == {y \in Known(x.input) : ~PurePair(x, y)} IN
  IF S = {} THEN "" ELSE (CHOOSE y \in S : TRUE).tid

SameOut(a, b) == a.ids = b.ids /\ a.raw = b.raw /\ a.norm = b.norm /\ a.fresh = b.fresh
Remember(x) ==
  IF \E y \in Known(x.input) : SameOut(x, y) THEN seen
  ELSE (x.input :> (Known(x.input) \cup {x})) @@ seen

(* ----- whole-process observations (subprocess entry points) ------------- *)
(* e = [ev |-> "Cli", tid, key, mode, seed, exit, tb (site of a traceback  *)
(*      or ""), has_header, stderr_empty, kind, hashes..., anon]           *)
CliBlame(e) ==
  (IF e.tb # "" THEN {"Total.exception"} ELSE {})
  \cup (IF e.tb = "" /\ e.exit \notin {0, 1} THEN {"Total.exit-status"} ELSE {})
  \cup (IF e.tb = "" /\ e.exit = 0 /\ ~e.has_header THEN {"Total.success-without-output"} ELSE {})
  \cup (IF e.tb = "" /\ e.exit = 1 /\ e.has_header THEN {"Total.output-and-errors"} ELSE {})
  \cup (IF e.tb = "" /\ e.exit = 1 /\ e.stderr_empty THEN {"Total.errors-empty"} ELSE {})
  \cup (IF e.tb = "" /\ e.exit = 0 /\ ~e.stderr_empty THEN {"Total.output-and-errors"} ELSE {})

SiteOf(c, e) ==
  IF e.ev = "Exception" THEN e.site
  ELSE IF e.ev = "Cli" /\ c = "Total.exception" THEN e.tb
  ELSE IF e.ev = "Report" /\ c = "Render.plain" THEN e.plain
  ELSE IF e.ev = "Report" /\ c = "Render.colour" THEN e.colour
  ELSE IF e.ev \in {"Report", "Timeout"} THEN StageOf(ps)
  ELSE IF e.ev = "Cli" THEN e.mode
  ELSE e.ev

Verdict(e, b, other) ==
  [tid |-> (IF e.ev \in {"Cli", "Compile"} THEN e.tid ELSE ps.job.tid), line |-> l, ev |-> e.ev,
   clauses |-> {<<c, SiteOf(c, e)>> : c \in b}, against |-> other,
   input |-> (IF e.ev \in {"Report", "Cli"} THEN e.key ELSE "")]

Init == l = 1 /\ ps = DeadProc /\ seen = EmptyFn /\ bad = 0 /\ skipped = 0

Step ==
  /\ l <= Len(Ev)
  /\ l' = l + 1
  /\ LET e == Ev[l] IN
     IF e.ev = "Cli" THEN
       LET x == Entry(e, TRUE, e.tid)
           b == CliBlame(e) \cup (IF e.key # "" /\ e.tb = "" THEN PureBlame(x) ELSE {})
       IN /\ (b # {} => PrintT(ToJson(Verdict(e, b, IF e.key # "" /\ e.tb = "" THEN Against(x) ELSE ""))))
          /\ bad' = bad + (IF b = {} THEN 0 ELSE 1)
          /\ seen' = IF e.key # "" /\ e.tb = "" THEN Remember(x) ELSE seen
          /\ UNCHANGED <<ps, skipped>>
     ELSE IF ps.job.ph = "lost" /\ e.ev \notin {"Start", "Compile"} THEN
       /\ skipped' = skipped + 1
       /\ UNCHANGED <<ps, seen, bad>>
     ELSE
       LET p0 == IF e.ev = "Start" THEN DeadProc
                 ELSE IF ps.job.ph = "lost" THEN [ps EXCEPT !.job = IdleJob] ELSE ps
           x == IF HasOut(e) THEN Entry(e, p0.ncompiles = 1, p0.job.tid) ELSE [input |-> ""]
           b == Blame(p0, e) \cup (IF HasOut(e) THEN PureBlame(x) ELSE {})
           terminal == e.ev \in {"Report", "Exception", "Timeout", "Start", "Exit"}
       IN /\ (b # {} => PrintT(ToJson(Verdict(e, b, IF HasOut(e) THEN Against(x) ELSE ""))))
          /\ bad' = bad + (IF b = {} THEN 0 ELSE 1)
          /\ ps' = IF b = {} \/ terminal THEN Do(p0, e) ELSE Lost(p0)
          /\ seen' = IF HasOut(e) THEN Remember(x) ELSE seen
          /\ UNCHANGED skipped

Done ==
  /\ l = Len(Ev) + 1
  /\ PrintT(ToJson([summary |-> TRUE, events |-> Len(Ev), blamed |-> bad, skipped |-> skipped,
                    open_job |-> (ps.job.ph \notin {"idle", "lost"})]))
  /\ l' = l + 1
  /\ UNCHANGED <<ps, seen, bad, skipped>>

Next == Step \/ Done
Spec == Init /\ [][Next]_vars

=============================================================================
