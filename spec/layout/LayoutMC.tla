------------------------------ MODULE LayoutMC ------------------------------
(* Exhaustive design-level check of the C14 rules and generator with small constants
   (given in the .cfg written by harness/c14.py):
     - every behaviour is a realisable base followed by at most one illegal edit,
     - byte-order inheritance by look-up equals inheritance by push-down,
     - the bit-list range tests for enum values equal ordinary integer arithmetic
       wherever TLC's integers can represent the values (ASSUME below). *)
EXTENDS LayoutGen

RECURSIVE BitsOf(_)
BitsOf(n) == IF n = 0 THEN <<>> ELSE BitsOf(n \div 2) \o <<n % 2>>
ToVal(z) == [neg |-> z < 0, mag |-> BitsOf(IF z < 0 THEN 0 - z ELSE z)]
RECURSIVE P2(_)
P2(k) == IF k = 0 THEN 1 ELSE 2 * P2(k - 1)

ASSUME RangeAgrees ==
  \A m \in 1..9 : \A z \in (0 - 600)..600 :
     /\ InSigned(ToVal(z), m) = (0 - P2(m - 1) <= z /\ z <= P2(m - 1) - 1)
     /\ InUnsigned(ToVal(z), m) = (0 <= z /\ z <= P2(m) - 1)

RECURSIVE ToInt(_, _)
ToInt(mag, acc) == IF Len(mag) = 0 THEN acc ELSE ToInt(Tail(mag), 2 * acc + Head(mag))
ASSUME LandmarksAreBoundaries ==
  \A m \in 1..12 :
    {(IF v.neg THEN 0 - 1 ELSE 1) * ToInt(v.mag, 0) : v \in Landmarks(m)}
      = {0, 1, 0 - 1, P2(m) - 1, P2(m), 0 - P2(m - 1), 0 - P2(m - 1) - 1, P2(m - 1)}
        \cup (IF m > 1 THEN {P2(m - 1) - 1} ELSE {})
=============================================================================
