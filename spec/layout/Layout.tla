------------------------------- MODULE Layout -------------------------------
(***************************************************************************)
(* C14.  Physical-layout and attribute rules of Emboss, written from       *)
(* doc/language-reference.md (sections byte_order, requires, namespace,    *)
(* enum_case, text_output, struct, enum, is_signed, maximum_bits, bits,    *)
(* Builtin Types, Names) and the reserved-word list of doc/grammar.md -    *)
(* NOT from constraints.py / attribute_checker.py.                         *)
(*                                                                         *)
(* Abstract program (JSON-friendly, uniform records):                      *)
(*  Prog  = [mattrs: Seq(Attr), types: Seq(Type)]                          *)
(*  Attr  = [name, back ("" | "cpp"), dflt: BOOLEAN,                       *)
(*           vk ("str" | "int" | "bool" | "expr"), s, n]                   *)
(*  Type  = [k ("struct" | "bits" | "enum"), name, parent (0 = top level,  *)
(*           else index of the enclosing struct), anon: BOOLEAN,           *)
(*           attrs, fields: Seq(Field), values: Seq(EVal)]                 *)
(*  Field = [k ("phys" | "virt"), name, start, size (-1 = dynamic),        *)
(*           ty (prelude type or user type name), w (explicit `:w`, 0 =    *)
(*           none), dims (as written; -1 = `[]', -2 = dynamic count),      *)
(*           attrs]                                                        *)
(*  EVal  = [name, neg: BOOLEAN, mag: Seq(0..1) (binary, MSB first, no     *)
(*           leading zero, <<>> = 0), attrs]                               *)
(* Integers that do not fit TLC's 32 bits (enum values up to 2^64) only    *)
(* ever travel as bit lists.                                               *)
(***************************************************************************)
EXTENDS Naturals, Integers, Sequences, FiniteSets

CONSTANT Reserved      \* set of reserved words (doc/grammar.md)

Dyn == -1              \* "not a compile-time constant"

Prelude   == {"UInt", "Int", "Bcd", "Flag", "Float"}
IntLike   == {"UInt", "Int", "Bcd"}

SeqToSet(sq) == {sq[i] : i \in 1..Len(sq)}

---------------------------------------------------------------------------
\* big values as bit lists
BitLen(mag) == Len(mag)
IsZero(v)   == Len(v.mag) = 0
IsPow2(mag) == Len(mag) >= 1 /\ \A i \in 2..Len(mag) : mag[i] = 0

\*  -(2^(m-1)) <= v <= 2^(m-1) - 1
InSigned(v, m) ==
  IF v.neg /\ ~IsZero(v)
  THEN BitLen(v.mag) <= m - 1 \/ (BitLen(v.mag) = m /\ IsPow2(v.mag))
  ELSE BitLen(v.mag) <= m - 1
\*  0 <= v <= 2^m - 1
InUnsigned(v, m) == (~v.neg \/ IsZero(v)) /\ BitLen(v.mag) <= m

---------------------------------------------------------------------------
\* lookups
TypeIdx(prog, name) ==
  LET ix == {i \in 1..Len(prog.types) : prog.types[i].name = name}
  IN  IF ix = {} THEN 0 ELSE CHOOSE i \in ix : TRUE

IsUserType(prog, name) == TypeIdx(prog, name) # 0
KindOf(prog, name) == IF name \in Prelude THEN "prelude" ELSE prog.types[TypeIdx(prog, name)].k

Unit(t) == IF t.k = "bits" THEN 1 ELSE 8

HasAttr(attrs, name, dflt) == \E i \in 1..Len(attrs) : attrs[i].name = name /\ attrs[i].dflt = dflt
GetAttr(attrs, name, dflt) ==
  attrs[CHOOSE i \in 1..Len(attrs) : attrs[i].name = name /\ attrs[i].dflt = dflt
                                     /\ \A j \in 1..(i-1) : ~(attrs[j].name = name /\ attrs[j].dflt = dflt)]

(***************************************************************************)
(* Intrinsic size in bits of a struct / bits: "the size required to hold   *)
(* every field", a constant only if every field location is constant.     *)
(***************************************************************************)
MaxOf(S) == IF S = {} THEN 0 ELSE CHOOSE m \in S : \A x \in S : x <= m

FixedSize(t) ==
  LET ph == {i \in 1..Len(t.fields) : t.fields[i].k = "phys"}
  IN  IF \E i \in ph : t.fields[i].size = Dyn \/ t.fields[i].start = Dyn THEN Dyn
      ELSE Unit(t) * MaxOf({t.fields[i].start + t.fields[i].size : i \in ph})

\* "maximum_bits ... If not specified, defaults to 64"
MaxBits(e) == IF HasAttr(e.attrs, "maximum_bits", FALSE) /\ GetAttr(e.attrs, "maximum_bits", FALSE).vk = "int"
              THEN GetAttr(e.attrs, "maximum_bits", FALSE).n ELSE 64

\* "Normally, an enum is signed if there is at least one negative value ... can be overridden"
Signed(e) == IF HasAttr(e.attrs, "is_signed", FALSE) /\ GetAttr(e.attrs, "is_signed", FALSE).vk = "bool"
             THEN GetAttr(e.attrs, "is_signed", FALSE).n = 1
             ELSE \E i \in 1..Len(e.values) : e.values[i].neg /\ ~IsZero(e.values[i])

---------------------------------------------------------------------------
\* field geometry
FBits(t, f) == IF f.size = Dyn THEN Dyn ELSE f.size * Unit(t)

\* size in bits of one element of the field's type (the field itself if it is not an array);
\* Dyn when it is not fixed at compile time
\* explicit `:w' of a field: f.w > 0 is the width, f.w = -1 stands for an explicit `:0', f.w = 0 for none
HasExplicit(f) == f.w # 0
ExplicitW(f) == IF f.w = -1 THEN 0 ELSE f.w
ElemBits(prog, t, f) ==
  IF HasExplicit(f) THEN ExplicitW(f)
  ELSE IF f.ty = "Flag" THEN 1                                  \* "A Flag is a 1-bit boolean value"
  ELSE IF f.ty \in Prelude THEN (IF Len(f.dims) = 0 THEN FBits(t, f) ELSE Dyn)
  ELSE LET u == prog.types[TypeIdx(prog, f.ty)] IN
       IF u.k = "enum" THEN (IF Len(f.dims) = 0 THEN FBits(t, f) ELSE Dyn)
       ELSE FixedSize(u)

\* is the (element) type one whose bits are interpreted as a number/flag/enum/bit field, i.e.
\* "bits fields and field with an atomic type, such as UInt"
BitOriented(prog, f) == f.ty \in Prelude \/ KindOf(prog, f.ty) \in {"enum", "bits"}

(***************************************************************************)
(* byte order in effect for a field:  own attribute, else the nearest      *)
(* enclosing `$default' ("[$default name: value]  Default name to value    *)
(* for all sub-entities"; "may be set on a module or structure"), else     *)
(* "Null" ("used if no byte_order attribute is specified").                *)
(***************************************************************************)
RECURSIVE DefaultBO(_, _)
DefaultBO(prog, ti) ==
  IF ti = 0
  THEN (IF HasAttr(prog.mattrs, "byte_order", TRUE) THEN GetAttr(prog.mattrs, "byte_order", TRUE).s ELSE "Null")
  ELSE LET t == prog.types[ti] IN
       IF HasAttr(t.attrs, "byte_order", TRUE) THEN GetAttr(t.attrs, "byte_order", TRUE).s
       ELSE DefaultBO(prog, t.parent)

EffBO(prog, ti, f) ==
  IF HasAttr(f.attrs, "byte_order", FALSE) THEN GetAttr(f.attrs, "byte_order", FALSE).s
  ELSE DefaultBO(prog, ti)

---------------------------------------------------------------------------
\* failures are records [rule, ti] : the rule broken and the type definition it is broken in
\* (ti = 0: the module's own attribute block)
F(rule, ti) == [rule |-> rule, ti |-> ti]

ScalarWidthFailures(prog, ti, t, f) ==
  LET wd == ElemBits(prog, t, f) IN
  IF f.ty \in IntLike THEN
       \* "can be anywhere from 1 to 64 bits in size"
       (IF wd = Dyn \/ wd < 1 \/ wd > 64 THEN {F("scalar_width", ti)} ELSE {})
  ELSE IF f.ty = "Flag" THEN
       (IF wd # 1 \/ (Len(f.dims) = 0 /\ FBits(t, f) # 1) THEN {F("flag_width", ti)} ELSE {})
  ELSE IF f.ty = "Float" THEN
       \* "Only 32- and 64-bit Floats are supported"
       (IF wd \notin {32, 64} THEN {F("float_width", ti)} ELSE {})
  ELSE IF KindOf(prog, f.ty) = "enum" THEN
       \* "fields of enum type may be smaller than maximum_bits, but never larger"
       (IF wd = Dyn \/ wd < 1 \/ wd > MaxBits(prog.types[TypeIdx(prog, f.ty)])
        THEN {F("enum_field_width", ti)} ELSE {})
  ELSE {}

\* an explicit `:w' states the size of the field's type; for a non-array field it must be the
\* field's size; a composite type needs at least its intrinsic size
SizeMatchFailures(prog, ti, t, f) ==
  IF Len(f.dims) # 0 \/ FBits(t, f) = Dyn THEN {}
  ELSE IF HasExplicit(f) THEN (IF ExplicitW(f) # FBits(t, f) THEN {F("explicit_size_mismatch", ti)} ELSE {})
  ELSE IF f.ty \notin Prelude /\ KindOf(prog, f.ty) \in {"struct", "bits"} THEN
       LET s == FixedSize(prog.types[TypeIdx(prog, f.ty)]) IN
       IF s # Dyn /\ FBits(t, f) < s THEN {F("field_too_small", ti)} ELSE {}
  ELSE {}

\* "Byte-oriented types, such as structs, may not be embedded in a bits"
BitsMemberFailures(prog, ti, t, f) ==
  IF t.k = "bits" /\ f.ty \notin Prelude /\ KindOf(prog, f.ty) = "struct"
  THEN {F("byte_type_in_bits", ti)} ELSE {}

ArrayFailures(prog, ti, t, f) ==
  IF Len(f.dims) = 0 THEN {} ELSE
  LET eb == ElemBits(prog, t, f) IN
     (IF eb = Dyn THEN {F("array_element_not_fixed", ti)} ELSE {})
  \cup (IF eb # Dyn /\ t.k = "struct" /\ eb % 8 # 0 THEN {F("array_element_not_byte_multiple", ti)} ELSE {})
  \* only ONE (the outermost) length may be left out
  \cup (IF Cardinality({i \in 1..Len(f.dims) : f.dims[i] < 0}) > 1 THEN {F("array_inner_length", ti)} ELSE {})

\* does the byte order matter for this field?  a multi-byte, bit-oriented field of a struct
NeedsBO(prog, t, f) == t.k = "struct" /\ f.k = "phys" /\ BitOriented(prog, f)
OneByte(prog, t, f) == FBits(t, f) = 8 \/ (Len(f.dims) # 0 /\ ElemBits(prog, t, f) = 8)

ByteOrderFailures(prog, ti, t, f) ==
  IF ~NeedsBO(prog, t, f) \/ OneByte(prog, t, f) THEN {}
  ELSE \* "it is an error if a byte-order-dependent field that is not exactly 8 bits has the Null byte order"
       IF EffBO(prog, ti, f) = "Null"
       THEN {F(IF HasAttr(f.attrs, "byte_order", FALSE) THEN "byte_order_null" ELSE "byte_order_missing", ti)}
       ELSE {}

---------------------------------------------------------------------------
\* attributes: where, how often, with which values
AttrKey(a) == <<a.name, a.back, a.dflt>>

\* is the field's value an integer / boolean / enum ("atomic field (e.g., type UInt, Int, Flag, etc.)")
AtomicField(prog, f) == f.k = "virt" \/ (Len(f.dims) = 0 /\ (f.ty \in Prelude \/ KindOf(prog, f.ty) = "enum"))

AttrAllowed(prog, a, ctx, f) ==
  CASE a.name = "byte_order" /\ a.back = "" -> (a.dflt /\ ctx \in {"module", "struct"}) \/ (~a.dflt /\ ctx = "phys")
    [] a.name = "requires" /\ a.back = ""   -> ~a.dflt /\ (ctx \in {"struct", "bits"}
                                                            \/ (ctx \in {"phys", "virt"} /\ AtomicField(prog, f)))
    [] a.name = "text_output" /\ a.back = "" -> ~a.dflt /\ ctx \in {"phys", "virt"}
    [] a.name \in {"maximum_bits", "is_signed"} /\ a.back = "" -> ~a.dflt /\ ctx = "enum"
    [] a.name = "namespace" /\ a.back = "cpp" -> ~a.dflt /\ ctx = "module"
    [] a.name = "enum_case" /\ a.back = "cpp" ->          \* "(cpp) enum_case": a C++ back-end attribute
           (a.dflt /\ ctx \in {"module", "struct", "bits", "enum"}) \/ (~a.dflt /\ ctx = "enumval")
    [] OTHER -> FALSE

EnumCaseValues == {"SHOUTY_CASE", "kCamelCase", "SHOUTY_CASE, kCamelCase", "kCamelCase, SHOUTY_CASE"}

AttrValueOK(a) ==
  CASE a.name = "byte_order"  -> a.vk = "str" /\ a.s \in {"BigEndian", "LittleEndian", "Null"}
    [] a.name = "text_output" -> a.vk = "str" /\ a.s \in {"Emit", "Skip"}
    [] a.name = "requires"    -> a.vk \in {"expr", "bool"}
    [] a.name = "maximum_bits" -> a.vk = "int" /\ a.n \in 1..64
    [] a.name = "is_signed"   -> a.vk = "bool"
    [] a.name = "namespace"   -> a.vk = "str"
    [] a.name = "enum_case"   -> a.vk = "str" /\ a.s \in EnumCaseValues
    [] OTHER -> TRUE

NullF == [k |-> "none", name |-> "", start |-> 0, size |-> 0, ty |-> "UInt", w |-> 0, dims |-> <<>>, attrs |-> <<>>]

AttrListFailures(prog, attrs, ctx, f, ti) ==
  LET n == Len(attrs) IN
     {F("attr_context", ti) : i \in {j \in 1..n : ~AttrAllowed(prog, attrs[j], ctx, f)}}
  \cup {F("attr_value", ti) : i \in {j \in 1..n : AttrAllowed(prog, attrs[j], ctx, f) /\ ~AttrValueOK(attrs[j])}}
  \cup {F("attr_duplicate", ti) : i \in {j \in 1..n : \E m \in 1..(j-1) : AttrKey(attrs[m]) = AttrKey(attrs[j])}}

---------------------------------------------------------------------------
RECURSIVE TopOf(_, _)
TopOf(prog, ti) == IF prog.types[ti].parent = 0 THEN ti ELSE TopOf(prog, prog.types[ti].parent)

FieldFailures(prog, ti, t, f) ==
  (IF f.name \in Reserved THEN {F("reserved_name", ti)} ELSE {})
  \cup AttrListFailures(prog, f.attrs, f.k, f, ti)
  \cup (IF f.k = "phys"
        THEN ScalarWidthFailures(prog, ti, t, f) \cup SizeMatchFailures(prog, ti, t, f)
             \cup BitsMemberFailures(prog, ti, t, f) \cup ArrayFailures(prog, ti, t, f)
             \cup ByteOrderFailures(prog, ti, t, f)
        ELSE {})

EnumFailures(prog, ti, e) ==
  LET m == MaxBits(e) IN
  UNION {
    (IF e.values[i].name \in Reserved THEN {F("reserved_name", ti)} ELSE {})
    \cup AttrListFailures(prog, e.values[i].attrs, "enumval", NullF, ti)
    \cup (IF m \in 1..64 /\ ~(IF Signed(e) THEN InSigned(e.values[i], m) ELSE InUnsigned(e.values[i], m))
          THEN {F("enum_value_range", ti)} ELSE {})
    : i \in 1..Len(e.values)}

TypeFailures(prog, ti) ==
  LET t == prog.types[ti] IN
     (IF t.name \in Reserved THEN {F("reserved_name", ti)} ELSE {})
  \cup AttrListFailures(prog, t.attrs, t.k, NullF, ti)
  \cup (IF t.k = "enum" THEN EnumFailures(prog, ti, t)
        ELSE UNION {FieldFailures(prog, ti, t, t.fields[i]) : i \in 1..Len(t.fields)})
  \* "the size of bits must known at compile time"; a bits is read as one integer: at most 64 bits
  \cup (IF t.k = "bits" /\ FixedSize(t) = Dyn THEN {F("bits_not_fixed", ti)} ELSE {})
  \cup (IF t.k = "bits" /\ FixedSize(t) # Dyn /\ FixedSize(t) > 64 THEN {F("bits_too_big", ti)} ELSE {})

Failures(prog) ==
  AttrListFailures(prog, prog.mattrs, "module", NullF, 0)
  \cup UNION {TypeFailures(prog, ti) : ti \in 1..Len(prog.types)}

Realisable(prog) == Failures(prog) = {}

\* top-level definitions an error for the failures may point into (0 = the module's attribute
\* block).  A byte order that is wrong because of an inherited `$default' may be reported at the
\* field or at the `$default' it came from.
FailureTops(prog) ==
  {IF x.ti = 0 THEN 0 ELSE TopOf(prog, x.ti) : x \in Failures(prog)}
  \cup (IF HasAttr(prog.mattrs, "byte_order", TRUE)
           /\ \E x \in Failures(prog) : x.rule \in {"byte_order_missing", "byte_order_null"}
        THEN {0} ELSE {})

=============================================================================
