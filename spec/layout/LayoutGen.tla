----------------------------- MODULE LayoutGen -----------------------------
(***************************************************************************)
(* C14 program-under-construction state machine.                           *)
(*                                                                         *)
(* A module is built by EDIT actions (add a module attribute, a type, a    *)
(* type attribute, an enum value, a field from one of several families     *)
(* whose parameters sweep the documented boundaries, a field attribute,    *)
(* or rename the newest entity).  Edits are deliberately "dumb": their     *)
(* parameters range over legal AND illegal values; Layout!Failures - the   *)
(* documented rules - classifies the result.  An edit whose result is      *)
(* realisable extends the base; an edit whose result is not realisable is  *)
(* a single-edit violation and ends the behaviour (phase "dead"; with      *)
(* KeepDead = FALSE it is emitted but not entered, so a random walk goes   *)
(* on from the realisable program).                                        *)
(*                                                                         *)
(* Edit parameters are chosen so that every reachable program is clearly   *)
(* legal or clearly illegal by the reference (see harness/c14.py           *)
(* `assumptions' for what is deliberately left out as ambiguous).          *)
(*                                                                         *)
(* With Emit = TRUE every successor prints its case as JSON.               *)
(***************************************************************************)
EXTENDS Layout, TLC, Json

CONSTANTS MaxTypes, MaxFields, MaxEdits,
          StructSizes,     \* field sizes (bytes) tried for scalars in a struct
          BitsSizes,       \* field sizes (bits) tried for scalars in a bits
          EnumMaxBits,     \* maximum_bits values tried (0 = attribute absent)
          SnakeWords, CamelWords, ShoutyWords,   \* reserved words by name shape (subsets of Reserved)
          ContextFirst,    \* BOOLEAN: restrict all but the last edit of a behaviour to context edits
          KeepDead,        \* BOOLEAN: illegal results become (terminal) states; FALSE: they are only emitted,
                           \*          so that a random walk always continues with a realisable program
          Emit

VARIABLES prog, phase, cur, nedits, last

vars == <<prog, phase, cur, nedits, last>>

TypeNames  == <<"Ta", "Tb", "Tc", "Td", "Te", "Tf">>
FieldNames == <<"fa", "fb", "fc", "fd", "fe", "ff", "fg", "fh">>
ValueNames == <<"VA", "VB", "VC", "VD">>
\* fields of an anonymous bits become names of the enclosing struct: unique per bits
AnonNames  == << <<"gaa", "gab">>, <<"gba", "gbb">>, <<"gca", "gcb">>, <<"gda", "gdb">>, <<"gea", "geb">>, <<"gfa", "gfb">> >>

A(name, back, dflt, vk, s, n) == [name |-> name, back |-> back, dflt |-> dflt, vk |-> vk, s |-> s, n |-> n]
BO(s)  == A("byte_order", "", FALSE, "str", s, 0)
DBO(s) == A("byte_order", "", TRUE, "str", s, 0)

Fld(k, name, start, size, ty, w, dims, attrs) ==
  [k |-> k, name |-> name, start |-> start, size |-> size, ty |-> ty, w |-> w, dims |-> dims, attrs |-> attrs]

\* every struct starts with  0 [+1] UInt n,  every named bits with  0 [+8] UInt n  (what dynamic
\* offsets / sizes / counts refer to; a type without any field is not even syntactically a type)
NField(k) == Fld("phys", "n", 0, IF k = "bits" THEN 8 ELSE 1, "UInt", 0, <<>>, <<>>)

NewType(k, name, parent, anon) ==
  [k |-> k, name |-> name, parent |-> parent, anon |-> anon, attrs |-> <<>>,
   fields |-> IF k \in {"struct", "bits"} /\ ~anon THEN <<NField(k)>> ELSE <<>>, values |-> <<>>]

Ones(m)  == [i \in 1..m |-> 1]
Pow2(m)  == <<1>> \o [i \in 1..m |-> 0]
Val(neg, mag) == [neg |-> neg, mag |-> mag]

Pow2Plus1(k) == IF k = 0 THEN <<1, 0>> ELSE [i \in 1..(k + 1) |-> IF i = 1 \/ i = k + 1 THEN 1 ELSE 0]

\* boundary values around an m-bit enum, both signednesses
Landmarks(m) ==
  {Val(FALSE, <<>>), Val(FALSE, <<1>>), Val(TRUE, <<1>>),
   Val(FALSE, Ones(m)), Val(FALSE, Pow2(m)),                         \* 2^m - 1, 2^m
   Val(TRUE, Pow2(m - 1)), Val(TRUE, Pow2Plus1(m - 1)),              \* -(2^(m-1)), -(2^(m-1)) - 1
   Val(FALSE, Pow2(m - 1))}                                          \* 2^(m-1)
  \cup (IF m > 1 THEN {Val(FALSE, Ones(m - 1))} ELSE {})             \* 2^(m-1) - 1

---------------------------------------------------------------------------
\* geometry helpers for placing the next field
CurT == prog.types[cur]
End(t) == LET ph == {i \in 1..Len(t.fields) : t.fields[i].k = "phys" /\ t.fields[i].size # Dyn /\ t.fields[i].start # Dyn}
          IN  MaxOf({t.fields[i].start + t.fields[i].size : i \in ph})
NextFieldName(t) == FieldNames[Len(t.fields) + 1]
\* where the next field goes: after the others; in a bits, a 63- or 64-bit field (which can never
\* follow the 8-bit `n') overlaps the others from bit 0 (overlapping fields are legal), so that
\* legal 64-bit scalars exist while  8 + 57 = 65  still makes a bits that is only too big
At(t, sz) == IF t.k = "bits" /\ sz \in {63, 64} THEN 0 ELSE End(t)

\* which types may the current type mention?  (keeps containment acyclic: a type refers to its own
\* nested types and to types of top-level groups created earlier, never the other way round)
Refable(i) == i # cur /\ ~prog.types[i].anon
              /\ (prog.types[i].parent = cur \/ TopOf(prog, i) < TopOf(prog, cur))
EnumTypes   == {i \in 1..Len(prog.types) : prog.types[i].k = "enum" /\ Refable(i)}
StructTypes == {i \in 1..Len(prog.types) : prog.types[i].k = "struct" /\ Refable(i)}
BitsTypes   == {i \in 1..Len(prog.types) : prog.types[i].k = "bits" /\ Refable(i)}

\* ceil(bits / unit)
Units(bits, t) == IF t.k = "bits" THEN bits ELSE (bits + 7) \div 8

(***************************************************************************)
(* Field families.  Each yields records [cls, f] (cls names the family for *)
(* evidence; it plays no part in the verdict).                             *)
(***************************************************************************)
ScalarFields(t) ==
  LET sizes == IF t.k = "bits" THEN BitsSizes ELSE StructSizes
      tys   == Prelude \cup {prog.types[i].name : i \in EnumTypes}
      bos   == IF t.k = "struct" THEN {<<>>, <<BO("BigEndian")>>, <<BO("Null")>>} ELSE {<<>>}
  IN  {[cls |-> "scalar", f |-> Fld("phys", NextFieldName(t), At(t, sz), sz, ty, 0, <<>>, b)] :
         sz \in sizes, ty \in tys, b \in bos}

ExplicitFields(t) ==
  \* (-1: an explicit `:0' -- never the size of a non-empty field, never a legal width)
  LET pairs == IF t.k = "bits" THEN {<<4, 4>>, <<4, 3>>, <<1, 1>>, <<2, 2>>, <<4, -1>>}
                               ELSE {<<2, 16>>, <<2, 8>>, <<1, 16>>, <<1, 8>>, <<1, -1>>, <<2, -1>>}
      tys   == {"UInt", "Flag"} \cup {prog.types[i].name : i \in EnumTypes}
  IN  {[cls |-> "explicit", f |-> Fld("phys", NextFieldName(t), At(t, p[1]), p[1], ty, p[2], <<>>,
                                      IF t.k = "struct" THEN <<BO("LittleEndian")>> ELSE <<>>)] :
         p \in pairs, ty \in tys}

\* a field whose type is an earlier struct / bits: exactly fitting, one unit too large (documented as
\* legal: "even if a FixedSize is placed in a larger field"), one unit too small, or dynamic
TypedFields(t) ==
  UNION {
    LET u  == prog.types[i]
        fs == FixedSize(u)
        ex == IF fs = Dyn THEN 4 ELSE Units(fs, t)
        \* (a bits type inside a container of more than 64 bits is not clearly legal or illegal)
        pad == IF u.k = "bits" /\ (ex + 1) * Unit(t) > 64 THEN {} ELSE {ex + 1}
        \* (a bits type in a dynamically sized field: does its byte order matter?  unclear - left out)
        szs == {ex} \cup (IF u.k = "bits" THEN {} ELSE {Dyn}) \cup pad \cup (IF ex > 0 /\ fs # Dyn THEN {ex - 1} ELSE {})
        Lab(sz) == "typed_" \o u.k \o (IF sz = Dyn THEN "_dynamic" ELSE IF fs = Dyn THEN "_of_dynamic"
                                         ELSE IF sz * Unit(t) = fs THEN "_exact"
                                         ELSE IF sz * Unit(t) > fs THEN "_padded" ELSE "_small")
    IN  {[cls |-> Lab(sz), f |-> Fld("phys", NextFieldName(t), At(t, sz), sz, u.name, 0, <<>>, b)] :
           sz \in (IF t.k = "bits" THEN szs \ {Dyn} ELSE szs),
           b \in (IF t.k = "struct" /\ u.k = "bits" THEN {<<BO("BigEndian")>>, <<>>} ELSE {<<>>})}
    : i \in StructTypes \cup BitsTypes}

\* arrays.  elem = <<type, explicit width>>
ArrayFields(t) ==
  LET elems == {<<"UInt", 8>>, <<"UInt", 16>>, <<"UInt", 4>>, <<"UInt", 0>>, <<"Int", 32>>}
               \cup {<<prog.types[i].name, 8>> : i \in EnumTypes}
               \cup {<<prog.types[i].name, 0>> : i \in StructTypes \cup BitsTypes}
      dimss == {<<2>>, <<-1>>, <<-2>>, <<2, 3>>, <<-1, -1>>}
      Count(d) == IF Len(d) = 1 THEN d[1] ELSE d[1] * d[2]
      EB(el)   == IF el[2] > 0 THEN el[2]
                  ELSE IF el[1] \in Prelude THEN 8
                  ELSE LET fs == FixedSize(prog.types[TypeIdx(prog, el[1])]) IN IF fs = Dyn THEN 8 ELSE fs
      Size(el, d) == IF \E i \in 1..Len(d) : d[i] < 0 THEN (IF d[Len(d)] = -2 \/ t.k = "bits" THEN 8 ELSE Dyn)
                     ELSE Units(EB(el) * Count(d), t)
      \* bit-oriented elements always get an explicit byte order (a multi-byte array of one-byte
      \* elements without any byte order is not clearly legal or illegal by the reference)
      Attrs(el) == IF t.k = "struct" /\ (el[1] \in Prelude \/ KindOf(prog, el[1]) \in {"enum", "bits"})
                   THEN <<BO("BigEndian")>> ELSE <<>>
  IN  {[cls |-> "array", f |-> Fld("phys", NextFieldName(t), At(t, Size(el, d)), Size(el, d), el[1], el[2], d, Attrs(el))] :
         el \in elems, d \in (IF t.k = "bits" THEN dimss \ {<<-2>>, <<-1>>} ELSE dimss)}

VirtualFields(t) ==
  {[cls |-> "virtual", f |-> Fld("virt", NextFieldName(t), 0, 0, "UInt", 0, <<>>, <<>>)]}

\* dynamic placements: a struct may be dynamically sized, a bits may not
DynamicFields(t) ==
  {[cls |-> "dynamic", f |-> Fld("phys", NextFieldName(t), p[1], p[2], "UInt", 8, <<-1>>,
                                  IF t.k = "struct" THEN <<BO("BigEndian")>> ELSE <<>>)] :
     p \in {q \in {1, Dyn} \X {Dyn, 2} : t.k = "struct" \/ q[1] = Dyn \/ q[2] = Dyn}}
  \cup {[cls |-> "dynamic", f |-> Fld("phys", NextFieldName(t), Dyn, 1, "UInt", 0, <<>>, <<>>)]}

FieldChoices(t) ==
  ScalarFields(t) \cup ExplicitFields(t) \cup TypedFields(t) \cup ArrayFields(t)
  \cup VirtualFields(t) \cup DynamicFields(t)

(***************************************************************************)
(* Attribute catalogue: every attribute of the reference, defaulted and    *)
(* not, with allowed and not-allowed values / value kinds.  Where it may   *)
(* be attached is decided by Layout!AttrAllowed, not here.                 *)
(***************************************************************************)
AttrCatalogue ==
  {A("byte_order", "", d, "str", s, 0) : d \in BOOLEAN, s \in {"BigEndian", "LittleEndian", "Null", "MiddleEndian"}}
  \cup {A("byte_order", "", d, "int", "", 1) : d \in BOOLEAN}
  \cup {A("requires", "", d, "expr", "true", 0) : d \in BOOLEAN}
  \cup {A("text_output", "", d, "str", s, 0) : d \in BOOLEAN, s \in {"Emit", "Skip", "Hide"}}
  \cup {A("text_output", "", FALSE, "bool", "", 1)}
  \cup {A("maximum_bits", "", d, "int", "", 32) : d \in BOOLEAN}
  \cup {A("maximum_bits", "", FALSE, vk, "x", 1) : vk \in {"str", "bool"}}
  \cup {A("is_signed", "", d, "bool", "", b) : d \in BOOLEAN, b \in {0, 1}}
  \cup {A("namespace", "cpp", d, "str", "foo::bar", 0) : d \in BOOLEAN}
  \cup {A("namespace", "cpp", FALSE, "int", "", 1)}
  \cup {A("enum_case", "cpp", d, "str", s, 0) : d \in BOOLEAN, s \in {"kCamelCase", "SHOUTY_CASE, kCamelCase", "snake_case"}}
  \cup {A("enum_case", "cpp", TRUE, "int", "", 1)}
  \* without the back-end qualifier enum_case is not an attribute the reference defines: must be rejected
  \cup {A("enum_case", "", TRUE, "str", "kCamelCase", 0)}

\* kept out because the reference does not say whether they are legal: non-default enum_case
\* (shown without saying where), text_output on a virtual field, `$default byte_order' on a bits
\* ("module or structure"), byte_order on a field whose byte order does not matter
UsableAttr(a, ctx) ==
  /\ ~(a.name = "enum_case" /\ ~a.dflt)
  /\ ~(a.name = "text_output" /\ ctx = "virt")
  /\ ~(a.name = "byte_order" /\ a.dflt /\ ctx = "bits")
AttrLabel(pre, a) == pre \o "/" \o (IF a.dflt THEN "$default " ELSE "") \o a.name
                     \o (IF a.name = "enum_case" /\ a.back = "" THEN "/unqualified" ELSE "")

---------------------------------------------------------------------------
LastField(t) == t.fields[Len(t.fields)]

(***************************************************************************)
(* Edits are small DESCRIPTORS  [op, cls, a, f, x]  (uniform shape; a = an *)
(* attribute, f = a field, x = a tuple of small parameters); Apply builds  *)
(* the edited program.  cls is a label for evidence and for the key of a   *)
(* finding; it plays no part in the verdict.                               *)
(***************************************************************************)
NullA == A("", "", FALSE, "int", "", 0)
D(op, cls, a, f, x) == [op |-> op, cls |-> cls, a |-> a, f |-> f, x |-> x]

AnonWidths == {<<1, 3>>, <<1, 7>>, <<1, 8>>, <<2, 3>>, <<2, 15>>, <<2, 16>>,
               <<8, 3>>, <<8, 63>>, <<8, 64>>, <<9, 71>>, <<9, 72>>}

Descs ==
  \* module attributes
  {D("mattr", AttrLabel("module_attr", a), a, NullF, <<>>) : a \in {x \in AttrCatalogue : UsableAttr(x, "module")}}
  \* a new type (enum with its width / signedness attributes; struct; bits), top level or nested in a struct
  \cup (IF Len(prog.types) < MaxTypes THEN
         LET parents == {0} \cup {i \in 1..Len(prog.types) : prog.types[i].k = "struct" /\ prog.types[i].parent = 0}
         IN  {D("addtype", "add_type", NullA, NullF, <<k, p, 0, 2>>) : k \in {"struct", "bits"}, p \in parents}
             \cup {D("addtype", "add_enum", NullA, NullF, <<"enum", p, m, sg>>) :
                     m \in EnumMaxBits, sg \in {0, 1, 2}, p \in parents}
        ELSE {})
  \cup (IF cur = 0 THEN {} ELSE
        LET t == CurT IN
        {D("tattr", AttrLabel(t.k \o "_attr", a), a, NullF, <<>>) : a \in {x \in AttrCatalogue : UsableAttr(x, t.k)}}
        \cup (IF t.k = "enum" THEN
               (IF Len(t.values) < 3 THEN
                  {D("value", "enum_value", NullA, NullF, <<IF v.neg THEN 1 ELSE 0, v.mag>>) :
                     v \in Landmarks(IF MaxBits(t) \in 1..64 THEN MaxBits(t) ELSE 64)}
                ELSE {})
               \cup {D("vattr", AttrLabel("value_attr", a), a, NullF, <<>>) :
                       a \in {x \in AttrCatalogue : UsableAttr(x, "enumval")}}
               \cup {D("vrename", "rename_value", NullA, NullF, <<w>>) : w \in ShoutyWords}
              ELSE
               (IF Len(t.fields) < MaxFields THEN
                  {D("field", c.cls, NullA, c.f, <<>>) : c \in FieldChoices(t)}
                  \* an anonymous bits: the bits type and the field that holds it are added together
                  \cup (IF t.k = "struct" /\ Len(prog.types) < MaxTypes
                        THEN {D("anon", "anon_bits", NullA, NullF, <<bw[1], bw[2], fl, b>>) :
                                bw \in AnonWidths, fl \in {0, 1}, b \in {0, 1}}
                        ELSE {})
                ELSE {})
               \cup (IF Len(t.fields) > 1 THEN
                      {D("fattr", AttrLabel(LastField(t).k \o "_attr", a), a, NullF, <<>>) :
                         a \in {x \in AttrCatalogue : UsableAttr(x, LastField(t).k)
                                   /\ (x.name = "byte_order" /\ ~x.dflt /\ LastField(t).k = "phys"
                                         => NeedsBO(prog, t, LastField(t)))
                                   \* the reference shows only byte_order inside an anonymous bits
                                   /\ (IsUserType(prog, LastField(t).ty) /\ prog.types[TypeIdx(prog, LastField(t).ty)].anon
                                         => x.name = "byte_order" /\ ~x.dflt)}}
                      \cup (IF IsUserType(prog, LastField(t).ty) /\ prog.types[TypeIdx(prog, LastField(t).ty)].anon
                            THEN {}    \* the field holding an anonymous bits has no name of its own
                            ELSE {D("frename", "rename_field", NullA, NullF, <<w>>) : w \in SnakeWords})
                     ELSE {}))
        \* rename the newest type (nothing refers to it yet)
        \cup (IF cur = Len(prog.types) /\ ~t.anon
              THEN {D("trename", "rename_type", NullA, NullF, <<w>>) : w \in CamelWords}
              ELSE {}))

Apply(d) ==
  LET nt == Len(prog.types)
      nm == TypeNames[nt + 1]
  IN
  CASE d.op = "mattr"   -> [prog EXCEPT !.mattrs = Append(@, d.a)]
    [] d.op = "addtype" ->
         \* (an enum needs at least one value to be syntactically an enum: it is born with VA = 0)
         [prog EXCEPT !.types = Append(@,
            IF d.x[1] = "enum"
            THEN [NewType("enum", nm, d.x[2], FALSE) EXCEPT
                    !.attrs = (IF d.x[3] = 0 THEN <<>> ELSE <<A("maximum_bits", "", FALSE, "int", "", d.x[3])>>)
                              \o (IF d.x[4] = 2 THEN <<>> ELSE <<A("is_signed", "", FALSE, "bool", "", d.x[4])>>),
                    !.values = <<[name |-> ValueNames[1], neg |-> FALSE, mag |-> <<>>, attrs |-> <<>>]>>]
            ELSE NewType(d.x[1], nm, d.x[2], FALSE))]
    [] d.op = "tattr"   -> [prog EXCEPT !.types[cur].attrs = Append(@, d.a)]
    [] d.op = "value"   -> [prog EXCEPT !.types[cur].values =
                              Append(@, [name |-> ValueNames[Len(CurT.values) + 1], neg |-> d.x[1] = 1,
                                         mag |-> d.x[2], attrs |-> <<>>])]
    [] d.op = "vattr"   -> [prog EXCEPT !.types[cur].values[Len(CurT.values)].attrs = Append(@, d.a)]
    [] d.op = "vrename" -> [prog EXCEPT !.types[cur].values[Len(CurT.values)].name = d.x[1]]
    [] d.op = "field"   -> [prog EXCEPT !.types[cur].fields = Append(@, d.f)]
    [] d.op = "anon"    ->
         [prog EXCEPT !.types = Append([@ EXCEPT ![cur].fields =
               Append(@, Fld("phys", NextFieldName(CurT), End(CurT), d.x[1], nm, 0, <<>>,
                             IF d.x[4] = 1 THEN <<BO("LittleEndian")>> ELSE <<>>))],
            [NewType("bits", nm, cur, TRUE) EXCEPT !.fields =
               <<Fld("phys", AnonNames[nt + 1][1], 0, d.x[2], "UInt", 0, <<>>, <<>>)>>
               \o (IF d.x[3] = 1 THEN <<Fld("phys", AnonNames[nt + 1][2], d.x[2], 1, "Flag", 0, <<>>, <<>>)>> ELSE <<>>)])]
    [] d.op = "fattr"   -> [prog EXCEPT !.types[cur].fields[Len(CurT.fields)].attrs = Append(@, d.a)]
    [] d.op = "frename" -> [prog EXCEPT !.types[cur].fields[Len(CurT.fields)].name = d.x[1]]
    [] d.op = "trename" -> [prog EXCEPT !.types[cur].name = d.x[1]]

(* Context edits: with ContextFirst = TRUE only these are allowed before the LAST edit of a
   behaviour, so that an exhaustive run is "every boundary edit in every small context" instead
   of the full product of boundary edits. *)
ContextEdit(d) ==
  CASE d.op = "mattr"   -> d.a \in {DBO("BigEndian"), DBO("Null")} /\ prog.mattrs = <<>> /\ prog.types = <<>>
    [] d.op = "addtype" -> d.x[1] = "enum" => \A i \in 1..Len(prog.types) : prog.types[i].k # "enum"
    [] d.op = "tattr"   -> d.a \in {DBO("LittleEndian"), DBO("Null")} /\ CurT.k = "struct"
    [] d.op = "value"   -> d.x = <<0, <<1>>>>
    [] d.op = "field"   -> \/ d.cls = "scalar" /\ d.f.ty = "UInt" /\ d.f.size \in {2, 8}
                              /\ d.f.attrs \in {<<>>, <<BO("BigEndian")>>}
                           \/ d.cls \in {"virtual", "typed_struct_exact", "typed_bits_exact"}
    [] d.op = "anon"    -> d.x = <<1, 8, 0, 0>>
    [] OTHER -> FALSE

\* which type subsequent edits work on: a newly added named type, else unchanged
NewCur(p) ==
  IF Len(p.types) > Len(prog.types) /\ ~p.types[Len(p.types)].anon THEN Len(p.types) ELSE cur

Init == /\ prog = [mattrs |-> <<>>, types |-> <<>>]
        /\ phase = "build" /\ cur = 0 /\ nedits = 0 /\ last = "init"

Edit ==
  /\ phase = "build" /\ nedits < MaxEdits
  /\ \E d \in Descs :
       /\ ContextFirst /\ nedits + 1 < MaxEdits => ContextEdit(d)
       /\ LET p  == Apply(d)
              fs == Failures(p)
              ok == fs = {}
          IN  /\ IF Emit THEN PrintT(ToJson([cls |-> d.cls, prog |-> p, base |-> prog, ok |-> ok,
                                             fails |-> fs, n |-> nedits + 1, d |-> d]))
                 ELSE TRUE
              /\ ok \/ KeepDead
              /\ prog' = p
              /\ phase' = IF ok THEN "build" ELSE "dead"
              /\ cur' = NewCur(p)
              /\ nedits' = nedits + 1
              /\ last' = d.cls

\* turn to another (named) type; not an edit, nothing is emitted
Focus ==
  /\ phase = "build" /\ nedits < MaxEdits
  /\ \E i \in 1..Len(prog.types) : ~prog.types[i].anon /\ i # cur /\ cur' = i
  /\ UNCHANGED <<prog, phase, nedits, last>>

Next == Edit \/ Focus
Spec == Init /\ [][Next]_vars

---------------------------------------------------------------------------
\* design-level properties (LayoutMC)

\* a behaviour is a realisable base followed by at most one illegal edit
BaseRealisable == phase = "build" => Realisable(prog)
DeadIsIllegal  == phase = "dead" => ~Realisable(prog)

\* every failure is blamed on an existing definition
BlameExists == \A x \in Failures(prog) : x.ti \in 0..Len(prog.types)

(* byte-order inheritance, second formulation: push defaults down from the module instead of
   looking up from the field; both must agree for every field of every reachable program *)
RECURSIVE Chain(_, _)
Chain(p, ti) == IF ti = 0 THEN <<0>> ELSE Chain(p, p.types[ti].parent) \o <<ti>>
PushDown(p, ti) ==
  LET ch == Chain(p, ti)
      Step(acc, k) == IF k = 0
                      THEN (IF HasAttr(p.mattrs, "byte_order", TRUE) THEN GetAttr(p.mattrs, "byte_order", TRUE).s ELSE acc)
                      ELSE (IF HasAttr(p.types[k].attrs, "byte_order", TRUE)
                            THEN GetAttr(p.types[k].attrs, "byte_order", TRUE).s ELSE acc)
      RECURSIVE Fold(_, _)
      Fold(acc, i) == IF i > Len(ch) THEN acc ELSE Fold(Step(acc, ch[i]), i + 1)
  IN  Fold("Null", 1)
InheritanceAgrees == \A ti \in 1..Len(prog.types) : DefaultBO(prog, ti) = PushDown(prog, ti)

=============================================================================
