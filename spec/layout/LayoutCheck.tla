---------------------------- MODULE LayoutCheck ----------------------------
(***************************************************************************)
(* C14 binding: decides, for every program that was replayed into the real *)
(* compiler, whether the recorded behaviour is the one the documented      *)
(* layout / attribute rules demand.  Input (env CASES_FILE): JSON object   *)
(*   cases : sequence of                                                   *)
(*     tid, cls (label of the last edit), gok (generator's Realisable),    *)
(*     prog, spans (spans[1] = module attribute lines, spans[i+1] = lines  *)
(*     of the top-level definition containing type i; rendering facts),    *)
(*     obs [acc, exc, errs: <<[l1, l2, syn, main]>>], bacc (was the        *)
(*     program BEFORE the last edit accepted).                             *)
(* Failures / Realisable are re-evaluated here from the program itself.    *)
(***************************************************************************)
EXTENDS Layout, TLC, Json, IOUtils

Input == JsonDeserialize(IOEnv.CASES_FILE)
Cases == Input.cases

VARIABLES i, nOk, nBad, nMasked
vars == <<i, nOk, nBad, nMasked>>

InSpan(e, sp) == ~e.syn /\ e.main /\ sp[1] >= 1 /\ sp[1] <= e.l1 /\ e.l1 <= sp[2]

RuleOrder == <<"scalar_width", "flag_width", "float_width", "enum_field_width", "explicit_size_mismatch",
               "field_too_small", "byte_type_in_bits", "array_element_not_fixed",
               "array_element_not_byte_multiple", "array_inner_length", "byte_order_missing",
               "byte_order_null", "bits_not_fixed", "bits_too_big", "enum_value_range",
               "attr_context", "attr_value", "attr_duplicate", "reserved_name">>

RECURSIVE JoinRules(_, _)
JoinRules(rs, k) ==
  IF k > Len(RuleOrder) THEN ""
  ELSE LET rest == JoinRules(rs, k + 1) IN
       IF RuleOrder[k] \in rs THEN (IF rest = "" THEN RuleOrder[k] ELSE RuleOrder[k] \o "+" \o rest) ELSE rest

Verdict(c) ==
  LET fs  == Failures(c.prog)
      ok  == fs = {}
      rs  == JoinRules({x.rule : x \in fs}, 1)
      loc == \E j \in 1..Len(c.obs.errs) : \E ti \in FailureTops(c.prog) : InSpan(c.obs.errs[j], c.spans[ti + 1])
  IN  IF ok # c.gok THEN [clause |-> "generator_disagrees", tag |-> c.cls]
      ELSE IF c.obs.exc # "" THEN [clause |-> "exception", tag |-> c.obs.exc]
      ELSE IF ok THEN
           IF c.obs.acc THEN [clause |-> "ok", tag |-> ""]
           ELSE IF ~c.bacc THEN [clause |-> "masked", tag |-> ""]
           ELSE [clause |-> "realisable_rejected", tag |-> c.cls]
      ELSE IF ~c.bacc THEN [clause |-> "masked", tag |-> ""]
           ELSE IF c.obs.acc THEN [clause |-> "unrealisable_accepted", tag |-> rs]
           ELSE IF ~loc THEN [clause |-> "error_not_in_definition", tag |-> rs]
           ELSE [clause |-> "ok", tag |-> ""]

Init == i = 0 /\ nOk = 0 /\ nBad = 0 /\ nMasked = 0

Step ==
  /\ i < Len(Cases)
  /\ i' = i + 1
  /\ LET c == Cases[i + 1]
         v == Verdict(c)
     IN  /\ nOk' = nOk + (IF v.clause = "ok" THEN 1 ELSE 0)
         /\ nMasked' = nMasked + (IF v.clause = "masked" THEN 1 ELSE 0)
         /\ nBad' = nBad + (IF v.clause \notin {"ok", "masked"} THEN 1 ELSE 0)
         /\ IF v.clause \notin {"ok", "masked"}
            THEN PrintT(ToJson([tid |-> c.tid, clause |-> v.clause, tag |-> v.tag, cls |-> c.cls]))
            ELSE TRUE

Done ==
  /\ i = Len(Cases)
  /\ i' = i + 1
  /\ UNCHANGED <<nOk, nBad, nMasked>>
  /\ PrintT(ToJson([tid |-> -2, clause |-> "summary", total |-> Len(Cases), ok |-> nOk,
                    bad |-> nBad, masked |-> nMasked]))

Next == Step \/ Done
Spec == Init /\ [][Next]_vars
Consumed == i <= Len(Cases) + 1
=============================================================================
