-------------------------------- MODULE Lex --------------------------------
(***************************************************************************)
(* The Emboss tokenizer as a state machine (property C10).                 *)
(*                                                                         *)
(* Text is a sequence of Unicode code points (integers).  The pattern      *)
(* table `Patterns' is NOT part of this module: the harness reads the      *)
(* "Pattern | Symbol" table of doc/grammar.md into regex syntax trees and  *)
(* passes it in.  This module contains                                      *)
(*   - a generic regex matcher (Ends / MatchLen): the set of positions an  *)
(*     NFA run of a pattern can reach; a token's length is the maximum;    *)
(*   - longest match with ties to the earlier pattern (Best / IsBest);     *)
(*   - line splitting, leading whitespace, the indentation stack;          *)
(*   - the machine: ScanToken, SkipBlank, Unrecognized, EndLine, Indent,   *)
(*     Dedent, BadIndent, CloseDedent, Finish;                             *)
(*   - Tokenize(text): the machine run to completion, as a function;       *)
(*   - the properties of C10 as predicates over (text, token list), used   *)
(*     both on the machine's own behaviours (LexMC) and on token lists     *)
(*     recorded from compiler/front_end/tokenizer.py (LexCheck).           *)
(*                                                                         *)
(* Named modelling decisions (docs are silent; the code's choice is used): *)
(*   D1 line terminators are those of Python str.splitlines();             *)
(*   D2 `\s' and "leading whitespace" are Python's Unicode whitespace;     *)
(*   D3 positions of the synthesized tokens: "\n" is zero-width at the end *)
(*      of its line, Indent spans the new part of the leading whitespace,  *)
(*      Dedent is zero-width after the leading whitespace, closing Dedents *)
(*      sit at (number of lines + 1, 1);                                   *)
(*   D4 a lexical error is reported for the first line that has one; an    *)
(*      unrecognized character wins over bad indentation of the same line. *)
(* From the documents: blank and comment-only lines yield `Comment? "\n"'  *)
(* (grammar.md: comment-line) and take no part in indentation (grammar.md: *)
(* eol -> "\n" comment-line* precedes Indent; compiler-design.md: "mimics  *)
(* CPython"); Indent/Dedent "a la Python" (design.md): a dedent must       *)
(* return to an enclosing level, otherwise the text is rejected.           *)
(***************************************************************************)
EXTENDS Integers, Sequences, FiniteSets, FiniteSetsExt

CONSTANTS Patterns,
  \* <<p_1 .. p_n>>, p = [re, sym, emit, lit, text]; re = [k, neg, ws, rs, subs, min, max]
          AsciiCand
  \* must equal CandTuple(0) (defined below from Patterns alone).  It is a parameter only so
  \* that the root module can bind it to a definition TLC evaluates once: constant definitions
  \* inside an instantiated module are re-evaluated by TLC at every use.

NPat == Len(Patterns)

---------------------------------------------------------------------------
(* Characters *)

WS == {9, 10, 11, 12, 13, 28, 29, 30, 31, 32, 133, 160, 5760} \cup (8192..8202)
        \cup {8232, 8233, 8239, 8287, 12288}                        \* D2
LineBreaks == {10, 11, 12, 13, 28, 29, 30, 133, 8232, 8233}         \* D1

IsUpper(c) == c >= 65 /\ c <= 90
IsLower(c) == c >= 97 /\ c <= 122
IsDigit(c) == c >= 48 /\ c <= 57
IsHex(c)   == IsDigit(c) \/ (c >= 97 /\ c <= 102) \/ (c >= 65 /\ c <= 70)
IsBin(c)   == c = 48 \/ c = 49
IsWordCh(c) == IsUpper(c) \/ IsLower(c) \/ IsDigit(c) \/ c = 95 \/ c = 36

\* linear-time maximum / minimum (FiniteSetsExt!Max is a quadratic CHOOSE)
Max2(a, b) == IF a > b THEN a ELSE b
Min2(a, b) == IF a < b THEN a ELSE b
MaxOf(S) == FoldSet(Max2, -1, S)
MinOf(S) == FoldSet(Min2, MaxOf(S), S)

RECURSIVE Sorted(_)
Sorted(S) == IF S = {} THEN <<>> ELSE LET m == MinOf(S) IN <<m>> \o Sorted(S \ {m})

---------------------------------------------------------------------------
(* Lines *)

\* position j starts a line terminator (the LF of a CR LF pair does not)
BreakStarts(t) ==
  {j \in 1..Len(t) : t[j] \in LineBreaks /\ ~(t[j] = 10 /\ j > 1 /\ t[j-1] = 13)}
BreakLen(t, j) == IF t[j] = 13 /\ j < Len(t) /\ t[j+1] = 10 THEN 2 ELSE 1

SplitLines(t) ==
  LET B == Sorted(BreakStarts(t))
      n == Len(B)
      StartOf(k) == IF k = 1 THEN 1 ELSE B[k-1] + BreakLen(t, B[k-1])
      full == [k \in 1..n |-> SubSeq(t, StartOf(k), B[k] - 1)]
      rest == StartOf(n + 1)
  IN IF rest <= Len(t) THEN Append(full, SubSeq(t, rest, Len(t))) ELSE full

\* length of the maximal whitespace prefix
RECURSIVE WsRun(_, _)
WsRun(line, j) == IF j <= Len(line) /\ line[j] \in WS THEN WsRun(line, j + 1) ELSE j - 1
LeadLen(line) == WsRun(line, 1)
Lead(line) == SubSeq(line, 1, LeadLen(line))

IsPrefix(a, b) == Len(a) <= Len(b) /\ SubSeq(b, 1, Len(a)) = a

---------------------------------------------------------------------------
(* Generic matcher: Ends(re, s, i) = positions j such that re matches s[i..j-1] *)

InSet(re, c) ==
  LET hit == (re.ws /\ c \in WS) \/ (\E r \in 1..Len(re.rs) : re.rs[r][1] <= c /\ c <= re.rs[r][2])
  IN IF re.neg THEN ~hit ELSE hit

RECURSIVE Ends(_, _, _), CatEnds(_, _, _, _), RepEnds(_, _, _, _, _, _, _), RunLen(_, _, _, _)

\* number of consecutive characters from position p that are in class cls, counted up to lim
\* (lim = -1: no limit)
RunLen(cls, s, p, lim) ==
  IF lim # 0 /\ p <= Len(s) /\ InSet(cls, s[p])
  THEN 1 + RunLen(cls, s, p + 1, IF lim = -1 THEN -1 ELSE lim - 1) ELSE 0

\* cls{mn,mx} from position p: a run of r class characters can be left after mn..min(r,mx) of them
RepSetEnds(cls, mn, mx, s, p) ==
  LET r == RunLen(cls, s, p, mx) IN IF r < mn THEN {} ELSE (p + mn)..(p + r)

Ends(re, s, i) ==
  CASE re.k = "set" -> IF i <= Len(s) /\ InSet(re, s[i]) THEN {i + 1} ELSE {}
    [] re.k = "eol" -> IF i = Len(s) + 1 THEN {i} ELSE {}
    [] re.k = "alt" -> UNION {Ends(re.subs[k], s, i) : k \in 1..Len(re.subs)}
    [] re.k = "cat" -> CatEnds(re.subs, 1, s, {i})
    [] re.k = "rep" -> IF re.subs[1].k = "set"
                       THEN RepSetEnds(re.subs[1], re.min, re.max, s, i)      \* same set, computed directly
                       ELSE RepEnds(re.subs[1], re.min, re.max, s, {i}, 0, {})

CatEnds(subs, k, s, P) ==
  IF k > Len(subs) \/ P = {} THEN P
  ELSE CatEnds(subs, k + 1, s, UNION {Ends(subs[k], s, p) : p \in P})

\* F: positions reached after exactly n iterations; acc: positions accepted so far.
\* Once n >= mn a position already accepted need not be explored again (fewer
\* iterations never restrict the continuation), which also makes the loop finite.
RepEnds(sub, mn, mx, s, F, n, acc) ==
  LET acc2 == IF n >= mn THEN acc \cup F ELSE acc
  IN IF F = {} \/ n = mx THEN acc2
     ELSE LET nxt == UNION {Ends(sub, s, p) : p \in F}
              nxt2 == IF n + 1 >= mn THEN nxt \ acc2 ELSE nxt
          IN RepEnds(sub, mn, mx, s, nxt2, n + 1, acc2)

\* length of the longest match of pattern p at position i of s; -1: no match
MatchLen(p, s, i) ==
  LET E == Ends(Patterns[p].re, s, i) IN IF E = {} THEN -1 ELSE MaxOf(E) - i

\* Declarative: pattern p with length l is THE token at (s, i):
\* longest over all patterns, and among the longest the earliest in the table.
IsBest(s, i, p, l) ==
  /\ l >= 1
  /\ l = MatchLen(p, s, i)
  /\ \A q \in 1..NPat : LET m == MatchLen(q, s, i) IN m <= l /\ (q < p => m < l)

\* Operational: one pass over the table, restricted to the patterns that can start with
\* the character at hand.  CanStart over-approximates "has a non-empty match beginning with
\* c" (first sets with nullability); LexMC checks Best against IsBest, which scans everything.
RECURSIVE Nullable(_), CanStart(_, _)
Nullable(re) ==
  CASE re.k = "set" -> FALSE
    [] re.k = "eol" -> TRUE
    [] re.k = "alt" -> \E k \in 1..Len(re.subs) : Nullable(re.subs[k])
    [] re.k = "cat" -> \A k \in 1..Len(re.subs) : Nullable(re.subs[k])
    [] re.k = "rep" -> re.min = 0 \/ Nullable(re.subs[1])
CanStart(re, c) ==
  CASE re.k = "set" -> InSet(re, c)
    [] re.k = "eol" -> FALSE
    [] re.k = "alt" -> \E k \in 1..Len(re.subs) : CanStart(re.subs[k], c)
    [] re.k = "cat" -> \E k \in 1..Len(re.subs) :
                         CanStart(re.subs[k], c) /\ \A j \in 1..(k - 1) : Nullable(re.subs[j])
    [] re.k = "rep" -> re.max # 0 /\ CanStart(re.subs[1], c)

AllPats == [p \in 1..NPat |-> p]
CandFor(c) == SelectSeq(AllPats, LAMBDA p : CanStart(Patterns[p].re, c))
\* the candidates for every ASCII character, as an explicit tuple (index c + 1)
RECURSIVE CandTuple(_)
CandTuple(c) == IF c > 127 THEN <<>> ELSE <<CandFor(c)>> \o CandTuple(c + 1)
Cand(c) == IF c <= 127 THEN AsciiCand[c + 1] ELSE CandFor(c)

RECURSIVE BestFrom(_, _, _, _, _, _)
BestFrom(cs, k, s, i, bl, bp) ==
  IF k > Len(cs) THEN [len |-> bl, pat |-> bp]
  ELSE LET m == MatchLen(cs[k], s, i)
       IN IF m > bl THEN BestFrom(cs, k + 1, s, i, m, cs[k]) ELSE BestFrom(cs, k + 1, s, i, bl, bp)
Best(s, i) == BestFrom(Cand(s[i]), 1, s, i, 0, 0)      \* len = 0: nothing matches here

---------------------------------------------------------------------------
(* Tokens *)

NLSym == "\"\\n\""          \* the grammar's terminal  "\n"
Tok(sym, text, l1, c1, l2, c2) ==
  [sym |-> sym, text |-> text, l1 |-> l1, c1 |-> c1, l2 |-> l2, c2 |-> c2]
IsSynth(t) == t.sym \in {NLSym, "Indent", "Dedent"}
Blankish(toks) == \A k \in 1..Len(toks) : toks[k].sym = "Comment"

---------------------------------------------------------------------------
(* The machine.  A state is a record; the actions of the TLA+ specification *)
(* (LexMC) and the function Tokenize are both built from the same guards    *)
(* (En_X) and effects (Do_X).                                               *)

InitSt(text) ==
  [lines |-> SplitLines(text), lineNo |-> 1, col |-> 1, pending |-> <<>>,
   stack |-> << <<>> >>, out |-> <<>>, status |-> "run",
   err |-> [kind |-> "none", line |-> 0, c1 |-> 0, c2 |-> 0]]

AtEOF(st)  == st.lineNo > Len(st.lines)
Cur(st)    == st.lines[st.lineNo]
Top(st)    == st.stack[Len(st.stack)]
InLine(st) == st.status = "run" /\ ~AtEOF(st) /\ st.col <= Len(Cur(st))
AtEOL(st)  == st.status = "run" /\ ~AtEOF(st) /\ st.col > Len(Cur(st))
NonBlank(st) == ~Blankish(st.pending)
OnStack(st, w) == \E k \in 1..Len(st.stack) : st.stack[k] = w

En_ScanToken(st) == InLine(st) /\ LET b == Best(Cur(st), st.col) IN b.len > 0 /\ Patterns[b.pat].emit
Do_ScanToken(st) ==
  LET b == Best(Cur(st), st.col)
      t == Tok(Patterns[b.pat].sym, SubSeq(Cur(st), st.col, st.col + b.len - 1),
               st.lineNo, st.col, st.lineNo, st.col + b.len)
  IN [st EXCEPT !.pending = Append(@, t), !.col = @ + b.len]

En_SkipBlank(st) == InLine(st) /\ LET b == Best(Cur(st), st.col) IN b.len > 0 /\ ~Patterns[b.pat].emit
Do_SkipBlank(st) == [st EXCEPT !.col = @ + Best(Cur(st), st.col).len]

En_Unrecognized(st) == InLine(st) /\ Best(Cur(st), st.col).len = 0
Do_Unrecognized(st) ==
  [st EXCEPT !.status = "error",
             !.err = [kind |-> "unrecognized", line |-> st.lineNo, c1 |-> st.col, c2 |-> st.col + 1]]

\* end of a line whose indentation question is settled (or never arises)
En_EndLine(st) == AtEOL(st) /\ (~NonBlank(st) \/ Lead(Cur(st)) = Top(st))
Do_EndLine(st) ==
  LET n == Len(Cur(st)) + 1
  IN [st EXCEPT !.out = @ \o st.pending \o << Tok(NLSym, <<10>>, st.lineNo, n, st.lineNo, n) >>,
                !.pending = <<>>, !.lineNo = @ + 1, !.col = 1]

En_Indent(st) == AtEOL(st) /\ NonBlank(st) /\ Lead(Cur(st)) # Top(st) /\ IsPrefix(Top(st), Lead(Cur(st)))
Do_Indent(st) ==
  LET w == Lead(Cur(st))  a == Len(Top(st))
  IN [st EXCEPT !.out = Append(@, Tok("Indent", SubSeq(w, a + 1, Len(w)), st.lineNo, a + 1, st.lineNo, Len(w) + 1)),
                !.stack = Append(@, w)]

En_Dedent(st) == AtEOL(st) /\ NonBlank(st) /\ ~IsPrefix(Top(st), Lead(Cur(st))) /\ OnStack(st, Lead(Cur(st)))
Do_Dedent(st) ==
  LET n == LeadLen(Cur(st)) + 1
  IN [st EXCEPT !.out = Append(@, Tok("Dedent", <<>>, st.lineNo, n, st.lineNo, n)),
                !.stack = SubSeq(@, 1, Len(@) - 1)]

En_BadIndent(st) == AtEOL(st) /\ NonBlank(st) /\ ~IsPrefix(Top(st), Lead(Cur(st))) /\ ~OnStack(st, Lead(Cur(st)))
Do_BadIndent(st) ==
  [st EXCEPT !.status = "error",
             !.err = [kind |-> "indent", line |-> st.lineNo, c1 |-> 1, c2 |-> LeadLen(Cur(st)) + 1]]

En_CloseDedent(st) == st.status = "run" /\ AtEOF(st) /\ Len(st.stack) > 1
Do_CloseDedent(st) ==
  [st EXCEPT !.out = Append(@, Tok("Dedent", <<>>, st.lineNo, 1, st.lineNo, 1)),
             !.stack = SubSeq(@, 1, Len(@) - 1)]

En_Finish(st) == st.status = "run" /\ AtEOF(st) /\ Len(st.stack) = 1
Do_Finish(st) == [st EXCEPT !.status = "done"]

EnabledCount(st) ==
  Cardinality({x \in {"scan", "skip", "unrec", "endl", "ind", "ded", "bad", "close", "fin"} :
     CASE x = "scan" -> En_ScanToken(st) [] x = "skip" -> En_SkipBlank(st)
       [] x = "unrec" -> En_Unrecognized(st) [] x = "endl" -> En_EndLine(st)
       [] x = "ind" -> En_Indent(st) [] x = "ded" -> En_Dedent(st)
       [] x = "bad" -> En_BadIndent(st) [] x = "close" -> En_CloseDedent(st)
       [] x = "fin" -> En_Finish(st)})

\* The function: scan a whole line in one go (same Best, same token construction) ...
\* r = [ok, toks, col]: tokens of line ln from column col on; on failure col is the offending column
RECURSIVE ScanLine(_, _, _, _)
ScanLine(line, ln, col, acc) ==
  IF col > Len(line) THEN [ok |-> TRUE, toks |-> acc, col |-> col]
  ELSE LET b == Best(line, col)
       IN IF b.len = 0 THEN [ok |-> FALSE, toks |-> acc, col |-> col]
          ELSE ScanLine(line, ln, col + b.len,
                        IF Patterns[b.pat].emit
                        THEN Append(acc, Tok(Patterns[b.pat].sym, SubSeq(line, col, col + b.len - 1), ln, col, ln, col + b.len))
                        ELSE acc)
ScanRest(st) ==
  LET r == ScanLine(Cur(st), st.lineNo, st.col, st.pending)
  IN IF r.ok THEN [st EXCEPT !.pending = r.toks, !.col = r.col]
     ELSE Do_Unrecognized([st EXCEPT !.pending = r.toks, !.col = r.col])

\* ... then settle indentation and close the line; at the end close the open levels.
RECURSIVE Run(_)
Run(st) ==
  IF st.status # "run" THEN st
  ELSE IF InLine(st) THEN Run(ScanRest(st))
  ELSE IF En_EndLine(st) THEN Run(Do_EndLine(st))
  ELSE IF En_Indent(st) THEN Run(Do_Indent(st))
  ELSE IF En_Dedent(st) THEN Run(Do_Dedent(st))
  ELSE IF En_BadIndent(st) THEN Do_BadIndent(st)
  ELSE IF En_CloseDedent(st) THEN Run(Do_CloseDedent(st))
  ELSE Do_Finish(st)

\* [ok, toks, err]
Tokenize(text) ==
  LET f == Run(InitSt(text))
  IN [ok |-> f.status = "done", toks |-> IF f.status = "done" THEN f.out ELSE <<>>, err |-> f.err]

---------------------------------------------------------------------------
(* The properties of C10, over a text and a token list *)

LinesOf(text) == SplitLines(text)

NotSynth(t) == ~IsSynth(t)
RealToks(toks) == SelectSeq(toks, NotSynth)
OnLine(seq, ln) == SelectSeq(seq, LAMBDA t : t.l1 = ln)

\* each token's text equals the source slice at its reported line and columns
PositionsExact(lines, toks) ==
  \A k \in 1..Len(toks) :
    LET t == toks[k] IN
      /\ t.l1 = t.l2
      /\ IF t.sym = NLSym
         THEN t.l1 \in 1..Len(lines) /\ t.c1 = Len(lines[t.l1]) + 1 /\ t.c2 = t.c1 /\ t.text = <<10>>
         ELSE IF t.sym = "Dedent"
         THEN t.l1 \in 1..(Len(lines) + 1) /\ t.c1 >= 1 /\ t.c2 = t.c1 /\ t.text = <<>>
         ELSE /\ t.l1 \in 1..Len(lines)
              /\ 1 <= t.c1 /\ t.c1 < t.c2 /\ t.c2 <= Len(lines[t.l1]) + 1
              /\ t.text = SubSeq(lines[t.l1], t.c1, t.c2 - 1)

\* position j of a line is inside one of the tokens lt (the real tokens of that line)
Cov(lt, j) == \E k \in 1..Len(lt) : lt[k].c1 <= j /\ j < lt[k].c2

\* tokens come in reading order without overlap, and what they leave out is whitespace
Lossless(lines, toks) ==
  LET real == RealToks(toks) IN
  /\ \A a \in 1..(Len(real) - 1) :
        \/ real[a].l1 < real[a + 1].l1
        \/ real[a].l1 = real[a + 1].l1 /\ real[a].c2 <= real[a + 1].c1
  /\ \A ln \in 1..Len(lines) :
        LET lt == OnLine(real, ln) IN
          \A j \in 1..Len(lines[ln]) : lines[ln][j] \in WS \/ Cov(lt, j)

\* every token is the longest match of the documented patterns, ties to the earlier
\* pattern, and carries that pattern's symbol; every gap is one longest match of a
\* pattern that emits no symbol
LongestMatch(lines, toks) ==
  LET real == RealToks(toks) IN
  /\ \A k \in 1..Len(real) :
       LET t == real[k] IN
         (t.l1 \in 1..Len(lines) /\ t.c1 \in 1..Len(lines[t.l1])) =>
           \E p \in 1..NPat : /\ Patterns[p].emit /\ Patterns[p].sym = t.sym
                              /\ IsBest(lines[t.l1], t.c1, p, t.c2 - t.c1)
  /\ \A ln \in 1..Len(lines) :
       LET lt == OnLine(real, ln) IN
       \A j \in 1..Len(lines[ln]) :
         (~Cov(lt, j) /\ (j = 1 \/ Cov(lt, j - 1))) =>
            LET b == Best(lines[ln], j)
            IN /\ b.len > 0 /\ ~Patterns[b.pat].emit
               /\ \A i \in j..(j + b.len - 1) : ~Cov(lt, i)
               /\ (j + b.len <= Len(lines[ln]) => Cov(lt, j + b.len))

\* token lines never go backwards; every line has exactly one "\n" token, the last of its line
NewlinePerLine(lines, toks) ==
  LET nls == SelectSeq(toks, LAMBDA t : t.sym = NLSym) IN
  /\ \A k \in 1..(Len(toks) - 1) : toks[k].l1 <= toks[k + 1].l1
  /\ Len(nls) = Len(lines) /\ \A ln \in 1..Len(lines) : nls[ln].l1 = ln
  /\ \A k \in 1..Len(toks) : toks[k].sym = NLSym => (k = Len(toks) \/ toks[k + 1].l1 > toks[k].l1)
  /\ \A k \in 1..Len(toks) : toks[k].l1 > Len(lines) => toks[k].sym = "Dedent"

\* Indent/Dedent are balanced and mirror the changes of leading whitespace:
\* replaying them as push/pop, the concatenation of the open Indent texts is the leading
\* whitespace of every line that has a token other than a comment; they occur only at
\* the start of such lines (or, Dedent, after the last line), never Indent and Dedent together.
RECURSIVE Flatten(_)
Flatten(ss) == IF ss = <<>> THEN <<>> ELSE Head(ss) \o Flatten(Tail(ss))

LineIsCode(toks, ln) == \E k \in 1..Len(toks) : toks[k].l1 = ln /\ ~IsSynth(toks[k]) /\ toks[k].sym # "Comment"

RECURSIVE DentWalk(_, _, _, _)
DentWalk(lines, toks, k, open) ==      \* open: sequence of Indent texts
  IF k > Len(toks) THEN open = <<>>
  ELSE LET t == toks[k] IN
    IF t.sym = "Indent" THEN
         /\ LineIsCode(toks, t.l1)
         /\ k = 1 \/ toks[k - 1].l1 < t.l1                 \* first token of its line
         /\ DentWalk(lines, toks, k + 1, Append(open, t.text))
    ELSE IF t.sym = "Dedent" THEN
         /\ open # <<>>
         /\ t.l1 > Len(lines) \/ LineIsCode(toks, t.l1)
         /\ k = 1 \/ toks[k - 1].l1 < t.l1 \/ toks[k - 1].sym = "Dedent"
         /\ DentWalk(lines, toks, k + 1, SubSeq(open, 1, Len(open) - 1))
    ELSE /\ (~IsSynth(t) /\ t.sym # "Comment" /\ t.l1 \in 1..Len(lines)) => Flatten(open) = Lead(lines[t.l1])
         /\ DentWalk(lines, toks, k + 1, open)

IndentBalanced(lines, toks) ==
  /\ Cardinality({k \in 1..Len(toks) : toks[k].sym = "Indent"})
       = Cardinality({k \in 1..Len(toks) : toks[k].sym = "Dedent"})
  /\ DentWalk(lines, toks, 1, <<>>)

---------------------------------------------------------------------------
(* Names and numbers as the language reference describes them, over code   *)
(* points, without the pattern table.                                      *)

AllCh(t, P(_)) == \A j \in 1..Len(t) : P(t[j])

\* "start with a capital letter, contain at least one lower-case letter, only letters and digits"
CamelShape(t) ==
  /\ Len(t) >= 1 /\ IsUpper(t[1])
  /\ \A j \in 1..Len(t) : IsUpper(t[j]) \/ IsLower(t[j]) \/ IsDigit(t[j])
  /\ \E j \in 1..Len(t) : IsLower(t[j])
\* "start with a lower-case letter, only lower-case letters, numbers and underscore"
SnakeShape(t) ==
  /\ Len(t) >= 1 /\ IsLower(t[1])
  /\ \A j \in 1..Len(t) : IsLower(t[j]) \/ IsDigit(t[j]) \/ t[j] = 95
\* "start with a capital letter, only capital letters, numbers and underscore, at least two
\*  characters" and (the regex the reference gives) a further capital letter or underscore
ShoutyShape(t) ==
  /\ Len(t) >= 2 /\ IsUpper(t[1])
  /\ \A j \in 1..Len(t) : IsUpper(t[j]) \/ IsDigit(t[j]) \/ t[j] = 95
  /\ \E j \in 2..Len(t) : IsUpper(t[j]) \/ t[j] = 95

\* lengths of the runs between underscores
GroupLens(r) ==
  LET B == Sorted({0, Len(r) + 1} \cup {j \in 1..Len(r) : r[j] = 95})
  IN [k \in 1..(Len(B) - 1) |-> B[k + 1] - B[k] - 1]

\* groups of exactly W digits after a first group of 1..W
Grouped(r, W) ==
  LET g == GroupLens(r) IN g[1] \in 1..W /\ \A k \in 2..Len(g) : g[k] = W

DecShape(t) ==
  /\ Len(t) >= 1 /\ \A j \in 1..Len(t) : IsDigit(t[j]) \/ t[j] = 95
  /\ IsDigit(t[1])
  /\ (\A j \in 1..Len(t) : IsDigit(t[j])) \/ Grouped(t, 3)

\* after the 0x / 0b prefix: plain digits, or (optionally after one `_') groups of 4 or of 8
RadixShape(t, marker, Dig(_)) ==
  /\ Len(t) >= 3 /\ t[1] = 48 /\ t[2] = marker
  /\ LET r == SubSeq(t, 3, Len(t))
         r2 == IF r[1] = 95 THEN SubSeq(r, 2, Len(r)) ELSE r
     IN /\ \A j \in 1..Len(r) : Dig(r[j]) \/ r[j] = 95
        /\ \/ \A j \in 1..Len(r) : Dig(r[j])
           \/ Len(r2) >= 1 /\ (Grouped(r2, 4) \/ Grouped(r2, 8))

NumberShape(t) == DecShape(t) \/ RadixShape(t, 120, IsHex) \/ RadixShape(t, 98, IsBin)

StartsWith(t, pre) == IsPrefix(pre, t)
ResCamel  == <<69,109,98,111,115,115,82,101,115,101,114,118,101,100>>          \* EmbossReserved
ResSnake  == <<101,109,98,111,115,115,95,114,101,115,101,114,118,101,100>>     \* emboss_reserved
ResShouty == <<69,77,66,79,83,83,95,82,69,83,69,82,86,69,68>>                  \* EMBOSS_RESERVED
TrueCp  == <<116,114,117,101>>
FalseCp == <<102,97,108,115,101>>

IsKeywordText(t) == \E p \in 1..NPat : Patterns[p].lit /\ Patterns[p].text = t
IsWordText(t) == Len(t) >= 1 /\ \A j \in 1..Len(t) : IsWordCh(t[j])

\* the class a word-like token must have; "bad" = neither a name, a number nor a keyword
WordClass(t) ==
  IF IsKeywordText(t) THEN "keyword"
  ELSE IF t = TrueCp \/ t = FalseCp THEN "BooleanConstant"
  ELSE IF NumberShape(t) THEN "Number"
  ELSE IF SnakeShape(t) /\ ~StartsWith(t, ResSnake) THEN "SnakeWord"
  ELSE IF ShoutyShape(t) /\ ~StartsWith(t, ResShouty) THEN "ShoutyWord"
  ELSE IF CamelShape(t) /\ ~StartsWith(t, ResCamel) THEN "CamelWord"
  ELSE "bad"

ClassifiedAsDocumented(toks) ==
  LET real == RealToks(toks) IN
  \A k \in 1..Len(real) :
    LET t == real[k] IN
      /\ IsWordText(t.text) =>
           LET c == WordClass(t.text)
           IN IF c = "keyword" THEN \E p \in 1..NPat : Patterns[p].lit /\ Patterns[p].text = t.text /\ Patterns[p].sym = t.sym
              ELSE IF c = "bad" THEN t.sym \in {"BadWord", "BadNumber"}
              ELSE t.sym = c
      /\ t.sym \in {"Number", "SnakeWord", "ShoutyWord", "CamelWord", "BooleanConstant", "BadWord", "BadNumber"}
           => IsWordText(t.text)
      \* a word token is a whole word: the token that follows it directly does not start with a word character
      /\ (IsWordText(t.text) /\ k < Len(real) /\ real[k + 1].l1 = t.l1 /\ real[k + 1].c1 = t.c2 /\ Len(real[k + 1].text) >= 1)
           => ~IsWordCh(real[k + 1].text[1])

AllProps(text, toks) ==
  LET lines == LinesOf(text) IN
  [PositionsExact |-> PositionsExact(lines, toks),
   Lossless |-> Lossless(lines, toks),
   LongestMatch |-> LongestMatch(lines, toks),
   NewlinePerLine |-> NewlinePerLine(lines, toks),
   IndentBalanced |-> IndentBalanced(lines, toks),
   ClassifiedAsDocumented |-> ClassifiedAsDocumented(toks)]

PropNames == {"PositionsExact", "Lossless", "LongestMatch", "NewlinePerLine", "IndentBalanced",
              "ClassifiedAsDocumented"}
=============================================================================
