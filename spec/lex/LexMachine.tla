----------------------------- MODULE LexMachine -----------------------------
(***************************************************************************)
(* The tokenizer of Lex.tla as a TLA+ specification: variables, one action *)
(* per kind of step, and the C10 properties as invariants of its own       *)
(* behaviours.  LexMC instantiates it over all short texts of a small      *)
(* alphabet and over small indentation texts.                              *)
(*                                                                         *)
(* The documented pattern table is read from the JSON file the harness      *)
(* derives from doc/grammar.md.  It is bound by INSTANCE substitution of    *)
(* root-level constant definitions (Table, Cands), which TLC evaluates once;*)
(* a cfg override `Patterns <- Def' would be re-evaluated at every use.     *)
(***************************************************************************)
EXTENDS Integers, Sequences, FiniteSets, TLC, Json, IOUtils

Table == JsonDeserialize(IOEnv.LEX_TABLE)
L0 == INSTANCE Lex WITH Patterns <- Table.patterns, AsciiCand <- <<>>
Cands == L0!CandTuple(0)
INSTANCE Lex WITH Patterns <- Table.patterns, AsciiCand <- Cands

VARIABLES text,      \* the input (never changes)
          lines,     \* its lines
          lineNo,    \* current line (1-based); > Len(lines): past the end
          col,       \* next column to scan in the current line
          pending,   \* tokens of the current line, not yet released
          stack,     \* indentation stack: leading-whitespace strings, stack[1] = <<>>
          out,       \* tokens emitted so far
          status,    \* "run" | "done" | "error"
          err        \* [kind, line, c1, c2]

vars == <<text, lines, lineNo, col, pending, stack, out, status, err>>

S == [lines |-> lines, lineNo |-> lineNo, col |-> col, pending |-> pending, stack |-> stack,
      out |-> out, status |-> status, err |-> err]

Set(r) ==
  /\ lines' = r.lines /\ lineNo' = r.lineNo /\ col' = r.col /\ pending' = r.pending
  /\ stack' = r.stack /\ out' = r.out /\ status' = r.status /\ err' = r.err
  /\ text' = text

InitWith(t) ==
  LET s0 == InitSt(t) IN
  /\ text = t
  /\ lines = s0.lines /\ lineNo = s0.lineNo /\ col = s0.col /\ pending = s0.pending
  /\ stack = s0.stack /\ out = s0.out /\ status = s0.status /\ err = s0.err

ScanToken    == En_ScanToken(S)    /\ Set(Do_ScanToken(S))
SkipBlank    == En_SkipBlank(S)    /\ Set(Do_SkipBlank(S))
Unrecognized == En_Unrecognized(S) /\ Set(Do_Unrecognized(S))
EndLine      == En_EndLine(S)      /\ Set(Do_EndLine(S))
Indent       == En_Indent(S)       /\ Set(Do_Indent(S))
Dedent       == En_Dedent(S)       /\ Set(Do_Dedent(S))
BadIndent    == En_BadIndent(S)    /\ Set(Do_BadIndent(S))
CloseDedent  == En_CloseDedent(S)  /\ Set(Do_CloseDedent(S))
Finish       == En_Finish(S)       /\ Set(Do_Finish(S))

Next == \/ ScanToken \/ SkipBlank \/ Unrecognized \/ EndLine \/ Indent \/ Dedent
        \/ BadIndent \/ CloseDedent \/ Finish

---------------------------------------------------------------------------
(* Invariants *)

CountSym(toks, sym) == Cardinality({k \in 1..Len(toks) : toks[k].sym = sym})

TypeOK ==
  /\ status \in {"run", "done", "error"}
  /\ lineNo \in 1..(Len(lines) + 1)
  /\ col >= 1
  /\ Len(stack) >= 1

\* the stack is a chain of proper prefixes starting at the empty string
StackChain ==
  /\ stack[1] = <<>>
  /\ \A k \in 1..(Len(stack) - 1) : IsPrefix(stack[k], stack[k + 1]) /\ stack[k] # stack[k + 1]

\* exactly one kind of step is possible while running; none afterwards
OneEnabled == EnabledCount(S) = (IF status = "run" THEN 1 ELSE 0)

\* the one-pass, first-character-filtered Best is the declarative longest match, earliest on ties
BestIsBest ==
  InLine(S) =>
    LET b == Best(Cur(S), col) IN
      IF b.len = 0 THEN \A q \in 1..NPat : MatchLen(q, Cur(S), col) <= 0
      ELSE IsBest(Cur(S), col, b.pat, b.len)

\* open Indents = depth of the stack, at every moment
BalancedSoFar ==
  CountSym(out, "Indent") - CountSym(out, "Dedent") = Len(stack) - 1

\* tokens of the current line wait in `pending' and lie left of the scan position
PendingLeftOfScan ==
  \A k \in 1..Len(pending) : pending[k].l1 = lineNo /\ pending[k].c2 <= col

\* a successful run has all the properties of C10, and equals the function Tokenize
DoneIsGood ==
  status = "done" =>
    LET p == AllProps(text, out) IN
      /\ \A n \in PropNames : p[n]
      /\ Tokenize(text) = [ok |-> TRUE, toks |-> out, err |-> err]

\* an error has a cause, and the function agrees
ErrorHasCause ==
  status = "error" =>
    /\ Tokenize(text) = [ok |-> FALSE, toks |-> <<>>, err |-> err]
    /\ err.line \in 1..Len(lines)
    /\ \/ /\ err.kind = "unrecognized"
          /\ \A q \in 1..NPat : MatchLen(q, lines[err.line], err.c1) <= 0
       \/ /\ err.kind = "indent"
          /\ ~OnStack(S, Lead(lines[err.line]))

Spec == /\ \E t \in {<<>>} : InitWith(t)
        /\ [][Next]_vars

\* every step makes progress in a well-founded order, so every run ends
Measure ==
  << Len(lines) + 1 - lineNo,
     IF lineNo <= Len(lines) THEN Len(lines[lineNo]) + 1 - col ELSE 0,
     IF En_Indent(S) THEN 1 ELSE 0,
     Len(stack),
     IF status = "run" THEN 1 ELSE 0 >>
RECURSIVE LexLess(_, _, _)
LexLess(a, b, k) ==
  IF k > Len(a) THEN FALSE
  ELSE a[k] < b[k] \/ (a[k] = b[k] /\ LexLess(a, b, k + 1))
Progress == [][LexLess(Measure', Measure, 1) /\ \A k \in 1..5 : Measure'[k] >= 0]_vars
=============================================================================
