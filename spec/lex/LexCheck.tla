----------------------------- MODULE LexCheck -----------------------------
(***************************************************************************)
(* Binds token lists recorded from the real tokenizer                      *)
(* (compiler/front_end/tokenizer.py: tokenize(text, file) -> tokens/errors)*)
(* to Lex.tla.  One TLC step per recorded case:                            *)
(*   - Tokenize(text) of the specification must equal the recorded result  *)
(*     (same verdict; same tokens with symbols, texts and positions; same  *)
(*     error line, and column for an unrecognized character);              *)
(*   - every C10 property is evaluated directly on the recorded list.      *)
(* Mismatches are printed as JSON (one line per failing case, naming the   *)
(* clauses) and counted; Python only parses these lines.                   *)
(*                                                                         *)
(* Optional per case: `plens' = for every documented pattern the length    *)
(* Python's `re' matches at column 1 of the (single-line) text, -1 for no  *)
(* match.  It is compared with MatchLen: a self-check that this module's   *)
(* "maximum NFA length" reading of the documented regexes coincides with   *)
(* the greedy/backtracking reading for these patterns.                     *)
(***************************************************************************)
EXTENDS Integers, Sequences, FiniteSets, FiniteSetsExt, TLC, Json, IOUtils

Table == JsonDeserialize(IOEnv.LEX_TABLE)
Cases == ndJsonDeserialize(IOEnv.CASES_FILE)

\* the first-character candidate table, computed once from the patterns (see Lex!AsciiCand)
L0 == INSTANCE Lex WITH Patterns <- Table.patterns, AsciiCand <- <<>>
Cands == L0!CandTuple(0)
L == INSTANCE Lex WITH Patterns <- Table.patterns, AsciiCand <- Cands

VARIABLES i, bad
vars == <<i, bad>>

FirstDiff(a, b) ==
  LET n == IF Len(a) < Len(b) THEN Len(a) ELSE Len(b)
      D == {k \in 1..n : a[k] # b[k]}
  IN IF D = {} THEN n + 1 ELSE Min(D)

At(s, k) == IF k \in 1..Len(s) THEN s[k] ELSE "none"

Failing(c) ==
  LET exp == L!Tokenize(c.text)
      props == L!AllProps(c.text, c.toks)
      lines == L!LinesOf(c.text)
  IN  (IF exp.ok # c.ok THEN {"verdict"} ELSE {})
      \cup (IF exp.ok /\ c.ok /\ exp.toks # c.toks THEN {"tokens"} ELSE {})
      \cup (IF ~exp.ok /\ ~c.ok /\ (exp.err.line # c.err.line
                                    \/ (exp.err.kind = "unrecognized" /\ exp.err.c1 # c.err.c1))
            THEN {"error-position"} ELSE {})
      \cup (IF c.ok THEN {P \in L!PropNames : ~props[P]} ELSE {})
      \cup (IF c.plens # <<>> /\ Len(lines) = 1
               /\ \E p \in 1..L!NPat : L!MatchLen(p, lines[1], 1) # c.plens[p]
            THEN {"matcher-vs-re"} ELSE {})

Detail(c, f) ==
  LET exp == L!Tokenize(c.text)
      k == FirstDiff(exp.toks, c.toks)
  IN [id |-> c.id, fam |-> c.fam, clauses |-> f,
      spec_ok |-> exp.ok, impl_ok |-> c.ok,
      first_diff |-> k, spec_tok |-> At(exp.toks, k), impl_tok |-> At(c.toks, k),
      spec_err |-> exp.err, impl_err |-> c.err,
      spec_ntok |-> Len(exp.toks), impl_ntok |-> Len(c.toks)]

Init == i = 1 /\ bad = 0

\* 0 if case c is accepted, 1 (and a printed JSON line) otherwise.  Kept as one expression:
\* TLC caches LET definitions while evaluating expressions, but not at the action level.
Judge(c) ==
  LET f == Failing(c)
  IN IF f = {} THEN 0 ELSE IF PrintT(ToJson(Detail(c, f))) THEN 1 ELSE 1

Step ==
  /\ i <= Len(Cases)
  /\ bad' = bad + Judge(Cases[i])
  /\ i' = i + 1

Done ==
  /\ i = Len(Cases) + 1
  /\ PrintT(ToJson([summary |-> TRUE, cases |-> Len(Cases), failing |-> bad]))
  /\ i' = i + 1 /\ bad' = bad

Next == Step \/ Done
Spec == Init /\ [][Next]_vars

=============================================================================
