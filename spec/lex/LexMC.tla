------------------------------- MODULE LexMC -------------------------------
(***************************************************************************)
(* Small-constant model of LexMachine, checked exhaustively on every run:  *)
(*   - every text of length 0..MaxLen over Alphabet (code points; includes *)
(*     a line terminator, blank, comment, digit, letter, `_', `-', ...);   *)
(*   - every text of 1..MaxLines lines, each line = a leading-whitespace   *)
(*     shape followed by a body (exercises Indent / Dedent / BadIndent /   *)
(*     comment-only and blank lines / closing dedents).                    *)
(* The pattern table comes from doc/grammar.md (see LexMachine).            *)
(***************************************************************************)
EXTENDS LexMachine

CONSTANTS Alphabet, MaxLen, MaxLines

ShortTexts == UNION {[1..n -> Alphabet] : n \in 0..MaxLen}

Leads  == {<<>>, <<32>>, <<32, 32>>, <<9>>, <<32, 9>>}
Bodies == {<<97>>, <<35>>, <<>>}                         \* a   #   (nothing)
LineShapes == {l \o b : l \in Leads, b \in Bodies}

RECURSIVE Join(_, _)
Join(f, n) == IF n = 1 THEN f[1] ELSE Join(f, n - 1) \o <<10>> \o f[n]
IndentTexts == UNION {{Join(f, n) : f \in [1..n -> LineShapes]} : n \in 1..MaxLines}

MCInit == \E t \in ShortTexts \cup IndentTexts : InitWith(t)
MCSpec == MCInit /\ [][Next]_vars
=============================================================================
