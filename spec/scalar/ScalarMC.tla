------------------------------ MODULE ScalarMC ------------------------------
(***************************************************************************)
(* Small-constant, exhaustive model check of Scalar.tla (design level).    *)
(* SIZE = "quick": every placement in a 1-byte container (all types, all   *)
(* three byte orders) over a byte alphabet, the byte-crossing placements   *)
(* of a 2-byte container, a few 3-byte ones.  SIZE = "thorough": all 256   *)
(* byte values for c = 8, all 136 placements for c = 16.                   *)
(***************************************************************************)
EXTENDS Integers, Sequences, FiniteSets, TLC, IOUtils

Size == IF "MC_SIZE" \in DOMAIN IOEnv THEN IOEnv.MC_SIZE ELSE "quick"

VARIABLES cfg, mem, last

Alpha8Quick == {0, 9, 127, 128, 154, 255}
Alpha8 == IF Size = "quick" THEN Alpha8Quick ELSE 0..255
Alpha16 == IF Size = "quick" THEN {0, 154, 255} ELSE {0, 1, 9, 128, 154, 255}
Alpha24 == {0, 129, 255}

TypesFor(w) == {"UInt", "Int", "Bcd", "EnumU", "EnumS"} \cup (IF w = 1 THEN {"Flag"} ELSE {})

EnumU(t, w) == IF t \in {"EnumU", "EnumS"} THEN {8, 64} ELSE {0}

MkCfgs(c, placements, orders, types(_)) ==
    UNION { { [t |-> t, w |-> p[2], c |-> c, o |-> p[1], ord |-> ord, u |-> u] :
                ord \in orders, t \in types(p[2]), u \in {0, 8, 64} } : p \in placements }

Placements(c) == { <<o, w>> \in (0..(c - 1)) \X (1..c) : o + w <= c }
Crossing16 == { p \in Placements(16) : p[1] < 8 /\ p[1] + p[2] > 8 }
Some24 == { <<0, 24>>, <<0, 17>>, <<3, 17>>, <<7, 17>>, <<7, 10>>, <<15, 2>>, <<0, 23>>, <<1, 23>> }

Types16(w) == {"UInt", "Int", "Bcd"}
Types24(w) == {"UInt", "Int"}

UIntInt(w) == {"UInt", "Int"}
Crossing16Quick == { p \in Crossing16 : p[1] + p[2] \in {9, 12, 16} /\ p[1] \in {0, 3, 4, 7} }
AllCfgs ==
    LET raw == (IF Size = "quick"
                THEN MkCfgs(8, Placements(8), {"LE"}, TypesFor) \cup MkCfgs(8, Placements(8), {"BE", "Null"}, UIntInt)
                ELSE MkCfgs(8, Placements(8), {"LE", "BE", "Null"}, TypesFor))
               \cup MkCfgs(16, IF Size = "quick" THEN Crossing16Quick ELSE Placements(16), {"LE", "BE"}, Types16)
               \cup MkCfgs(24, Some24, {"LE", "BE"}, Types24)
    IN  { k \in raw : IF k.t \in {"EnumU", "EnumS"} THEN k.u \in {8, 64} ELSE k.u = 0 }

MCMemOf(k) ==
    CASE k.c = 8 -> { <<a>> : a \in Alpha8 }
      [] k.c = 16 -> { <<a, b>> : a \in Alpha16, b \in Alpha16 }
      [] OTHER -> { <<a, b, d>> : a \in Alpha24, b \in Alpha24, d \in Alpha24 }

MCSyms == IF Size = "quick" THEN {"min-1", "min", "max", "max+1", "2^w", "mid"}
          ELSE {"min-1", "min", "-1", "0", "1", "max", "max+1", "2^w-1", "2^w", "mid", "9s"}

S == INSTANCE Scalar WITH Cfgs <- AllCfgs, MemOf <- MCMemOf, Syms <- MCSyms

Init == S!Init
(* one operation per loaded state is enough (every (cfg, mem) gets loaded): the *)
(* MC explores the restriction of S!Next to behaviours boot.chosen.init.op      *)
MCChoose == last.op = "boot" /\ S!Choose
MCLoad == last.op = "chosen" /\ S!Load
MCRead == last.op = "init" /\ S!Read
MCWrite == last.op = "init" /\ \E s \in MCSyms : S!Write(s)
Next == MCChoose \/ MCLoad \/ MCRead \/ MCWrite

TypeOK == S!TypeOK
ReadInRange == S!ReadInRange
OrderDuality == S!OrderDuality
CodecInverse == S!CodecInverse
WritePost == S!WritePost
BcdFormsAgree == S!BcdFormsAgree
SymSane == S!SymSane

(* Float configurations cannot live in <= 24 bit containers; they are checked *)
(* separately as constant-level assumptions on hand-picked 32/64-bit contents *)
FloatCfg(w, c, o, ord) == [t |-> "Float", w |-> w, c |-> c, o |-> o, ord |-> ord, u |-> 0]
ASSUME
    LET k == FloatCfg(32, 32, 0, "LE")
        m == <<0, 0, 128, 63>>                   \* 1.0f little-endian = 0x3f800000
    IN  /\ S!LegalCfg(k)
        /\ S!ReadLimbs(k, m) = <<0, 0, 128, 63, 0, 0, 0, 0>>
        /\ S!ReadLimbs([k EXCEPT !.ord = "BE"], <<63, 128, 0, 0>>) = <<0, 0, 128, 63, 0, 0, 0, 0>>
        /\ S!FieldOk(k, m)
        /\ S!WideEnough(k, 32, FALSE) /\ ~S!WideEnough(k, 64, FALSE)
ASSUME
    LET k == FloatCfg(64, 64, 0, "BE")
        m == <<192, 0, 0, 0, 0, 0, 0, 1>>        \* 0xc000000000000001
    IN  /\ S!LegalCfg(k)
        /\ S!ReadLimbs(k, m) = <<1, 0, 0, 0, 0, 0, 0, 192>>
        /\ S!ReadLimbs(FloatCfg(32, 64, 32, "BE"), m) = <<0, 0, 0, 192, 0, 0, 0, 0>>
(* documented examples: a 7-bit Bcd stores 0..79; a 10-bit one 0..399 *)
ASSUME
    LET k7 == [t |-> "Bcd", w |-> 7, c |-> 8, o |-> 0, ord |-> "Null", u |-> 0]
        k10 == [t |-> "Bcd", w |-> 10, c |-> 16, o |-> 0, ord |-> "LE", u |-> 0]
    IN  /\ S!BcdMaxLimbs(7) = <<79, 0, 0, 0, 0, 0, 0, 0, 0>>
        /\ S!BcdMaxLimbs(10) = <<143, 1, 0, 0, 0, 0, 0, 0, 0>>     \* 399
        /\ S!ReadLimbs(k7, <<121>>) = <<79, 0, 0, 0, 0, 0, 0, 0>>  \* 0x79
        /\ S!FieldOk(k7, <<121>>) /\ ~S!FieldOk(k7, <<122>>)       \* 0x7a
        /\ S!FieldOk(k7, <<249>>)                                  \* bit 7 is not the field's
(* 64-bit edges *)
ASSUME
    LET ki == [t |-> "Int", w |-> 64, c |-> 64, o |-> 0, ord |-> "LE", u |-> 0]
        ku == [ki EXCEPT !.t = "UInt"]
        kb == [ki EXCEPT !.t = "Bcd"]
    IN  /\ S!Representable(ki, S!SymValue(ki, "i64min")) /\ S!Representable(ki, S!SymValue(ki, "i64max"))
        /\ ~S!Representable(ki, S!SymValue(ki, "u64max")) /\ ~S!Representable(ki, S!SymValue(ki, "min-1"))
        /\ S!SymValue(ki, "min") = S!SymValue(ki, "i64min") /\ S!SymValue(ki, "max") = S!SymValue(ki, "i64max")
        /\ S!Representable(ku, S!SymValue(ku, "u64max")) /\ ~S!Representable(ku, S!SymValue(ku, "2^w"))
        /\ ~S!Representable(ku, S!SymValue(ku, "-1"))
        /\ S!SymValue(ku, "max") = S!SymValue(ku, "u64max")
        \* 9999999999999999 = 0x2386F26FC0FFFF
        /\ S!BcdMaxLimbs(64) = <<255, 255, 192, 111, 242, 134, 35, 0, 0>>
        /\ S!ReadLimbs(kb, <<153, 153, 153, 153, 153, 153, 153, 153>>) = <<255, 255, 192, 111, 242, 134, 35, 0>>
        /\ S!WriteResult(kb, <<0, 0, 0, 0, 0, 0, 0, 0>>, S!SymValue(kb, "max")).mem
               = <<153, 153, 153, 153, 153, 153, 153, 153>>
=============================================================================
