----------------------------- MODULE ScalarCheck -----------------------------
(***************************************************************************)
(* Binding of Scalar.tla to the implementation (C02, C03 run-time part).   *)
(*                                                                         *)
(* CASES_FILE is an ndjson file (one record per line) produced by C++ drivers that      *)
(* exercise the REAL views (run-time level: emboss_prelude.h /             *)
(* emboss_enum_view.h / emboss_memory_util.h instantiated by hand the way  *)
(* generated code does; generated-code level: headers produced by the real *)
(* compiler).  Each record carries a configuration, the container bytes    *)
(* the driver used, and what the implementation answered.  This module     *)
(* evaluates Scalar's operators on the configuration and bytes and         *)
(* compares; every disagreement is printed as JSON and counted.  Python    *)
(* never compares values.                                                  *)
(*                                                                         *)
(* Record kinds                                                            *)
(*  k = "R": Ok()/Read()/ValueType of a field over contents m.             *)
(*      pk/pj name the content pattern; unless pk = "r" (seeded fill) the  *)
(*      bytes must equal Pattern(cfg, pk, pj) (harness self-check).        *)
(*  k = "W": CouldWriteValue(v)/TryToWrite(v) of symbolic value `sym`      *)
(*      (materialised by the driver as sv = 72-bit two's complement, 9     *)
(*      bytes) on contents m, post contents m2, Ok()/Read() afterwards.    *)
(***************************************************************************)
EXTENDS Integers, Sequences, FiniteSets, TLC, Json, IOUtils

B == INSTANCE BV

Cases == ndJsonDeserialize(IOEnv.CASES_FILE)
N == Len(Cases)

VARIABLES i,       \* number of records consumed
          vcfg,    \* Scalar's variables cfg/mem/last: the field ...
          vmem,    \* ... the container contents the model holds after record i ...
          vlast,   \* ... and the kind of the last operation
          nbad,    \* number of disagreeing clauses so far
          nnt,     \* number of non-trivial records (field bits neither all 0 nor all 1, or a write)
          seenW, seenO, seenC    \* coverage of widths / offsets / container sizes

vars == <<i, vcfg, vmem, vlast, nbad, nnt, seenW, seenO, seenC>>

(* Scalar's state machine over the same cfg / mem / last; its constants (the  *)
(* sets TLC would enumerate) are unused here: the records choose.            *)
S == INSTANCE Scalar WITH Cfgs <- {}, MemOf <- LAMBDA c : {}, Syms <- {},
                          cfg <- vcfg, mem <- vmem, last <- vlast

CfgOf(r) == [t |-> r.t, w |-> r.w, c |-> r.c, o |-> r.o, ord |-> r.ord, u |-> r.u]

(***************************************************************************)
(* Content patterns (the spec owns their definition)                       *)
(***************************************************************************)
NBytes(cfg) == cfg.c \div 8
ConstMem(cfg, b) == [j \in 1..NBytes(cfg) |-> b]
WalkMem(cfg, j, inv) ==
    [k \in 1..NBytes(cfg) |->
        LET x == IF k = (j \div 8) + 1 THEN B!Pow2(j % 8) ELSE 0
        IN  IF inv THEN 255 - x ELSE x]

Pattern(cfg, pk, pj) ==
    CASE pk = "z" -> ConstMem(cfg, 0)
      [] pk = "f" -> ConstMem(cfg, 255)
      [] pk = "w1" -> WalkMem(cfg, pj, FALSE)
      [] pk = "w0" -> WalkMem(cfg, pj, TRUE)
      [] pk = "nib" -> ConstMem(cfg, 17 * pj)
      [] pk = "fmax0" -> S!StoreField(cfg, ConstMem(cfg, 0), B!Ones(cfg.w - 1) \o <<0>>)
      [] pk = "fmin1" -> S!StoreField(cfg, ConstMem(cfg, 255), B!Zeros(cfg.w - 1) \o <<1>>)
      [] pk = "bd" -> S!StoreField(cfg, ConstMem(cfg, 0),
                         B!NibblesToBits([k \in 1..B!NibbleCount(cfg.w) |-> (pj + k - 1) % 10], cfg.w))
      [] pk = "bdf" -> S!StoreField(cfg, ConstMem(cfg, 255),
                         B!NibblesToBits([k \in 1..B!NibbleCount(cfg.w) |-> (pj + k - 1) % 10], cfg.w))

PatternKinds == {"z", "f", "w1", "w0", "nib", "fmax0", "fmin1", "bd", "bdf", "r"}

(***************************************************************************)
(* Reporting                                                               *)
(***************************************************************************)
Bad(r, clause, exp, got) ==
    PrintT(ToJson([tid |-> r.tid, lvl |-> r.lvl, clause |-> clause,
                   cfg |-> CfgOf(r), dir |-> r.d, m |-> r.m, expected |-> exp, got |-> got]))

(* number of failing clauses of a list of <<holds, clause, exp, got>>; prints each *)
RECURSIVE CountBad(_, _, _)
CountBad(r, checks, k) ==
    IF k > Len(checks) THEN 0
    ELSE (IF checks[k][1] THEN 0
          ELSE (IF Bad(r, checks[k][2], checks[k][3], checks[k][4]) THEN 1 ELSE 1))
         + CountBad(r, checks, k + 1)

BoolOf(x) == x = 1

(***************************************************************************)
(* k = "R"                                                                 *)
(***************************************************************************)
ReadChecks(r) ==
    LET cfg == CfgOf(r)
        fb == S!FieldBits(cfg, r.m)
        expOk == S!FieldOk(cfg, r.m)
        gotOk == BoolOf(r.ok)
        expBits == S!DecodeBits64(cfg, fb)
        (* classification only: the value a signed enum would have if the field *)
        (* were zero-extended into its wider C++ type instead of sign-extended  *)
        zext == B!ZeroExtend(fb, 64)
        narrowSignedEnum == cfg.t = "EnumS" /\ cfg.w < cfg.u
    IN  << <<r.chk = 0, "emboss-check-fired", 0, r.chk>>,
           <<gotOk = expOk, IF cfg.t = "Bcd" THEN "bcd-ok" ELSE "ok", expOk, gotOk>>,
           IF ~(expOk /\ gotOk) THEN <<TRUE, "", 0, 0>>
           ELSE IF cfg.t = "Bcd"
           THEN LET dd == S!DecodeBcdDec(fb)
                IN  <<r.vd = <<dd[1], dd[2], 0>>, "read-bcd", <<dd[1], dd[2], 0>>, r.vd>>
           ELSE LET got == B!BytesToBitsLE(r.v)
                IN  <<got = expBits,
                      IF narrowSignedEnum /\ got = zext THEN "read-enum-signed-narrow-zero-extended"
                      ELSE "read-" \o cfg.t,
                      B!BitsToLimbs(expBits), r.v>>,
           <<S!WideEnough(cfg, r.vw, BoolOf(r.vs)), "valuetype-too-narrow",
             <<S!ValueTypeWidth(cfg), S!ValueTypeSigned(cfg)>>, <<r.vw, r.vs>>>>,
           (* documented: UInt/Int ValueType is the least-width (un)signed type; *)
           (* an enum view's ValueType is the enum (underlying width u)          *)
           <<(cfg.t \in {"UInt", "Int", "EnumU", "EnumS", "Float"}) =>
                (r.vw = S!ValueTypeWidth(cfg) /\ BoolOf(r.vs) = S!ValueTypeSigned(cfg)),
             "valuetype-not-documented",
             <<S!ValueTypeWidth(cfg), S!ValueTypeSigned(cfg)>>, <<r.vw, r.vs>>>> >>

(***************************************************************************)
(* k = "W"                                                                 *)
(***************************************************************************)
WriteChecks(r) ==
    LET cfg == CfgOf(r)
        v == S!SymValue(cfg, r.sym)
        res == S!WriteResult(cfg, r.m, v)
        gotCould == BoolOf(r.could)
        gotTried == BoolOf(r.tried)
        pre == S!ContainerBits(cfg, r.m)
        post == S!ContainerBits(cfg, r.m2)
        frameOk == /\ SubSeq(post, 1, cfg.o) = SubSeq(pre, 1, cfg.o)
                   /\ SubSeq(post, cfg.o + cfg.w + 1, cfg.c) = SubSeq(pre, cfg.o + cfg.w + 1, cfg.c)
        (* classification only: what EnumView::CouldWriteValue is known to compute for a signed  *)
        (* enum -- the field is treated as an unsigned w-bit quantity of the container's integer  *)
        (* type L, so negatives pass only when w = L = underlying width                           *)
        lw == S!LeastWidth(cfg.c)
        bugCould == IF v[S!VW] = 1 THEN (cfg.w = lw /\ lw >= cfg.u) ELSE B!FitsUnsigned(v, cfg.w)
    IN  << <<r.chk = 0, "emboss-check-fired", 0, r.chk>>,
           <<gotCould = res.could,
             IF cfg.t = "EnumS" /\ gotCould = bugCould
             THEN (IF v[S!VW] = 1 THEN "could-enum-signed-narrow-negative"
                   ELSE "could-enum-signed-narrow-unsigned-range")
             ELSE "could-" \o cfg.t \o "-" \o r.sym,
             res.could, gotCould>>,
           (* TryToWrite on a complete field succeeds exactly when CouldWriteValue says so *)
           <<gotTried = gotCould, "try-differs-from-could", gotCould, gotTried>>,
           (* a failed write changes nothing *)
           <<gotTried \/ r.m2 = r.m, "failed-write-changed-buffer", r.m, r.m2>>,
           (* a successful write touches only the field's own bits ... *)
           <<~gotTried \/ frameOk, "write-frame", r.m, r.m2>>,
           (* ... and stores the representation of v *)
           <<~(gotTried /\ res.could /\ frameOk) \/ r.m2 = res.mem, "write-store-" \o cfg.t, res.mem, r.m2>>,
           (* ... after which the field is Ok and reads back v *)
           IF ~(gotTried /\ res.could) THEN <<TRUE, "", 0, 0>>
           ELSE IF cfg.t = "Bcd"
           THEN LET dd == S!DecodeBcdDec(S!FieldBits(cfg, res.mem))
                IN  <<BoolOf(r.ok2) /\ r.vd2 = <<dd[1], dd[2], 0>>, "readback-bcd", <<dd[1], dd[2], 0>>, r.vd2>>
           ELSE <<BoolOf(r.ok2) /\ B!BytesToBitsLE(r.v2) = B!Truncate(v, 64), "readback-" \o cfg.t,
                  S!ValueLimbs(cfg, v), r.v2>> >>

(***************************************************************************)
(* Harness self-checks (a failure here is a machinery error, not a verdict) *)
(***************************************************************************)
WellFormed(r) ==
    LET cfg == CfgOf(r)
    IN  /\ Assert(r.k \in {"R", "W"}, <<"bad record kind", r>>)
        /\ Assert(S!LegalCfg(cfg), <<"illegal configuration", r>>)
        /\ Assert(S!IsMem(cfg, r.m), <<"bad container bytes", r>>)
        /\ Assert(r.pk \in PatternKinds, <<"unknown pattern", r>>)
        /\ Assert(r.pk = "r" \/ r.m = Pattern(cfg, r.pk, r.pj), <<"driver pattern differs from spec pattern", r>>)
        /\ r.k = "W" =>
              /\ Assert(r.sym \in S!SymNames, <<"unknown symbol", r>>)
              /\ Assert(B!BytesToBitsLE(r.sv) = S!SymValue(cfg, r.sym),
                        <<"driver materialised a different value", r, B!BitsToLimbs(S!SymValue(cfg, r.sym))>>)
              /\ Assert(S!IsMem(cfg, r.m2), <<"bad post bytes", r>>)

(***************************************************************************)
(* Walking the records                                                     *)
(***************************************************************************)
Init ==
    /\ i = 0
    /\ S!Init
    /\ nbad = 0
    /\ nnt = 0
    /\ seenW = {} /\ seenO = {} /\ seenC = {}

Step ==
    /\ i < N
    /\ LET r == Cases[i + 1]
       IN  /\ WellFormed(r)
           /\ i' = i + 1
           (* Choose.Load.(Read | Write(sym)) of Scalar, collapsed into one step *)
           /\ vcfg' = CfgOf(r)
           /\ vmem' = IF r.k = "W" THEN S!WriteResult(CfgOf(r), r.m, S!SymValue(CfgOf(r), r.sym)).mem
                     ELSE r.m
           /\ vlast' = [op |-> IF r.k = "W" THEN "write" ELSE "read"]
           /\ nbad' = nbad + CountBad(r, IF r.k = "R" THEN ReadChecks(r) ELSE WriteChecks(r), 1)
           /\ nnt' = nnt + (IF r.k = "W" THEN 1
                            ELSE LET fb == S!FieldBits(CfgOf(r), r.m)
                                 IN  IF fb = B!Zeros(r.w) \/ fb = B!Ones(r.w) THEN 0 ELSE 1)
           /\ seenW' = seenW \cup {r.w}
           /\ seenO' = seenO \cup {r.o}
           /\ seenC' = seenC \cup {r.c}

Next == Step

(* final report, printed once when the last record has been consumed *)
Done ==
    i = N => PrintT(ToJson([summary |-> TRUE, records |-> N, bad |-> nbad, nontrivial |-> nnt,
                            widths |-> seenW, offsets |-> seenO, containers |-> seenC]))

(* model-level sanity of the walk itself *)
WalkOK == i \in 0..N /\ nbad >= 0
=============================================================================
