INIT Init
NEXT Next
CONSTANT W = 6
CONSTANT ByteAlphabet <- DefaultAlphabet
INVARIANT Inv
CHECK_DEADLOCK FALSE
