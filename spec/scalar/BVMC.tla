-------------------------------- MODULE BVMC --------------------------------
(***************************************************************************)
(* Design-level check of spec/common/BV.tla: every operator is compared    *)
(* with native integer arithmetic on a small domain where TLC's integers   *)
(* are exact (all pairs of W-bit vectors, all 2-byte memories over a small *)
(* alphabet, limb numbers up to 3 limbs).                                  *)
(***************************************************************************)
EXTENDS BV, Integers, TLC

CONSTANTS W,          \* bit width for the pairwise checks (6)
          ByteAlphabet \* bytes used for memory-order checks

VARIABLES x, y, phase

vars == <<x, y, phase>>

M == Pow2(W)

SVal(v) == IF v >= M \div 2 THEN v - M ELSE v   \* signed reading of a W-bit natural

(* two-level fan-out so that TLC's workers share the pairs *)
Init == x = 0 /\ y = 0 /\ phase = "boot"

Next == \/ /\ phase = "boot" /\ x' \in 0..(M - 1) /\ y' = 0 /\ phase' = "x"
        \/ /\ phase = "x" /\ y' \in 0..(M - 1) /\ x' = x /\ phase' = "pair"

Sign(n) == IF n < 0 THEN -1 ELSE IF n > 0 THEN 1 ELSE 0

bx == FromNat(x, W)
by == FromNat(y, W)

RoundTrip == /\ IsBV(bx) /\ Len(bx) = W /\ ToNat(bx) = x

Arith ==
    /\ ToNat(Add(bx, by)) = (x + y) % M
    /\ ToNat(Sub(bx, by)) = (x + M - y) % M
    /\ ToNat(Neg(bx)) = (M - x) % M
    /\ ToNat(Inc(bx)) = (x + 1) % M
    /\ ToNat(Dec(bx)) = (x + M - 1) % M
    /\ ToNat(Not(bx)) = M - 1 - x
    /\ ToNat(Xor(bx, by)) = ToNat(Sub(Or(bx, by), And(bx, by)))
    /\ CarryInto(bx, by, 0, W) = (IF x + y >= M THEN 1 ELSE 0)

Compare ==
    /\ CmpU(bx, by) = Sign(x - y)
    /\ CmpS(bx, by) = Sign(SVal(x) - SVal(y))

Shifts ==
    \A n \in 0..W :
        /\ ToNat(Shl(bx, n)) = (x * Pow2(n)) % M
        /\ ToNat(Shr(bx, n)) = x \div Pow2(n)

Slices ==
    \A o \in 0..(W - 1) : \A w \in 1..(W - o) :
        /\ ToNat(Slice(bx, o, w)) = (x \div Pow2(o)) % Pow2(w)
        \* splice then slice gives the spliced value and leaves the rest alone
        /\ LET f == FromNat(y % Pow2(w), w)
               s == Splice(bx, o, f)
           IN  /\ Slice(s, o, w) = f
               /\ \A k \in 1..W : (k <= o \/ k > o + w) => s[k] = bx[k]
        /\ MaskRange(W, o, o + w) = Shl(ZeroExtend(Ones(w), W), o)

Extension ==
    \A w \in 1..W :
        LET v == x % Pow2(w)
            b == FromNat(v, w)
            sv == IF v >= Pow2(w - 1) THEN v - Pow2(w) ELSE v
        IN  /\ ToNat(ZeroExtend(b, W + 3)) = v
            /\ ToNat(SignExtend(b, W + 3)) = (sv + Pow2(W + 3)) % Pow2(W + 3)
            /\ Extend(b, W + 3, TRUE) = SignExtend(b, W + 3)
            /\ Extend(b, W + 3, FALSE) = ZeroExtend(b, W + 3)
            \* fits predicates against the arithmetic definition (bx read as signed W-bit)
            /\ FitsUnsigned(SignExtend(bx, W + 2), w) = (SVal(x) >= 0 /\ SVal(x) < Pow2(w))
            /\ FitsSigned(SignExtend(bx, W + 2), w) = (SVal(x) >= -Pow2(w - 1) /\ SVal(x) < Pow2(w - 1))

NibbleView ==
    /\ Len(Nibbles(bx)) = NibbleCount(W)
    /\ NibblesToBits(Nibbles(bx), W) = bx
    /\ DecimalValue(<<x % 10, y % 10, (x \div 10) % 10>>, 1, 3) = (x % 10) + 10 * (y % 10) + 100 * ((x \div 10) % 10)
    /\ DecimalValue(<<x % 10, y % 10, (x \div 10) % 10>>, 2, 9) = (y % 10) + 10 * ((x \div 10) % 10)
    /\ TrailingRun(bx, 1, 1) = (CHOOSE r \in 0..W : (x + 1) % Pow2(r) = 0 /\ (r = W \/ (x + 1) % Pow2(r + 1) # 0))
    /\ \A j \in 1..NibbleCount(W) : Nibbles(bx)[j] = (x \div Pow2(4 * (j - 1))) % 16
    /\ ByteAt(bx, 0) = x % 256
    /\ \A k \in 0..(W - 1) : BitAt(OneHot(W, k), k) = 1 /\ ToNat(OneHot(W, k)) = Pow2(k)

(* memory order: x, y index two bytes of the alphabet *)
DefaultAlphabet == <<0, 1, 2, 127, 128, 165, 254, 255>>
Alpha == ByteAlphabet
Byte1 == Alpha[(x % Len(Alpha)) + 1]
Byte2 == Alpha[(y % Len(Alpha)) + 1]
Byte3 == Alpha[((x \div Len(Alpha)) % Len(Alpha)) + 1]

Memory ==
    LET m2 == <<Byte1, Byte2>>
        m3 == <<Byte1, Byte2, Byte3>>
    IN  /\ ToNat(BytesToBitsLE(m2)) = Byte1 + 256 * Byte2
        /\ ToNat(BytesToBitsBE(m2)) = Byte2 + 256 * Byte1
        /\ ToNat(BytesToBitsLE(m3)) = Byte1 + 256 * Byte2 + 65536 * Byte3
        /\ ToNat(BytesToBitsBE(m3)) = Byte3 + 256 * Byte2 + 65536 * Byte1
        /\ BitsToBytesLE(BytesToBitsLE(m3)) = m3
        /\ BitsToBytesBE(BytesToBitsBE(m3)) = m3
        /\ BytesToBitsBE(m3) = BytesToBitsLE(ReverseSeq(m3))
        /\ ByteBits(Byte1) = BytesToBitsLE(<<Byte1>>)
        /\ BytesToBitsLE(<<Byte1>>) = BytesToBitsBE(<<Byte1>>)

(* limb numbers: n = x + M*y + M*M*x ... kept below 2^22 *)
N == x + M * y + M * M * (x % 16)
NL == <<N % 256, (N \div 256) % 256, (N \div 65536) % 256>>
LVal(l) == l[1] + 256 * l[2] + 65536 * l[3]

Limbs ==
    /\ LVal(NL) = N
    /\ \A m \in {1, 2, 10, 16, 100} : \A a \in {0, 1, 9, 255} :
          /\ LVal(LimbMulAdd(NL, m, a)) = (N * m + a) % 16777216
          /\ LimbMulAddCarry(NL, m, a, 1) = (N * m + a) \div 16777216
    /\ \A d \in {1, 2, 10, 16, 1000} :
          /\ LVal(LimbDiv(NL, d)) = N \div d
          /\ LimbMod(NL, d) = N % d
    /\ LimbIsZero(NL) = (N = 0)
    /\ LimbCmp(NL, <<y, x % 256, x % 16>>) = Sign(N - (y + 256 * (x % 256) + 65536 * (x % 16)))
    /\ LimbsToBits(NL) = FromNat(N, 24)
    /\ BitsToLimbs(FromNat(N, 24)) = NL
    /\ BitsToLimbs(FromNat(x, W)) = <<x>>
    /\ DigitsToLimbs(LimbsToDigits(NL, 8), 3) = NL
    /\ LET dg == LimbsToDigits(NL, 3)
       IN  dg[1] + 10 * dg[2] + 100 * dg[3] = N % 1000
    /\ LVal(LimbDivPow10(NL, 2)) = N \div 100

Inv == phase = "pair" =>
       /\ RoundTrip /\ Arith /\ Compare /\ Shifts /\ Slices /\ Extension
       /\ NibbleView /\ Memory /\ Limbs
=============================================================================
