INIT Init
NEXT Next
CONSTRAINT OneStep
INVARIANT TypeOK
INVARIANT ReadInRange
INVARIANT OrderDuality
INVARIANT CodecInverse
INVARIANT WritePost
INVARIANT SymSane
CHECK_DEADLOCK FALSE
