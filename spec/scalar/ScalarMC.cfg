INIT Init
NEXT Next
INVARIANT TypeOK
INVARIANT ReadInRange
INVARIANT OrderDuality
INVARIANT CodecInverse
INVARIANT WritePost
INVARIANT BcdFormsAgree
INVARIANT SymSane
CHECK_DEADLOCK FALSE
