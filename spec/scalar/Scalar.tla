------------------------------- MODULE Scalar -------------------------------
(***************************************************************************)
(* C02 / C03 (run-time level): scalar fields of an Emboss `bits` container *)
(* or `struct`.                                                            *)
(*                                                                         *)
(* A CONFIGURATION is a record                                             *)
(*     [t |-> type, w |-> field width in bits, c |-> container size in     *)
(*      bits (8,16,..,64), o |-> bit offset of the field in the container, *)
(*      ord |-> byte order of the container ("LE" | "BE" | "Null"),        *)
(*      u |-> for enums: width in bits of the enum's underlying C++ type   *)
(*            (the enum's maximum_bits rounded up to 8/16/32/64), else 0]  *)
(* The container's CONTENTS are a sequence of c/8 bytes in memory order.   *)
(*                                                                         *)
(* Written from doc/language-reference.md (sections byte_order, bits,      *)
(* UInt, Int, Bcd, Flag, Float, enum) and doc/cpp-reference.md (Read, Ok,  *)
(* ValueType, CouldWriteValue, TryToWrite of each view):                   *)
(*  - bit 0 of the container is the least significant bit of the container *)
(*    read as one unsigned integer in the container's byte order; LE: the  *)
(*    byte at the lowest address holds bits 0..7, BE: the byte at the      *)
(*    highest address holds bits 0..7; "Null" only for 1-byte containers;  *)
(*  - a field at [o, o+w) is read from exactly those bits;                 *)
(*  - UInt: unsigned; Int: two's complement at width w; enums are "read    *)
(*    the same way as Int or UInt" depending on their signedness;          *)
(*  - Bcd: one decimal digit per nibble, a partial high nibble is zero-    *)
(*    extended; Ok iff every nibble is between 0 and 9;                    *)
(*  - Flag: 0 = false, 1 = true;  Float: IEEE-754 binary32/64 bit pattern. *)
(*                                                                         *)
(* Wide values never become TLC integers: values are 64-bit two's-         *)
(* complement bit vectors (BV) or 8-byte limb numbers (least significant   *)
(* byte first); candidate values for writes are 72-bit two's-complement    *)
(* vectors so that 2^64 and -2^63-1 are expressible.                       *)
(***************************************************************************)
EXTENDS BV, Integers, Sequences, FiniteSets

Types == {"UInt", "Int", "Bcd", "Flag", "Float", "EnumU", "EnumS"}
Orders == {"LE", "BE", "Null"}
ContainerSizes == {8, 16, 24, 32, 40, 48, 56, 64}

IsEnum(t) == t \in {"EnumU", "EnumS"}
IsSigned(t) == t \in {"Int", "EnumS"}

LegalWidth(t, w) ==
    CASE t = "Flag" -> w = 1
      [] t = "Float" -> w \in {32, 64}
      [] OTHER -> w \in 1..64

(* least of 8/16/32/64 that holds n bits: the documented "least-width" C++ type *)
LeastWidth(n) == IF n <= 8 THEN 8 ELSE IF n <= 16 THEN 16 ELSE IF n <= 32 THEN 32 ELSE 64

LegalCfg(cfg) ==
    /\ cfg.t \in Types
    /\ cfg.c \in ContainerSizes
    /\ cfg.ord \in Orders
    /\ (cfg.ord = "Null" => cfg.c = 8)
    /\ cfg.o \in 0..63
    /\ cfg.w >= 1
    /\ cfg.o + cfg.w <= cfg.c
    /\ LegalWidth(cfg.t, cfg.w)
    /\ IF IsEnum(cfg.t) THEN cfg.u \in {8, 16, 32, 64} /\ cfg.w <= cfg.u ELSE cfg.u = 0

IsMem(cfg, mem) ==
    /\ Len(mem) = cfg.c \div 8
    /\ \A k \in 1..Len(mem) : mem[k] \in 0..255

(***************************************************************************)
(* Bit numbering                                                           *)
(***************************************************************************)
ContainerBits(cfg, mem) ==
    IF cfg.ord = "BE" THEN BytesToBitsBE(mem) ELSE BytesToBitsLE(mem)

ContainerBytes(cfg, bits) ==
    IF cfg.ord = "BE" THEN BitsToBytesBE(bits) ELSE BitsToBytesLE(bits)

FieldBits(cfg, mem) == Slice(ContainerBits(cfg, mem), cfg.o, cfg.w)

(* the container with the field's bits replaced by fb, everything else kept *)
StoreField(cfg, mem, fb) ==
    ContainerBytes(cfg, Splice(ContainerBits(cfg, mem), cfg.o, fb))

(***************************************************************************)
(* Decoding (Read / Ok)                                                    *)
(***************************************************************************)
BcdDigitsOk(fb) == \A j \in 1..NibbleCount(Len(fb)) : Nibbles(fb)[j] <= 9

(* Ok() of a complete field *)
FieldOk(cfg, mem) ==
    IF cfg.t = "Bcd" THEN BcdDigitsOk(FieldBits(cfg, mem)) ELSE TRUE

(* Read() as a 64-bit two's-complement bit vector (all types but Bcd) *)
DecodeBits64(cfg, fb) ==
    IF IsSigned(cfg.t) THEN SignExtend(fb, 64) ELSE ZeroExtend(fb, 64)

(* Read() of a Bcd as two base-10^8 halves <<low 8 digits, high 8 digits>> *)
DecodeBcdDec(fb) ==
    LET nb == Nibbles(fb)
    IN  <<DecimalValue(nb, 1, 8), DecimalValue(nb, 9, 16)>>

(* Read() as an 8-limb number = the 64-bit two's-complement image of the value *)
DecodeLimbs(cfg, fb) ==
    IF cfg.t = "Bcd" THEN DigitsToLimbs(Nibbles(fb), 8)
    ELSE BitsToLimbs(DecodeBits64(cfg, fb))

ReadLimbs(cfg, mem) == DecodeLimbs(cfg, FieldBits(cfg, mem))

(* The documented C++ value type: [bits, signed].  Flag reads as bool (1 bit *)
(* of information, reported as width 1); Float as float/double.             *)
ValueTypeWidth(cfg) ==
    CASE IsEnum(cfg.t) -> cfg.u
      [] cfg.t = "Flag" -> 1
      [] cfg.t = "Float" -> cfg.w
      [] OTHER -> LeastWidth(cfg.w)
ValueTypeSigned(cfg) == IsSigned(cfg.t)

(* "The value type is wide enough that no value is truncated": a reported   *)
(* value type [vw, vs] can hold every value of the field                    *)
WideEnough(cfg, vw, vs) ==
    CASE cfg.t = "Flag" -> TRUE
      [] cfg.t = "Float" -> vw = cfg.w
      [] IsSigned(cfg.t) -> vs /\ vw >= cfg.w
      [] OTHER -> (~vs /\ vw >= cfg.w) \/ (vs /\ vw > cfg.w)

(***************************************************************************)
(* Candidate values for writes: 72-bit two's-complement vectors             *)
(***************************************************************************)
VW == 72

SymNames == {"min-1", "min", "-1", "0", "1", "2", "max-1", "max", "max+1",
             "2^w-1", "2^w", "i64min", "i64max", "u64max", "9s", "mid"}

(* largest value a w-bit Bcd can hold: decimal digits 9 in every full nibble, *)
(* 2^r - 1 in a partial top nibble of r bits                                  *)
BcdMaxDigits(w) ==
    [j \in 1..NibbleCount(w) |->
        IF j = NibbleCount(w) /\ w % 4 # 0 THEN Pow2(w % 4) - 1 ELSE 9]
BcdMaxLimbs(w) == DigitsToLimbs(BcdMaxDigits(w), 9)

LimbsToV(limbs9) == LimbsToBits(limbs9)    \* 9 limbs = 72 bits, non-negative

MinV(cfg) ==
    IF IsSigned(cfg.t) THEN MaskRange(VW, cfg.w - 1, VW)                    \* -2^(w-1)
    ELSE Zeros(VW)

MaxV(cfg) ==
    CASE cfg.t = "Bcd" -> LimbsToV(BcdMaxLimbs(cfg.w))
      [] IsSigned(cfg.t) -> MaskRange(VW, 0, cfg.w - 1)                     \* 2^(w-1)-1
      [] OTHER -> MaskRange(VW, 0, cfg.w)                                   \* 2^w-1

SymValue(cfg, s) ==
    CASE s = "min-1" -> Dec(MinV(cfg))
      [] s = "min" -> MinV(cfg)
      [] s = "-1" -> Ones(VW)
      [] s = "0" -> Zeros(VW)
      [] s = "1" -> OneHot(VW, 0)
      [] s = "2" -> OneHot(VW, 1)
      [] s = "max-1" -> Dec(MaxV(cfg))
      [] s = "max" -> MaxV(cfg)
      [] s = "max+1" -> Inc(MaxV(cfg))
      [] s = "2^w-1" -> MaskRange(VW, 0, cfg.w)
      [] s = "2^w" -> OneHot(VW, cfg.w)
      [] s = "i64min" -> MaskRange(VW, 63, VW)
      [] s = "i64max" -> MaskRange(VW, 0, 63)
      [] s = "u64max" -> MaskRange(VW, 0, 64)
      [] s = "9s" -> LimbsToV(DigitsToLimbs([j \in 1..NibbleCount(cfg.w) |-> 9], 9))
      [] s = "mid" -> [k \in 1..VW |-> IF k <= cfg.w /\ k % 2 = 1 /\ k # cfg.w THEN 1 ELSE 0]

(* v is a value of the field's type that fits the field *)
Representable(cfg, v) ==
    CASE cfg.t = "Bcd" ->
             /\ v[VW] = 0
             /\ LimbCmp(BitsToLimbs(v), BcdMaxLimbs(cfg.w)) <= 0
      [] cfg.t = "Float" -> TRUE                \* v is a bit pattern of width w
      [] IsSigned(cfg.t) -> FitsSigned(v, cfg.w)
      [] OTHER -> FitsUnsigned(v, cfg.w)        \* UInt, EnumU, Flag(0/1)

(* the w field bits that represent v (v representable) *)
EncodeField(cfg, v) ==
    IF cfg.t = "Bcd"
    THEN LET dg == LimbsToDigits(BitsToLimbs(v), NibbleCount(cfg.w))
         IN  NibblesToBits(dg, cfg.w)
    ELSE Truncate(v, cfg.w)

(* CouldWriteValue / TryToWrite on a complete field.  Result:               *)
(* [could, mem'] -- a failed write changes nothing                          *)
WriteResult(cfg, mem, v) ==
    IF Representable(cfg, v)
    THEN [could |-> TRUE, mem |-> StoreField(cfg, mem, EncodeField(cfg, v))]
    ELSE [could |-> FALSE, mem |-> mem]

(* the 64-bit image a subsequent Read() must return after writing v *)
ValueLimbs(cfg, v) == BitsToLimbs(Truncate(v, 64))

(***************************************************************************)
(* State machine: one container, reads and writes through one field         *)
(***************************************************************************)
CONSTANTS Cfgs,        \* set of configurations explored
          MemOf(_),    \* cfg -> set of initial contents
          Syms         \* symbolic values tried by Write

VARIABLES cfg, mem, last

vars == <<cfg, mem, last>>

NoCfg == [t |-> "none"]

(* Two-step set-up (choose a field, then load container contents) so that    *)
(* TLC's workers share the state space.                                      *)
Init ==
    /\ cfg = NoCfg
    /\ mem = <<>>
    /\ last = [op |-> "boot"]

Choose ==
    /\ last.op = "boot"
    /\ cfg' \in Cfgs
    /\ mem' = <<>>
    /\ last' = [op |-> "chosen"]

Load ==
    /\ last.op = "chosen"
    /\ mem' \in MemOf(cfg)
    /\ last' = [op |-> "init"]
    /\ UNCHANGED cfg

Loaded == last.op \notin {"boot", "chosen"}

Read ==
    /\ Loaded
    /\ last' = [op |-> "read", ok |-> FieldOk(cfg, mem), val |-> ReadLimbs(cfg, mem)]
    /\ UNCHANGED <<cfg, mem>>

Write(s) ==
    /\ Loaded
    /\ LET v == SymValue(cfg, s)
           r == WriteResult(cfg, mem, v)
       IN  /\ mem' = r.mem
           /\ last' = [op |-> "write", sym |-> s, could |-> r.could, pre |-> mem]
           /\ UNCHANGED cfg

Next == Choose \/ Load \/ Read \/ \E s \in Syms : Write(s)

Spec == Init /\ [][Next]_vars

(***************************************************************************)
(* Properties                                                              *)
(***************************************************************************)
TypeOK == Loaded => LegalCfg(cfg) /\ IsMem(cfg, mem)

(* what Read returns depends on the field's bits only, lies in the type's   *)
(* range, and the documented value type can hold it                         *)
ReadInRange == Loaded =>
    LET fb == FieldBits(cfg, mem)
        v64 == LimbsToBits(ReadLimbs(cfg, mem))
        v == SignExtend(v64, VW)
    IN  /\ Len(fb) = cfg.w
        /\ (FieldOk(cfg, mem) /\ cfg.t # "Float") =>
              (IF cfg.t = "Bcd" THEN Representable(cfg, ZeroExtend(v64, VW))
               ELSE Representable(cfg, IF IsSigned(cfg.t) THEN v ELSE ZeroExtend(v64, VW)))
        /\ WideEnough(cfg, ValueTypeWidth(cfg), ValueTypeSigned(cfg))

(* byte order: a big-endian container is the little-endian container over   *)
(* the reversed bytes; a one-byte container reads the same in every order   *)
OrderDuality == Loaded =>
    LET other == [cfg EXCEPT !.ord = IF cfg.ord = "BE" THEN "LE" ELSE "BE"]
    IN  /\ ReadLimbs(cfg, mem) = ReadLimbs(other, ReverseSeq(mem))
        /\ (cfg.c = 8 => ReadLimbs(cfg, mem) = ReadLimbs(other, mem))

(* encode . decode = identity on Ok contents; store . load = identity       *)
CodecInverse == Loaded =>
    LET fb == FieldBits(cfg, mem)
        v == IF IsSigned(cfg.t) THEN SignExtend(LimbsToBits(ReadLimbs(cfg, mem)), VW)
             ELSE ZeroExtend(LimbsToBits(ReadLimbs(cfg, mem)), VW)
    IN  /\ StoreField(cfg, mem, fb) = mem
        /\ FieldOk(cfg, mem) => EncodeField(cfg, v) = fb

(* the two renderings of a Bcd value (binary limbs, decimal halves) agree *)
BcdFormsAgree == (Loaded /\ cfg.t = "Bcd") =>
    LET fb == FieldBits(cfg, mem)
        dg == LimbsToDigits(ReadLimbs(cfg, mem), 16)
        dd == DecodeBcdDec(fb)
    IN  FieldOk(cfg, mem) =>
          /\ DecimalValue(dg, 1, 8) = dd[1]
          /\ DecimalValue(dg, 9, 16) = dd[2]
          /\ SubSeq(dg, 1, NibbleCount(cfg.w)) = Nibbles(fb)

(* after any step that was a write: range check <=> representable; success  *)
(* => read-back gives v and only the field's bits changed; failure =>       *)
(* nothing changed                                                          *)
WritePost ==
    last.op = "write" =>
        LET v == SymValue(cfg, last.sym)
            pre == ContainerBits(cfg, last.pre)
            post == ContainerBits(cfg, mem)
        IN  /\ last.could = Representable(cfg, v)
            /\ last.could =>
                  /\ FieldOk(cfg, mem)
                  /\ ReadLimbs(cfg, mem) = ValueLimbs(cfg, v)
                  /\ \A k \in 1..cfg.c : (k <= cfg.o \/ k > cfg.o + cfg.w) => post[k] = pre[k]
            /\ ~last.could => mem = last.pre

(* the symbolic landmarks are what their names say (checked through the     *)
(* order relation, so independent of the closed forms used to build them)   *)
SymSane == Loaded =>
    LET mn == MinV(cfg)
        mx == MaxV(cfg)
    IN  /\ CmpS(mn, mx) <= 0
        /\ Representable(cfg, mn) /\ Representable(cfg, mx)
        /\ cfg.t # "Float" => ~Representable(cfg, Dec(mn)) /\ ~Representable(cfg, Inc(mx))
        /\ Inc(Dec(mn)) = mn /\ Dec(Inc(mx)) = mx
        /\ cfg.t \in {"UInt", "EnumU"} => SymValue(cfg, "2^w-1") = mx
        /\ SymValue(cfg, "2^w") = Inc(SymValue(cfg, "2^w-1"))

=============================================================================
