-------------------------------- MODULE BV --------------------------------
(***************************************************************************)
(* Bit vectors and small-limb wide naturals for TLC.                       *)
(*                                                                         *)
(* TLC integers are 32-bit, so every quantity that may exceed 2^30 is      *)
(* handled structurally:                                                   *)
(*                                                                         *)
(*   * a BIT VECTOR is a sequence of 0/1, LEAST SIGNIFICANT BIT FIRST:     *)
(*     bv[1] is bit 0, bv[k+1] is bit k, Len(bv) is the width;             *)
(*   * a LIMB NUMBER is a sequence of bytes (0..255), least significant    *)
(*     byte first (base-256 little-endian), used where decimal arithmetic  *)
(*     (BCD, x10, div 10) on 64-bit quantities is needed.                  *)
(*                                                                         *)
(* Written for TLC's evaluator: tables are constant-level definitions      *)
(* (evaluated once), sequences are built with SubSeq / \o (array copies)   *)
(* wherever possible, recursion only runs over the width.  Widths up to    *)
(* MaxW bits are supported by the tables.                                  *)
(***************************************************************************)
EXTENDS Integers, Sequences

Bit == {0, 1}
MaxW == 160

IsBV(b) == /\ DOMAIN b = 1..Len(b)
           /\ \A k \in 1..Len(b) : b[k] \in Bit

Width(b) == Len(b)

(* 2^n for 0 <= n <= 30 *)
Pow2T == [n \in 0..30 |-> 2 ^ n]
Pow2(n) == Pow2T[n]

ZerosT == [n \in 0..MaxW |-> [k \in 1..n |-> 0]]
OnesT  == [n \in 0..MaxW |-> [k \in 1..n |-> 1]]
Zeros(n) == ZerosT[n]
Ones(n)  == OnesT[n]

(* bit k (0-based) of bit vector b; bits beyond the width read as 0 *)
BitAt(b, k) == IF k + 1 <= Len(b) THEN b[k + 1] ELSE 0

(* width-n vector with only bit k (0-based) set, 0 <= k < n *)
OneHot(n, k) == Zeros(k) \o <<1>> \o Zeros(n - k - 1)

(* width-n vector with bits lo..hi-1 (0-based, half open) set, lo <= hi <= n *)
MaskRange(n, lo, hi) == Zeros(lo) \o Ones(hi - lo) \o Zeros(n - hi)

(***************************************************************************)
(* Naturals <-> bit vectors (small values only: x < 2^30)                   *)
(***************************************************************************)
FromNat(x, n) == [k \in 1..n |-> IF k <= 31 THEN (x \div Pow2(k - 1)) % 2 ELSE 0]

RECURSIVE ToNatFrom(_, _)
ToNatFrom(b, k) == IF k > Len(b) THEN 0 ELSE b[k] + 2 * ToNatFrom(b, k + 1)
(* value of a vector of at most 30 bits *)
ToNat(b) == ToNatFrom(b, 1)

(* value of the 8 bits of b starting at 0-based bit s; all 8 must exist *)
ByteAtFull(b, s) ==
    b[s + 1] + 2 * b[s + 2] + 4 * b[s + 3] + 8 * b[s + 4]
    + 16 * b[s + 5] + 32 * b[s + 6] + 64 * b[s + 7] + 128 * b[s + 8]

(* same, bits past the end read as 0 *)
ByteAt(b, s) ==
    IF s + 8 <= Len(b) THEN ByteAtFull(b, s)
    ELSE BitAt(b, s) + 2 * BitAt(b, s + 1) + 4 * BitAt(b, s + 2) + 8 * BitAt(b, s + 3)
         + 16 * BitAt(b, s + 4) + 32 * BitAt(b, s + 5) + 64 * BitAt(b, s + 6)
         + 128 * BitAt(b, s + 7)

(* value of the 4 bits of b starting at 0-based bit s, zero-extended past the end *)
NibbleAt(b, s) ==
    IF s + 4 <= Len(b) THEN b[s + 1] + 2 * b[s + 2] + 4 * b[s + 3] + 8 * b[s + 4]
    ELSE BitAt(b, s) + 2 * BitAt(b, s + 1) + 4 * BitAt(b, s + 2) + 8 * BitAt(b, s + 3)

(***************************************************************************)
(* Bytes <-> bits.  A byte sequence is in MEMORY ORDER (bytes[1] = lowest   *)
(* address).  Little-endian: byte at the lowest address carries bits 0..7;  *)
(* big-endian: the byte at the HIGHEST address carries bits 0..7.           *)
(***************************************************************************)
ByteBitsT == [x \in 0..255 |-> [k \in 1..8 |-> (x \div Pow2(k - 1)) % 2]]
ByteBits(x) == ByteBitsT[x]

RECURSIVE BytesToBitsLEFrom(_, _)
BytesToBitsLEFrom(bytes, j) ==
    IF j > Len(bytes) THEN <<>>
    ELSE ByteBitsT[bytes[j]] \o BytesToBitsLEFrom(bytes, j + 1)
BytesToBitsLE(bytes) == BytesToBitsLEFrom(bytes, 1)

RECURSIVE BytesToBitsBEFrom(_, _)
BytesToBitsBEFrom(bytes, j) ==
    IF j < 1 THEN <<>>
    ELSE ByteBitsT[bytes[j]] \o BytesToBitsBEFrom(bytes, j - 1)
BytesToBitsBE(bytes) == BytesToBitsBEFrom(bytes, Len(bytes))

(* inverse directions; Len(b) must be a multiple of 8 *)
BitsToBytesLE(b) == [j \in 1..(Len(b) \div 8) |-> ByteAtFull(b, 8 * (j - 1))]
BitsToBytesBE(b) == [j \in 1..(Len(b) \div 8) |-> ByteAtFull(b, Len(b) - 8 * j)]

ReverseSeq(s) == [k \in 1..Len(s) |-> s[Len(s) + 1 - k]]

(***************************************************************************)
(* Slicing, extension, splicing                                            *)
(***************************************************************************)
(* bits o .. o+w-1 (0-based) of b *)
Slice(b, o, w) == SubSeq(b, o + 1, o + w)

ZeroExtend(b, n) == b \o Zeros(n - Len(b))

(* two's-complement sign bit (most significant bit); width must be >= 1 *)
SignBit(b) == b[Len(b)]

SignExtend(b, n) == IF b[Len(b)] = 1 THEN b \o Ones(n - Len(b)) ELSE b \o Zeros(n - Len(b))

Extend(b, n, signed) == IF signed THEN SignExtend(b, n) ELSE ZeroExtend(b, n)

Truncate(b, n) == SubSeq(b, 1, n)

(* b with bits o..o+Len(f)-1 replaced by f *)
Splice(b, o, f) == SubSeq(b, 1, o) \o f \o SubSeq(b, o + Len(f) + 1, Len(b))

(* all bits of b at 0-based positions >= k are zero / are equal to bit k *)
HighZero(b, k) == SubSeq(b, k + 1, Len(b)) = Zeros(Len(b) - k)
HighAllEqual(b, k) ==
    LET hi == SubSeq(b, k + 1, Len(b))
    IN  hi = Zeros(Len(b) - k) \/ hi = Ones(Len(b) - k)

(* v (a two's-complement vector of any width > w) is representable as an    *)
(* unsigned / signed w-bit integer                                          *)
FitsUnsigned(v, w) == HighZero(v, w)
FitsSigned(v, w) == w >= 1 /\ HighAllEqual(v, w - 1)

(***************************************************************************)
(* Bitwise and arithmetic operations (equal widths)                        *)
(***************************************************************************)
Not(b) == [k \in 1..Len(b) |-> 1 - b[k]]
And(a, b) == [k \in 1..Len(a) |-> a[k] * b[k]]
Or(a, b) == [k \in 1..Len(a) |-> IF a[k] + b[k] > 0 THEN 1 ELSE 0]
Xor(a, b) == [k \in 1..Len(a) |-> (a[k] + b[k]) % 2]

(* logical shifts inside the width, 0 <= n <= Len(b) *)
Shl(b, n) == Zeros(n) \o SubSeq(b, 1, Len(b) - n)
Shr(b, n) == SubSeq(b, n + 1, Len(b)) \o Zeros(n)

(* carry INTO 0-based bit position k when adding a + b + cin *)
RECURSIVE CarryInto(_, _, _, _)
CarryInto(a, b, cin, k) ==
    IF k = 0 THEN cin
    ELSE LET c == CarryInto(a, b, cin, k - 1)
         IN  IF a[k] + b[k] + c >= 2 THEN 1 ELSE 0

RECURSIVE AddRec(_, _, _, _)
AddRec(a, b, c, k) ==
    IF k > Len(a) THEN <<>>
    ELSE LET s == a[k] + b[k] + c
         IN  <<s % 2>> \o AddRec(a, b, s \div 2, k + 1)

(* a + b modulo 2^Len(a) *)
Add(a, b) == AddRec(a, b, 0, 1)
(* two's-complement subtraction modulo 2^Len(a) *)
Sub(a, b) == AddRec(a, Not(b), 1, 1)

(* number of consecutive 1s (resp. 0s) at the least significant end *)
RECURSIVE TrailingRun(_, _, _)
TrailingRun(b, bit, k) == IF k > Len(b) \/ b[k] # bit THEN k - 1 ELSE TrailingRun(b, bit, k + 1)

(* a + 1 : the trailing run of 1s becomes 0s, the next bit becomes 1 *)
Inc(a) ==
    LET r == TrailingRun(a, 1, 1)
    IN  IF r = Len(a) THEN Zeros(r) ELSE Zeros(r) \o <<1>> \o SubSeq(a, r + 2, Len(a))
(* a - 1 : the trailing run of 0s becomes 1s, the next bit becomes 0 *)
Dec(a) ==
    LET r == TrailingRun(a, 0, 1)
    IN  IF r = Len(a) THEN Ones(r) ELSE Ones(r) \o <<0>> \o SubSeq(a, r + 2, Len(a))
Neg(a) == Inc(Not(a))

(***************************************************************************)
(* Comparison (equal widths).  Result -1 / 0 / 1.                           *)
(***************************************************************************)
RECURSIVE CmpFrom(_, _, _)
CmpFrom(a, b, k) ==
    IF k = 0 THEN 0
    ELSE IF a[k] = b[k] THEN CmpFrom(a, b, k - 1)
    ELSE IF a[k] < b[k] THEN -1 ELSE 1

CmpU(a, b) == IF a = b THEN 0 ELSE CmpFrom(a, b, Len(a))

CmpS(a, b) ==
    IF a = b THEN 0
    ELSE IF SignBit(a) # SignBit(b)
    THEN (IF SignBit(a) = 1 THEN -1 ELSE 1)
    ELSE CmpFrom(a, b, Len(a))

(***************************************************************************)
(* Nibble view (binary-coded decimal).  Nibble j (0-based) covers bits      *)
(* 4j..4j+3; a partial top nibble is zero-extended.                         *)
(***************************************************************************)
NibbleCount(w) == (w + 3) \div 4
Nibbles(b) == [j \in 1..NibbleCount(Len(b)) |-> NibbleAt(b, 4 * (j - 1))]
(* bits (width w) whose nibble view is nb *)
NibblesToBits(nb, w) == [k \in 1..w |-> (nb[((k - 1) \div 4) + 1] \div Pow2((k - 1) % 4)) % 2]

(* sum of d[j] * 10^(j-lo) for lo <= j <= hi (at most 9 digits: < 2^30) *)
RECURSIVE DecimalValue(_, _, _)
DecimalValue(d, lo, hi) ==
    IF lo > hi \/ lo > Len(d) THEN 0 ELSE d[lo] + 10 * DecimalValue(d, lo + 1, hi)

(***************************************************************************)
(* Limb numbers: base-256, least significant byte first.                    *)
(***************************************************************************)
LimbZero(n) == Zeros(n)

(* limbs * m + a  (m <= 2^20, a <= 2^20), truncated to Len(limbs) limbs *)
RECURSIVE LimbMulAddRec(_, _, _, _)
LimbMulAddRec(limbs, m, carry, k) ==
    IF k > Len(limbs) THEN <<>>
    ELSE LET t == limbs[k] * m + carry
         IN  <<t % 256>> \o LimbMulAddRec(limbs, m, t \div 256, k + 1)
LimbMulAdd(limbs, m, a) == LimbMulAddRec(limbs, m, a, 1)

(* the carry that falls off the top of LimbMulAdd (0 iff no overflow) *)
RECURSIVE LimbMulAddCarry(_, _, _, _)
LimbMulAddCarry(limbs, m, carry, k) ==
    IF k > Len(limbs) THEN carry
    ELSE LimbMulAddCarry(limbs, m, (limbs[k] * m + carry) \div 256, k + 1)

(* short division by a small d (d <= 2^20): quotient limbs (same length) *)
RECURSIVE LimbDivRec(_, _, _, _)
LimbDivRec(limbs, d, rem, k) ==
    IF k = 0 THEN <<>>
    ELSE LET t == rem * 256 + limbs[k]
         IN  LimbDivRec(limbs, d, t % d, k - 1) \o <<t \div d>>
LimbDiv(limbs, d) == LimbDivRec(limbs, d, 0, Len(limbs))

RECURSIVE LimbModRec(_, _, _, _)
LimbModRec(limbs, d, rem, k) ==
    IF k = 0 THEN rem ELSE LimbModRec(limbs, d, (rem * 256 + limbs[k]) % d, k - 1)
LimbMod(limbs, d) == LimbModRec(limbs, d, 0, Len(limbs))

LimbIsZero(limbs) == limbs = Zeros(Len(limbs))

(* unsigned comparison of equal-length limb numbers *)
LimbCmp(a, b) == IF a = b THEN 0 ELSE CmpFrom(a, b, Len(a))

LimbsToBits(limbs) == BytesToBitsLE(limbs)
BitsToLimbs(b) ==
    IF Len(b) % 8 = 0 THEN BitsToBytesLE(b)
    ELSE [j \in 1..((Len(b) + 7) \div 8) |-> ByteAt(b, 8 * (j - 1))]

(* decimal digit sequence (least significant digit first) -> n limbs *)
RECURSIVE DigitsToLimbsRec(_, _, _)
DigitsToLimbsRec(digits, k, n) ==
    IF k > Len(digits) THEN LimbZero(n)
    ELSE LimbMulAdd(DigitsToLimbsRec(digits, k + 1, n), 10, digits[k])
DigitsToLimbs(digits, n) == DigitsToLimbsRec(digits, 1, n)

(* n limbs -> nd decimal digits, least significant first (value mod 10^nd) *)
RECURSIVE LimbsToDigitsRec(_, _)
LimbsToDigitsRec(limbs, nd) ==
    IF nd = 0 THEN <<>>
    ELSE <<LimbMod(limbs, 10)>> \o LimbsToDigitsRec(LimbDiv(limbs, 10), nd - 1)
LimbsToDigits(limbs, nd) == LimbsToDigitsRec(limbs, nd)

(* value div 10^nd (as limbs) *)
RECURSIVE LimbDivPow10(_, _)
LimbDivPow10(limbs, nd) ==
    IF nd = 0 THEN limbs ELSE LimbDivPow10(LimbDiv(limbs, 10), nd - 1)

=============================================================================
