------------------------------ MODULE BigIntMC ------------------------------
(***************************************************************************)
(* Cross-check of BigInt against TLC's native integers.                    *)
(*  - base 10 on -N..N (every pair): carries, borrows, multi-limb products *)
(*    and short division all occur for |x| <= 300;                         *)
(*  - base 10000 on a landmark set whose sums/products stay below 2^31;    *)
(*  - known 64/128-bit identities as ASSUMEs (decimal digits of 2^64 etc). *)
(* The state space is the set of pairs (x, y); the invariant Agree is the  *)
(* conformance statement (evaluated once y has been picked).               *)
(***************************************************************************)
EXTENDS Integers, Sequences, TLC
CONSTANT N

B == INSTANCE BigInt

VARIABLES x, y, base, ph
vars == <<x, y, base, ph>>

Landmarks == {0, 1, -1, 2, 7, 9, 10, 99, 100, 9999, 10000, 10001, -9999, -10000, -10001,
              19999, 20000, 32767, 32768, 46340, -46340, 46341, 65535, 65536, 99999999,
              100000000, -100000000, 1073741823, -1073741823}

Dom(b) == IF b = 10 THEN -N..N ELSE Landmarks

\* x is chosen in the initial state, y in the only step (so that TLC's workers share the pairs)
Init == /\ ph = 0 /\ y = 0
        /\ \/ base = 10 /\ x \in Dom(10)
           \/ base = 10000 /\ x \in Dom(10000)

Pick == ph = 0 /\ ph' = 1 /\ y' \in Dom(base) /\ UNCHANGED <<x, base>>

Next == Pick

SgnN(a) == IF a < 0 THEN -1 ELSE IF a > 0 THEN 1 ELSE 0
CmpN(a, b) == SgnN(a - b)
AbsN(a) == IF a < 0 THEN -a ELSE a
Small(a) == AbsN(a) < 1073741824

RECURSIVE DecDigitsN(_)
DecDigitsN(n) == IF n < 10 THEN <<n>> ELSE DecDigitsN(n \div 10) \o <<n % 10>>

Agree ==
  ph = 1 =>
  LET bx == B!FromIntB(base, x)
      by == B!FromIntB(base, y)
      prodOK == AbsN(x) <= 46340 /\ AbsN(y) <= 46340
      sumOK == Small(x) /\ Small(y)
  IN  /\ B!ToIntB(base, bx) = x
      /\ (sumOK => B!AddB(base, bx, by) = B!FromIntB(base, x + y))
      /\ (sumOK => B!SubB(base, bx, by) = B!FromIntB(base, x - y))
      /\ (prodOK => B!MulB(base, bx, by) = B!FromIntB(base, x * y))
      /\ B!Cmp(bx, by) = CmpN(x, y)
      /\ B!Lt(bx, by) = (x < y) /\ B!Le(bx, by) = (x <= y)
      /\ B!Gt(bx, by) = (x > y) /\ B!Ge(bx, by) = (x >= y)
      /\ B!Eq(bx, by) = (x = y)
      /\ B!Min(bx, by) = B!FromIntB(base, IF x <= y THEN x ELSE y)
      /\ B!Max(bx, by) = B!FromIntB(base, IF x >= y THEN x ELSE y)
      /\ B!Neg(bx) = B!FromIntB(base, -x)
      /\ B!Abs(bx) = B!FromIntB(base, AbsN(x))
      /\ B!Sign(bx) = SgnN(x)
      /\ B!IsZero(bx) = (x = 0)
      /\ (y > 0 /\ y <= 200000 =>
            LET qr == B!DivModSmallB(base, bx, y)
            IN  qr.q = B!FromIntB(base, x \div y) /\ qr.r = x % y)
      /\ B!FromDecDigitsB(base, x < 0, DecDigitsN(AbsN(x))) = bx
      /\ B!ToDecDigitsB(base, bx) = DecDigitsN(AbsN(x))
      /\ (base = 10 /\ y \in 1..4 /\ AbsN(x) <= 30 => B!PowB(base, bx, y) = B!FromIntB(base, x ^ y))
      /\ B!PowB(base, bx, 0) = B!FromIntB(base, 1)

\* 2^64 = 18446744073709551616 ; (2^64-1)^2 = 340282366920938463426481119284349108225
D(s) == B!FromDecDigits(FALSE, s)
ASSUME B!Pow2(64) = D(<<1,8,4,4,6,7,4,4,0,7,3,7,0,9,5,5,1,6,1,6>>)
ASSUME B!ToDecDigits(B!Pow2(64)) = <<1,8,4,4,6,7,4,4,0,7,3,7,0,9,5,5,1,6,1,6>>
ASSUME B!Mul(B!MaxUnsigned(64), B!MaxUnsigned(64)) =
         D(<<3,4,0,2,8,2,3,6,6,9,2,0,9,3,8,4,6,3,4,2,6,4,8,1,1,1,9,2,8,4,3,4,9,1,0,8,2,2,5>>)
ASSUME B!MinSigned(64) = B!Neg(D(<<9,2,2,3,3,7,2,0,3,6,8,5,4,7,7,5,8,0,8>>))
ASSUME B!MaxSigned(64) = D(<<9,2,2,3,3,7,2,0,3,6,8,5,4,7,7,5,8,0,7>>)
ASSUME B!Sub(B!MinSigned(64), B!One) = B!Neg(D(<<9,2,2,3,3,7,2,0,3,6,8,5,4,7,7,5,8,0,9>>))
ASSUME B!Add(B!MaxUnsigned(64), B!One) = B!Pow2(64)
ASSUME B!Sub(B!Pow2(64), B!Pow2(64)) = B!Zero
ASSUME B!FromLimbs(TRUE, <<1616, 955, 737, 6744, 1844, 0, 0>>) = B!Neg(B!Pow2(64))
ASSUME B!ModSmall(B!Pow2(64), 12) = 4 /\ B!ModSmall(B!Neg(B!Pow2(64)), 12) = 8
ASSUME B!DivModSmall(B!Pow2(64), 65536).q = B!Pow2(48) /\ B!DivModSmall(B!Pow2(64), 65536).r = 0
ASSUME B!FitsNative(B!FromInt(999999999)) /\ ~B!FitsNative(B!FromInt(1000000000)) /\ ~B!FitsNative(B!Pow2(31)) /\ B!FitsNative(B!FromInt(-999999999))
ASSUME B!IsWellFormed(B!Pow2(64)) /\ B!IsWellFormed(B!Zero) /\ B!IsWellFormed(B!MinSigned(64))
=============================================================================
