------------------------------- MODULE BigInt -------------------------------
(***************************************************************************)
(* Arbitrary-precision integers for TLC (whose native integers are 32 bit). *)
(*                                                                         *)
(* A BigInt is a record  [neg : BOOLEAN, mag : Seq(0..B-1)]  :             *)
(*   mag  = magnitude, little-endian limbs in base B (default 10000),      *)
(*          normalised: no most-significant zero limb; zero = << >>        *)
(*   neg  = TRUE iff the number is < 0 (zero is never negative).           *)
(* Normal forms are unique, so TLA+ equality (=) is numeric equality on    *)
(* values produced by the operators of this module.  Values that come from *)
(* outside (JSON) must go through FromLimbs / FromDecDigits / Norm.        *)
(*                                                                         *)
(* Every operator exists in a base-generic form (suffix B, first argument  *)
(* the base) so that BigIntMC can cross-check the algorithms against       *)
(* native integers with base 10, where carries/borrows/multi-limb products *)
(* occur on a domain small enough for exhaustive checking; the un-suffixed *)
(* operators fix the base to 10000.                                        *)
(*                                                                         *)
(* JSON transport (TLC cannot index into strings, JSON numbers >= 2^31 are *)
(* mangled): send  {"neg": bool, "l": [limb0, limb1, ...]}  (little-endian *)
(* base 10000) or MSB-first decimal digits, see FromJson / FromDecDigits.  *)
(***************************************************************************)
EXTENDS Integers, Sequences

LOCAL BASE == 10000

-----------------------------------------------------------------------------
(* Magnitudes: little-endian limb sequences, most-significant limb nonzero *)

RECURSIVE MagTrim(_)
MagTrim(m) == IF m = <<>> THEN <<>>
              ELSE IF m[Len(m)] = 0 THEN MagTrim(SubSeq(m, 1, Len(m) - 1)) ELSE m

LOCAL Limb(m, i) == IF i <= Len(m) THEN m[i] ELSE 0
LOCAL MaxN(a, b) == IF a >= b THEN a ELSE b

\* -1 / 0 / 1 ; both arguments trimmed
RECURSIVE MagCmpFrom(_, _, _)
MagCmpFrom(a, b, i) ==
  IF i = 0 THEN 0
  ELSE IF a[i] < b[i] THEN -1
  ELSE IF a[i] > b[i] THEN 1
  ELSE MagCmpFrom(a, b, i - 1)

MagCmp(a, b) ==
  IF Len(a) < Len(b) THEN -1
  ELSE IF Len(a) > Len(b) THEN 1
  ELSE MagCmpFrom(a, b, Len(a))

RECURSIVE MagAddFrom(_, _, _, _, _)
MagAddFrom(B, a, b, i, carry) ==
  IF i > MaxN(Len(a), Len(b))
  THEN (IF carry = 0 THEN <<>> ELSE <<carry>>)
  ELSE LET s == Limb(a, i) + Limb(b, i) + carry
       IN  <<s % B>> \o MagAddFrom(B, a, b, i + 1, s \div B)

MagAddB(B, a, b) == MagAddFrom(B, a, b, 1, 0)

\* requires a >= b
RECURSIVE MagSubFrom(_, _, _, _, _)
MagSubFrom(B, a, b, i, borrow) ==
  IF i > Len(a) THEN <<>>
  ELSE LET d == a[i] - Limb(b, i) - borrow
       IN  IF d < 0 THEN <<d + B>> \o MagSubFrom(B, a, b, i + 1, 1)
                    ELSE <<d>> \o MagSubFrom(B, a, b, i + 1, 0)

MagSubB(B, a, b) == MagTrim(MagSubFrom(B, a, b, 1, 0))

\* multiply by a small non-negative native integer d (d * (B-1) + carry must stay < 2^31)
RECURSIVE MagMulSmallFrom(_, _, _, _, _)
MagMulSmallFrom(B, a, d, i, carry) ==
  IF i > Len(a)
  THEN (IF carry = 0 THEN <<>> ELSE IF carry < B THEN <<carry>> ELSE <<carry % B, carry \div B>>)
  ELSE LET p == a[i] * d + carry
       IN  <<p % B>> \o MagMulSmallFrom(B, a, d, i + 1, p \div B)

MagMulSmallB(B, a, d) == IF d = 0 THEN <<>> ELSE MagTrim(MagMulSmallFrom(B, a, d, 1, 0))

LOCAL Zeros(n) == [i \in 1..n |-> 0]

\* schoolbook: sum over limbs of b of (a * b[j]) shifted by j-1
RECURSIVE MagMulFrom(_, _, _, _)
MagMulFrom(B, a, b, j) ==
  IF j > Len(b) THEN <<>>
  ELSE LET part == IF b[j] = 0 THEN <<>> ELSE Zeros(j - 1) \o MagMulSmallB(B, a, b[j])
       IN  MagAddB(B, part, MagMulFrom(B, a, b, j + 1))

MagMulB(B, a, b) == IF a = <<>> \/ b = <<>> THEN <<>> ELSE MagTrim(MagMulFrom(B, a, b, 1))

\* short division of a magnitude by a small positive native integer d (d * B < 2^31):
\* <<quotient magnitude, remainder (native)>>, processed from the most significant limb
RECURSIVE MagDivSmallFrom(_, _, _, _, _)
MagDivSmallFrom(B, a, d, i, rem) ==
  IF i = 0 THEN <<<<>>, rem>>
  ELSE LET cur == rem * B + a[i]
           rest == MagDivSmallFrom(B, a, d, i - 1, cur % d)
       IN  <<rest[1] \o <<cur \div d>>, rest[2]>>

MagDivSmallB(B, a, d) ==
  LET r == MagDivSmallFrom(B, a, d, Len(a), 0) IN <<MagTrim(r[1]), r[2]>>

RECURSIVE MagFromNat(_, _)
MagFromNat(B, n) == IF n = 0 THEN <<>> ELSE <<n % B>> \o MagFromNat(B, n \div B)

\* only for magnitudes known to be < 2^31
RECURSIVE MagToNatFrom(_, _, _)
MagToNatFrom(B, m, i) == IF i > Len(m) THEN 0 ELSE m[i] + B * MagToNatFrom(B, m, i + 1)
MagToNatB(B, m) == MagToNatFrom(B, m, 1)

-----------------------------------------------------------------------------
(* Signed numbers, base-generic *)

Mk(neg, mag) == [neg |-> neg /\ mag # <<>>, mag |-> mag]

Zero == [neg |-> FALSE, mag |-> <<>>]
IsZero(x) == x.mag = <<>>
Sign(x) == IF x.mag = <<>> THEN 0 ELSE IF x.neg THEN -1 ELSE 1
Neg(x) == Mk(~x.neg, x.mag)
Abs(x) == Mk(FALSE, x.mag)

FromIntB(B, n) == IF n < 0 THEN Mk(TRUE, MagFromNat(B, -n)) ELSE Mk(FALSE, MagFromNat(B, n))
ToIntB(B, x) == IF x.neg THEN -MagToNatB(B, x.mag) ELSE MagToNatB(B, x.mag)

AddB(B, x, y) ==
  IF x.neg = y.neg THEN Mk(x.neg, MagAddB(B, x.mag, y.mag))
  ELSE LET c == MagCmp(x.mag, y.mag)
       IN  IF c = 0 THEN Zero
           ELSE IF c > 0 THEN Mk(x.neg, MagSubB(B, x.mag, y.mag))
           ELSE Mk(y.neg, MagSubB(B, y.mag, x.mag))

SubB(B, x, y) == AddB(B, x, Neg(y))
MulB(B, x, y) == Mk(x.neg # y.neg, MagMulB(B, x.mag, y.mag))

\* -1 / 0 / 1  (base independent: works on normalised limbs)
Cmp(x, y) ==
  IF x.neg /\ ~y.neg THEN -1
  ELSE IF ~x.neg /\ y.neg THEN 1
  ELSE IF x.neg THEN MagCmp(y.mag, x.mag)
  ELSE MagCmp(x.mag, y.mag)

Lt(x, y) == Cmp(x, y) < 0
Le(x, y) == Cmp(x, y) <= 0
Gt(x, y) == Cmp(x, y) > 0
Ge(x, y) == Cmp(x, y) >= 0
Eq(x, y) == Cmp(x, y) = 0
Min(x, y) == IF Le(x, y) THEN x ELSE y
Max(x, y) == IF Ge(x, y) THEN x ELSE y

RECURSIVE MinOfSeq(_)
MinOfSeq(s) == IF Len(s) = 1 THEN s[1] ELSE Min(s[1], MinOfSeq(Tail(s)))
RECURSIVE MaxOfSeq(_)
MaxOfSeq(s) == IF Len(s) = 1 THEN s[1] ELSE Max(s[1], MaxOfSeq(Tail(s)))

\* floor division / mathematical modulus by a small positive native d:  x = q*d + r, 0 <= r < d
DivModSmallB(B, x, d) ==
  LET qr == MagDivSmallB(B, x.mag, d)
  IN  IF ~x.neg THEN [q |-> Mk(FALSE, qr[1]), r |-> qr[2]]
      ELSE IF qr[2] = 0 THEN [q |-> Mk(TRUE, qr[1]), r |-> 0]
      ELSE [q |-> Mk(TRUE, MagAddB(B, qr[1], <<1>>)), r |-> d - qr[2]]

RECURSIVE PowB(_, _, _)
PowB(B, x, n) == IF n = 0 THEN FromIntB(B, 1) ELSE MulB(B, x, PowB(B, x, n - 1))

\* MSB-first decimal digits (each 0..9) -> number (Horner)
RECURSIVE MagFromDecDigitsFrom(_, _, _, _)
MagFromDecDigitsFrom(B, ds, i, acc) ==
  IF i > Len(ds) THEN acc
  ELSE MagFromDecDigitsFrom(B, ds, i + 1, MagAddB(B, MagMulSmallB(B, acc, 10), MagFromNat(B, ds[i])))

FromDecDigitsB(B, neg, ds) == Mk(neg, MagFromDecDigitsFrom(B, ds, 1, <<>>))

\* number -> MSB-first decimal digits of its magnitude (<<0>> for zero)
RECURSIVE MagToDecDigits(_, _)
MagToDecDigits(B, m) ==
  IF m = <<>> THEN <<>>
  ELSE LET qr == MagDivSmallB(B, m, 10) IN MagToDecDigits(B, qr[1]) \o <<qr[2]>>
ToDecDigitsB(B, x) == IF x.mag = <<>> THEN <<0>> ELSE MagToDecDigits(B, x.mag)

-----------------------------------------------------------------------------
(* The default base 10000 *)

FromInt(n) == FromIntB(BASE, n)
ToInt(x) == ToIntB(BASE, x)            \* only when |x| < 2^31
Add(x, y) == AddB(BASE, x, y)
Sub(x, y) == SubB(BASE, x, y)
Mul(x, y) == MulB(BASE, x, y)
DivModSmall(x, d) == DivModSmallB(BASE, x, d)    \* 0 < d <= 200000
ModSmall(x, d) == DivModSmallB(BASE, x, d).r
Pow(x, n) == PowB(BASE, x, n)
Pow2(n) == PowB(BASE, FromIntB(BASE, 2), n)
FromDecDigits(neg, ds) == FromDecDigitsB(BASE, neg, ds)
ToDecDigits(x) == ToDecDigitsB(BASE, x)
One == FromInt(1)

\* |x| < 10^9 : safe to convert with ToInt (and to add two such natively)
FitsNative(x) == Len(x.mag) <= 2 \/ (Len(x.mag) = 3 /\ x.mag[3] <= 9)

\* little-endian base-10000 limbs (possibly with leading zero limbs / empty) from outside
FromLimbs(neg, limbs) == Mk(neg, MagTrim(limbs))
\* JSON object {"neg": bool, "l": [..]}  (an empty JSON array deserialises to << >>)
FromJson(r) == FromLimbs(r.neg, r.l)
IsWellFormed(x) ==
  /\ x.neg \in BOOLEAN
  /\ \A i \in 1..Len(x.mag) : x.mag[i] \in 0..(BASE - 1)
  /\ (x.mag # <<>> => x.mag[Len(x.mag)] # 0)
  /\ (x.mag = <<>> => ~x.neg)

\* two's-complement / unsigned range predicates used by several specs
InRange(x, lo, hi) == Le(lo, x) /\ Le(x, hi)
MinSigned(bits) == Neg(Pow2(bits - 1))
MaxSigned(bits) == Sub(Pow2(bits - 1), One)
MaxUnsigned(bits) == Sub(Pow2(bits), One)
=============================================================================
