----------------------------- MODULE TextCheck -----------------------------
(***************************************************************************)
(* Validates what the REAL runtime integer codec did                       *)
(* (WriteIntegerToTextStream / DecodeInteger of emboss_text_util.h) against *)
(* Text.tla.  CASES_FILE: << case >>,                                       *)
(*  enc: [k|->"enc", ty, signed, bits, base, group, x:[neg,l], out:chars, dec_ok, dec:[neg,l]] *)
(*  dec: [k|->"dec", ty, signed, bits, in:chars, ok, val:[neg,l]]          *)
(***************************************************************************)
EXTENDS Integers, Sequences, TLC, Json, IOUtils, Text

Cases == JsonDeserialize(IOEnv.CASES_FILE)

VARIABLES i, nbad
vars == <<i, nbad>>

Report(clause, c) ==
  IF nbad < 60 THEN PrintT(ToJson([idx |-> i, clause |-> clause, case |-> c])) ELSE TRUE

Big(r) == BI!FromLimbs(r.neg, r.l)

EncClauses(c) ==
  LET x == Big(c.x) IN
  <<  <<"EncodeIsDocumentedNumeralOfValue", EncodeOk(c.out, x, c.base, c.group = 1)>>,
      <<"DecodeInvertsEncode", c.dec_ok = 1 /\ Big(c.dec) = x>>,
      <<"ValueInType", InType(x, c.signed = 1, c.bits)>> >>

DecClauses(c) ==
  LET s == c.in
      mustReject == Garbage(s) \/ ~InType(NumValue(s), c.signed = 1, c.bits)
                    \/ (c.signed = 0 /\ Len(s) >= 1 /\ s[1] = ChMinus)
      mustAccept == DocNumeral(s) /\ ~mustReject
  IN <<  <<"MalformedOrOutOfRangeRejected", mustReject => c.ok = 0>>,
         <<"DocumentedNumeralAccepted", mustAccept => c.ok = 1>>,
         <<"AcceptedValueIsExact", (c.ok = 1 /\ ~Garbage(s)) => Big(c.val) = NumValue(s)>> >>

Init == i = 1 /\ nbad = 0
Step ==
  /\ i <= Len(Cases)
  /\ LET c == Cases[i]
         cl == IF c.k = "enc" THEN EncClauses(c) ELSE DecClauses(c)
         bad == {j \in 1..Len(cl) : ~cl[j][2]}
     IN /\ \A j \in bad : Report(cl[j][1], c)
        /\ nbad' = nbad + (IF bad = {} THEN 0 ELSE 1)
  /\ i' = i + 1
Done == i = Len(Cases) + 1 /\ PrintT(ToJson([summary |-> TRUE, cases |-> Len(Cases), bad |-> nbad])) /\ i' = i + 1 /\ UNCHANGED nbad
Next == Step \/ Done
Spec == Init /\ [][Next]_vars
=============================================================================
