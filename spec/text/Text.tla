-------------------------------- MODULE Text --------------------------------
(***************************************************************************)
(* Emboss text format, integer part (doc/text-format.md "UInt and Int      *)
(* accept numeric values in the same formats that are allowed in Emboss    *)
(* source files"; doc/language-reference.md "Numeric Constant Formats").   *)
(* Text is a sequence of character codes; values are BigInts.              *)
(***************************************************************************)
EXTENDS Integers, Sequences
BI == INSTANCE BigInt

Ch0 == 48  Ch9 == 57  ChA == 65  ChF == 70  Cha == 97  Chf == 102
ChUnder == 95  ChMinus == 45  Chx == 120  Chb == 98  ChX == 88  ChB == 66

IsDec(c) == c >= Ch0 /\ c <= Ch9
IsHex(c) == IsDec(c) \/ (c >= ChA /\ c <= ChF) \/ (c >= Cha /\ c <= Chf)
IsBin(c) == c = Ch0 \/ c = Ch0 + 1
DigitVal(c) == IF IsDec(c) THEN c - Ch0 ELSE IF c >= Cha THEN c - Cha + 10 ELSE c - ChA + 10
IsDigitOf(base, c) == CASE base = 10 -> IsDec(c) [] base = 16 -> IsHex(c) [] base = 2 -> IsBin(c)

(* split "[-]" "[0x|0b]" body *)
Parts(s) ==
  LET neg == Len(s) >= 1 /\ s[1] = ChMinus
      r == IF neg THEN Tail(s) ELSE s
      pfx == IF Len(r) >= 2 /\ r[1] = Ch0 /\ r[2] \in {Chx, ChX} THEN 16
             ELSE IF Len(r) >= 2 /\ r[1] = Ch0 /\ r[2] \in {Chb, ChB} THEN 2 ELSE 10
      body == IF pfx = 10 THEN r ELSE SubSeq(r, 3, Len(r))
      \* "the 'x' must be lower-case: 0XC is not allowed" in source text; the run-time decoder is lenient
      \* about it, which the specification neither requires nor forbids (capital marks that zone)
  IN [neg |-> neg, base |-> pfx, body |-> body, capital |-> pfx # 10 /\ r[2] \in {ChX, ChB}]

(* groups between '_' separators *)
RECURSIVE SplitUnder(_, _)
SplitUnder(body, cur) ==
  IF body = <<>> THEN <<cur>>
  ELSE IF body[1] = ChUnder THEN <<cur>> \o SplitUnder(Tail(body), <<>>)
  ELSE SplitUnder(Tail(body), Append(cur, body[1]))
Groups(body) == SplitUnder(body, <<>>)

AllDigits(base, g) == \A i \in 1..Len(g) : IsDigitOf(base, g[i])

(* the documented separator rule: decimal -> thousands; hex/binary -> every 4 or every 8, not mixed *)
GroupingOk(base, gs) ==
  IF Len(gs) = 1 THEN TRUE
  ELSE IF base = 10 THEN Len(gs[1]) \in 1..3 /\ \A i \in 2..Len(gs) : Len(gs[i]) = 3
  ELSE \E n \in {4, 8} : Len(gs[1]) \in 1..n /\ \A i \in 2..Len(gs) : Len(gs[i]) = n

(* a numeral exactly as the language reference allows it *)
DocNumeral(s) ==
  LET p0 == Parts(s)
      \* doc/grammar.md: hexadecimal and binary numerals may have one '_' right after the prefix (0x_ff)
      p == IF p0.base # 10 /\ Len(p0.body) >= 1 /\ p0.body[1] = ChUnder THEN [p0 EXCEPT !.body = Tail(p0.body)] ELSE p0
      gs == Groups(p.body) IN
  /\ ~p.capital
  /\ p.body # <<>>
  /\ \A i \in 1..Len(gs) : gs[i] # <<>> /\ AllDigits(p.base, gs[i])
  /\ GroupingOk(p.base, gs)

(* certainly not a number: nothing after sign/prefix, a character that is neither a digit of the base
   nor '_', or a leading '_' *)
Garbage(s) ==
  LET p == Parts(s) IN
  \/ p.body = <<>>
  \/ (p.base = 10 /\ p.body[1] = ChUnder)
  \/ \A i \in 1..Len(p.body) : p.body[i] = ChUnder
  \/ \E i \in 1..Len(p.body) : p.body[i] # ChUnder /\ ~IsDigitOf(p.base, p.body[i])

RECURSIVE MagVal(_, _, _)
MagVal(base, body, acc) ==
  IF body = <<>> THEN acc
  ELSE IF body[1] = ChUnder THEN MagVal(base, Tail(body), acc)
  ELSE MagVal(base, Tail(body), BI!Add(BI!Mul(acc, BI!FromInt(base)), BI!FromInt(DigitVal(body[1]))))

(* numeric value of a numeral (separators ignored) *)
NumValue(s) == LET p == Parts(s) m == MagVal(p.base, p.body, BI!Zero) IN IF p.neg THEN BI!Neg(m) ELSE m

TypeMin(signed, bits) == IF signed THEN BI!Neg(BI!Pow(BI!FromInt(2), bits - 1)) ELSE BI!Zero
TypeMax(signed, bits) == BI!Sub(BI!Pow(BI!FromInt(2), IF signed THEN bits - 1 ELSE bits), BI!One)
InType(x, signed, bits) == BI!Le(TypeMin(signed, bits), x) /\ BI!Le(x, TypeMax(signed, bits))

DigitCount(s) == LET p == Parts(s) IN Len(SelectSeq(p.body, LAMBDA c : c # ChUnder))
HasUnder(s) == \E i \in 1..Len(s) : s[i] = ChUnder

(* what the encoder must produce for value x: a documented numeral of that value in the requested base,
   with separators iff grouping is on and there are enough digits to separate *)
EncodeOk(out, x, base, group) ==
  /\ DocNumeral(out)
  /\ Parts(out).base = base
  /\ NumValue(out) = x
  /\ (~group => ~HasUnder(out))
  /\ (group /\ ~HasUnder(out) => DigitCount(out) <= (IF base = 10 THEN 3 ELSE 8))

(* small numerals (structure-level text), native arithmetic *)
RECURSIVE SmallMag(_, _, _)
SmallMag(base, body, acc) ==
  IF body = <<>> THEN acc
  ELSE IF body[1] = ChUnder THEN SmallMag(base, Tail(body), acc)
  ELSE SmallMag(base, Tail(body), acc * base + DigitVal(body[1]))
SmallValue(s) == LET p == Parts(s) m == SmallMag(p.base, p.body, 0) IN IF p.neg THEN -m ELSE m
=============================================================================
