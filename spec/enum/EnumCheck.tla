----------------------------- MODULE EnumCheck -----------------------------
(***************************************************************************)
(* C19 binding: compares what the REAL compiler and the REAL generated     *)
(* C++ did for each generated enum with EnumSem.tla.                       *)
(*                                                                         *)
(* CASES_FILE: ndjson, one record per enum:                                *)
(*   id, def (the definition exactly as EnumGen emitted it),               *)
(*   crashed (the compiler raised an exception), accepted (no error was    *)
(*   reported inside the enum's lines), hasObs, and when hasObs:           *)
(*   ubits/usigned (std::underlying_type), idents [{id,present,v}],        *)
(*   names [{s,found,v}], values [{val,hasName,name,known,os}],            *)
(*   fields [{w,val,could,tried,ok,v}].  Values are 8-byte little-endian   *)
(*   two's-complement images.                                              *)
(* Every disagreement is printed as JSON and counted; Python only relays.  *)
(***************************************************************************)
EXTENDS EnumSem, TLC, Json, IOUtils

Cases == ndJsonDeserialize(IOEnv.CASES_FILE)
N == Len(Cases)

VARIABLES i, nbad, nchecks

BoolOf(x) == x = 1

Bad(r, clause, what, exp, got) ==
    PrintT(ToJson([id |-> r.id, clause |-> clause, what |-> what, expected |-> exp, got |-> got, def |-> r.def]))

(* checks: sequence of <<holds, clause, what, exp, got>> *)
RECURSIVE CountBad(_, _, _)
CountBad(r, checks, k) ==
    IF k > Len(checks) THEN 0
    ELSE (IF checks[k][1] THEN 0
          ELSE (IF Bad(r, checks[k][2], checks[k][3], checks[k][4], checks[k][5]) THEN 1 ELSE 1))
         + CountBad(r, checks, k + 1)

AcceptChecks(r) ==
    LET E == r.def
        exp == Acceptable(E)
    IN  << <<~BoolOf(r.crashed), "compiler-crash", "exception while compiling", FALSE, TRUE>>,
           <<BoolOf(r.crashed) \/ BoolOf(r.accepted) = exp,
             IF exp THEN "rejected-acceptable-enum" ELSE "accepted-out-of-range-enum",
             [signed |-> IsSigned(E), maxBits |-> MaxBits(E)], exp, BoolOf(r.accepted)>> >>

UnderlyingChecks(r) ==
    LET E == r.def
    IN  << <<BoolOf(r.usigned) = IsSigned(E), "underlying-signedness", "std::underlying_type", IsSigned(E), BoolOf(r.usigned)>>,
           <<r.ubits >= MaxBits(E), "underlying-too-narrow", "std::underlying_type", MaxBits(E), r.ubits>>,
           <<r.ubits < MaxBits(E) \/ r.ubits = UnderlyingBits(E), "underlying-width-not-least", "std::underlying_type",
             UnderlyingBits(E), r.ubits>> >>

IdentChecks(r) ==
    LET E == r.def
    IN  [k \in 1..Len(r.idents) |->
            LET p == r.idents[k]
                exp == HasEnumerator(E, p.id)
            IN  IF BoolOf(p.present) # exp
                THEN <<FALSE, IF exp THEN "enumerator-missing" ELSE "enumerator-unexpected", p.id, exp, BoolOf(p.present)>>
                ELSE IF exp
                THEN <<p.v = Image64(EnumeratorValue(E, p.id)), "enumerator-value", p.id,
                       Image64(EnumeratorValue(E, p.id)), p.v>>
                ELSE <<TRUE, "", "", 0, 0>>]

NameChecks(r) ==
    LET E == r.def
    IN  [k \in 1..Len(r.names) |->
            LET p == r.names[k]
                exp == FromNameFound(E, p.s)
            IN  IF BoolOf(p.found) # exp
                THEN <<FALSE, IF exp THEN "fromname-declared-name-not-found" ELSE "fromname-accepts-undeclared-name",
                       p.s, exp, BoolOf(p.found)>>
                ELSE IF exp
                THEN <<p.v = Image64(FromNameValue(E, p.s)), "fromname-value", p.s, Image64(FromNameValue(E, p.s)), p.v>>
                ELSE <<TRUE, "", "", 0, 0>>]

ValueChecks(r) ==
    LET E == r.def
    IN  [k \in 1..(2 * Len(r.values)) |->
            LET p == r.values[(k + 1) \div 2]
                bv == ValBV(p.val)
                known == IsKnown(E, bv)
                name == ToName(E, bv)
                gotName == IF BoolOf(p.hasName) THEN p.name ELSE <<>>
            IN  IF k % 2 = 1
                THEN <<BoolOf(p.known) = known, "isknown", p.val, known, BoolOf(p.known)>>
                ELSE IF gotName # name
                THEN <<FALSE,
                       IF known /\ (\E j \in 1..Len(E.vals) : E.vals[j].n = gotName /\ LandmarkBV[E.vals[j].v] = bv)
                       THEN "toname-not-first-declared" ELSE IF known THEN "toname-wrong" ELSE "toname-names-undeclared-value",
                       p.val, name, gotName>>
                (* operator<< of a named value prints its name; unnamed values are not documented *)
                ELSE <<~known \/ p.os = name, "ostream-known-value", p.val, name, p.os>>]

FieldChecks(r) ==
    LET E == r.def
    IN  [k \in 1..Len(r.fields) |->
            LET p == r.fields[k]
                bv == ValBV(p.val)
                exp == FieldAccepts(E, p.w, bv)
                (* classification only: EnumView::CouldWriteValue as implemented treats the field as *)
                (* unsigned inside the 64-bit container used by the driver                            *)
                bugCould == IF IsNegative(bv) THEN (p.w = 64 /\ 64 >= r.ubits) ELSE FitsUnsigned(bv, p.w)
            IN  IF BoolOf(p.could) # exp
                THEN <<FALSE,
                       IF IsSigned(E) /\ BoolOf(p.could) = bugCould
                       THEN (IF IsNegative(bv) THEN "field-could-signed-narrow-negative"
                             ELSE "field-could-signed-narrow-unsigned-range")
                       ELSE IF exp THEN "field-rejects-in-range-value" ELSE "field-accepts-out-of-range-value",
                       [w |-> p.w, val |-> p.val], exp, BoolOf(p.could)>>
                ELSE IF p.tried # p.could
                THEN <<FALSE, "field-try-differs-from-could", [w |-> p.w, val |-> p.val], p.could, p.tried>>
                ELSE IF exp
                THEN <<BoolOf(p.ok) /\ p.v = Image64(bv), "field-readback", [w |-> p.w, val |-> p.val], Image64(bv), p.v>>
                ELSE <<TRUE, "", "", 0, 0>>]

WellFormedRecord(r) ==
    /\ Assert(WellFormed(r.def), <<"definition is not well formed", r.id>>)
    /\ Assert(~BoolOf(r.hasObs) \/ BoolOf(r.accepted), <<"observations for a rejected enum", r.id>>)
    /\ BoolOf(r.hasObs) =>
          \A k \in 1..Len(r.fields) : Assert(FieldWidthLegal(r.def, r.fields[k].w), <<"illegal field width", r.id>>)

ChecksOf(r) ==
    AcceptChecks(r)
    \o (IF BoolOf(r.hasObs)
        THEN UnderlyingChecks(r) \o IdentChecks(r) \o NameChecks(r) \o ValueChecks(r) \o FieldChecks(r)
        ELSE <<>>)

Init == i = 0 /\ nbad = 0 /\ nchecks = 0

Next ==
    /\ i < N
    /\ LET r == Cases[i + 1]
           cs == ChecksOf(r)
       IN  /\ WellFormedRecord(r)
           /\ i' = i + 1
           /\ nbad' = nbad + CountBad(r, cs, 1)
           /\ nchecks' = nchecks + Len(cs)

Done == i = N => PrintT(ToJson([summary |-> TRUE, records |-> N, bad |-> nbad, checks |-> nchecks]))
WalkOK == i \in 0..N
=============================================================================
