------------------------------ MODULE EnumSem ------------------------------
(***************************************************************************)
(* C19: what an Emboss `enum` definition means for the generated C++.      *)
(*                                                                         *)
(* Written from doc/language-reference.md (`enum`, `is_signed`,            *)
(* `maximum_bits`, `(cpp) enum_case`, Names) and doc/cpp-reference.md      *)
(* (`enum`s, TryToGetEnumFromName, TryToGetNameFromEnum) and the enum_case *)
(* design note (doc/design_docs/archive/alternate_enum_cases.md) for the   *)
(* kCamelCase rule: "the words will be split on the underscore, the first  *)
(* letter of each word will remain capitalized, and all following letters  *)
(* of each word will be lowercased, then prefixed with the k".             *)
(*                                                                         *)
(* An enum definition is a record                                          *)
(*   [vals       |-> sequence of [n |-> name, v |-> landmark id,           *)
(*                                cases |-> sequence of case names, <<>> = *)
(*                                no attribute on the value],              *)
(*    signedAttr |-> "none" | "true" | "false",                            *)
(*    maxBitsAttr|-> 0 (absent) or 1..64,                                  *)
(*    enumCases  |-> $default enum_case on the enum (<<>> = absent),       *)
(*    moduleCases|-> $default enum_case on the module (<<>> = absent)]     *)
(* Names are sequences of one-character strings (TLC cannot index into a   *)
(* string).  Values are LANDMARKS: symbolic 64-bit boundary values held as *)
(* VW-bit two's-complement vectors, never as TLC integers.                 *)
(***************************************************************************)
EXTENDS BV, Integers, Sequences, FiniteSets

VW == 68

(***************************************************************************)
(* Landmarks (ordered)                                                     *)
(***************************************************************************)
LandmarkNames == <<"-2^63", "-2^31-1", "-2^31", "-129", "-128", "-1", "0", "1", "127", "128",
                   "255", "256", "2^31-1", "2^31", "2^32-1", "2^32", "2^63-1", "2^63", "2^64-1">>
NLandmarks == 19

NegPow2(k) == MaskRange(VW, k, VW)         \* -2^k
Pow2V(k) == OneHot(VW, k)                  \* 2^k
Pow2M1(k) == MaskRange(VW, 0, k)           \* 2^k - 1

LandmarkBV ==
    << NegPow2(63), Dec(NegPow2(31)), NegPow2(31), Dec(NegPow2(7)), NegPow2(7), Ones(VW), Zeros(VW),
       Pow2V(0), Pow2M1(7), Pow2V(7), Pow2M1(8), Pow2V(8), Pow2M1(31), Pow2V(31), Pow2M1(32),
       Pow2V(32), Pow2M1(63), Pow2V(63), Pow2M1(64) >>

(* a value near a landmark: [lm |-> id, d |-> -1 | 0 | 1] *)
ValBV(val) ==
    CASE val.d = 0 -> LandmarkBV[val.lm]
      [] val.d = 1 -> Inc(LandmarkBV[val.lm])
      [] val.d = -1 -> Dec(LandmarkBV[val.lm])

IsNegative(bv) == bv[VW] = 1

(* bv is a value of a bits-wide integer of the given signedness *)
InRange(bv, bits, signed) == IF signed THEN FitsSigned(bv, bits) ELSE FitsUnsigned(bv, bits)

(***************************************************************************)
(* Attributes and their defaults                                           *)
(***************************************************************************)
CaseNames == {"SHOUTY_CASE", "kCamelCase"}

(* "Normally, an enum is signed if there is at least one negative value, and *)
(* unsigned otherwise, but this behavior can be overridden"                  *)
IsSigned(E) ==
    CASE E.signedAttr = "true" -> TRUE
      [] E.signedAttr = "false" -> FALSE
      [] OTHER -> \E i \in 1..Len(E.vals) : IsNegative(LandmarkBV[E.vals[i].v])

(* "If not specified, maximum_bits defaults to 64" *)
MaxBits(E) == IF E.maxBitsAttr = 0 THEN 64 ELSE E.maxBitsAttr

(* every value must be representable in maximum_bits bits of the enum's      *)
(* signedness (which, for 64 bits, is the documented either -2^63..2^63-1 or *)
(* 0..2^64-1 rule)                                                           *)
ValueInRange(E, i) == InRange(LandmarkBV[E.vals[i].v], MaxBits(E), IsSigned(E))
Acceptable(E) == \A i \in 1..Len(E.vals) : ValueInRange(E, i)

(* C++ representation: an underlying integer type of the enum's signedness   *)
(* wide enough for maximum_bits.  NAMED DEVIATION: the documentation only     *)
(* says "wide enough" / "smaller types in some cases"; the width modelled     *)
(* here (least of 8/16/32/64 >= maximum_bits) is the code's documented-in-    *)
(* comment choice.                                                            *)
LeastWidth(n) == IF n <= 8 THEN 8 ELSE IF n <= 16 THEN 16 ELSE IF n <= 32 THEN 32 ELSE 64
UnderlyingBits(E) == LeastWidth(MaxBits(E))
UnderlyingWideEnough(E, bits, signed) == bits >= MaxBits(E) /\ signed = IsSigned(E)

(***************************************************************************)
(* Names and case conversion                                               *)
(***************************************************************************)
Upper == <<"A", "B", "C", "D", "E", "F", "G", "H", "I", "J", "K", "L", "M",
           "N", "O", "P", "Q", "R", "S", "T", "U", "V", "W", "X", "Y", "Z">>
Lower == <<"a", "b", "c", "d", "e", "f", "g", "h", "i", "j", "k", "l", "m",
           "n", "o", "p", "q", "r", "s", "t", "u", "v", "w", "x", "y", "z">>
Digits == {"0", "1", "2", "3", "4", "5", "6", "7", "8", "9"}

UpperSet == {Upper[k] : k \in 1..26}
LowerMap == [ch \in UpperSet |-> Lower[CHOOSE k \in 1..26 : Upper[k] = ch]]
IsUpper(ch) == ch \in UpperSet
ToLower(ch) == IF ch \in UpperSet THEN LowerMap[ch] ELSE ch

(* Emboss enum value names: [A-Z][A-Z_0-9]*[A-Z_][A-Z_0-9]* *)
IsShoutyName(n) ==
    /\ Len(n) >= 2
    /\ IsUpper(n[1])
    /\ \A k \in 1..Len(n) : IsUpper(n[k]) \/ n[k] = "_" \/ n[k] \in Digits
    /\ \E k \in 2..Len(n) : IsUpper(n[k]) \/ n[k] = "_"

(* kCamelCase: split on "_"; in each word the first character stays, the rest *)
(* is lower-cased; words are concatenated; "k" is prefixed                     *)
RECURSIVE CamelFrom(_, _, _)
CamelFrom(n, k, wordStart) ==
    IF k > Len(n) THEN <<>>
    ELSE IF n[k] = "_" THEN CamelFrom(n, k + 1, TRUE)
    ELSE <<IF wordStart THEN n[k] ELSE ToLower(n[k])>> \o CamelFrom(n, k + 1, FALSE)

Spell(case, n) ==
    CASE case = "SHOUTY_CASE" -> n
      [] case = "kCamelCase" -> <<"k">> \o CamelFrom(n, 1, TRUE)

(* the enum_case list in force for value i: its own attribute, else the       *)
(* enum's $default, else the module's $default, else SHOUTY_CASE              *)
CasesOf(E, i) ==
    IF E.vals[i].cases # <<>> THEN E.vals[i].cases
    ELSE IF E.enumCases # <<>> THEN E.enumCases
    ELSE IF E.moduleCases # <<>> THEN E.moduleCases
    ELSE <<"SHOUTY_CASE">>

CaseListOK(cs) == /\ \A k \in 1..Len(cs) : cs[k] \in CaseNames
                  /\ \A j, k \in 1..Len(cs) : j # k => cs[j] # cs[k]

WellFormed(E) ==
    /\ Len(E.vals) >= 1
    /\ \A i \in 1..Len(E.vals) : IsShoutyName(E.vals[i].n) /\ E.vals[i].v \in 1..NLandmarks
                                 /\ CaseListOK(E.vals[i].cases)
    /\ \A i, j \in 1..Len(E.vals) : i # j => E.vals[i].n # E.vals[j].n
    /\ CaseListOK(E.enumCases) /\ CaseListOK(E.moduleCases)
    /\ E.maxBitsAttr \in 0..64
    /\ E.signedAttr \in {"none", "true", "false"}

(* C++ enumerators: for every declared value, one enumerator per requested     *)
(* spelling, with exactly the declared value                                   *)
HasEnumerator(E, id) ==
    \E i \in 1..Len(E.vals) : \E k \in 1..Len(CasesOf(E, i)) : Spell(CasesOf(E, i)[k], E.vals[i].n) = id
EnumeratorValue(E, id) ==
    LET i == CHOOSE i \in 1..Len(E.vals) :
                 \E k \in 1..Len(CasesOf(E, i)) : Spell(CasesOf(E, i)[k], E.vals[i].n) = id
    IN  LandmarkBV[E.vals[i].v]

(* the C++ spellings of different declared values must not collide *)
SpellingsDistinct(E) ==
    \A i, j \in 1..Len(E.vals) : i # j =>
        \A c1 \in CaseNames, c2 \in CaseNames : Spell(c1, E.vals[i].n) # Spell(c2, E.vals[j].n)

(***************************************************************************)
(* Name <-> value                                                          *)
(***************************************************************************)
(* TryToGetEnumFromName: exact match against the names in the Emboss definition *)
NameIndex(E, s) == IF \E i \in 1..Len(E.vals) : E.vals[i].n = s
                   THEN CHOOSE i \in 1..Len(E.vals) : E.vals[i].n = s ELSE 0
FromNameFound(E, s) == NameIndex(E, s) # 0
FromNameValue(E, s) == LandmarkBV[E.vals[NameIndex(E, s)].v]

(* EnumIsKnown / TryToGetNameFromEnum: "the first name that appears in the Emboss *)
(* definition" having that value; null for values that are not declared          *)
IsKnown(E, bv) == \E i \in 1..Len(E.vals) : LandmarkBV[E.vals[i].v] = bv
FirstIndexWithValue(E, bv) ==
    CHOOSE i \in 1..Len(E.vals) :
        /\ LandmarkBV[E.vals[i].v] = bv
        /\ \A j \in 1..(i - 1) : LandmarkBV[E.vals[j].v] # bv
ToName(E, bv) == IF IsKnown(E, bv) THEN E.vals[FirstIndexWithValue(E, bv)].n ELSE <<>>

(***************************************************************************)
(* Enum fields: "open" enums -- a field of w bits (w <= maximum_bits) holds  *)
(* any value of the enum's signedness that fits w bits, named or not         *)
(***************************************************************************)
FieldWidthLegal(E, w) == w >= 1 /\ w <= MaxBits(E)
FieldAccepts(E, w, bv) == InRange(bv, w, IsSigned(E))
(* a value that can be passed as the C++ enum type at all *)
FitsUnderlying(E, bits, bv) == InRange(bv, bits, IsSigned(E))

(* 64-bit two's-complement image (8 bytes, least significant first) of a value *)
Image64(bv) == BitsToLimbs(Truncate(bv, 64))
=============================================================================
