INIT Init
NEXT Next
INVARIANT Done
INVARIANT WalkOK
CHECK_DEADLOCK FALSE
