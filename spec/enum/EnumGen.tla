------------------------------ MODULE EnumGen ------------------------------
(***************************************************************************)
(* C19 generator: TLC emits enum definitions (as JSON, one per step)       *)
(* together with everything the harness needs to render and probe them.    *)
(*                                                                         *)
(*  * ids 1 .. NMatrix: the exhaustive single-value matrix                 *)
(*        landmark (19) x maximum_bits (absent,1,7,8,9,16,31,32,33,63,64)  *)
(*        x is_signed (absent,true,false)                                  *)
(*  * ids NMatrix+1 .. NMatrix+GEN_N: pseudo-random enums with 1-4 values, *)
(*        duplicates, all attribute combinations, enum_case at module /    *)
(*        enum / value level, name shapes with digits and repeated         *)
(*        underscores.  Deterministic in (GEN_SEED, id).                   *)
(* Only well-formed enums whose C++ spellings do not collide are emitted.  *)
(* The expected verdict/behaviour is NOT part of the output that decides   *)
(* anything: EnumCheck.tla recomputes it from the definition.              *)
(***************************************************************************)
EXTENDS EnumSem, TLC, Json, IOUtils

GenN == atoi(IOEnv.GEN_N)
Seed == atoi(IOEnv.GEN_SEED)
DriveMatrixEvery == atoi(IOEnv.GEN_DRIVE_MATRIX_EVERY)   \* drive every k-th acceptable matrix enum in C++
FieldsEvery == atoi(IOEnv.GEN_FIELDS_EVERY)               \* every k-th driven enum also gets enum fields

MaxBitsChoices == <<0, 1, 7, 8, 9, 16, 31, 32, 33, 63, 64>>
SignedChoices == <<"none", "true", "false">>
NMatrix == NLandmarks * Len(MaxBitsChoices) * Len(SignedChoices)

Str(s) == [k \in 1..Len(s) |-> s[k]]
NamePool ==
    << <<"A", "A">>, <<"F", "O", "O", "_", "B", "A", "R">>, <<"F", "O", "O", "_", "_", "B", "A", "R">>,
       <<"A", "1", "_", "B", "2">>, <<"X", "_", "2", "Y">>, <<"T", "R", "A", "I", "L", "_">>,
       <<"V", "2", "X">>, <<"M", "U", "L", "T", "I", "_", "W", "O", "R", "D", "_", "E", "N", "U", "M">>,
       <<"B", "_", "3", "0", "0">>, <<"Q", "_">>, <<"Z", "_", "_", "9", "_", "A", "B", "C">>,
       <<"F", "O", "O", "_", "B", "A", "R", "2">>, <<"F", "O", "O", "B", "A", "R">> >>
NPool == Len(NamePool)     \* 13 (prime: every step 1..12 visits distinct names)

CaseLists == << <<>>, <<"SHOUTY_CASE">>, <<"kCamelCase">>, <<"SHOUTY_CASE", "kCamelCase">>,
                <<"kCamelCase", "SHOUTY_CASE">> >>

(* ZX81-style LCG on 0..65536, a few rounds: small enough for TLC's integers *)
Lcg(x) == (x * 75 + 74) % 65537
Rnd(i, k) == Lcg(Lcg(Lcg(Lcg((i * 31 + k * 977 + Seed * 101 + 7) % 65537))))

(* landmark ids that are in range for (bits, signed), in order *)
InRangeIds(bits, signed) == SelectSeq([k \in 1..NLandmarks |-> k],
                                      LAMBDA id : InRange(LandmarkBV[id], bits, signed))

MatrixEnum(i) ==
    LET j == i - 1
        lm == (j % NLandmarks) + 1
        mb == MaxBitsChoices[((j \div NLandmarks) % Len(MaxBitsChoices)) + 1]
        sg == SignedChoices[(j \div (NLandmarks * Len(MaxBitsChoices))) + 1]
    IN  [vals |-> << [n |-> <<"V", "V">>, v |-> lm, cases |-> <<>>] >>,
         signedAttr |-> sg, maxBitsAttr |-> mb, enumCases |-> <<>>, moduleCases |-> <<>>]

RandomEnum(i) ==
    LET nvals == 1 + (Rnd(i, 1) % 4)
        mb == MaxBitsChoices[(Rnd(i, 2) % Len(MaxBitsChoices)) + 1]
        sg == <<"none", "none", "true", "false">>[(Rnd(i, 3) % 4) + 1]
        bits == IF mb = 0 THEN 64 ELSE mb
        guessSigned == IF sg = "true" THEN TRUE ELSE IF sg = "false" THEN FALSE ELSE Rnd(i, 4) % 2 = 0
        ok == InRangeIds(bits, guessSigned)
        start == Rnd(i, 5) % NPool
        step == 1 + (Rnd(i, 6) % (NPool - 1))
        RECURSIVE Val(_)
        Val(j) ==   \* landmark id of value j
            IF j > 1 /\ Rnd(i, 10 + j) % 3 = 0 THEN Val(1 + (Rnd(i, 20 + j) % (j - 1)))      \* duplicate
            ELSE IF Rnd(i, 30 + j) % 5 = 0 THEN 1 + (Rnd(i, 40 + j) % NLandmarks)           \* anything
            ELSE ok[(Rnd(i, 50 + j) % Len(ok)) + 1]                                         \* in range
        vcase(j) == <<1, 1, 1, 2, 3, 4, 5>>[(Rnd(i, 60 + j) % 7) + 1]
    IN  [vals |-> [j \in 1..nvals |->
                     [n |-> NamePool[((start + j * step) % NPool) + 1], v |-> Val(j),
                      cases |-> CaseLists[vcase(j)]]],
         signedAttr |-> sg, maxBitsAttr |-> mb,
         enumCases |-> CaseLists[<<1, 1, 2, 3, 4, 5>>[(Rnd(i, 7) % 6) + 1]],
         moduleCases |-> CaseLists[<<1, 3, 5, 2>>[(i % 4) + 1]]]

EnumOf(i) == IF i <= NMatrix THEN MatrixEnum(i) ELSE RandomEnum(i)

(***************************************************************************)
(* Probes                                                                  *)
(***************************************************************************)
Dedup(s) ==
    LET idx == SelectSeq([k \in 1..Len(s) |-> k], LAMBDA k : \A j \in 1..(k - 1) : s[j] # s[k])
    IN  [m \in 1..Len(idx) |-> s[idx[m]]]

RECURSIVE Flatten(_)
Flatten(ss) == IF ss = <<>> THEN <<>> ELSE Head(ss) \o Flatten(Tail(ss))

(* candidate C++ enumerator identifiers: both spellings of every declared name *)
IdentProbes(E) ==
    Dedup(Flatten([i \in 1..Len(E.vals) |-> <<Spell("SHOUTY_CASE", E.vals[i].n), Spell("kCamelCase", E.vals[i].n)>>]))

(* strings for TryToGetEnumFromName: the names, their other spelling, near misses, empty, numerals *)
NameProbes(E) ==
    Dedup(Flatten([i \in 1..Len(E.vals) |->
              LET n == E.vals[i].n
              IN  << n, Spell("kCamelCase", n), n \o <<"X">>, SubSeq(n, 1, Len(n) - 1),
                     [k \in 1..Len(n) |-> ToLower(n[k])], <<" ">> \o n >>])
          \o << <<>>, <<"0">>, <<"1">>, <<"-", "1">>, <<"V">> >>)

(* values for TryToGetNameFromEnum / EnumIsKnown / operator<<: declared values and   *)
(* their neighbours, 0, -1, the extremes of the underlying type -- those that the     *)
(* underlying C++ type can hold                                                       *)
ValueProbes(E) ==
    LET ub == UnderlyingBits(E)
        cand == Flatten([i \in 1..Len(E.vals) |->
                    << [lm |-> E.vals[i].v, d |-> 0], [lm |-> E.vals[i].v, d |-> 1], [lm |-> E.vals[i].v, d |-> -1] >>])
                \o << [lm |-> 7, d |-> 0], [lm |-> 6, d |-> 0], [lm |-> 1, d |-> 0], [lm |-> 19, d |-> 0],
                      [lm |-> 9, d |-> 0], [lm |-> 10, d |-> 0] >>
    IN  Dedup(SelectSeq(cand, LAMBDA val : FitsUnderlying(E, ub, ValBV(val))))

(* field widths: the whole maximum_bits and one narrower legal width that rotates with *)
(* the enum's id, so that the population covers every width 1..63                       *)
FieldWidths(E, k) ==
    LET mb == MaxBits(E)
    IN  IF mb = 1 THEN <<1>> ELSE <<mb, 1 + ((k * 7) % (mb - 1))>>

(***************************************************************************)
(* Walk                                                                    *)
(***************************************************************************)
VARIABLES i, emitted, driven

Total == NMatrix + GenN

Emit(k) ==
    LET E == EnumOf(k)
        good == WellFormed(E) /\ SpellingsDistinct(E)
        acc == good /\ Acceptable(E)
        drive == acc /\ (k > NMatrix \/ (k % DriveMatrixEvery) = 0)
    IN  /\ i' = k
        /\ IF good
           THEN /\ PrintT(ToJson([id |-> k, def |-> E, matrix |-> k <= NMatrix,
                                  predictedAcceptable |-> acc, drive |-> drive,
                                  idents |-> IF drive THEN IdentProbes(E) ELSE <<>>,
                                  names |-> IF drive THEN NameProbes(E) ELSE <<>>,
                                  values |-> IF drive THEN ValueProbes(E) ELSE <<>>,
                                  widths |-> IF drive /\ (k % FieldsEvery = 0) THEN FieldWidths(E, k) ELSE <<>>]))
                /\ emitted' = emitted + 1
                /\ driven' = driven + (IF drive THEN 1 ELSE 0)
           ELSE UNCHANGED <<emitted, driven>>

Init == i = 0 /\ emitted = 0 /\ driven = 0
Next == i < Total /\ Emit(i + 1)

Done == i = Total => PrintT(ToJson([summary |-> TRUE, total |-> Total, emitted |-> emitted, driven |-> driven]))
=============================================================================
