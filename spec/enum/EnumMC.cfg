INIT Init
NEXT Next
INVARIANT TypeOK
INVARIANT SignRule
INVARIANT RangeRule
INVARIANT Representation
INVARIANT Enumerators
INVARIANT NameValue
INVARIANT Fields
CHECK_DEADLOCK FALSE
