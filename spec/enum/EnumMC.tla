------------------------------- MODULE EnumMC -------------------------------
(***************************************************************************)
(* Design-level model check of EnumSem.tla on a small exhaustive family:   *)
(* enums of 1-2 values over 7 landmarks and 4 names, every maximum_bits /  *)
(* is_signed choice of a small set, enum_case at the three levels.  The    *)
(* invariants are the algebraic facts the C19 statement relies on.         *)
(***************************************************************************)
EXTENDS EnumSem, TLC, IOUtils

Size == IF "MC_SIZE" \in DOMAIN IOEnv THEN IOEnv.MC_SIZE ELSE "quick"

VARIABLES E, phase

Names == << <<"A", "A">>, <<"F", "O", "O", "_", "B", "A", "R">>, <<"X", "_", "2", "Y">>, <<"Q", "_">> >>
Lms == IF Size = "quick" THEN {1, 6, 7, 11, 19} ELSE {1, 4, 5, 6, 7, 8, 11, 18, 19}
MaxBitsSet == IF Size = "quick" THEN {0, 1, 8, 9, 64} ELSE {0, 1, 7, 8, 9, 63, 64}
CaseSets == {<<>>, <<"kCamelCase">>, <<"kCamelCase", "SHOUTY_CASE">>}

Vals1 == { << [n |-> Names[a], v |-> x, cases |-> c] >> : a \in 1..2, x \in Lms, c \in CaseSets }
Vals2 == { << [n |-> Names[a], v |-> x, cases |-> c], [n |-> Names[b], v |-> y, cases |-> <<>>] >> :
             a \in 1..2, b \in 3..4, x \in Lms, y \in Lms, c \in CaseSets }

Init == phase = "boot" /\ E = [vals |-> <<>>]

Pick ==
    /\ phase = "boot"
    /\ \E vs \in Vals1 \cup Vals2, mb \in MaxBitsSet, sg \in {"none", "true", "false"},
          ec \in {<<>>, <<"SHOUTY_CASE", "kCamelCase">>}, mc \in {<<>>, <<"kCamelCase">>} :
          E' = [vals |-> vs, signedAttr |-> sg, maxBitsAttr |-> mb, enumCases |-> ec, moduleCases |-> mc]
    /\ phase' = "picked"

Next == Pick

Picked == phase = "picked"

TypeOK == Picked => WellFormed(E) /\ SpellingsDistinct(E)

(* signedness: explicit wins; otherwise exactly "has a negative value" *)
SignRule == Picked =>
    /\ (E.signedAttr = "none" => (IsSigned(E) <=> \E i \in 1..Len(E.vals) : CmpS(LandmarkBV[E.vals[i].v], Zeros(VW)) < 0))
    /\ (E.signedAttr = "true" => IsSigned(E)) /\ (E.signedAttr = "false" => ~IsSigned(E))

(* acceptance is exactly: every value between the bounds of the (maximum_bits, signedness) integer *)
RangeRule == Picked =>
    LET mb == MaxBits(E)
        lo == IF IsSigned(E) THEN NegPow2(mb - 1) ELSE Zeros(VW)
        hi == IF IsSigned(E) THEN Pow2M1(mb - 1) ELSE Pow2M1(mb)
    IN  Acceptable(E) <=> \A i \in 1..Len(E.vals) :
                              CmpS(lo, LandmarkBV[E.vals[i].v]) <= 0 /\ CmpS(LandmarkBV[E.vals[i].v], hi) <= 0

(* an acceptable enum's values all fit its C++ underlying type, which is wide enough *)
Representation == (Picked /\ Acceptable(E)) =>
    /\ UnderlyingWideEnough(E, UnderlyingBits(E), IsSigned(E))
    /\ UnderlyingBits(E) \in {8, 16, 32, 64}
    /\ \A i \in 1..Len(E.vals) : FitsUnderlying(E, UnderlyingBits(E), LandmarkBV[E.vals[i].v])

(* enumerators: every declared value has at least one; each spelling carries the declared value; *)
(* SHOUTY spelling is the Emboss name; kCamel spellings start with k and have no underscore      *)
Enumerators == Picked =>
    \A i \in 1..Len(E.vals) :
        LET cs == CasesOf(E, i)
        IN  /\ Len(cs) >= 1
            /\ \A k \in 1..Len(cs) :
                  LET id == Spell(cs[k], E.vals[i].n)
                  IN  /\ HasEnumerator(E, id)
                      /\ EnumeratorValue(E, id) = LandmarkBV[E.vals[i].v]
                      /\ (cs[k] = "SHOUTY_CASE" => id = E.vals[i].n)
                      /\ (cs[k] = "kCamelCase" => id[1] = "k" /\ \A j \in 1..Len(id) : id[j] # "_")
            /\ (\A k \in 1..Len(cs) : cs[k] # "SHOUTY_CASE") => ~HasEnumerator(E, E.vals[i].n)

(* name <-> value: FromName is exactly the declared names; ToName is the first declared name;     *)
(* the two are mutually consistent; IsKnown <=> ToName is not null                               *)
NameValue == Picked =>
    /\ \A i \in 1..Len(E.vals) :
          LET n == E.vals[i].n
              bv == LandmarkBV[E.vals[i].v]
          IN  /\ FromNameFound(E, n) /\ FromNameValue(E, n) = bv
              /\ IsKnown(E, bv)
              /\ FromNameValue(E, ToName(E, bv)) = bv
              /\ (ToName(E, bv) # n => \E j \in 1..(i - 1) : E.vals[j].n = ToName(E, bv))
              /\ ~FromNameFound(E, Spell("kCamelCase", n))
              /\ ~FromNameFound(E, n \o <<"X">>)
    /\ ~FromNameFound(E, <<>>)
    /\ \A x \in 1..NLandmarks : (IsKnown(E, LandmarkBV[x]) <=> ToName(E, LandmarkBV[x]) # <<>>)
    /\ \A x \in 1..NLandmarks : (IsKnown(E, LandmarkBV[x]) <=> \E i \in 1..Len(E.vals) : E.vals[i].v = x)

(* open enums: a full-width field accepts exactly the values of the (maximum_bits, signedness)    *)
(* integer, declared or not                                                                      *)
Fields == (Picked /\ Acceptable(E)) =>
    /\ \A i \in 1..Len(E.vals) : FieldAccepts(E, MaxBits(E), LandmarkBV[E.vals[i].v])
    /\ \A x \in 1..NLandmarks : FieldAccepts(E, MaxBits(E), LandmarkBV[x]) <=> InRange(LandmarkBV[x], MaxBits(E), IsSigned(E))
    /\ \A w \in {1, MaxBits(E)} : FieldWidthLegal(E, w)
    /\ ~FieldWidthLegal(E, MaxBits(E) + 1)

(* landmarks are strictly ordered and are what their names say at the edges *)
ASSUME \A k \in 1..(NLandmarks - 1) : CmpS(LandmarkBV[k], LandmarkBV[k + 1]) < 0
ASSUME Len(LandmarkBV) = NLandmarks /\ Len(LandmarkNames) = NLandmarks
ASSUME /\ Inc(LandmarkBV[2]) = LandmarkBV[3] /\ Inc(LandmarkBV[4]) = LandmarkBV[5]
       /\ Inc(LandmarkBV[6]) = LandmarkBV[7] /\ Inc(LandmarkBV[7]) = LandmarkBV[8]
       /\ Inc(LandmarkBV[9]) = LandmarkBV[10] /\ Inc(LandmarkBV[11]) = LandmarkBV[12]
       /\ Inc(LandmarkBV[13]) = LandmarkBV[14] /\ Inc(LandmarkBV[15]) = LandmarkBV[16]
       /\ Inc(LandmarkBV[17]) = LandmarkBV[18]
       /\ Neg(LandmarkBV[18]) = LandmarkBV[1] /\ Neg(LandmarkBV[10]) = LandmarkBV[5]
       /\ ToNat(Truncate(LandmarkBV[11], 10)) = 255 /\ ToNat(Truncate(LandmarkBV[9], 10)) = 127
       /\ Image64(LandmarkBV[19]) = <<255, 255, 255, 255, 255, 255, 255, 255>>
       /\ Image64(LandmarkBV[1]) = <<0, 0, 0, 0, 0, 0, 0, 128>>
(* documented spellings *)
ASSUME Spell("kCamelCase", <<"U","P","P","E","R","_","C","H","A","N","N","E","L","_","R","A","N","G","E","_","L","I","M","I","T">>)
         = <<"k","U","p","p","e","r","C","h","a","n","n","e","l","R","a","n","g","e","L","i","m","i","t">>
ASSUME Spell("kCamelCase", <<"M","U","L","T","I","_","W","O","R","D","_","E","N","U","M">>)
         = <<"k","M","u","l","t","i","W","o","r","d","E","n","u","m">>
ASSUME Spell("kCamelCase", <<"B","A","R">>) = <<"k","B","a","r">>
ASSUME IsShoutyName(<<"B","_","3","0","0">>) /\ ~IsShoutyName(<<"B","3","0","0">>) /\ ~IsShoutyName(<<"B">>) /\ ~IsShoutyName(<<"b","a">>) /\ ~IsShoutyName(<<"A","1">>)
=============================================================================
