------------------------------ MODULE TypingMC ------------------------------
(* Exhaustive design-level check of the C13 generator + typing rules with small
   constants (given in the .cfg written by harness/c13.py):  every base the
   machine can seal is WellTyped; every catalogue violation is ill-typed, blamed
   on the broken rule at the mutated site, and nothing else is wrong. *)
EXTENDS TypingGen
=============================================================================
