---------------------------- MODULE TypingCheck ----------------------------
(***************************************************************************)
(* C13 binding: decides, for every case that was replayed into the real    *)
(* compiler, whether the recorded behaviour is the one the typing rules    *)
(* demand.  Input (env CASES_FILE): a JSON object                          *)
(*   skeleton : the leaves the renderer declared                           *)
(*   cases    : sequence of                                                *)
(*     tid, kind ("base"|"viol"), gwt (generator's WellTyped prediction),  *)
(*     prog [sites, args], viol [rule, slot, path],                        *)
(*     spans [slot |-> [d |-> <<l1,l2>>, a |-> <<l1,l2>>]]  (rendering     *)
(*            facts: lines of the definition containing the slot / of the  *)
(*            expression itself),                                          *)
(*     obs  [acc, exc, errs: <<[l1, l2, syn, main]>>]  what the compiler   *)
(*            did, bacc: whether the BASE this case was derived from was   *)
(*            accepted (for bases: own acc).                               *)
(* Every case whose verdict is not "ok" is printed as JSON; one summary    *)
(* line is printed at the end.  WellTyped / Errors are re-evaluated here   *)
(* from the program; nothing the generator printed is trusted.             *)
(***************************************************************************)
EXTENDS Typing, TLC, Json, IOUtils

Input == JsonDeserialize(IOEnv.CASES_FILE)
Cases == Input.cases

VARIABLES i, nOk, nBad, nMasked
vars == <<i, nOk, nBad, nMasked>>

ProgOf(c) == [leaves |-> Leaves, sites |-> c.prog.sites, args |-> c.prog.args]

InSpan(e, sp) == ~e.syn /\ e.main /\ sp[1] <= e.l1 /\ e.l1 <= sp[2]

SlotOrder == <<"start", "size", "len", "cond", "enumv", "virt", "freq", "amax", "asig",
               "abo", "atxt", "args", "sreq">>

\* where did the compiler complain?  first slot (in SlotOrder) whose own lines hold an error
HitSlot(c) ==
  LET hits == {k \in 1..Len(SlotOrder) :
                 \E j \in 1..Len(c.obs.errs) : InSpan(c.obs.errs[j], c.spans[SlotOrder[k]].a)}
  IN  IF hits = {} THEN "elsewhere" ELSE SlotOrder[CHOOSE k \in hits : \A m \in hits : k <= m]

RECURSIVE SubTypes(_, _)
SubTypes(e, env) ==
  {TypeOf(e, env)} \cup
  (IF e.k = "op" /\ e.s = "$present" THEN {}
   ELSE UNION {SubTypes(e.args[j], env) : j \in 1..Len(e.args)})

RECURSIVE Functions(_)
Functions(e) == (IF e.k = "op" THEN {e.s} ELSE {}) \cup UNION {Functions(e.args[j]) : j \in 1..Len(e.args)}

\* a feature of the expression at a slot, so that a rejected well-typed program gets a key that
\* names the input class:  which documented functions occur and whether operands of several
\* types are mixed
Feature(c, slot) ==
  IF slot \notin ExprSites THEN "args"
  ELSE LET e   == c.prog.sites[slot]
           env == SiteEnv(ProgOf(c), slot)
           ts  == {t.t : t \in SubTypes(e, env)}
       IN  (IF Cardinality(ts) > 1 THEN "mixed-types" ELSE "one-type")
           \o (IF Functions(e) \cap {"$upper_bound", "$lower_bound"} # {} THEN "+bounds" ELSE "")

Verdict(c) ==
  LET pr  == ProgOf(c)
      wt  == WellTyped(pr)
      loc == \E j \in 1..Len(c.obs.errs) : InSpan(c.obs.errs[j], c.spans[c.viol.slot].d)
  IN  IF wt # c.gwt THEN [clause |-> "generator_disagrees", tag |-> c.kind]
      ELSE IF c.obs.exc # "" THEN
           \* "never crashes the compiler" holds for every module, well typed or not
           [clause |-> "exception", tag |-> c.obs.exc]
      ELSE IF wt THEN
           IF c.obs.acc THEN [clause |-> "ok", tag |-> ""]
           ELSE [clause |-> "welltyped_rejected", tag |-> HitSlot(c) \o "/" \o Feature(c, HitSlot(c))]
      ELSE \* one rule broken at viol.slot
           IF ~c.bacc THEN [clause |-> "masked", tag |-> ""]   \* the base itself was (wrongly) refused
           ELSE IF c.obs.acc THEN [clause |-> "illtyped_accepted", tag |-> c.viol.rule]
           ELSE IF ~loc THEN [clause |-> "error_not_in_definition", tag |-> c.viol.rule \o "@" \o c.viol.slot]
           ELSE [clause |-> "ok", tag |-> ""]

Init == /\ i = 0 /\ nOk = 0 /\ nBad = 0 /\ nMasked = 0
        /\ IF Input.skeleton = Leaves THEN TRUE
           ELSE PrintT(ToJson([tid |-> -1, clause |-> "skeleton_differs", tag |-> "renderer"]))

Step ==
  /\ i < Len(Cases)
  /\ i' = i + 1
  /\ LET c == Cases[i + 1]
         v == Verdict(c)
     IN  /\ nOk' = nOk + (IF v.clause = "ok" THEN 1 ELSE 0)
         /\ nMasked' = nMasked + (IF v.clause = "masked" THEN 1 ELSE 0)
         /\ nBad' = nBad + (IF v.clause \notin {"ok", "masked"} THEN 1 ELSE 0)
         /\ IF v.clause \notin {"ok", "masked"}
            THEN PrintT(ToJson([tid |-> c.tid, clause |-> v.clause, tag |-> v.tag,
                                kind |-> c.kind, rule |-> c.viol.rule, slot |-> c.viol.slot]))
            ELSE TRUE

Done ==
  /\ i = Len(Cases)
  /\ i' = i + 1
  /\ UNCHANGED <<nOk, nBad, nMasked>>
  /\ PrintT(ToJson([tid |-> -2, clause |-> "summary", total |-> Len(Cases), ok |-> nOk,
                    bad |-> nBad, masked |-> nMasked]))

Next == Step \/ Done
Spec == Init /\ [][Next]_vars

\* every record is consumed (POSTCONDITION-style acceptance is done by the summary line)
Consumed == i <= Len(Cases) + 1
=============================================================================
