------------------------------- MODULE Typing -------------------------------
(***************************************************************************)
(* C13.  Expression typing of Emboss, written from doc/language-reference  *)
(* ("Operators and Functions", "Parameters", "Virtual fields", attribute   *)
(* sections), NOT from compiler/front_end/type_check.py.                   *)
(*                                                                         *)
(* Abstract expressions are records  [k, n, s, args]  (uniform shape so    *)
(* that they survive a trip through JSON):                                 *)
(*   k = "int"   n = value                                                 *)
(*   k = "bool"  n = 1 / 0                                                 *)
(*   k = "ev"    s = enum type name, n = index of the value in the enum    *)
(*   k = "ref"   s = name of a leaf (field / virtual field / parameter)    *)
(*   k = "this"                                                            *)
(*   k = "str"   s = text            (attribute values only)               *)
(*   k = "op"    s = operator / function, args = operands                  *)
(*   k = "hole"  s = wanted type tag, n = depth budget (generator only)    *)
(*                                                                         *)
(* Types are records [t, r]:  t \in {"Int","Bool","Enum","Opaque","Str",   *)
(* "Err"}; r = enum name for Enum, violated rule for Err, "" otherwise.    *)
(***************************************************************************)
EXTENDS Naturals, Integers, Sequences, FiniteSets

TInt    == [t |-> "Int",    r |-> ""]
TBool   == [t |-> "Bool",   r |-> ""]
TOpaque == [t |-> "Opaque", r |-> ""]
TStr    == [t |-> "Str",    r |-> ""]
TEnum(e) == [t |-> "Enum",  r |-> e]
TErr(rule) == [t |-> "Err", r |-> rule]
IsErr(ty) == ty.t = "Err"

\* expression constructors
EInt(n)      == [k |-> "int",  n |-> n, s |-> "",  args |-> <<>>]
EBool(b)     == [k |-> "bool", n |-> IF b THEN 1 ELSE 0, s |-> "", args |-> <<>>]
EEv(e, i)    == [k |-> "ev",   n |-> i, s |-> e,   args |-> <<>>]
ERef(name)   == [k |-> "ref",  n |-> 0, s |-> name, args |-> <<>>]
EThis        == [k |-> "this", n |-> 0, s |-> "",  args |-> <<>>]
EStr(x)      == [k |-> "str",  n |-> 0, s |-> x,   args |-> <<>>]
EOp(fn, as)  == [k |-> "op",   n |-> 0, s |-> fn,  args |-> as]
EHole(tag, d) == [k |-> "hole", n |-> d, s |-> tag, args |-> <<>>]

(***************************************************************************)
(* Leaves.  An environment  env = [leaves |-> <<leaf>>, this |-> type]     *)
(* where leaf = [name, decl, en]:                                          *)
(*   decl "UInt" "Int" "Bcd"  : "may be referenced in integer expressions" *)
(*   decl "Flag"              : "a 1-bit boolean value"                    *)
(*   decl "Enum"  en = name   : a field / parameter / virtual of enum type *)
(*   decl "Struct" "Array"    : composite - no value type (Opaque)         *)
(*   decl "PUInt" "PInt"      : `UInt:n' / `Int:n' parameters are integers *)
(*   decl "PEnum" en          : enum-typed parameter                       *)
(*   decl "VInt" "VBool" "VEnum" : virtual fields ("may be integers,       *)
(*                              booleans, or an enum")                     *)
(***************************************************************************)
DeclType(l) ==
  CASE l.decl \in {"UInt", "Int", "Bcd", "PUInt", "PInt", "VInt"} -> TInt
    [] l.decl \in {"Flag", "VBool"}                               -> TBool
    [] l.decl \in {"Enum", "PEnum", "VEnum"}                      -> TEnum(l.en)
    [] l.decl \in {"Struct", "Array"}                             -> TOpaque

IsFieldDecl(l) == l.decl \notin {"PUInt", "PInt", "PEnum"}

LeafOf(name, env) ==
  LET idx == {i \in 1..Len(env.leaves) : env.leaves[i].name = name}
  IN  env.leaves[CHOOSE i \in idx : TRUE]

FirstErr(ts) ==     \* leftmost operand error, propagated unchanged
  LET bad == {i \in 1..Len(ts) : IsErr(ts[i])}
  IN  ts[CHOOSE i \in bad : \A j \in bad : i <= j]
AnyErr(ts) == \E i \in 1..Len(ts) : IsErr(ts[i])

ValueTypes == {"Int", "Bool", "Enum"}

(***************************************************************************)
(* Operator signatures, one clause per paragraph of the reference.         *)
(***************************************************************************)
OpType(fn, ts, as) ==
  IF AnyErr(ts) THEN FirstErr(ts) ELSE
  CASE fn \in {"+", "-", "*"} ->
         \* "require two integer arguments, and return an integer"
         IF Len(ts) = 2 /\ ts[1] = TInt /\ ts[2] = TInt THEN TInt ELSE TErr("arith_operand")
    [] fn \in {"neg", "pos"} ->
         \* "Unary + and - require an integer argument"
         IF Len(ts) = 1 /\ ts[1] = TInt THEN TInt ELSE TErr("unary_operand")
    [] fn \in {"<", "<=", ">", ">="} ->
         \* "All of these operators take two integer arguments, and return a boolean"
         IF Len(ts) = 2 /\ ts[1] = TInt /\ ts[2] = TInt THEN TBool
         ELSE IF Len(ts) = 2 /\ ts[1] = TBool /\ ts[2] = TBool THEN TErr("ord_bool")
         ELSE IF Len(ts) = 2 /\ ts[1].t = "Enum" /\ ts[1] = ts[2] THEN TErr("ord_enum")
         ELSE TErr("ord_operand")
    [] fn \in {"==", "!="} ->
         \* "two boolean arguments, two integer arguments, or two arguments of the same enum type"
         IF Len(ts) = 2 /\ ts[1] = ts[2] /\ ts[1].t \in ValueTypes THEN TBool
         ELSE IF Len(ts) = 2 /\ ts[1].t = "Enum" /\ ts[2].t = "Enum" THEN TErr("eq_mixed_enum")
         ELSE TErr("eq_operand")
    [] fn \in {"&&", "||"} ->
         \* "require two boolean arguments, and return a boolean"
         IF Len(ts) = 2 /\ ts[1] = TBool /\ ts[2] = TBool THEN TBool ELSE TErr("logic_operand")
    [] fn = "?:" ->
         \* "condition must be a boolean; if_true and if_false must have the same type"
         IF Len(ts) # 3 THEN TErr("choice_arity")
         ELSE IF ts[1] # TBool THEN TErr("choice_cond")
         ELSE IF ts[2] # ts[3] THEN TErr("choice_branches")
         ELSE IF ts[2].t \notin ValueTypes THEN TErr("choice_opaque")
         ELSE ts[2]
    [] fn = "$max" ->
         \* "requires at least one argument"; "All arguments to $max() must be integers"
         IF Len(ts) = 0 THEN TErr("max_arity")
         ELSE IF \A i \in 1..Len(ts) : ts[i] = TInt THEN TInt ELSE TErr("max_operand")
    [] fn = "$present" ->
         \* "takes exactly one argument"; "must be a reference to a field"; "returns a boolean"
         IF Len(ts) # 1 THEN TErr("present_arity")
         ELSE IF as[1].k # "ref" THEN TErr("present_nonfield")
         ELSE TBool
    [] fn \in {"$upper_bound", "$lower_bound"} ->
         \* "takes a single integer argument"
         IF Len(ts) # 1 THEN TErr("bound_arity")
         ELSE IF ts[1] = TInt THEN TInt ELSE TErr("bound_operand")
    [] OTHER -> TErr("unknown_function")

RECURSIVE TypeOf(_, _)
TypeOf(e, env) ==
  CASE e.k = "int"  -> TInt
    [] e.k = "bool" -> TBool
    [] e.k = "ev"   -> TEnum(e.s)
    [] e.k = "str"  -> TStr
    [] e.k = "this" -> env.this
    [] e.k = "ref"  -> DeclType(LeafOf(e.s, env))
    [] e.k = "op"   ->
         \* the operand of $present is a *name*, not a value: "The type of the field does not matter"
         IF e.s = "$present" /\ Len(e.args) = 1 /\ e.args[1].k = "ref"
         THEN (IF IsFieldDecl(LeafOf(e.args[1].s, env)) THEN TBool ELSE TErr("present_nonfield"))
         ELSE OpType(e.s, [i \in 1..Len(e.args) |-> TypeOf(e.args[i], env)], e.args)
    [] OTHER -> TErr("hole")

(***************************************************************************)
(* Constant evaluation of closed integer / boolean expressions; only used  *)
(* by the generator to keep VALUE-dependent rules (C14's business) out of  *)
(* the way: an enum value must fit its enum, maximum_bits must be 1..64.   *)
(* Booleans evaluate to 1 / 0.                                             *)
(***************************************************************************)
RECURSIVE EvalC(_)
MaxOfSeq(vs) == CHOOSE m \in {vs[i] : i \in 1..Len(vs)} : \A i \in 1..Len(vs) : vs[i] <= m
B2I(b) == IF b THEN 1 ELSE 0
EvalC(e) ==
  CASE e.k \in {"int", "bool"} -> e.n
    [] e.k = "ev" -> e.n          \* generator convention: value i of every enum is i
    [] e.k = "op" ->
       LET v == [i \in 1..Len(e.args) |-> EvalC(e.args[i])] IN
       CASE e.s = "+" -> v[1] + v[2]
         [] e.s = "-" -> v[1] - v[2]
         [] e.s = "*" -> v[1] * v[2]
         [] e.s = "neg" -> 0 - v[1]
         [] e.s = "pos" -> v[1]
         [] e.s = "<"  -> B2I(v[1] < v[2])
         [] e.s = "<=" -> B2I(v[1] <= v[2])
         [] e.s = ">"  -> B2I(v[1] > v[2])
         [] e.s = ">=" -> B2I(v[1] >= v[2])
         [] e.s = "==" -> B2I(v[1] = v[2])
         [] e.s = "!=" -> B2I(v[1] # v[2])
         [] e.s = "&&" -> B2I(v[1] = 1 /\ v[2] = 1)
         [] e.s = "||" -> B2I(v[1] = 1 \/ v[2] = 1)
         [] e.s = "?:" -> IF v[1] = 1 THEN v[2] ELSE v[3]
         [] e.s = "$max" -> MaxOfSeq(v)
         [] e.s \in {"$upper_bound", "$lower_bound"} -> v[1]
         [] OTHER -> 0
    [] OTHER -> 0

RECURSIVE IsClosed(_)
IsClosed(e) ==
  CASE e.k \in {"int", "bool", "ev"} -> TRUE
    [] e.k = "op" -> e.s # "$present" /\ \A i \in 1..Len(e.args) : IsClosed(e.args[i])
    [] OTHER -> FALSE

RECURSIVE HasHole(_)
HasHole(e) == e.k = "hole" \/ \E i \in 1..Len(e.args) : HasHole(e.args[i])

RECURSIVE Depth(_)
Depth(e) == IF Len(e.args) = 0 THEN 0
            ELSE 1 + MaxOfSeq([i \in 1..Len(e.args) |-> Depth(e.args[i])])

RECURSIVE NodeCount(_)
RECURSIVE SumSeq(_)
SumSeq(vs) == IF Len(vs) = 0 THEN 0 ELSE Head(vs) + SumSeq(Tail(vs))
NodeCount(e) == 1 + SumSeq([i \in 1..Len(e.args) |-> NodeCount(e.args[i])])

(***************************************************************************)
(* The leaves declared by the fixed module skeleton that the harness       *)
(* renders around the generated expressions (harness/typing_render.py;     *)
(* TypingCheck verifies that the renderer declares exactly these).         *)
(***************************************************************************)
Leaves == <<
  [name |-> "a",   decl |-> "UInt",   en |-> ""],
  [name |-> "b",   decl |-> "Int",    en |-> ""],
  [name |-> "c",   decl |-> "Bcd",    en |-> ""],
  [name |-> "f",   decl |-> "Flag",   en |-> ""],
  [name |-> "g",   decl |-> "Flag",   en |-> ""],
  [name |-> "e",   decl |-> "Enum",   en |-> "Ea"],
  [name |-> "h",   decl |-> "Enum",   en |-> "Eb"],
  \* Ed is the enum that an IMPORTED module also calls `Ea' (same name, same value names): a different type
  [name |-> "m",   decl |-> "Enum",   en |-> "Ed"],
  [name |-> "s",   decl |-> "Struct", en |-> ""],
  \* an inline bits field: its type is the nested type `Flag' -- opaque like any structure, NOT the prelude's Flag
  [name |-> "s.flag", decl |-> "Struct", en |-> ""],
  [name |-> "r",   decl |-> "Array",  en |-> ""],
  [name |-> "s.x", decl |-> "UInt",   en |-> ""],
  [name |-> "vi",  decl |-> "VInt",   en |-> ""],
  [name |-> "vb",  decl |-> "VBool",  en |-> ""],
  [name |-> "ve",  decl |-> "VEnum",  en |-> "Ea"],
  [name |-> "p",   decl |-> "PUInt",  en |-> ""],
  [name |-> "pj",  decl |-> "PInt",   en |-> ""],
  [name |-> "q",   decl |-> "PEnum",  en |-> "Ea"] >>

(***************************************************************************)
(* Programs.  A C13 program is a fixed module skeleton (rendered by the    *)
(* harness from `leaves') with one expression per SITE.  The sites are the *)
(* position classes of the property statement:                             *)
(*                                                                         *)
(*   start  offset of a physical field              integer                *)
(*   size   size of a physical field                integer                *)
(*   len    array length                            integer                *)
(*   cond   existence condition (`if')              boolean                *)
(*   enumv  value of an enum constant               integer                *)
(*   virt   value of a virtual field (`let')        integer/boolean/enum   *)
(*   sreq   [requires] on a struct                  boolean                *)
(*   freq   [requires] on a field (`this')          boolean                *)
(*   amax   [maximum_bits: ] on an enum             integer                *)
(*   asig   [is_signed: ] on an enum                boolean                *)
(*   abo    [byte_order: ] on a field               string                 *)
(*   atxt   [text_output: ] on a field              string                 *)
(*   args   the argument list  Pa(x, y)  of a field whose type takes       *)
(*          (UInt:3, Ea): "passing their parameters" - arity and types     *)
(***************************************************************************)
ExprSites == {"start", "size", "len", "cond", "enumv", "virt", "sreq", "freq",
              "amax", "asig", "abo", "atxt"}
AllSites == ExprSites \cup {"args"}

\* the set of types a position accepts
SiteTypes(site) ==
  CASE site \in {"start", "size", "len", "enumv", "amax"} -> {TInt}
    [] site \in {"cond", "sreq", "freq", "asig"}           -> {TBool}
    [] site \in {"abo", "atxt"}                            -> {TStr}
    [] site = "virt" -> {TInt, TBool} \cup {TEnum(en) : en \in {"Ea", "Eb", "Ec", "Ed"}}

\* the rule that is broken when a well-typed expression of another type sits there
SiteRule(site) ==
  CASE site = "start" -> "offset_not_integer"
    [] site = "size"  -> "size_not_integer"
    [] site = "len"   -> "array_length_not_integer"
    [] site = "enumv" -> "enum_value_not_integer"
    [] site = "cond"  -> "condition_not_boolean"
    [] site \in {"sreq", "freq"} -> "requires_not_boolean"
    [] site = "virt"  -> "virtual_not_value"
    [] site \in {"amax", "asig", "abo", "atxt"} -> "attribute_value_kind"

\* environment of a site: which leaves may be mentioned, what `this' is
SiteEnv(prog, site) ==
  [leaves |-> prog.leaves,
   this   |-> IF site = "freq" THEN TInt ELSE TErr("this_outside_field_requires")]

(* declared parameters of the parameterised type used at the `args' site *)
ParamTypes == <<TInt, TEnum("Ea")>>

ArgErrors(prog) ==
  LET as  == prog.args
      env == SiteEnv(prog, "args")
      ts  == [i \in 1..Len(as) |-> TypeOf(as[i], env)]
  IN  IF Len(as) # Len(ParamTypes) THEN {[site |-> "args", rule |-> "param_arity"]}
      ELSE {[site |-> "args", rule |-> ts[i].r] : i \in {j \in 1..Len(as) : IsErr(ts[j])}}
           \cup {[site |-> "args", rule |-> IF ts[i].t = "Enum" /\ ParamTypes[i].t = "Enum"
                                            THEN "param_enum_mismatch" ELSE "param_type"]
                 : i \in {j \in 1..Len(as) : ~IsErr(ts[j]) /\ ts[j] # ParamTypes[j]}}

SiteErrors(prog, site) ==
  LET ty == TypeOf(prog.sites[site], SiteEnv(prog, site))
  IN  IF IsErr(ty) THEN {[site |-> site, rule |-> ty.r]}
      ELSE IF ty \notin SiteTypes(site) THEN {[site |-> site, rule |-> SiteRule(site)]}
      ELSE {}

Errors(prog) == UNION {SiteErrors(prog, s) : s \in ExprSites} \cup ArgErrors(prog)

WellTyped(prog) == Errors(prog) = {}

=============================================================================
