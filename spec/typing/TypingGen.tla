----------------------------- MODULE TypingGen -----------------------------
(***************************************************************************)
(* C13 program-under-construction state machine.                           *)
(*                                                                         *)
(*   build :  Fill   - the leftmost hole of the first unfinished slot is   *)
(*                     replaced by a leaf or by an operator whose operands *)
(*                     are new typed holes (type-directed, depth budget),  *)
(*            Seal   - no hole left: the program is a BASE (well typed by  *)
(*                     construction; TypeOf is evaluated independently as  *)
(*                     invariant BaseWellTyped),                           *)
(*   sealed:  PickSite, PickPath - choose where to break one rule,         *)
(*   path  :  Violate(rule) - the node at that path (type T) is replaced   *)
(*                     by an expression that breaks exactly one documented *)
(*                     rule and whose operator would again yield T, or the *)
(*                     whole positional expression / argument list is      *)
(*                     replaced by a well-typed one of the wrong type /    *)
(*                     arity.                                              *)
(*                                                                         *)
(* With Emit = TRUE, Seal and Violate print the case as JSON (generator);  *)
(* with Emit = FALSE the same machine is model-checked (TypingMC).         *)
(***************************************************************************)
EXTENDS Typing, TLC, Json

CONSTANTS MaxDepth,      \* operator nesting allowed in a generated expression
          MaxActive,     \* how many slots get a generated expression (others: default)
          Slots,         \* subset of AllSlots that may be active / violated
          LeafNames,     \* names of the leaves the generator may mention
          IntConsts,     \* integer literals the generator may use
          Emit           \* BOOLEAN

VARIABLES prog, phase, active, vslot, vpath, viol

vars == <<prog, phase, active, vslot, vpath, viol>>

Enums == {"Ea", "Eb", "Ec", "Ed"}

LeafSet == {Leaves[i] : i \in {j \in 1..Len(Leaves) : Leaves[j].name \in LeafNames}}

AllSlots == <<"start", "size", "len", "cond", "enumv", "virt", "sreq", "freq",
              "amax", "asig", "abo", "atxt", "arg1", "arg2">>
SlotSet == {AllSlots[i] : i \in 1..Len(AllSlots)}

\* which leaves a slot may mention:  S struct scope, T only `this', CA constants inside enum Ea
EnvClass(slot) ==
  CASE slot \in {"enumv", "amax", "asig"} -> "CA"
    [] slot = "freq" -> "T"
    [] slot \in {"abo", "atxt"} -> "STR"
    [] OTHER -> "S"

SlotTag(slot) ==
  CASE slot \in {"start", "size", "len", "enumv", "amax", "arg1"} -> "Int"
    [] slot \in {"cond", "sreq", "freq", "asig"} -> "Bool"
    [] slot = "virt" -> "Any"
    [] slot = "arg2" -> "Ea"
    [] slot = "abo" -> "StrBO"
    [] slot = "atxt" -> "StrTO"

Default(slot) ==
  CASE slot = "start" -> EInt(10)
    [] slot = "size"  -> EInt(2)
    [] slot = "len"   -> EInt(2)
    [] slot = "cond"  -> EBool(TRUE)
    [] slot = "enumv" -> EInt(1)
    [] slot = "virt"  -> EInt(1)
    [] slot = "sreq"  -> EBool(TRUE)
    [] slot = "freq"  -> EBool(TRUE)
    [] slot = "amax"  -> EInt(16)
    [] slot = "asig"  -> EBool(FALSE)
    [] slot = "abo"   -> EStr("BigEndian")
    [] slot = "atxt"  -> EStr("Skip")
    [] slot = "arg1"  -> EInt(1)
    [] slot = "arg2"  -> EEv("Ea", 2)

Get(pr, slot) == IF slot = "arg1" THEN pr.args[1]
                 ELSE IF slot = "arg2" THEN pr.args[2]
                 ELSE pr.sites[slot]
Set(pr, slot, e) == IF slot = "arg1" THEN [pr EXCEPT !.args[1] = e]
                    ELSE IF slot = "arg2" THEN [pr EXCEPT !.args[2] = e]
                    ELSE [pr EXCEPT !.sites[slot] = e]
SiteOfSlot(slot) == IF slot \in {"arg1", "arg2", "args"} THEN "args" ELSE slot

---------------------------------------------------------------------------
\* tree surgery
RECURSIVE NodeAt(_, _)
NodeAt(e, p) == IF Len(p) = 0 THEN e ELSE NodeAt(e.args[Head(p)], Tail(p))

RECURSIVE ReplaceAt(_, _, _)
ReplaceAt(e, p, new) ==
  IF Len(p) = 0 THEN new
  ELSE [e EXCEPT !.args[Head(p)] = ReplaceAt(e.args[Head(p)], Tail(p), new)]

RECURSIVE HolePath(_)
HolePath(e) ==
  IF e.k = "hole" THEN <<>>
  ELSE LET i == CHOOSE j \in 1..Len(e.args) :
                   HasHole(e.args[j]) /\ \A m \in 1..(j-1) : ~HasHole(e.args[m])
       IN  <<i>> \o HolePath(e.args[i])

\* all node positions that may be replaced by a violation (the name operand of $present is not a value)
RECURSIVE Paths(_)
Paths(e) ==
  {<<>>} \cup
  (IF e.k = "op" /\ e.s = "$present" THEN {}
   ELSE UNION {{<<i>> \o p : p \in Paths(e.args[i])} : i \in 1..Len(e.args)})

---------------------------------------------------------------------------
\* type-directed choices for one hole

EnumsIn(c) == IF c = "CA" THEN {"Eb", "Ec", "Ed"} ELSE Enums

LeafChoices(tag, c) ==
  CASE tag = "Int" ->
         {EInt(n) : n \in IntConsts}
         \cup (IF c = "S" THEN {ERef(l.name) : l \in {m \in LeafSet : DeclType(m) = TInt}} ELSE {})
         \cup (IF c = "T" THEN {EThis} ELSE {})
    [] tag = "Bool" ->
         {EBool(TRUE), EBool(FALSE)}
         \cup (IF c = "S" THEN {ERef(l.name) : l \in {m \in LeafSet : DeclType(m) = TBool}} ELSE {})
    [] tag \in Enums ->
         {EEv(tag, i) : i \in 1..2}
         \cup (IF c = "S" THEN {ERef(l.name) : l \in {m \in LeafSet : DeclType(m) = TEnum(tag)}} ELSE {})
    [] tag = "Field" -> {ERef(l.name) : l \in {m \in LeafSet : IsFieldDecl(m)}}
    [] tag = "StrBO" -> {EStr("BigEndian"), EStr("LittleEndian")}
    [] tag = "StrTO" -> {EStr("Emit"), EStr("Skip")}

H(tag, d) == EHole(tag, d)

OpChoices(tag, d, c) ==
  IF d = 0 THEN {} ELSE
  CASE tag = "Int" ->
         {EOp(fn, <<H("Int", d-1), H("Int", d-1)>>) : fn \in {"+", "-", "*"}}
         \cup {EOp("neg", <<H("Int", d-1)>>)}
         \cup {EOp("$max", [i \in 1..n |-> H("Int", d-1)]) : n \in 1..3}
         \cup {EOp(fn, <<H("Int", d-1)>>) : fn \in {"$upper_bound", "$lower_bound"}}
         \cup {EOp("?:", <<H("Bool", d-1), H("Int", d-1), H("Int", d-1)>>)}
    [] tag = "Bool" ->
         {EOp(fn, <<H("Int", d-1), H("Int", d-1)>>) : fn \in {"<", "<=", ">", ">="}}
         \cup {EOp(fn, <<H(x, d-1), H(x, d-1)>>) :
                  fn \in {"==", "!="}, x \in {"Int", "Bool"} \cup EnumsIn(c)}
         \cup {EOp(fn, <<H("Bool", d-1), H("Bool", d-1)>>) : fn \in {"&&", "||"}}
         \cup (IF c = "S" THEN {EOp("$present", <<H("Field", 0)>>)} ELSE {})
         \cup {EOp("?:", <<H("Bool", d-1), H("Bool", d-1), H("Bool", d-1)>>)}
    [] tag \in Enums ->
         {EOp("?:", <<H("Bool", d-1), H(tag, d-1), H(tag, d-1)>>)}
    [] OTHER -> {}

Choices(tag, d, c) ==
  IF tag = "Any"
  THEN UNION {LeafChoices(t, c) \cup OpChoices(t, d, c) : t \in {"Int", "Bool", "Ea", "Eb", "Ed"}}
  ELSE LeafChoices(tag, c) \cup OpChoices(tag, d, c)

(***************************************************************************)
(* Value side conditions that belong to C14, not to typing; the generator  *)
(* keeps bases inside them: an enum value fits a 16-bit unsigned enum;     *)
(* maximum_bits is 16..64 (the skeleton has a 1-byte field of that enum    *)
(* and another value of 2).                                                *)
(***************************************************************************)
SlotConstraint(slot, e) ==
  CASE slot = "enumv" -> IsClosed(e) /\ EvalC(e) \in 0..100
    [] slot = "amax"  -> IsClosed(e) /\ EvalC(e) \in 16..64
    [] slot = "asig"  -> IsClosed(e)
    [] OTHER -> TRUE

---------------------------------------------------------------------------
\* (the leaves are the fixed skeleton; they are not repeated in every printed case.  `base' is the
\* sealed program the violation was applied to, so the harness can pair them.)
Slim(pr) == [sites |-> pr.sites, args |-> pr.args]
CaseOf(kind) == [kind |-> kind, prog |-> Slim(prog'), base |-> Slim(prog), viol |-> viol',
                 wt |-> WellTyped(prog'), errs |-> Errors(prog')]
EmitCase(kind) == IF Emit THEN PrintT(ToJson(CaseOf(kind))) ELSE TRUE

NoViol == [rule |-> "", slot |-> "", path |-> <<>>]

InitProg(act) ==
  [leaves |-> Leaves,
   sites  |-> [s \in ExprSites |-> IF s \in act THEN EHole(SlotTag(s), MaxDepth) ELSE Default(s)],
   args   |-> <<IF "arg1" \in act THEN EHole(SlotTag("arg1"), MaxDepth) ELSE Default("arg1"),
                IF "arg2" \in act THEN EHole(SlotTag("arg2"), MaxDepth) ELSE Default("arg2")>>]

Init ==
  /\ active \in {a \in SUBSET Slots : Cardinality(a) <= MaxActive}
  /\ prog = InitProg(active)
  /\ phase = "build"
  /\ vslot = "" /\ vpath = <<>> /\ viol = NoViol

Unfinished == {i \in 1..Len(AllSlots) : HasHole(Get(prog, AllSlots[i]))}
CurSlot == AllSlots[CHOOSE i \in Unfinished : \A j \in Unfinished : i <= j]

Fill ==
  /\ phase = "build" /\ Unfinished # {}
  /\ LET slot == CurSlot
         e    == Get(prog, slot)
         p    == HolePath(e)
         h    == NodeAt(e, p)
     IN  \E c \in Choices(h.s, h.n, EnvClass(slot)) :
           LET e2 == ReplaceAt(e, p, c) IN
           /\ HasHole(e2) \/ SlotConstraint(slot, e2)
           /\ prog' = Set(prog, slot, e2)
  /\ UNCHANGED <<phase, active, vslot, vpath, viol>>

Seal ==
  /\ phase = "build" /\ Unfinished = {}
  /\ phase' = "sealed"
  /\ UNCHANGED <<prog, active, vslot, vpath, viol>>
  /\ EmitCase("base")

\* the generator may break a rule anywhere; the exhaustive model check breaks it in the
\* generated expression(s) (or anywhere in the all-default program)
VSlots == LET base == IF Emit \/ active = {} THEN Slots ELSE active
          IN  base \cup (IF {"arg1", "arg2"} \subseteq base THEN {"args"} ELSE {})

PickSite ==
  /\ phase = "sealed"
  /\ \E s \in VSlots : vslot' = s
  /\ phase' = "site"
  /\ UNCHANGED <<prog, active, vpath, viol>>

PickPath ==
  /\ phase = "site"
  /\ IF vslot = "args" THEN vpath' = <<>> ELSE \E p \in Paths(Get(prog, vslot)) : vpath' = p
  /\ phase' = "path"
  /\ UNCHANGED <<prog, active, vslot, viol>>

---------------------------------------------------------------------------
(***************************************************************************)
(* The violation catalogue.  W(kind) is a canonical well-typed expression  *)
(* of a kind, usable in environment class c.                               *)
(***************************************************************************)
WInt == EInt(1)
WBool == EBool(TRUE)
WEnum(en) == EEv(en, 1)
WOpq == ERef("s")
WOpqs == {ERef("s"), ERef("s.flag")}    \* opaque leaves (a struct-typed field; an inline bits whose type is named Flag)
OtherEnum(en, c) == CHOOSE x \in EnumsIn(c) : x # en
AnEnum(c) == CHOOSE x \in EnumsIn(c) : TRUE

\* wrong-kind operands for an operator that wants integers / booleans
NotInt(c)  == {WBool, WEnum(AnEnum(c))} \cup (IF c = "S" THEN WOpqs ELSE {})
NotBool(c) == {WInt,  WEnum(AnEnum(c))} \cup (IF c = "S" THEN WOpqs ELSE {})
V(rule, e) == [rule |-> rule, e |-> e]

BadInt(sub, c) ==
     {V("arith_operand", EOp(fn, <<w, sub>>)) : fn \in {"+", "-", "*"}, w \in NotInt(c)}
\cup {V("arith_operand", EOp(fn, <<sub, w>>)) : fn \in {"+", "-", "*"}, w \in NotInt(c)}
\cup {V("unary_operand", EOp("neg", <<w>>)) : w \in NotInt(c)}
\cup {V("max_operand", EOp("$max", <<sub, w>>)) : w \in NotInt(c)}
\cup {V("max_arity", EOp("$max", <<>>))}
\cup {V("bound_operand", EOp(fn, <<w>>)) : fn \in {"$upper_bound", "$lower_bound"}, w \in NotInt(c)}
\cup {V("bound_arity", EOp(fn, <<>>)) : fn \in {"$upper_bound", "$lower_bound"}}
\cup {V("bound_arity", EOp(fn, <<sub, WInt>>)) : fn \in {"$upper_bound", "$lower_bound"}}
\cup {V("choice_cond", EOp("?:", <<w, sub, WInt>>)) : w \in NotBool(c)}
\cup {V("choice_branches", EOp("?:", <<WBool, sub, w>>)) : w \in {WBool, WEnum(AnEnum(c))}}

Ords == {"<", "<=", ">", ">="}
BadBool(sub, c) ==
     {V("ord_bool", EOp(fn, <<sub, WBool>>)) : fn \in Ords}
\cup {V("ord_enum", EOp(fn, <<WEnum(AnEnum(c)), EEv(AnEnum(c), 2)>>)) : fn \in Ords}
\cup {V("ord_operand", EOp(fn, <<WInt, w>>)) : fn \in Ords, w \in NotInt(c)}
\cup {V("ord_operand", EOp(fn, <<w, WInt>>)) : fn \in Ords, w \in NotInt(c)}
\cup {V("eq_mixed_enum", EOp(fn, <<WEnum(xy[1]), WEnum(xy[2])>>)) :
         fn \in {"==", "!="}, xy \in {q \in EnumsIn(c) \X EnumsIn(c) : q[1] # q[2]}}
\cup {V("eq_operand", EOp(fn, <<sub, w>>)) : fn \in {"==", "!="}, w \in NotBool(c)}
\cup {V("eq_operand", EOp(fn, <<WInt, WEnum(AnEnum(c))>>)) : fn \in {"==", "!="}}
\cup (IF c = "S" THEN {V("eq_operand", EOp(fn, <<WOpq, WOpq>>)) : fn \in {"==", "!="}} ELSE {})
\cup {V("logic_operand", EOp(fn, <<sub, w>>)) : fn \in {"&&", "||"}, w \in NotBool(c)}
\cup {V("logic_operand", EOp(fn, <<w, sub>>)) : fn \in {"&&", "||"}, w \in NotBool(c)}
\cup {V("present_arity", EOp("$present", <<>>))}
\cup (IF c = "S" THEN {V("present_arity", EOp("$present", <<ERef("a"), ERef("a")>>))} ELSE {})
\cup {V("present_nonfield", EOp("$present", <<x>>)) : x \in {WInt, WBool, EOp("+", <<WInt, WInt>>)}}
\cup {V("choice_cond", EOp("?:", <<w, sub, WBool>>)) : w \in NotBool(c)}
\cup {V("choice_branches", EOp("?:", <<WBool, sub, w>>)) : w \in {WInt, WEnum(AnEnum(c))}}

BadEnum(sub, en, c) ==
     {V("choice_cond", EOp("?:", <<w, sub, sub>>)) : w \in NotBool(c)}
\cup {V("choice_branches", EOp("?:", <<WBool, sub, w>>)) : w \in {WInt, WBool} \cup {WEnum(x) : x \in EnumsIn(c) \ {en}}}

\* a well-typed expression of a type the position does not accept (root of a slot only)
BadPosition(slot, c) ==
  CASE slot \in {"start", "size", "len"} -> {V(SiteRule(slot), w) : w \in NotInt(c)}
    \* an enum value given as (a reference to) another enum value is left unconstrained: the reference calls enums
    \* "named integers" but never says how a value may be written, and the repository's own testdata
    \* (testdata/enum.emb: DUPLICATE_LARGE_VALUE = LARGE_VALUE) relies on it; a boolean is unambiguously wrong
    [] slot = "enumv" -> {V(SiteRule(slot), WBool)}
    [] slot \in {"cond", "sreq", "freq"}          -> {V(SiteRule(slot), w) : w \in NotBool(c)}
    [] slot = "amax" -> {V(SiteRule(slot), w) : w \in {WBool, WEnum(AnEnum(c)), EStr("x")}}
    [] slot = "asig" -> {V(SiteRule(slot), w) : w \in {WInt, EStr("true")}}
    [] slot \in {"abo", "atxt"} -> {V(SiteRule(slot), w) : w \in {WInt, WBool}}
    [] slot = "arg1" -> {V("param_type", w) : w \in {WBool, WEnum("Ea"), WOpq}}
    [] slot = "arg2" -> {V("param_type", w) : w \in {WInt, WBool, WOpq}}
                        \cup {V("param_enum_mismatch", WEnum("Eb")), V("param_enum_mismatch", WEnum("Ed"))}
    [] OTHER -> {}

BadNode(sub, ty, c) ==
  CASE ty = TInt -> BadInt(sub, c)
    [] ty = TBool -> BadBool(sub, c)
    [] ty.t = "Enum" -> BadEnum(sub, ty.r, c)
    [] OTHER -> {}

BadArgs(as) ==
  { [rule |-> "param_arity", as |-> <<>>],
    [rule |-> "param_arity", as |-> <<as[1]>>],
    [rule |-> "param_arity", as |-> as \o <<WInt>>] }

Violate ==
  /\ phase = "path"
  /\ phase' = "done"
  /\ IF vslot = "args"
     THEN \E b \in BadArgs(prog.args) :
            /\ prog' = [prog EXCEPT !.args = b.as]
            /\ viol' = [rule |-> b.rule, slot |-> "args", path |-> <<>>]
     ELSE LET e   == Get(prog, vslot)
              c   == EnvClass(vslot)
              sub == NodeAt(e, vpath)
              ty  == TypeOf(sub, SiteEnv(prog, SiteOfSlot(vslot)))
          IN  \E b \in BadNode(sub, ty, c) \cup (IF vpath = <<>> THEN BadPosition(vslot, c) ELSE {}) :
                /\ prog' = Set(prog, vslot, ReplaceAt(e, vpath, b.e))
                /\ viol' = [rule |-> b.rule, slot |-> vslot, path |-> vpath]
  /\ UNCHANGED <<active, vslot, vpath>>
  /\ EmitCase("viol")

Next == Fill \/ Seal \/ PickSite \/ PickPath \/ Violate

Spec == Init /\ [][Next]_vars

---------------------------------------------------------------------------
\* design-level properties (checked exhaustively by TypingMC)
BaseWellTyped == phase \in {"sealed", "site", "path"} => WellTyped(prog)

\* every catalogue entry makes the program ill-typed, and the rule the spec
\* blames is the one that was broken, at the site where it was broken
ViolationIllTyped ==
  phase = "done" =>
     /\ ~WellTyped(prog)
     /\ [site |-> SiteOfSlot(viol.slot), rule |-> viol.rule] \in Errors(prog)

\* ... and it is a single-rule violation: nothing else is wrong
ViolationSingle == phase = "done" => Cardinality(Errors(prog)) = 1

\* generated expressions respect the nesting bound
DepthBounded == phase = "sealed" => \A i \in 1..Len(AllSlots) : Depth(Get(prog, AllSlots[i])) <= MaxDepth

=============================================================================
