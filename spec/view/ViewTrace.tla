----------------------------- MODULE ViewTrace -----------------------------
(***************************************************************************)
(* Trace validation: behaviours recorded from the REAL generated C++ views *)
(* (harness/view_driver.py) are replayed against View.tla.                 *)
(*                                                                         *)
(* File (env TRACE_FILE): [prog |-> Prog, traces |-> << trace >>]          *)
(* trace = [t: type, ps: params, ev: << event >>]                          *)
(* event = [e |-> "arr", n |-> length kept, b |-> byte, o |-> observation] *)
(*           (n = -1: start from the empty buffer, no byte appended)       *)
(*         [e |-> "wr", ...]  [e |-> "cp", ...] [e |-> "eq", ...]  see below*)
(* observation = << <<key, tag, value>>, ... >>                            *)
(***************************************************************************)
EXTENDS Integers, Sequences, TLC, Json, IOUtils

File == JsonDeserialize(IOEnv.TRACE_FILE)
Prog == File.prog
Traces == File.traces

INSTANCE View

VARIABLES tid,      \* index of the trace being consumed
          i,        \* index of the next event in it
          buf,      \* bytes currently available to the view
          stack,    \* recorded observation for every prefix of buf (PrefixMonotone)
          nbad,     \* number of mismatches found so far
          nev       \* number of events consumed
vars == <<tid, i, buf, stack, nbad, nev>>

MaxReport == 60

Report(clause, exp, got) ==
  IF nbad < MaxReport
  THEN PrintT(ToJson([tid |-> tid, ev |-> i, t |-> Traces[tid].t, ps |-> Traces[tid].ps, clause |-> clause,
                      exp |-> exp, got |-> got, prev |-> buf, e |-> Traces[tid].ev[i].e,
                      n |-> Traces[tid].ev[i].n, b |-> Traces[tid].ev[i].b]))
  ELSE TRUE

EntryMatches(e, g) == e.k = g[1] /\ e.t = g[2] /\ (e.v = Wild \/ e.v = g[3])
SameShape(exp, got) == Len(exp) = Len(got) /\ \A j \in 1..Len(exp) : EntryMatches(exp[j], got[j])

(* Differences, key by key (only evaluated when the positional comparison fails):
   expected entries the recording lacks or has with another value, and recorded entries nobody expected. *)
Diffs(exp, got) ==
  LET miss == {j \in 1..Len(exp) : ~\E m \in 1..Len(got) : EntryMatches(exp[j], got[m])}
      extra == {m \in 1..Len(got) : ~\E j \in 1..Len(exp) : exp[j].k = got[m][1] /\ exp[j].t = got[m][2]}
  IN [miss |-> {[exp |-> exp[j],
                 got |-> LET c == {m \in 1..Len(got) : got[m][1] = exp[j].k /\ got[m][2] = exp[j].t}
                         IN IF c = {} THEN <<>> ELSE got[CHOOSE m \in c : TRUE]] : j \in miss},
      extra |-> {got[m] : m \in extra}]

Notes(exp) == {<<exp[j].k, exp[j].n>> : j \in {x \in 1..Len(exp) : exp[x].n # ""}}

AsRec(g) == [k |-> g[1], t |-> g[2], v |-> g[3]]
RecObs(o) == [j \in 1..Len(o) |-> AsRec(o[j])]

(* count is a claim only when the same observation says the array is complete *)
ClaimIn(o, j) ==
  /\ IsClaim(o[j])
  /\ (o[j].t = "count" => \E m \in 1..Len(o) : o[m].k = o[j].k /\ o[m].t = "complete" /\ o[m].v = 1)
NonMono(o1, o2) ==
  {j \in 1..Len(o1) : ClaimIn(o1, j) /\ ~\E m \in 1..Len(o2) : o2[m].k = o1[j].k /\ o2[m].t = o1[j].t /\ o2[m].v = o1[j].v}

Init == tid = 1 /\ i = 1 /\ buf = <<>> /\ stack = <<>> /\ nbad = 0 /\ nev = 0

Arrive ==
  /\ tid <= Len(Traces) /\ i <= Len(Traces[tid].ev)
  /\ LET tr == Traces[tid]
         ev == tr.ev[i]
         nb == IF ev.n < 0 THEN <<>> ELSE SubSeq(buf, 1, ev.n) \o <<ev.b>>
         exp == Obs(tr.t, tr.ps, nb)
         got == RecObs(ev.o)
         same == SameShape(exp, ev.o)
         parent == IF ev.n < 0 THEN <<>> ELSE stack[ev.n + 1]
         nm == NonMono(parent, got)
     IN /\ ev.e = "arr"
        /\ buf' = nb
        \* a recording that already disagrees with the reference makes no claims for its extensions
        /\ stack' = (IF ev.n < 0 THEN <<>> ELSE SubSeq(stack, 1, ev.n + 1)) \o <<IF same THEN got ELSE <<>> >>
        /\ IF ~same
           THEN LET d == Diffs(exp, ev.o) IN Report("ObsEqualsReference", [miss |-> d.miss, notes |-> Notes(exp)], d.extra)
           ELSE TRUE
        /\ IF nm # {}
           THEN Report("PrefixMonotone", {parent[j] : j \in nm}, <<>>)
           ELSE TRUE
        /\ nbad' = nbad + (IF same THEN 0 ELSE 1) + (IF nm = {} THEN 0 ELSE 1)
  /\ i' = i + 1 /\ nev' = nev + 1 /\ tid' = tid

NextTrace ==
  /\ tid <= Len(Traces) /\ i > Len(Traces[tid].ev)
  /\ tid' = tid + 1 /\ i' = 1 /\ buf' = <<>> /\ stack' = <<>>
  /\ UNCHANGED <<nbad, nev>>

Done ==
  /\ tid = Len(Traces) + 1 /\ i = 1
  /\ PrintT(ToJson([summary |-> TRUE, traces |-> Len(Traces), events |-> nev, bad |-> nbad]))
  /\ tid' = tid + 1 /\ UNCHANGED <<i, buf, stack, nbad, nev>>

Next == Arrive \/ NextTrace \/ Done
Spec == Init /\ [][Next]_vars
=============================================================================
