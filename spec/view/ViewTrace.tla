----------------------------- MODULE ViewTrace -----------------------------
(***************************************************************************)
(* Trace validation: behaviours recorded from the REAL generated C++ views *)
(* (harness/view_driver.py) are replayed against View.tla.                 *)
(*                                                                         *)
(* File (env TRACE_FILE): [prog |-> Prog, traces |-> << trace >>]          *)
(* trace = [t: type, ps: params, ev: << event >>]                          *)
(* State: one allocation `mem` and two windows onto it (two views of the   *)
(* same struct type).  Events, one per driver command, each carrying what  *)
(* the implementation reported:                                            *)
(*  arr  n b o          keep n bytes of mem, append byte b (n = -1: empty); window 1 = all of mem   *)
(*  mem  bytes a b o    new allocation, windows a = [o,l], b = [o,l]; o = observation of window 1   *)
(*  wr   win path x could tried after o      CouldWriteValue / TryToWrite through window win        *)
(*  eq   skipped ab ba                       Equals both ways (driver skips unless both views Ok)   *)
(*  cp   dst ok after o                      window dst .TryToCopyFrom(other window)                *)
(*  text opt skipped tree upd z              WriteToString(window 1, options) parsed into a tree by  *)
(*                                           the harness, then UpdateFromText into a zeroed buffer z *)
(* observation = << <<key, tag, value>>, ... >>                            *)
(***************************************************************************)
EXTENDS Integers, Sequences, TLC, Json, IOUtils, Text

File == JsonDeserialize(IOEnv.TRACE_FILE)
Prog == File.prog
Traces == File.traces

INSTANCE View

VARIABLES tid,      \* index of the trace being consumed
          i,        \* index of the next event in it
          mem,      \* the allocation
          wins,     \* << window 1, window 2 >>, each [o, l]
          stack,    \* recorded observation for every prefix of mem (PrefixMonotone, arr events)
          pmem,     \* the allocation before the last consumed event
          parent,   \* arr events: the recorded observation of the prefix the last buffer extends
          nev       \* number of events consumed
vars == <<tid, i, mem, wins, stack, pmem, parent, nev>>

(* The actions below only move the recorded behaviour into the state (cheap).  Everything expensive --
   evaluating the reference semantics and comparing -- happens in the invariant Checked, which TLC
   evaluates exactly once per reached state and with LET-caching (measured: an order of magnitude
   faster than doing the same inside the next-state relation).  Checked is always TRUE; it PRINTS one
   JSON line per failing clause, and register 1 counts them. *)

MaxReport == 60

Tr == Traces[tid]
Ev == Traces[tid].ev[i]          \* the event about to be consumed (actions)
Lv == Traces[tid].ev[i - 1]      \* the event just consumed (invariant)

Report(clause, exp, got) ==
  /\ IF TLCGet(1) < MaxReport
     THEN PrintT(ToJson([tid |-> tid, ev |-> i - 1, t |-> Tr.t, ps |-> Tr.ps, clause |-> clause,
                         exp |-> exp, got |-> got, e |-> Lv.e]))
     ELSE TRUE
  /\ TLCSet(1, TLCGet(1) + 1)

EntryMatches(e, g) == e.k = g[1] /\ e.t = g[2] /\ (e.v = Wild \/ e.v = g[3])
SameShape(exp, got) == Len(exp) = Len(got) /\ \A j \in 1..Len(exp) : EntryMatches(exp[j], got[j])

(* Differences, key by key (only evaluated when the positional comparison fails):
   expected entries the recording lacks or has with another value, and recorded entries nobody expected. *)
Diffs(exp, got) ==
  LET miss == {j \in 1..Len(exp) : ~\E m \in 1..Len(got) : EntryMatches(exp[j], got[m])}
      extra == {m \in 1..Len(got) : ~\E j \in 1..Len(exp) : exp[j].k = got[m][1] /\ exp[j].t = got[m][2]}
  IN [miss |-> {[exp |-> exp[j],
                 got |-> LET c == {m \in 1..Len(got) : got[m][1] = exp[j].k /\ got[m][2] = exp[j].t}
                         IN IF c = {} THEN <<>> ELSE got[CHOOSE m \in c : TRUE]] : j \in miss},
      extra |-> {got[m] : m \in extra}]

Notes(exp) == {<<exp[j].k, exp[j].n>> : j \in {x \in 1..Len(exp) : exp[x].n # ""}}

ObsBad(exp, got) == ~SameShape(exp, got)
ObsReport(exp, got) ==
  LET d == Diffs(exp, got) IN Report("ObsEqualsReference", [miss |-> d.miss, notes |-> Notes(exp)], d.extra)

AsRec(g) == [k |-> g[1], t |-> g[2], v |-> g[3]]
RecObs(o) == [j \in 1..Len(o) |-> AsRec(o[j])]

(* count is a claim only when the same observation says the array is complete *)
ClaimIn(o, j) ==
  /\ IsClaim(o[j])
  /\ (o[j].t = "count" => \E m \in 1..Len(o) : o[m].k = o[j].k /\ o[m].t = "complete" /\ o[m].v = 1)
NonMono(o1, o2) ==
  {j \in 1..Len(o1) : ClaimIn(o1, j) /\ ~\E m \in 1..Len(o2) : o2[m].k = o1[j].k /\ o2[m].t = o1[j].t /\ o2[m].v = o1[j].v}

B01(b) == IF b THEN 1 ELSE 0
WholeWin(m) == [o |-> 0, l |-> Len(m)]
Win(k) == wins[k]
Other(k) == 3 - k
ReplaceWindow(m, w, bytes) == SubSeq(m, 1, w.o) \o bytes \o SubSeq(m, w.o + w.l + 1, Len(m))

Init == /\ tid = 1 /\ i = 1 /\ mem = <<>> /\ wins = <<WholeWin(<<>>), WholeWin(<<>>)>> /\ stack = <<>>
        /\ pmem = <<>> /\ parent = <<>> /\ nev = 0
        /\ TLCSet(1, 0)

HaveEvent == tid <= Len(Traces) /\ i <= Len(Traces[tid].ev)

(* one action: move the next recorded event into the state *)
Consume ==
  /\ HaveEvent
  /\ pmem' = mem
  /\ CASE Ev.e = "arr" ->
            LET nb == IF Ev.n < 0 THEN <<>> ELSE SubSeq(mem, 1, Ev.n) \o <<Ev.b>> IN
            /\ mem' = nb /\ wins' = <<WholeWin(nb), WholeWin(nb)>>
            /\ parent' = IF Ev.n < 0 THEN <<>> ELSE stack[Ev.n + 1]
            /\ stack' = (IF Ev.n < 0 THEN <<>> ELSE SubSeq(stack, 1, Ev.n + 1)) \o <<RecObs(Ev.o)>>
       [] Ev.e = "mem" ->
            /\ mem' = Ev.bytes /\ wins' = <<[o |-> Ev.a[1], l |-> Ev.a[2]], [o |-> Ev.b[1], l |-> Ev.b[2]]>>
            /\ stack' = <<>> /\ parent' = <<>>
       [] Ev.e \in {"wr", "cp"} -> mem' = Ev.after /\ UNCHANGED <<wins, stack, parent>>
       [] OTHER -> UNCHANGED <<mem, wins, stack, parent>>
  /\ i' = i + 1 /\ nev' = nev + 1 /\ tid' = tid

CheckArrive ==
  LET exp == Obs(Tr.t, Tr.ps, mem)
      got == RecObs(Lv.o)
      nm == NonMono(parent, got)
  IN /\ (IF ObsBad(exp, Lv.o) THEN ObsReport(exp, Lv.o) ELSE TRUE)
     /\ (IF nm # {} THEN Report("PrefixMonotone", {parent[j] : j \in nm}, <<>>) ELSE TRUE)

CheckSetMem ==
  LET exp == Obs(Tr.t, Tr.ps, Window(mem, Win(1))) IN
  IF ObsBad(exp, Lv.o) THEN ObsReport(exp, Lv.o) ELSE TRUE

CheckWrite ==
  LET w == Win(Lv.win)
      r == WriteResult(Tr.t, Tr.ps, Window(pmem, w), Lv.path, Lv.x)
      expMem == ReplaceWindow(pmem, w, r.buf)
      expObs == Obs(Tr.t, Tr.ps, Window(Lv.after, w))
  IN /\ (IF Lv.could # B01(r.could) \/ Lv.tried # B01(r.tried)
         THEN Report("WriteVerdict", [could |-> B01(r.could), tried |-> B01(r.tried)], [could |-> Lv.could, tried |-> Lv.tried]) ELSE TRUE)
     \* WriteFrame: nothing outside the field changes; a failed write changes nothing
     /\ (IF Lv.after # expMem THEN Report("WriteFrame", expMem, Lv.after) ELSE TRUE)
     /\ (IF ObsBad(expObs, Lv.o) THEN ObsReport(expObs, Lv.o) ELSE TRUE)

CheckEquals ==
  LET a == TopView(Tr.t, Tr.ps, Window(mem, Win(1)))
      b == TopView(Tr.t, Tr.ps, Window(mem, Win(2)))
      enabled == VOk(a) /\ VOk(b)            \* the reference only defines Equals on two Ok views
      e1 == IF enabled THEN B01(VEquals(a, b)) ELSE 0
      e2 == IF enabled THEN B01(VEquals(b, a)) ELSE 0
      bad == (Lv.skipped = 1) # ~enabled \/ (enabled /\ (Lv.ab # e1 \/ Lv.ba # e2))
  IN IF bad THEN Report("EqualsIsLogical", [enabled |-> enabled, ab |-> e1, ba |-> e2], [skipped |-> Lv.skipped, ab |-> Lv.ab, ba |-> Lv.ba]) ELSE TRUE

(* Equals scan: window 1 against every single-bit variant of window 2 (driver command Q).  res[i] is 0/1 =
   Equals (both directions agreeing), 2 = not both Ok (Equals not issued), 3 = the two directions disagree. *)
XorBit(b, k) == IF (b \div (2 ^ k)) % 2 = 1 THEN b - 2 ^ k ELSE b + 2 ^ k
FlipBit(bytes, bit) == [bytes EXCEPT ![(bit \div 8) + 1] = XorBit(@, bit % 8)]
CheckEqScan ==
  LET wa == Window(mem, Win(1))
      wb == Window(mem, Win(2))
      a == TopView(Tr.t, Tr.ps, wa)
      aok == VOk(a)
      exp == [j \in 1..(8 * Len(wb)) |->
                LET b == TopView(Tr.t, Tr.ps, FlipBit(wb, j - 1)) IN IF aok /\ VOk(b) THEN B01(VEquals(a, b)) ELSE 2]
      bad == IF Len(Lv.res) # Len(exp) THEN {0} ELSE {j \in 1..Len(exp) : Lv.res[j] # exp[j]}
  IN IF Lv.skipped = 2 \/ bad = {} THEN TRUE
     ELSE Report("EqualsScan", [bits |-> {j - 1 : j \in bad}, expected |-> exp], Lv.res)

CheckCopy ==
  LET dst == Win(Lv.dst)
      src == Win(Other(Lv.dst))
      en == CopyEnabled(Tr.t, Tr.ps, pmem, dst, src)
      expMem == CopyResult(Tr.t, Tr.ps, pmem, dst, src)
      expObs == Obs(Tr.t, Tr.ps, Window(Lv.after, dst))
  IN /\ (IF Lv.ok # B01(en) THEN Report("CopyVerdict", B01(en), Lv.ok) ELSE TRUE)
     /\ (IF Lv.after # expMem THEN Report("CopyPost", expMem, Lv.after) ELSE TRUE)
     /\ (IF ObsBad(expObs, Lv.o) THEN ObsReport(expObs, Lv.o) ELSE TRUE)

---------------------------------------------------------------------------
(* Text round trip (C06).  tree = << [n: name, v: value] >>; value = [k:"num", c: chars] | [k:"id", s: text]
   | [k:"st", f: tree] | [k:"arr", e: << [i: chars or <<>>, v: value] >>]; opt = [ml, comments, base, group] *)

RECURSIVE ValueOk(_, _, _, _), TreeOk(_, _, _), ElemsOk(_, _, _, _, _)

NumOk(c, x, opt) == DocNumeral(c) /\ Parts(c).base = opt.base /\ SmallValue(c) = x /\ (opt.group = 0 => ~HasUnder(c))

EnumValueOf(en, name) ==
  LET vs == Prog.enums[en].values
      m == {j \in 1..Len(vs) : vs[j].name = name}
  IN IF m = {} THEN [k |-> FALSE, v |-> 0] ELSE [k |-> TRUE, v |-> vs[CHOOSE j \in m : TRUE].v]

ScalarTextOk(st, en, x, val, opt) ==
  CASE st = "Flag" -> val.k = "id" /\ val.s = (IF x = 1 THEN "true" ELSE "false")
    [] st \in {"EnumU", "EnumS"} ->
         IF val.k = "id" THEN EnumValueOf(en, val.s) = [k |-> TRUE, v |-> x]
         ELSE val.k = "num" /\ NumOk(val.c, x, opt)
    [] OTHER -> val.k = "num" /\ NumOk(val.c, x, opt)

(* does the emitted value describe field f of view v? *)
ValueOk(v, f, val, opt) ==
  CASE f.kind = "scalar" -> FOk(v, f) /\ ScalarTextOk(f.st, IF f.st \in {"EnumU", "EnumS"} THEN f.enum ELSE "", FVal(v, f).v, val, opt)
    [] f.kind = "virt" ->
         IF f.alias # <<>> THEN ValueOk(PathView(v, f.alias), PathField(v, f.alias), val, opt)
         ELSE FOk(v, f) /\ val.k = "num" /\ NumOk(val.c, FVal(v, f).v, opt)
    [] f.kind = "sub" -> val.k \in {"st", "empty"} /\ TreeOk(SubV(v, f), val.f, opt)
    [] f.kind = "array" -> val.k \in {"arr", "empty"} /\ Len(val.e) = DeclCount(v, f) /\ ElemsOk(v, f, val.e, 1, opt)

ElemsOk(v, f, es, j, opt) ==
  IF j > Len(es) THEN TRUE
  ELSE /\ (es[j].i = <<>> \/ (DocNumeral(es[j].i) /\ SmallValue(es[j].i) = j - 1))
       /\ (IF f.elem.kind = "scalar"
           THEN ElemOk(v, f, j - 1) /\ ScalarTextOk(f.elem.st, "", ElemVal(v, f, j - 1), es[j].v, opt)
           ELSE es[j].v.k \in {"st", "empty"} /\ TreeOk(ElemV(v, f, j - 1), es[j].v.f, opt))
       /\ ElemsOk(v, f, es, j + 1, opt)

FieldNames(v) == {TypeOf(v).fields[j].name : j \in 1..Len(TypeOf(v).fields)}
TextAttrOf(f) == IF "text_output" \in DOMAIN f THEN f.text_output ELSE ""
(* The names of the members of an anonymous `bits' belong to the enclosing structure ("as if they were fields of the
   structure"): what the member says about its text output holds for the name in the structure's text. *)
TextAttrIn(tn, f) ==
  IF f.kind = "virt" /\ f.anon /\ Len(f.alias) = 2
  THEN LET c == FieldNamed(tn, f.alias[1]) IN TextAttrOf(FieldNamed(c.type, f.alias[2]))
  ELSE TextAttrOf(f)
RECURSIVE RefHeads(_)
RefHeads(e) ==
  CASE e.k \in {"ref", "present"} -> {e.path[1]}
    [] e.k = "op" -> UNION {RefHeads(e.args[j]) : j \in 1..Len(e.args)}
    [] OTHER -> {}
LocDeps(f) == IF f.kind = "virt" THEN {} ELSE RefHeads(f.start) \cup RefHeads(f.size) \cup RefHeads(f.cond)
IdxOf(tree, n) == LET m == {j \in 1..Len(tree) : tree[j].n = n} IN IF m = {} THEN 0 ELSE CHOOSE j \in m : \A k \in m : j <= k

(* which clauses of the text-output contract does the emitted tree break?  (set of clause names) *)
TreeBad(v, tree, opt) ==
  LET fs == TypeOf(v).fields
      nameOk(j) == tree[j].n \in FieldNames(v)
      fld(j) == FieldNamed(v.t, tree[j].n)
  IN (IF \E j \in 1..Len(tree) : ~nameOk(j) THEN {"EmittedNameIsAField"} ELSE {})
     \cup (IF \E j \in 1..Len(tree) : nameOk(j) /\ (~(Has(v, fld(j)) = Known(TRUE)) \/ (fld(j).kind = "sub" /\ fld(j).anon)) THEN {"EmittedFieldIsPresent"} ELSE {})
     \cup (IF \E j \in 1..Len(tree) : nameOk(j) /\ TextAttrIn(v.t, fld(j)) = "Skip" THEN {"SkipIsAbsent"} ELSE {})
     \cup (IF \E k \in 1..Len(fs) : TextAttrIn(v.t, fs[k]) = "Emit" /\ Has(v, fs[k]) = Known(TRUE) /\ IdxOf(tree, fs[k].name) = 0 THEN {"EmitIsPresent"} ELSE {})
     \cup (IF \E k \in 1..Len(fs) :
                 /\ (fs[k].kind \in {"scalar", "array"} \/ (fs[k].kind = "sub" /\ ~fs[k].anon) \/ (fs[k].kind = "virt" /\ fs[k].anon))
                 /\ TextAttrIn(v.t, fs[k]) # "Skip" /\ Has(v, fs[k]) = Known(TRUE) /\ IdxOf(tree, fs[k].name) = 0
           THEN {"PresentFieldIsEmitted"} ELSE {})
     \cup (IF \E j \in 1..Len(tree) : nameOk(j) /\ \E d \in LocDeps(fld(j)) : IdxOf(tree, d) > j THEN {"EmittedAfterDependencies"} ELSE {})
     \cup (IF \E j \in 1..Len(tree) : nameOk(j) /\ Has(v, fld(j)) = Known(TRUE) /\ ~(fld(j).kind = "sub" /\ fld(j).anon) /\ ~ValueOk(v, fld(j), tree[j].v, opt)
           THEN {"EmittedValueIsFieldValue"} ELSE {})
TreeOk(v, tree, opt) == TreeBad(v, tree, opt) = {}

CheckText ==
  LET w == Win(1)
      v == TopView(Tr.t, Tr.ps, Window(mem, w))
      enabled == VOk(v)
      vz == TopView(Tr.t, Tr.ps, Lv.z)
      bad1 == IF ~enabled THEN (IF Lv.skipped = 1 THEN {} ELSE {"TextOnlyWhenOk"})
              ELSE IF Lv.skipped = 1 THEN {"TextOnlyWhenOk"} ELSE TreeBad(v, Lv.tree, Lv.opt)
      rt == IF enabled /\ Lv.skipped = 0
            THEN (IF Lv.upd # 1 THEN {"UpdateFromTextSucceeds"} ELSE {}) \cup
                 (IF \E j \in 1..Len(Lv.tree) : Lv.tree[j].n \in FieldNames(v) /\
                       ObsField(v, FieldNamed(v.t, Lv.tree[j].n), "") # ObsField(vz, FieldNamed(v.t, Lv.tree[j].n), "")
                  THEN {"EmittedFieldsReadBackEqual"} ELSE {})
            ELSE {}
      bad == bad1 \cup rt
  IN IF bad # {} THEN Report("TextRoundTrip", bad, [skipped |-> Lv.skipped, upd |-> Lv.upd, opt |-> Lv.opt]) ELSE TRUE

(* the invariant: judge the event that produced this state *)
Checked ==
  IF i = 1 \/ tid > Len(Traces) THEN TRUE
  ELSE CASE Lv.e = "arr" -> CheckArrive
         [] Lv.e = "mem" -> CheckSetMem
         [] Lv.e = "wr" -> CheckWrite
         [] Lv.e = "eq" -> CheckEquals
         [] Lv.e = "eqs" -> CheckEqScan
         [] Lv.e = "cp" -> CheckCopy
         [] Lv.e = "text" -> CheckText

NextTrace ==
  /\ tid <= Len(Traces) /\ i > Len(Traces[tid].ev)
  /\ tid' = tid + 1 /\ i' = 1 /\ mem' = <<>> /\ wins' = <<WholeWin(<<>>), WholeWin(<<>>)>> /\ stack' = <<>>
  /\ pmem' = <<>> /\ parent' = <<>>
  /\ UNCHANGED nev

Done ==
  /\ tid = Len(Traces) + 1 /\ i = 1
  /\ PrintT(ToJson([summary |-> TRUE, traces |-> Len(Traces), events |-> nev, bad |-> TLCGet(1)]))
  /\ tid' = tid + 1 /\ UNCHANGED <<i, mem, wins, stack, pmem, parent, nev>>

Next == Consume \/ NextTrace \/ Done
Spec == Init /\ [][Next]_vars
=============================================================================
