------------------------------- MODULE ViewMC -------------------------------
(***************************************************************************)
(* Design-level model checking of the view semantics themselves: TLC       *)
(* explores every buffer (Arrive) over a small alphabet up to a length     *)
(* bound for one struct of one program and checks, in every state, the     *)
(* properties the reference semantics must have for the listed properties  *)
(* to be meaningful.  MC_FILE: [prog, t, ps, alphabet, maxlen, targets].   *)
(***************************************************************************)
EXTENDS Integers, Sequences, TLC, Json, IOUtils

File == JsonDeserialize(IOEnv.MC_FILE)
Prog == File.prog
INSTANCE View

T == File.t
Ps == File.ps
SeqToSet(s) == {s[j] : j \in 1..Len(s)}
Alphabet == SeqToSet(File.alphabet)

VARIABLE buf
Init == buf = <<>>
Arrive(b) == Len(buf) < File.maxlen /\ buf' = Append(buf, b)
Next == \E b \in Alphabet : Arrive(b)
Spec == Init /\ [][Next]_buf

V == TopView(T, Ps, buf)

(* C01: anything known from a prefix stays known, with the same value, when one more byte arrives *)
PrefixMonotone == [][Monotone(Obs(T, Ps, buf), Obs(T, Ps, buf'))]_buf

(* C01: verdict lattice *)
OkImpliesComplete == VOk(V) => VComplete(V)
CompleteImpliesSizeKnown == VComplete(V) => VSize(V).k /\ VSize(V).v <= Len(buf)

Cands(tg) == IF tg.st = "Flag" THEN {0, 1} ELSE WriteCandidates(tg.st, tg.w) \cup SeqToSet(tg.extra)

(* C03: TryToWrite implies CouldWrite; a refused write changes nothing; a successful one stays inside the
   buffer (C04 InBounds), keeps the length, changes only bytes of the field's container, and reads back *)
WriteSound ==
  \A k \in 1..Len(File.targets) : \A x \in Cands(File.targets[k]) :
     LET tg == File.targets[k]
         r == WriteResult(T, Ps, buf, tg.path, x)
         loc == Locate(V, tg.path, Loc0)
     IN /\ r.tried => r.could
        /\ ~r.tried => r.buf = buf
        /\ r.tried =>
             /\ loc.ok /\ loc.byteOff + loc.nbytes <= Len(buf)
             /\ Len(r.buf) = Len(buf)
             /\ \A j \in 1..Len(buf) : (j <= loc.byteOff \/ j > loc.byteOff + loc.nbytes) => r.buf[j] = buf[j]
             /\ LET v2 == TopView(T, Ps, r.buf) IN
                \* the value reads back -- unless the write itself changed where/whether the field exists
                (Locate(v2, tg.path, Loc0) = loc /\ FOk(PathView(v2, tg.path), PathField(v2, tg.path)))
                   => PathVal(v2, tg.path) = Known(x)

(* C20: Equals is reflexive on Ok views; copying an Ok view into a fresh buffer of the same length gives an
   Ok view that Equals the source *)
EqualsReflexive == VOk(V) => VEquals(V, V)
CopySound ==
  VOk(V) =>
    LET n == Len(buf)
        mem == buf \o [j \in 1..n |-> 255]
        dst == [o |-> n, l |-> n]
        src == [o |-> 0, l |-> n]
        m2 == CopyResult(T, Ps, mem, dst, src)
        d2 == TopView(T, Ps, Window(m2, dst))
    IN /\ CopyEnabled(T, Ps, mem, dst, src)
       /\ Window(m2, src) = buf
       /\ VOk(d2) /\ VEquals(d2, V) /\ VEquals(V, d2)
       /\ \A j \in (VSize(V).v + 1)..n : Window(m2, dst)[j] = 255
=============================================================================
