------------------------------ MODULE ViewGen ------------------------------
(***************************************************************************)
(* Behaviour generator (spec -> code direction): random walks of the view  *)
(* state machine -- writes through either of two windows, copies between   *)
(* them, equality queries -- starting from seed allocations.  Each walk is *)
(* printed as JSON and replayed into the real generated code by the        *)
(* harness; what the code did is then validated by ViewTrace.              *)
(*                                                                         *)
(* GEN_FILE: [prog, t, ps, seeds: <<[bytes, a:<<o,l>>, b:<<o,l>>]>>,        *)
(*            targets: <<[path, st, w, extra: <<values>>]>>, depth]         *)
(***************************************************************************)
EXTENDS Integers, Sequences, TLC, Json, IOUtils

File == JsonDeserialize(IOEnv.GEN_FILE)
Prog == File.prog
INSTANCE View

T == File.t
Ps == File.ps
Depth == File.depth

VARIABLES mem, wins, hist, done, pend,
          kind      \* the kind of operation chosen for the next step ("" = not chosen yet)
vars == <<mem, wins, hist, done, pend, kind>>

W(x) == [o |-> x[1], l |-> x[2]]
ReplaceWindow(m, w, bytes) == SubSeq(m, 1, w.o) \o bytes \o SubSeq(m, w.o + w.l + 1, Len(m))
SeqToSet(s) == {s[j] : j \in 1..Len(s)}
None == [e |-> "none"]

Init ==
  \E k \in 1..Len(File.seeds) :
     /\ mem = File.seeds[k].bytes
     /\ wins = <<W(File.seeds[k].a), W(File.seeds[k].b)>>
     /\ hist = <<[e |-> "mem", bytes |-> File.seeds[k].bytes, a |-> File.seeds[k].a, b |-> File.seeds[k].b]>>
     /\ done = FALSE /\ pend = None /\ kind = ""

Acts == SeqToSet(File.actions)

(* Choosing an operation is split from applying it, so that a random walk only evaluates the
   semantics of the one operation it takes (TLC's simulator enumerates all successors of a state). *)
(* The simulator picks uniformly among successor states: the KIND of the next operation is chosen first (one
   successor per kind), its parameters second -- otherwise writes (targets x candidate values x windows) would
   crowd out copies, equality queries and scans. *)
Kinds == {"wr", "cp", "eq", "eqs", "tx"} \cap Acts
KindEnabled(k) ==
  CASE k = "wr" -> Len(File.targets) > 0
    [] k = "eqs" -> wins[2].l <= 10          \* 8 * length evaluations: short windows only
    [] OTHER -> TRUE
ChooseKind == pend = None /\ kind = "" /\ \E k \in Kinds : KindEnabled(k) /\ kind' = k
              /\ UNCHANGED <<mem, wins, hist, done, pend>>

ChooseWrite ==
  /\ kind = "wr"
  /\ \E win \in {1, 2}, k \in 1..Len(File.targets) :
       LET tg == File.targets[k] IN
       \E x \in (IF tg.st = "Flag" THEN {0, 1} ELSE WriteCandidates(tg.st, tg.w) \cup SeqToSet(tg.extra)) :
          pend' = [e |-> "wr", win |-> win, path |-> tg.path, x |-> x]
ChooseCopy == kind = "cp" /\ \E dst \in {1, 2} : pend' = [e |-> "cp", dst |-> dst]
ChooseEq == kind = "eq" /\ pend' = [e |-> "eq"]
\* Equals against every single-bit variant of window 2
ChooseEqScan == kind = "eqs" /\ pend' = [e |-> "eqs"]
ChooseText == kind = "tx" /\ \E k \in 1..File.nopts : pend' = [e |-> "text", opt |-> k]
Choose == pend = None /\ kind # "" /\ (ChooseWrite \/ ChooseCopy \/ ChooseEq \/ ChooseEqScan \/ ChooseText)
          /\ kind' = "" /\ UNCHANGED <<mem, wins, hist, done>>

Apply ==
  /\ pend # None
  /\ mem' = CASE pend.e = "wr" -> ReplaceWindow(mem, wins[pend.win], WriteResult(T, Ps, Window(mem, wins[pend.win]), pend.path, pend.x).buf)
               [] pend.e = "cp" -> CopyResult(T, Ps, mem, wins[pend.dst], wins[3 - pend.dst])
               [] pend.e = "eq" -> mem
               [] pend.e = "eqs" -> mem
               [] pend.e = "text" -> mem
  /\ hist' = Append(hist, pend)
  /\ pend' = None
  /\ UNCHANGED <<wins, done, kind>>

(* the walk is emitted exactly once, by the only action enabled at its end *)
Finish == ~done /\ PrintT(ToJson(hist)) /\ done' = TRUE /\ UNCHANGED <<mem, wins, hist, pend, kind>>
Next == IF Len(hist) <= Depth THEN (ChooseKind \/ Choose \/ Apply) ELSE Finish
Spec == Init /\ [][Next]_vars
=============================================================================
