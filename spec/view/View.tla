------------------------------- MODULE View -------------------------------
(***************************************************************************)
(* Reference dynamic semantics of Emboss views, written from               *)
(* doc/language-reference.md and doc/cpp-reference.md.                     *)
(*                                                                         *)
(* A *view* is (type definition, parameter values, storage).  Storage is   *)
(* the sequence of addressable units (bytes for a struct, bits for a bits) *)
(* that are actually available, or the null storage.  Everything a view    *)
(* reports is a function of these three.  Values are Maybe: [k, v].        *)
(*                                                                         *)
(* The program is an abstract-syntax record (see harness/view_prog.py):    *)
(*   Prog.types[name] = [kind, unit, params, fields, requires]             *)
(*   field  = [name, kind \in {"scalar","sub","array","virt"}, ...]        *)
(* All integers that occur are < 2^30 (field widths <= 24 bits).           *)
(***************************************************************************)
EXTENDS Integers, Sequences, FiniteSets, TLC

CONSTANT Prog

Unknown == [k |-> FALSE, v |-> 0]
Known(x) == [k |-> TRUE, v |-> x]
Wild == -99          \* "the documentation does not determine this observation"

(* Storage: for byte-addressed views, the available bytes  [ok, u: Seq(byte)];
   for bit-addressed views (inside a `bits`), the raw content [ok, x: Nat, n: number of bits]. *)
NullSt == [ok |-> FALSE, u |-> <<>>, x |-> 0, n |-> 0]
ByteSt(bytes) == [ok |-> TRUE, u |-> bytes, x |-> 0, n |-> 0]
BitSt(x, n) == [ok |-> TRUE, u |-> <<>>, x |-> x, n |-> n]
StLen(st, unit) == IF unit = 8 THEN Len(st.u) ELSE st.n

Min2(a, b) == IF a < b THEN a ELSE b
Max2(a, b) == IF a < b THEN b ELSE a

---------------------------------------------------------------------------
(* Raw values.  The raw content of a scalar (or of a bits container) of n bits is the natural
   number u < 2^n whose binary digits are the bits, bit 0 = least significant.  (n <= 24 here.) *)

Rev(s) == [i \in 1..Len(s) |-> s[Len(s) + 1 - i]]

RECURSIVE UOfBytesLE(_)
UOfBytesLE(bytes) == IF bytes = <<>> THEN 0 ELSE bytes[1] + 256 * UOfBytesLE(Tail(bytes))

(* the container integer of a byte string: little endian = first byte least significant *)
UOfBytes(bytes, order) == IF order = "BE" THEN UOfBytesLE(Rev(bytes)) ELSE UOfBytesLE(bytes)

BitField(u, o, w) == (u \div (2 ^ o)) % (2 ^ w)      \* bits [o, o+w) of u

IntOfU(u, n) == IF u >= 2 ^ (n - 1) THEN u - 2 ^ n ELSE u

NibbleCount(n) == (n + 3) \div 4
Nibble(u, j) == (u \div (16 ^ j)) % 16                     \* a partial high nibble is zero-extended by construction
BcdValid(u, n) == \A j \in 0..(NibbleCount(n) - 1) : Nibble(u, j) <= 9
RECURSIVE BcdFrom(_, _, _)
BcdFrom(u, n, j) == IF j >= NibbleCount(n) THEN 0 ELSE Nibble(u, j) + 10 * BcdFrom(u, n, j + 1)
BcdOf(u, n) == BcdFrom(u, n, 0)

(* value of a scalar of type st whose n bits have raw content u *)
Decode(st, u, n) ==
  CASE st = "UInt" -> u
    [] st = "Int" -> IntOfU(u, n)
    [] st = "Bcd" -> BcdOf(u, n)
    [] st = "Flag" -> u               \* booleans travel as 0/1
    [] st = "EnumU" -> u
    [] st = "EnumS" -> IntOfU(u, n)

FormatValid(st, u, n) == IF st = "Bcd" THEN BcdValid(u, n) ELSE TRUE

(* the raw content that stores value x in w bits (inverse of Decode) *)
RECURSIVE BcdRaw(_, _)
BcdRaw(x, w) == IF w <= 0 THEN 0 ELSE ((x % 10) % (2 ^ (IF w < 4 THEN w ELSE 4))) + 16 * BcdRaw(x \div 10, w - 4)
Encode(st, x, w) ==
  CASE st \in {"UInt", "EnumU", "Flag"} -> x
    [] st \in {"Int", "EnumS"} -> IF x < 0 THEN x + 2 ^ w ELSE x
    [] st = "Bcd" -> BcdRaw(x, w)

BcdMax(w) == (10 ^ (w \div 4)) * (2 ^ (w % 4)) - 1       \* 7 bits: 79; 8 bits: 99
Representable(st, x, w) ==
  CASE st \in {"UInt", "EnumU"} -> 0 <= x /\ x < 2 ^ w
    [] st \in {"Int", "EnumS"} -> -(2 ^ (w - 1)) <= x /\ x < 2 ^ (w - 1)
    [] st = "Flag" -> x \in {0, 1}
    [] st = "Bcd" -> 0 <= x /\ x <= BcdMax(w)

RECURSIVE BytesOfULE(_, _)
BytesOfULE(u, nbytes) == IF nbytes = 0 THEN <<>> ELSE <<u % 256>> \o BytesOfULE(u \div 256, nbytes - 1)
BytesOfU(u, nbytes, order) == IF order = "BE" THEN Rev(BytesOfULE(u, nbytes)) ELSE BytesOfULE(u, nbytes)

---------------------------------------------------------------------------
(* Three-valued logic and strict arithmetic, as documented for && || ?: *)

And3(a, b) ==
  IF (a.k /\ ~a.v) \/ (b.k /\ ~b.v) THEN Known(FALSE)
  ELSE IF a.k /\ b.k THEN Known(TRUE) ELSE Unknown
Or3(a, b) ==
  IF (a.k /\ a.v) \/ (b.k /\ b.v) THEN Known(TRUE)
  ELSE IF a.k /\ b.k THEN Known(FALSE) ELSE Unknown

RECURSIVE MaxOfSeq(_)
MaxOfSeq(s) == IF Len(s) = 1 THEN s[1] ELSE Max2(s[1], MaxOfSeq(Tail(s)))

AllK(a) == \A i \in 1..Len(a) : a[i].k

ApplyOp(fn, a) ==
  CASE fn = "&&" -> And3(a[1], a[2])
    [] fn = "||" -> Or3(a[1], a[2])
    [] fn = "?:" -> IF a[1].k THEN (IF a[1].v THEN a[2] ELSE a[3]) ELSE Unknown
    [] OTHER ->
        IF ~AllK(a) THEN Unknown
        ELSE CASE fn = "+" -> Known(a[1].v + a[2].v)
               [] fn = "-" -> Known(a[1].v - a[2].v)
               [] fn = "*" -> Known(a[1].v * a[2].v)
               [] fn = "==" -> Known(a[1].v = a[2].v)
               [] fn = "!=" -> Known(a[1].v # a[2].v)
               [] fn = "<" -> Known(a[1].v < a[2].v)
               [] fn = "<=" -> Known(a[1].v <= a[2].v)
               [] fn = ">" -> Known(a[1].v > a[2].v)
               [] fn = ">=" -> Known(a[1].v >= a[2].v)
               [] fn = "max" -> Known(MaxOfSeq([i \in 1..Len(a) |-> a[i].v]))

---------------------------------------------------------------------------
(* Views *)

TypeOf(v) == Prog.types[v.t]
Unit(v) == TypeOf(v).unit                     \* 8 for struct, 1 for bits
FieldNamed(t, n) == LET fs == Prog.types[t].fields IN fs[CHOOSE i \in 1..Len(fs) : fs[i].name = n]

(* the sub-range [s, s+z) of a storage, clipped to what is available *)
Offset(st, s, z, unit) ==
  IF ~st.ok THEN NullSt
  ELSE IF unit = 8 THEN ByteSt(SubSeq(st.u, s + 1, Min2(s + z, Len(st.u))))
  ELSE IF s + z <= st.n THEN BitSt(BitField(st.x, s, z), z) ELSE NullSt

---------------------------------------------------------------------------
(* Static ranges and constant folding.

   Named modelling decision (the documentation is silent; the code's choice is modelled because
   it is observable): an integer expression whose *statically inferred* range is a single value is
   a compile-time constant, and is known -- with that value -- no matter which bytes are available.
   The range is the documented one ($upper_bound / $lower_bound): the interval of the operand types
   pushed through + - * $max ?: ; a field contributes the range of its physical type ([requires]
   does not narrow it), a parameter the range of its declared type.  A `?:` whose condition is a
   literal/constant-only boolean takes the range of the chosen branch, otherwise the hull of both.
   Ranges that would leave TLC's integers saturate and are then never treated as a single value. *)

RBound == 2 ^ 29
NoRng == [ok |-> FALSE, lo |-> 0, hi |-> 0]
Rg(lo, hi) == IF lo < -RBound \/ hi > RBound THEN NoRng ELSE [ok |-> TRUE, lo |-> lo, hi |-> hi]
Abs(x) == IF x < 0 THEN -x ELSE x
MulSafe(a, b) == a = 0 \/ b = 0 \/ Abs(a) <= RBound \div Abs(b)

ScalarRange(st, w) ==
  CASE st = "UInt" -> Rg(0, 2 ^ w - 1)
    [] st = "Int" -> Rg(-(2 ^ (w - 1)), 2 ^ (w - 1) - 1)
    [] st = "Bcd" -> Rg(0, (10 ^ (w \div 4)) * (2 ^ (w % 4)) - 1)
    [] OTHER -> NoRng

RECURSIVE SField(_, _), SConst(_), Rng(_, _), CondConst(_, _)

(* the field a path designates, statically: [t: type that declares it, f: the field] *)
SField(tn, p) ==
  LET fs == Prog.types[tn].fields
      f == fs[CHOOSE i \in 1..Len(fs) : fs[i].name = p[1]]
  IN IF f.kind = "virt" /\ f.alias # <<>> THEN SField(tn, f.alias \o Tail(p))
     ELSE IF Len(p) = 1 THEN [t |-> tn, f |-> f]
     ELSE SField(f.type, Tail(p))

(* structural constant value of an expression (literals and operators over them): [k, v] *)
SConst(e) ==
  CASE e.k \in {"int", "bool", "enum"} -> Known(e.v)
    [] e.k = "op" -> ApplyOp(e.fn, [i \in 1..Len(e.args) |-> SConst(e.args[i])])
    [] OTHER -> Unknown

(* is the boolean expression c a compile-time constant?  [k, v] *)
CondConst(tn, c) ==
  CASE c.k = "bool" -> Known(c.v)
    [] c.k = "present" -> LET sf == SField(tn, c.path) IN
                            IF sf.f.kind = "virt" THEN Known(TRUE) ELSE CondConst(sf.t, sf.f.cond)
    [] c.k = "op" /\ c.fn # "?:" ->
         IF \A i \in 1..Len(c.args) : SConst(c.args[i]).k THEN SConst(c) ELSE Unknown
    [] OTHER -> Unknown

Rng(tn, e) ==
  CASE e.k = "int" -> Rg(e.v, e.v)
    [] e.k = "par" -> LET p == Prog.types[tn].params[e.i] IN
                       IF p.signed THEN Rg(-(2 ^ (p.bits - 1)), 2 ^ (p.bits - 1) - 1) ELSE Rg(0, 2 ^ p.bits - 1)
    [] e.k = "ref" -> LET sf == SField(tn, e.path) IN
                       IF sf.f.kind = "scalar" THEN ScalarRange(sf.f.st, sf.f.w)
                       ELSE IF sf.f.kind = "virt" /\ sf.f.vt = "int" THEN Rng(sf.t, sf.f.value)
                       ELSE NoRng
    [] e.k = "op" /\ e.fn \in {"+", "-", "*", "max", "?:"} ->
         LET r == [i \in 1..Len(e.args) |-> Rng(tn, e.args[i])] IN
         (CASE e.fn = "?:" ->
                LET c == CondConst(tn, e.args[1]) IN
                IF c.k THEN (IF c.v THEN r[2] ELSE r[3])
                ELSE IF r[2].ok /\ r[3].ok THEN Rg(Min2(r[2].lo, r[3].lo), Max2(r[2].hi, r[3].hi)) ELSE NoRng
           [] ~(\A i \in 1..Len(r) : r[i].ok) -> NoRng
           [] e.fn = "+" -> Rg(r[1].lo + r[2].lo, r[1].hi + r[2].hi)
           [] e.fn = "-" -> Rg(r[1].lo - r[2].hi, r[1].hi - r[2].lo)
           [] e.fn = "*" ->
                IF \A a \in {r[1].lo, r[1].hi}, b \in {r[2].lo, r[2].hi} : MulSafe(a, b)
                THEN LET c == {a * b : a \in {r[1].lo, r[1].hi}, b \in {r[2].lo, r[2].hi}} IN
                     Rg(CHOOSE x \in c : \A y \in c : x <= y, CHOOSE x \in c : \A y \in c : x >= y)
                ELSE NoRng
           [] e.fn = "max" -> Rg(MaxOfSeq([i \in 1..Len(r) |-> r[i].lo]), MaxOfSeq([i \in 1..Len(r) |-> r[i].hi])))
    [] OTHER -> NoRng

Folded(tn, e) == LET r == Rng(tn, e) IN r.ok /\ r.lo = r.hi

RECURSIVE Eval(_, _, _), Has(_, _), Stor(_, _), PathVal(_, _), FVal(_, _), FOk(_, _),
          FComplete(_, _), SubV(_, _), VOk(_), VSize(_), VComplete(_), ElemOk(_, _, _),
          ElemSt(_, _, _), ElemV(_, _, _), PathField(_, _), PathView(_, _)

(* value of expression e in view v; `this` is the Maybe value of the field under [requires] *)
Eval(v, e, this) ==
  IF e.k \in {"op", "ref"} /\ Folded(v.t, e) THEN Known(Rng(v.t, e).lo) ELSE
  CASE e.k = "int" -> Known(e.v)
    [] e.k = "bool" -> Known(e.v)
    [] e.k = "enum" -> Known(e.v)
    [] e.k = "this" -> this
    [] e.k = "par" -> v.ps[e.i]
    [] e.k = "ref" -> PathVal(v, e.path)
    [] e.k = "present" -> Has(PathView(v, e.path), PathField(v, e.path))
    [] e.k = "op" -> ApplyOp(e.fn, [i \in 1..Len(e.args) |-> Eval(v, e.args[i], this)])

(* the view that directly contains the last component of a path, and that component's field *)
PathView(v, p) ==
  IF Len(p) = 1 THEN v
  ELSE LET f == FieldNamed(v.t, p[1]) IN
       IF f.kind = "virt" /\ f.alias # <<>> THEN PathView(v, f.alias \o Tail(p))
       ELSE PathView(SubV(v, f), Tail(p))
PathField(v, p) == LET pv == PathView(v, p) IN FieldNamed(pv.t, p[Len(p)])

PathVal(v, p) == FVal(PathView(v, p), PathField(v, p))

(* is field f present in v?  (virtual fields carry no condition; an alias into an anonymous bits
   is present iff the bits is present and the member is present in it) *)
Has(v, f) ==
  IF f.kind = "virt" THEN
     IF f.alias # <<>> /\ f.anon THEN
        LET c == FieldNamed(v.t, f.alias[1]) IN And3(Has(v, c), Has(SubV(v, c), FieldNamed(c.type, f.alias[2])))
     ELSE Known(TRUE)
  ELSE Eval(v, f.cond, Unknown)

(* the storage of physical field f: null unless f is known to be present at a known, non-negative location *)
Stor(v, f) ==
  LET h == Has(v, f)
      s == Eval(v, f.start, Unknown)
      z == Eval(v, f.size, Unknown)
  IN IF h.k /\ h.v /\ s.k /\ z.k /\ s.v >= 0 /\ z.v >= 0 THEN Offset(v.st, s.v, z.v, Unit(v)) ELSE NullSt

(* raw content of a scalar of width w (in bits) stored in st: [ok, u]; not ok unless the storage is exactly that big *)
NoRaw == [ok |-> FALSE, u |-> 0]
ScalarRaw(st, w, unitOrder) ==
  IF ~st.ok THEN NoRaw
  ELSE IF unitOrder.unit = 8 THEN (IF 8 * Len(st.u) = w THEN [ok |-> TRUE, u |-> UOfBytes(st.u, unitOrder.order)] ELSE NoRaw)
  ELSE (IF st.n = w THEN [ok |-> TRUE, u |-> st.x] ELSE NoRaw)

ReqHolds(v, reqs, x) == reqs = <<>> \/ (LET r == Eval(v, reqs[1], x) IN r.k /\ r.v)

ScalarInfo(v, f) == [unit |-> Unit(v), order |-> f.order]

(* sub-view for a field of struct/bits type *)
SubV(v, f) ==
  LET st == Stor(v, f)
      T == Prog.types[f.type]
      ps == [i \in 1..Len(f.args) |-> Eval(v, f.args[i], Unknown)]
      st2 == IF T.unit = Unit(v) THEN st
             ELSE (* a bits inside a struct: the container integer read in the field's byte order *)
                  IF st.ok /\ 8 * Len(st.u) = f.bitsize THEN BitSt(UOfBytes(st.u, f.order), f.bitsize)
                  ELSE NullSt
      h == Has(v, f)
      s == Eval(v, f.start, Unknown)
      z == Eval(v, f.size, Unknown)
      located == h.k /\ h.v /\ s.k /\ z.k /\ s.v >= 0 /\ z.v >= 0
  IN (* Named modelling decisions (documentation silent; the generated accessor's choice):
        - a sub-view one of whose arguments cannot be computed has no storage at all;
        - the sub-view of a field that is not known to be present at a known location is the default view: it has
          no storage AND NO PARAMETERS (so `$present(opt.w)', with w conditional on a parameter of opt's type,
          is unknown while opt is absent, although the argument expression itself could be evaluated). *)
     [t |-> f.type,
      ps |-> IF located /\ AllK(ps) THEN ps ELSE [i \in 1..Len(f.args) |-> Unknown],
      st |-> IF AllK(ps) THEN st2 ELSE NullSt]

FComplete(v, f) ==
  CASE f.kind = "scalar" -> ScalarRaw(Stor(v, f), f.w, ScalarInfo(v, f)).ok
    [] f.kind = "sub" -> VComplete(SubV(v, f))
    [] f.kind = "array" ->
         LET st == Stor(v, f) z == Eval(v, f.size, Unknown) IN st.ok /\ z.k /\ StLen(st, Unit(v)) = z.v
    [] f.kind = "virt" -> TRUE

(* element i (from 0) of array field f *)
ElemSt(v, f, i) == Offset(Stor(v, f), i * f.elsize, f.elsize, Unit(v))
ElemV(v, f, i) ==
  LET st == ElemSt(v, f, i) T == Prog.types[f.elem.type]
      st2 == IF T.unit = Unit(v) THEN st
             ELSE IF st.ok /\ 8 * Len(st.u) = f.elem.bitsize THEN BitSt(UOfBytes(st.u, f.elem.order), f.elem.bitsize) ELSE NullSt
  IN [t |-> f.elem.type, ps |-> <<>>, st |-> st2]
ElemOk(v, f, i) ==
  IF f.elem.kind = "scalar" THEN
     LET r == ScalarRaw(ElemSt(v, f, i), f.elem.w, [unit |-> Unit(v), order |-> f.elem.order])
     IN r.ok /\ FormatValid(f.elem.st, r.u, f.elem.w)
  ELSE VOk(ElemV(v, f, i))
ElemVal(v, f, i) ==
  Decode(f.elem.st, ScalarRaw(ElemSt(v, f, i), f.elem.w, [unit |-> Unit(v), order |-> f.elem.order]).u, f.elem.w)

DeclCount(v, f) == LET z == Eval(v, f.size, Unknown) IN IF z.k /\ z.v >= 0 THEN z.v \div f.elsize ELSE -1

(* can the field be read? *)
FOk(v, f) ==
  CASE f.kind = "scalar" ->
         LET r == ScalarRaw(Stor(v, f), f.w, ScalarInfo(v, f)) IN
           r.ok /\ FormatValid(f.st, r.u, f.w) /\ ReqHolds(v, f.requires, Known(Decode(f.st, r.u, f.w)))
    [] f.kind = "sub" -> VOk(SubV(v, f))
    [] f.kind = "array" ->
         FComplete(v, f) /\ \A i \in 0..(DeclCount(v, f) - 1) : ElemOk(v, f, i)
    [] f.kind = "virt" ->
         IF f.alias # <<>> THEN FOk(PathView(v, f.alias), PathField(v, f.alias))
         ELSE LET x == Eval(v, f.value, Unknown) IN x.k /\ ReqHolds(v, f.requires, x)

(* the value an expression sees when it mentions the field: its value if readable, else unknown *)
FVal(v, f) ==
  CASE f.kind = "scalar" ->
         LET r == ScalarRaw(Stor(v, f), f.w, ScalarInfo(v, f)) IN
         IF r.ok /\ FormatValid(f.st, r.u, f.w) /\ ReqHolds(v, f.requires, Known(Decode(f.st, r.u, f.w)))
         THEN Known(Decode(f.st, r.u, f.w)) ELSE Unknown
    [] f.kind = "virt" ->
         IF f.alias # <<>> THEN FVal(PathView(v, f.alias), PathField(v, f.alias))
         ELSE IF FOk(v, f) THEN Eval(v, f.value, Unknown) ELSE Unknown
    [] OTHER -> Unknown

(* intrinsic size: the largest end of any present physical field (0 if none); unknown as soon as the
   presence of a field, or the end of a present field, cannot be determined *)
PhysFields(v) == SelectSeq(TypeOf(v).fields, LAMBDA f : f.kind # "virt")
(* ... written as the expression $max(0, cond_1 ? start_1 + size_1 : 0, ...) so that the constant-folding
   rule above applies to it like to any other expression: a structure whose size cannot vary knows its
   size even when the bytes that decide a condition are missing *)
IntE(x) == [k |-> "int", v |-> x]
SizeExpr(tn) ==
  LET fs == SelectSeq(Prog.types[tn].fields, LAMBDA f : f.kind # "virt") IN
  [k |-> "op", fn |-> "max",
   args |-> <<IntE(0)>> \o [i \in 1..Len(fs) |->
              [k |-> "op", fn |-> "?:",
               args |-> <<fs[i].cond, [k |-> "op", fn |-> "+", args |-> <<fs[i].start, fs[i].size>>], IntE(0)>>]]]
VSize(v) == Eval(v, SizeExpr(v.t), Unknown)

VComplete(v) == LET s == VSize(v) IN v.st.ok /\ s.k /\ StLen(v.st, Unit(v)) >= s.v

VOk(v) ==
  /\ VComplete(v)
  /\ \A i \in 1..Len(TypeOf(v).fields) :
        LET f == TypeOf(v).fields[i] h == Has(v, f) IN h.k /\ (h.v => FOk(v, f))
  /\ ReqHolds(v, TypeOf(v).requires, Unknown)

(* top-level view of type t with parameter values ps (plain integers) over the byte string buf *)
TopView(t, ps, buf) == [t |-> t, ps |-> [i \in 1..Len(ps) |-> Known(ps[i])], st |-> ByteSt(buf)]

---------------------------------------------------------------------------
(* Writes (C03).  A *target* is a path to a physical scalar, possibly through aliases, anonymous bits
   and nested structures, or a virtual field whose value adds/subtracts constants to/from one field (f.xform
   names that field; the inverse is computed from the value expression itself, see Inv). *)

NoLoc == [ok |-> FALSE, inbits |-> FALSE, byteOff |-> 0, nbytes |-> 0, order |-> "LE", bitOff |-> 0, w |-> 0]
Loc0 == [NoLoc EXCEPT !.ok = TRUE]

RECURSIVE Locate(_, _, _)
(* absolute position, in the top-level buffer, of the scalar designated by path (from view v) *)
Locate(v, path, acc) ==
  LET f == FieldNamed(v.t, path[1]) IN
  IF f.kind = "virt" THEN (IF f.alias # <<>> THEN Locate(v, f.alias \o Tail(path), acc)
                           ELSE IF f.xform # <<>> THEN Locate(v, f.xform[1].dest \o Tail(path), acc) ELSE NoLoc)
  ELSE LET h == Has(v, f)
           s == Eval(v, f.start, Unknown)
           z == Eval(v, f.size, Unknown)
       IN IF ~(h.k /\ h.v /\ s.k /\ z.k /\ s.v >= 0 /\ z.v >= 0) THEN NoLoc
          ELSE IF Unit(v) = 8 THEN
                  LET a2 == [acc EXCEPT !.byteOff = @ + s.v] IN
                  IF Len(path) = 1 THEN [a2 EXCEPT !.nbytes = z.v, !.order = f.order, !.w = 8 * z.v]
                  ELSE IF f.kind # "sub" THEN NoLoc
                  ELSE IF Prog.types[f.type].unit = 1
                       THEN Locate(SubV(v, f), Tail(path), [a2 EXCEPT !.inbits = TRUE, !.nbytes = z.v, !.order = f.order, !.bitOff = 0])
                       ELSE Locate(SubV(v, f), Tail(path), a2)
               ELSE LET a2 == [acc EXCEPT !.bitOff = @ + s.v] IN
                  IF Len(path) = 1 THEN [a2 EXCEPT !.w = z.v]
                  ELSE IF f.kind # "sub" THEN NoLoc ELSE Locate(SubV(v, f), Tail(path), a2)

(* the buffer after storing raw content `raw` at location loc *)
Splice(buf, loc, raw) ==
  LET old == SubSeq(buf, loc.byteOff + 1, loc.byteOff + loc.nbytes)
      u == UOfBytes(old, loc.order)
      u2 == IF loc.inbits THEN u - BitField(u, loc.bitOff, loc.w) * (2 ^ loc.bitOff) + raw * (2 ^ loc.bitOff) ELSE raw
      new == BytesOfU(u2, loc.nbytes, loc.order)
  IN SubSeq(buf, 1, loc.byteOff) \o new \o SubSeq(buf, loc.byteOff + loc.nbytes + 1, Len(buf))

(* Inverse of an add/subtract expression over ONE field: the value y of that field for which the expression
   reads x.  Covers the documented simple transforms  y + c,  c + y,  y - c,  c - y  and any nesting of them
   ((y - 50) + 30, 100 - (y - 5), ...): [ok, x] *)
RECURSIVE Inv(_, _)
Inv(e, x) ==
  CASE e.k = "ref" -> [ok |-> TRUE, x |-> x]
    [] e.k = "op" /\ e.fn = "+" /\ e.args[2].k = "int" -> Inv(e.args[1], x - e.args[2].v)
    [] e.k = "op" /\ e.fn = "+" /\ e.args[1].k = "int" -> Inv(e.args[2], x - e.args[1].v)
    [] e.k = "op" /\ e.fn = "-" /\ e.args[2].k = "int" -> Inv(e.args[1], x + e.args[2].v)
    [] e.k = "op" /\ e.fn = "-" /\ e.args[1].k = "int" -> Inv(e.args[2], e.args[1].v - x)
    [] OTHER -> [ok |-> FALSE, x |-> 0]

RECURSIVE DestOf(_, _, _)
(* the physical scalar a write to `path` finally lands on, and the value stored there:
   [ok, pv (view containing it), f (its field), path (alias-free path from v), x] *)
DestOf(v, path, x) ==
  LET pv == PathView(v, path)
      f == PathField(v, path)
  IN IF f.kind = "scalar" THEN [ok |-> TRUE, v |-> pv, f |-> f, x |-> x, reqok |-> TRUE, path |-> path]
     ELSE IF f.kind = "virt" /\ f.alias # <<>> THEN DestOf(pv, f.alias, x)
     ELSE IF f.kind = "virt" /\ f.xform # <<>> THEN
          LET t == f.xform[1]
              y == Inv(f.value, x)
              d == DestOf(pv, t.dest, y.x)
          IN [d EXCEPT !.ok = d.ok /\ y.ok, !.reqok = d.reqok /\ ReqHolds(pv, f.requires, Known(x))]
     ELSE [ok |-> FALSE, v |-> pv, f |-> f, x |-> x, reqok |-> FALSE, path |-> path]

(* CouldWriteValue: representable in the field and satisfying every [requires] on the way *)
CouldWrite(v, path, x) ==
  LET d == DestOf(v, path, x) IN
  d.ok /\ d.reqok /\ Representable(d.f.st, d.x, d.f.w) /\ ReqHolds(d.v, d.f.requires, Known(d.x))

(* TryToWrite: additionally the field's bytes are present *)
WriteResult(t, ps, buf, path, x) ==
  LET v == TopView(t, ps, buf)
      d == DestOf(v, path, x)
      could == CouldWrite(v, path, x)
      tried == could /\ FComplete(d.v, d.f)
      loc == Locate(v, path, Loc0)
  IN [could |-> could, tried |-> tried,
      buf |-> IF tried /\ loc.ok THEN Splice(buf, loc, Encode(d.f.st, d.x, d.f.w)) ELSE buf]

(* candidate values for a write: the edges of the representable range, their outside neighbours, small
   values, and the edges of every constant the field's [requires] mentions *)
WriteCandidates(st, w) ==
  LET lo == IF st \in {"Int", "EnumS"} THEN -(2 ^ (w - 1)) ELSE 0
      hi == CASE st \in {"Int", "EnumS"} -> 2 ^ (w - 1) - 1
              [] st = "Bcd" -> BcdMax(w)
              [] st = "Flag" -> 1
              [] OTHER -> 2 ^ w - 1
  IN {lo - 1, lo, lo + 1, -1, 0, 1, 2, 9, 10, hi \div 2, hi - 1, hi, hi + 1}

---------------------------------------------------------------------------
(* Logical equality and copying (C20) *)

RECURSIVE VEquals(_, _), FEquals(_, _, _)

(* both views Ok: same presence for every physical field, and present fields read equal *)
FEquals(a, b, f) ==
  CASE f.kind = "scalar" -> FVal(a, f) = FVal(b, f)
    [] f.kind = "sub" -> VEquals(SubV(a, f), SubV(b, f))
    [] f.kind = "array" ->
         /\ DeclCount(a, f) = DeclCount(b, f)
         /\ \A i \in 0..(DeclCount(a, f) - 1) :
              IF f.elem.kind = "scalar" THEN ElemVal(a, f, i) = ElemVal(b, f, i)
              ELSE VEquals(ElemV(a, f, i), ElemV(b, f, i))

VEquals(a, b) ==
  \A i \in 1..Len(TypeOf(a).fields) :
     LET f == TypeOf(a).fields[i] IN
     f.kind = "virt" \/
       (LET ha == Has(a, f) hb == Has(b, f) IN ha.k /\ hb.k /\ ha.v = hb.v /\ (ha.v => FEquals(a, b, f)))

(* Two views of one struct type looking at windows [o, o+l) of one allocation `mem`. *)
Window(mem, w) == SubSeq(mem, w.o + 1, w.o + w.l)

CopyEnabled(t, ps, mem, dst, src) ==
  LET sv == TopView(t, ps, Window(mem, src)) IN
  VOk(sv) /\ dst.l >= VSize(sv).v

(* memmove semantics: the destination's first Size(src) bytes become the ORIGINAL source bytes *)
CopyResult(t, ps, mem, dst, src) ==
  IF ~CopyEnabled(t, ps, mem, dst, src) THEN mem
  ELSE LET n == VSize(TopView(t, ps, Window(mem, src))).v IN
       [j \in 1..Len(mem) |-> IF j > dst.o /\ j <= dst.o + n THEN mem[src.o + (j - dst.o)] ELSE mem[j]]

---------------------------------------------------------------------------
(* Observation vector: what a client can learn through the checked API, flattened to a sequence
   of [k: key string, t: tag, v: integer].  The C++ driver prints the same sequence. *)

E(k, t, v) == [k |-> k, t |-> t, v |-> v, n |-> ""]
EN(k, t, v, n) == [k |-> k, t |-> t, v |-> v, n |-> n]     \* n: a note that classifies the situation
B(b) == IF b THEN 1 ELSE 0
Tri(m) == IF m.k THEN B(m.v) ELSE -1

RECURSIVE ObsView(_, _), ObsField(_, _, _), ObsElems(_, _, _, _), ObsFields(_, _, _)

(* an array whose location is known but whose declared extent is not fully available *)
ArrNote(v, f) ==
  LET s == Eval(v, f.start, Unknown) z == Eval(v, f.size, Unknown) IN
  IF s.k /\ z.k /\ s.v >= 0 /\ z.v >= 0 /\ v.st.ok /\ ~FComplete(v, f) THEN "truncated" ELSE ""

ObsElems(v, f, k, i) ==
  IF i >= DeclCount(v, f) THEN <<>>
  ELSE LET ki == k \o "[" \o ToString(i) \o "]" IN
       (IF f.elem.kind = "scalar" THEN <<E(ki, "elem", ElemVal(v, f, i))>> ELSE ObsView(ElemV(v, f, i), ki \o ".")) \o ObsElems(v, f, k, i + 1)

ObsField(v, f, pfx) ==
  LET k == pfx \o f.name
      h == Has(v, f)
      ok == FOk(v, f)
  IN IF f.kind = "sub" /\ f.anon THEN <<>> ELSE   \* observed through its members' aliases
     <<E(k, "has", Tri(h)), EN(k, "ok", B(h.k /\ h.v /\ ok), IF f.kind = "array" /\ h.k /\ h.v THEN ArrNote(v, f) ELSE "")>> \o
     (IF ~(h.k /\ h.v) THEN <<>>
      ELSE CASE f.kind = "scalar" ->
                  <<E(k, "complete", B(FComplete(v, f)))>> \o (IF ok THEN <<E(k, "val", FVal(v, f).v)>> ELSE <<>>)
             [] f.kind = "virt" ->
                  IF ok /\ (f.alias = <<>> \/ PathField(v, f.alias).kind \in {"scalar", "virt"})
                  THEN <<E(k, "val", IF f.vt = "bool" THEN B(FVal(v, f).v) ELSE FVal(v, f).v)>> ELSE <<>>
             [] f.kind = "sub" -> ObsView(SubV(v, f), k \o ".")
             [] f.kind = "array" ->
                  <<EN(k, "complete", B(FComplete(v, f)), ArrNote(v, f)),
                    EN(k, "count", IF FComplete(v, f) THEN DeclCount(v, f) ELSE Wild, ArrNote(v, f))>> \o
                  (IF ok THEN ObsElems(v, f, k, 0) ELSE <<>>))

ObsFields(v, pfx, i) ==
  IF i > Len(TypeOf(v).fields) THEN <<>>
  ELSE ObsField(v, TypeOf(v).fields[i], pfx) \o ObsFields(v, pfx, i + 1)

ObsView(v, pfx) ==
  LET s == VSize(v) IN
  <<E(pfx, "vok", B(VOk(v))), E(pfx, "vcomplete", B(VComplete(v))), E(pfx, "sizeknown", B(s.k))>> \o
  (IF s.k THEN <<E(pfx, "size", s.v)>> ELSE <<>>) \o
  \* the $min_size / $max_size constants: the documented bounds ($lower_bound / $upper_bound) of the size
  (LET r == Rng(v.t, SizeExpr(v.t)) IN
     <<E(pfx, "minsize", IF r.ok THEN r.lo ELSE Wild), E(pfx, "maxsize", IF r.ok THEN r.hi ELSE Wild)>>) \o
  ObsFields(v, pfx, 1)


Obs(t, ps, buf) == ObsView(TopView(t, ps, buf), "")

(* An observation is a *claim of knowledge* when it says something definite that more bytes must
   not change: a presence that is true/false, a value, a size, a count, and the positive verdicts. *)
IsClaim(e) ==
  CASE e.t = "has" -> e.v # -1
    [] e.t \in {"val", "size", "count", "elem", "minsize", "maxsize"} -> TRUE
    [] e.t \in {"ok", "complete", "vok", "vcomplete", "sizeknown"} -> e.v = 1

(* PrefixMonotone: everything claimed from o1 (a prefix) is still claimed, with the same value, in o2 *)
Monotone(o1, o2) ==
  \A i \in 1..Len(o1) : IsClaim(o1[i]) =>
     \E j \in 1..Len(o2) : o2[j].k = o1[i].k /\ o2[j].t = o1[i].t /\ o2[j].v = o1[i].v
=============================================================================
