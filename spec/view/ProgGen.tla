------------------------------ MODULE ProgGen ------------------------------
(***************************************************************************)
(* Generator of MiniEmboss programs (the "for every accepted module"       *)
(* quantifier of C01/C03/C04/C06/C07/C20).  A program is built by actions  *)
(* from a catalogue of field templates; `tlc -simulate` walks give random  *)
(* programs, each printed once as JSON (same shape as harness/view_prog).  *)
(* Every reference goes to a field added earlier, so programs are acyclic  *)
(* by construction; locations stay small because dynamic offsets/sizes     *)
(* only mention fields whose value is bounded (2-bit members, [requires]). *)
(***************************************************************************)
EXTENDS Integers, Sequences, TLC, Json

CONSTANTS MaxPhys, MaxVirt      \* field budget of the main struct

I(v) == [k |-> "int", v |-> v]
Bo(v) == [k |-> "bool", v |-> v]
R(p) == [k |-> "ref", path |-> p]
Pres(p) == [k |-> "present", path |-> p]
Par(i, n) == [k |-> "par", i |-> i, name |-> n]
En(name, v) == [k |-> "enum", enum |-> "Kind", name |-> name, v |-> v]
Op2(fn, a, b) == [k |-> "op", fn |-> fn, args |-> <<a, b>>]
Op3(fn, a, b, c) == [k |-> "op", fn |-> fn, args |-> <<a, b, c>>]
This == [k |-> "this"]
With(r, key, val) == [x \in DOMAIN r \cup {key} |-> IF x = key THEN val ELSE r[x]]
TrueE == Bo(TRUE)

KindValues == << [name |-> "AA", v |-> 0], [name |-> "BB", v |-> 1], [name |-> "CC", v |-> 5], [name |-> "DD", v |-> 200] >>

Scalar(name, start, nbytes, st, order, cond, req) ==
  [name |-> name, kind |-> "scalar", start |-> start, size |-> I(nbytes), cond |-> cond, st |-> st, w |-> 8 * nbytes,
   order |-> order, requires |-> req]
BitScalar(name, start, nbits, st) ==
  [name |-> name, kind |-> "scalar", start |-> I(start), size |-> I(nbits), cond |-> TrueE, st |-> st, w |-> nbits,
   order |-> "LE", requires |-> <<>>]
Virt(name, value, vt, req) ==
  [name |-> name, kind |-> "virt", value |-> value, alias |-> <<>>, anon |-> FALSE, vt |-> vt, xform |-> <<>>, requires |-> req]
Alias(name, path) ==
  [name |-> name, kind |-> "virt", value |-> R(path), alias |-> path, anon |-> FALSE, vt |-> "int", xform |-> <<>>, requires |-> <<>>]
AnonAlias(name, cont) ==
  [name |-> name, kind |-> "virt", value |-> R(<<cont, name>>), alias |-> <<cont, name>>, anon |-> TRUE, vt |-> "int", xform |-> <<>>,
   requires |-> <<>>, anon_member |-> TRUE]
Xform(name, op, dest, c, value) ==
  [name |-> name, kind |-> "virt", value |-> value, alias |-> <<>>, anon |-> FALSE, vt |-> "int",
   xform |-> << [op |-> op, c |-> c, dest |-> <<dest>>] >>, requires |-> <<>>]

(* fixed helper types the main struct may use *)
InnerType ==
  [kind |-> "struct", unit |-> 8, params |-> << [name |-> "k", signed |-> FALSE, bits |-> 3] >>, requires |-> <<>>,
   fields |-> << Scalar("v", I(0), 1, "UInt", "LE", TrueE, << Op2("<", This, I(250)) >>),
                 Scalar("w", I(1), 1, "Int", "LE", Op2("==", Par(1, "k"), I(2)), <<>>),
                 Virt("vk", Op2("+", R(<<"v">>), Par(1, "k")), "int", <<>>) >>]
PairType ==
  [kind |-> "struct", unit |-> 8, params |-> <<>>, requires |-> <<>>,
   fields |-> << Scalar("a", I(0), 1, "UInt", "LE", TrueE, <<>>), Scalar("b", I(1), 1, "Bcd", "LE", TrueE, <<>>) >>]
NibType ==
  [kind |-> "bits", unit |-> 1, params |-> <<>>, requires |-> <<>>,
   fields |-> << BitScalar("lo", 0, 4, "Bcd"), BitScalar("hi", 4, 3, "Int"), BitScalar("top", 7, 1, "Flag") >>]

VARIABLES fields,   \* fields of the main struct so far
          helpers,  \* anonymous bits types created so far: <<[name, def]>>
          ints,     \* names of integer-valued fields that later fields may mention, with an upper bound: [n, max, cond]
          conds,    \* names of conditional physical fields (for $present)
          cursor,   \* first byte not used by the static part of the layout
          enums,    \* names of enum-typed fields (type Kind)
          nphys, nvirt, sealed,
          target    \* <<number of physical, number of virtual fields>> this walk is going to build
vars == <<fields, helpers, ints, conds, enums, cursor, nphys, nvirt, sealed, target>>

Init == /\ fields = <<>> /\ helpers = <<>> /\ ints = <<>> /\ conds = <<>> /\ enums = <<>> /\ cursor = 0 /\ nphys = 0 /\ nvirt = 0 /\ sealed = FALSE
        /\ target \in (2..MaxPhys) \X (0..MaxVirt)

FName(n) == "f" \o ToString(n)
NextName == FName(nphys + nvirt + 1)
IntNames == {ints[j].n : j \in 1..Len(ints)}
Small == {j \in 1..Len(ints) : ints[j].small}           \* value <= 3 whenever readable: usable in offsets / sizes
Orders == {"LE", "BE"}

(* existence conditions over what exists so far *)
CondSet ==
  {TrueE}
  \cup {Op2("==", R(<<ints[j].n>>), I(c)) : j \in 1..Len(ints), c \in {0, 1, 2, 3}}
  \cup {Op2("<", R(<<ints[j].n>>), I(c)) : j \in 1..Len(ints), c \in {1, 2, 128}}
  \cup {Op2("&&", Op2("!=", R(<<ints[j].n>>), I(0)), Op2("<=", R(<<ints[j + 1].n>>), I(2))) : j \in 1..(Len(ints) - 1)}
  \cup {Op2("||", Op2("==", R(<<ints[j + 1].n>>), I(1)), Op2(">", R(<<ints[j].n>>), I(1))) : j \in 1..(Len(ints) - 1)}
  \cup {Pres(<<conds[j]>>) : j \in 1..Len(conds)}
  \cup {Op2("==", R(<<enums[j]>>), En(KindValues[q].name, KindValues[q].v)) : j \in 1..Len(enums), q \in {2, 3}}

Push(f) == fields' = Append(fields, f)
(* max: the largest magnitude the field's TYPE admits (what static bounds see); small: value <= 3 whenever readable *)
IntRec(n, mx, sm, isCond, isVirt) == [n |-> n, max |-> mx, small |-> sm, cond |-> isCond, virt |-> isVirt]
NoteInt(n, mx, sm, isCond, isVirt) == ints' = Append(ints, IntRec(n, mx, sm, isCond, isVirt))
TypeMax(st, nbits) == IF st = "Bcd" THEN (10 ^ (nbits \div 4)) * (2 ^ (nbits % 4)) - 1 ELSE 2 ^ nbits
NoteEnum(n) == enums' = Append(enums, n)
NoteCond(n, c) == conds' = IF c # TrueE THEN Append(conds, n) ELSE conds

(* static scalar at the cursor *)
AddScalar ==
  \E nb \in {1, 2, 3}, st \in {"UInt", "Int", "Bcd"}, o \in Orders, c \in CondSet, req \in {0, 1} :
     /\ nphys < target[1]
     /\ (st = "Bcd" => nb = 1)
     /\ LET n == NextName
            rq == IF req = 1 /\ nb = 1 /\ st = "UInt" THEN << Op2("<=", This, I(3)) >> ELSE <<>>
        IN /\ Push(Scalar(n, I(cursor), nb, st, o, c, rq))
           /\ NoteInt(n, TypeMax(st, 8 * nb), rq # <<>>, c # TrueE, FALSE)
           /\ NoteCond(n, c)
     /\ cursor' = cursor + nb /\ nphys' = nphys + 1 /\ UNCHANGED <<helpers, nvirt, sealed, enums>>

(* `$next`-placed scalar: starts where the previous physical field ends *)
AddNext ==
  \E nb \in {1, 2}, st \in {"UInt", "Int"}, o \in Orders :
     /\ nphys < target[1]
     /\ \E j \in 1..Len(fields) : fields[j].kind \in {"scalar", "sub", "array"} /\ ~("anon_member" \in DOMAIN fields[j])
     /\ LET ph == SelectSeq(fields, LAMBDA f : f.kind \in {"scalar", "sub", "array"})
            p == ph[Len(ph)]
            n == NextName
        IN /\ Push(With(Scalar(n, Op2("+", p.start, p.size), nb, st, o, TrueE, <<>>), "start_next", TRUE))
           /\ NoteInt(n, TypeMax(st, 8 * nb), FALSE, FALSE, FALSE) /\ UNCHANGED conds
     /\ cursor' = cursor + nb + 3 /\ nphys' = nphys + 1 /\ UNCHANGED <<helpers, nvirt, sealed, enums>>

(* enum-typed byte *)
AddEnum ==
  \E c \in CondSet :
     /\ nphys < target[1]
     /\ LET n == NextName IN
        /\ Push(With(Scalar(n, I(cursor), 1, "EnumU", "LE", c, <<>>), "enum", "Kind"))
        /\ NoteEnum(n) /\ NoteCond(n, c) /\ UNCHANGED ints
     /\ cursor' = cursor + 1 /\ nphys' = nphys + 1 /\ UNCHANGED <<helpers, nvirt, sealed>>

(* dynamically placed byte: offset = small field + cursor *)
AddDynamic ==
  \E j \in Small, st \in {"UInt", "Int"} :
     /\ nphys < target[1]
     /\ LET n == NextName IN
        /\ Push(Scalar(n, Op2("+", R(<<ints[j].n>>), I(cursor)), 1, st, "LE", TrueE, <<>>))
        /\ NoteInt(n, 256, FALSE, ints[j].cond, FALSE) /\ UNCHANGED conds
     /\ cursor' = cursor + 4 /\ nphys' = nphys + 1 /\ UNCHANGED <<helpers, nvirt, sealed, enums>>

(* automatic-length byte array sized by a small field; fixed array of two 16-bit integers *)
AddArray ==
  \/ \E j \in Small, c \in CondSet :
        /\ nphys < target[1]
        /\ LET n == NextName IN
           /\ Push([name |-> n, kind |-> "array", start |-> I(cursor), size |-> R(<<ints[j].n>>), cond |-> c, elsize |-> 1,
                    elem |-> [kind |-> "scalar", st |-> "UInt", w |-> 8, order |-> "LE"], auto |-> TRUE])
           /\ NoteCond(n, c) /\ UNCHANGED ints
        /\ cursor' = cursor + 3 /\ nphys' = nphys + 1 /\ UNCHANGED <<helpers, nvirt, sealed, enums>>
  \/ \E o \in Orders, st \in {"UInt", "Int"} :
        /\ nphys < target[1]
        /\ Push([name |-> NextName, kind |-> "array", start |-> I(cursor), size |-> I(4), cond |-> TrueE, elsize |-> 2,
                 elem |-> [kind |-> "scalar", st |-> st, w |-> 16, order |-> o], auto |-> FALSE])
        /\ cursor' = cursor + 4 /\ nphys' = nphys + 1 /\ UNCHANGED <<helpers, ints, conds, nvirt, sealed, enums>>
  \/ \E j \in Small :
        /\ nphys < target[1]
        /\ Push([name |-> NextName, kind |-> "array", start |-> I(cursor), size |-> Op2("*", R(<<ints[j].n>>), I(2)), cond |-> TrueE, elsize |-> 2,
                 elem |-> [kind |-> "sub", type |-> "Pair", bitsize |-> 0, order |-> "LE"], auto |-> TRUE])
        /\ cursor' = cursor + 6 /\ nphys' = nphys + 1 /\ UNCHANGED <<helpers, ints, conds, nvirt, sealed, enums>>

(* anonymous bits of one or two bytes; its members become fields of the struct (2-bit members are `small`) *)
AddAnonBits ==
  \E nb \in {1, 2}, o \in Orders, c \in CondSet, shape \in {1, 2} :
     /\ nphys < target[1]
     /\ LET n == NextName
            tn == "Anon" \o ToString(nphys + nvirt + 1)
            m1 == n \o "a"  m2 == n \o "b"  m3 == n \o "c"
            members == IF shape = 1
                       THEN << BitScalar(m1, 0, 2, "UInt"), BitScalar(m2, 2, 5, "Int"), BitScalar(m3, 7, 1, "Flag") >>
                       ELSE << BitScalar(m1, 0, 2, "UInt"), BitScalar(m2, 2, 4, "Bcd"), BitScalar(m3, 8 * nb - 2, 2, "UInt") >>
            def == [kind |-> "bits", unit |-> 1, params |-> <<>>, requires |-> <<>>, fields |-> members]
            cont == [name |-> n, kind |-> "sub", start |-> I(cursor), size |-> I(nb), cond |-> c, type |-> tn, args |-> <<>>,
                     bitsize |-> 8 * nb, order |-> o, anon |-> TRUE, inline |-> FALSE]
        IN /\ fields' = fields \o <<cont, AnonAlias(m1, n), AnonAlias(m2, n), AnonAlias(m3, n)>>
           /\ helpers' = Append(helpers, [name |-> tn, def |-> def])
           /\ ints' = ints \o << IntRec(m1, 3, TRUE, c # TrueE, FALSE), IntRec(m2, 16, FALSE, c # TrueE, FALSE) >>
           /\ UNCHANGED conds
     /\ cursor' = cursor + nb /\ nphys' = nphys + 1 /\ UNCHANGED <<nvirt, sealed, enums>>

(* structure-typed fields: parameterised Inner, named bits Nib *)
AddSub ==
  \/ \E c \in CondSet, arg \in {I(2), I(0)} \cup {R(<<ints[j].n>>) : j \in Small} :
        /\ nphys < target[1]
        /\ LET n == NextName IN
           /\ Push([name |-> n, kind |-> "sub", start |-> I(cursor), size |-> I(2), cond |-> c, type |-> "Inner", args |-> <<arg>>,
                    bitsize |-> 0, order |-> "LE", anon |-> FALSE, inline |-> FALSE])
           /\ NoteCond(n, c) /\ UNCHANGED ints
        /\ cursor' = cursor + 2 /\ nphys' = nphys + 1 /\ UNCHANGED <<helpers, nvirt, sealed, enums>>
  \/ \E o \in Orders :
        /\ nphys < target[1]
        /\ Push([name |-> NextName, kind |-> "sub", start |-> I(cursor), size |-> I(1), cond |-> TrueE, type |-> "Nib", args |-> <<>>,
                 bitsize |-> 8, order |-> o, anon |-> FALSE, inline |-> FALSE])
        /\ cursor' = cursor + 1 /\ nphys' = nphys + 1 /\ UNCHANGED <<helpers, ints, conds, nvirt, sealed, enums>>

(* virtual fields *)
AddVirt ==
  /\ nvirt < target[2] /\ Len(ints) > 0
  /\ \E j \in 1..Len(ints), m \in {1, Len(ints)}, c \in {1, 100}, t \in 1..11 :
       LET a == R(<<ints[j].n>>)  b == R(<<ints[m].n>>)  n == NextName
           \* fields of the parameterised structure type Inner (conditional or not): nested paths go through them
           inners == {q \in 1..Len(fields) : fields[q].kind = "sub" /\ fields[q].type = "Inner"}
           isScalar(nm) == \E q \in 1..Len(fields) : fields[q].name = nm /\ fields[q].kind = "scalar" /\ fields[q].st \in {"UInt", "Int"}
           \* products stay far inside TLC's integers
           guard == (t = 2 => ints[j].max <= (2 ^ 26) \div ints[m].max)
       IN /\ guard
          /\ CASE t = 1 -> Push(Virt(n, Op2("+", a, I(c)), "int", <<>>))
               [] t = 2 -> Push(Virt(n, Op2("*", a, b), "int", <<>>))
               [] t = 3 -> Push(Virt(n, Op2("-", a, b), "int", << Op2(">=", This, I(0)) >>))
               [] t = 4 -> Push(Virt(n, Op3("max", a, b, I(c)), "int", <<>>))
               [] t = 5 -> Push(Virt(n, Op3("?:", Op2("<", a, b), a, I(c)), "int", <<>>))
               [] t = 6 -> Push(Virt(n, Op2("<", a, I(c)), "bool", <<>>))
               [] t = 7 -> Push(Alias(n, <<ints[j].n>>))
               [] t = 8 -> IF isScalar(ints[j].n) THEN Push(Xform(n, "c-y", ints[j].n, c, Op2("-", I(c), a)))
                           ELSE Push(Xform(n, "y+c", ints[j].n, c, Op2("+", a, I(c))))
               \* nested paths: $present of a conditional / an unconditional member, a stored member, a virtual member
               [] t = 9 -> \E q \in inners, mem \in {"w", "v"} :
                             Push(Virt(n, Op3("?:", Pres(<<fields[q].name, mem>>), a, I(c)), "int", <<>>))
               [] t = 10 -> \E q \in inners : Push(Virt(n, Op2("+", R(<<fields[q].name, "v">>), I(c)), "int", <<>>))
               [] t = 11 -> \E q \in inners : Push(Virt(n, Op3("max", R(<<fields[q].name, "vk">>), a, I(c)), "int", <<>>))
          /\ IF t \in {1, 7} THEN NoteInt(n, ints[j].max + (IF t = 1 THEN c ELSE 0), FALSE, TRUE, TRUE) ELSE UNCHANGED ints
  /\ nvirt' = nvirt + 1 /\ UNCHANGED <<helpers, conds, cursor, nphys, sealed, enums>>

Program ==
  LET base == [Main |-> [kind |-> "struct", unit |-> 8, params |-> <<>>, requires |-> <<>>, fields |-> fields],
               Inner |-> InnerType, Pair |-> PairType, Nib |-> NibType]
      withAnon == [t \in DOMAIN base \cup {helpers[j].name : j \in 1..Len(helpers)} |->
                      IF t \in DOMAIN base THEN base[t] ELSE helpers[CHOOSE j \in 1..Len(helpers) : helpers[j].name = t].def]
  IN [types |-> withAnon,
      order |-> <<"Inner", "Pair", "Nib">> \o [j \in 1..Len(helpers) |-> helpers[j].name] \o <<"Main">>,
      hidden |-> [j \in 1..Len(helpers) |-> helpers[j].name],
      enums |-> [Kind |-> [values |-> KindValues, signed |-> FALSE]]]

Seal == ~sealed /\ PrintT(ToJson(Program)) /\ sealed' = TRUE /\ UNCHANGED <<fields, helpers, ints, conds, enums, cursor, nphys, nvirt>>

Grow == AddScalar \/ AddNext \/ AddEnum \/ AddDynamic \/ AddArray \/ AddAnonBits \/ AddSub \/ AddVirt
(* the program is printed exactly once: Seal is the only action enabled when the walk has met its target *)
Finished == nphys >= target[1] /\ (nvirt >= target[2] \/ Len(ints) = 0)
Next == (IF sealed THEN FALSE ELSE IF Finished THEN Seal ELSE Grow) /\ UNCHANGED target
Spec == Init /\ [][Next]_vars
=============================================================================
