-------------------------------- MODULE Fmt --------------------------------
(***************************************************************************)
(* The Emboss formatter as an ABSTRACT action (property C11).              *)
(*                                                                         *)
(* The layout engine (format_emb.py: one handler per grammar production,   *)
(* column alignment, blank-line insertion, comment re-indentation) is not  *)
(* transcribed.  What C11 demands of it is a refinement statement:         *)
(* formatting is a step  text --Format(indent)--> text'  whose result      *)
(*   (1) has the same tokens as the source, up to whitespace, blank lines  *)
(*       and trailing blanks in comments/documentation  (NormEq),          *)
(*   (2) parses                                                            *)
(*   (3) is a fixed point: formatting it again changes nothing,            *)
(*   (4) obeys the documented layout parameter: every indentation level is *)
(*       exactly `indent' spaces ("--indent: Number of spaces to use for   *)
(*       each level of indentation"), plus two robust facts of rendering   *)
(*       (no trailing blanks, text ends with a line terminator) that are   *)
(*       listed as assumptions, not as documented behaviour.               *)
(* The formatter must take such a step from every parseable text (it never *)
(* raises), and its built-in self check must agree with (1).               *)
(*                                                                         *)
(* Tokens(text) is Lex!Tokenize - the specification's own tokenizer built  *)
(* from the documented pattern table, NOT the repository's tokenizer; so   *)
(* format_emb.sanity_check_format_result is itself under test.             *)
(***************************************************************************)
EXTENDS Integers, Sequences, FiniteSets, FiniteSetsExt

CONSTANTS Patterns, AsciiCand          \* see Lex.tla

L == INSTANCE Lex

Tokens(text) == L!Tokenize(text)       \* [ok, toks, err]

---------------------------------------------------------------------------
(* Norm: the token sequence up to layout *)

NLSym == L!NLSym

\* text without trailing whitespace
RECURSIVE RStrip(_)
RStrip(s) == IF s # <<>> /\ s[Len(s)] \in L!WS THEN RStrip(SubSeq(s, 1, Len(s) - 1)) ELSE s

Commentish == {"Comment", "Documentation", "BadDocumentation"}

\* what is kept of one token
Essence(t) ==
  IF t.sym = "Indent" THEN <<t.sym, <<>>>>                 \* which blanks make up an indent is layout
  ELSE IF t.sym \in Commentish THEN <<t.sym, RStrip(t.text)>>
  ELSE <<t.sym, t.text>>

\* drop "\n" tokens that start the sequence or follow another "\n" (blank lines), keep the rest
RECURSIVE NormFrom(_, _, _, _)
NormFrom(toks, k, prevNL, acc) ==
  IF k > Len(toks) THEN acc
  ELSE IF toks[k].sym = NLSym
       THEN NormFrom(toks, k + 1, TRUE, IF prevNL THEN acc ELSE Append(acc, Essence(toks[k])))
       ELSE NormFrom(toks, k + 1, FALSE, Append(acc, Essence(toks[k])))
Norm(toks) == NormFrom(toks, 1, TRUE, <<>>)

\* meaning of a text for the formatter: "untokenizable" or its normalised token sequence
\* (MeaningR: from a tokenization result, so that callers tokenize a text once)
MeaningR(r) == IF r.ok THEN <<"tokens", Norm(r.toks)>> ELSE <<"untokenizable", <<>>>>
Meaning(text) == MeaningR(Tokens(text))

NormEqM(ma, mb) == ma[1] = "tokens" /\ ma = mb
NormEq(a, b) == NormEqM(Meaning(a), Meaning(b))

---------------------------------------------------------------------------
(* Layout facts *)

\* every Indent of the result is exactly `indent' spaces
IndentIsWidthR(r, indent) ==
    r.ok /\ \A k \in 1..Len(r.toks) :
              r.toks[k].sym = "Indent" => r.toks[k].text = [j \in 1..indent |-> 32]
IndentIsWidth(text, indent) == IndentIsWidthR(Tokens(text), indent)

\* no line ends in a blank
NoTrailingBlank(text) ==
  LET ls == L!SplitLines(text) IN
    \A k \in 1..Len(ls) : ls[k] = <<>> \/ ls[k][Len(ls[k])] \notin L!WS

\* a non-empty result ends with a line feed
EndsWithNewline(text) == text = <<>> \/ text[Len(text)] = 10

LayoutOKR(text, r, indent) ==
  [IndentIsWidth |-> IndentIsWidthR(r, indent),
   NoTrailingBlank |-> NoTrailingBlank(text),
   EndsWithNewline |-> EndsWithNewline(text)]
LayoutOK(text, indent) ==
  [IndentIsWidth |-> IndentIsWidth(text, indent),
   NoTrailingBlank |-> NoTrailingBlank(text),
   EndsWithNewline |-> EndsWithNewline(text)]

---------------------------------------------------------------------------
(* The abstract action *)

\* `new' is an acceptable result of formatting `old' with `indent'
\* (parsing is observed from the real parser and required separately)
FormatOK(old, indent, new) ==
  /\ NormEq(old, new)
  /\ LET lay == LayoutOK(new, indent) IN \A n \in DOMAIN lay : lay[n]

VARIABLE text
Format(indent, new) == FormatOK(text, indent, new) /\ text' = new
\* idempotence: formatting a result again is a stuttering step
Reformat(indent, new) == Format(indent, new) /\ new = text
=============================================================================
