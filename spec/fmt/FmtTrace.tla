----------------------------- MODULE FmtTrace -----------------------------
(***************************************************************************)
(* Validates traces recorded from the real formatter against Fmt.tla.      *)
(*                                                                         *)
(* One case = one parseable source text t0 and, for each indent width, the *)
(* recorded events                                                         *)
(*     t0 --fmt(indent)--> t1 --fmt(indent)--> t2                          *)
(* (an exception is recorded as an event), the real parser's verdict on    *)
(* t1, the number of complaints of format_emb.sanity_check_format_result,  *)
(* and optionally what the emboss-format command printed for t0.           *)
(* TLC decides, per run, with its own tokenizer (Lex.tla over the          *)
(* documented pattern table):                                              *)
(*   raises              the formatter raised on parseable input           *)
(*   tokens-changed      ~NormEq(t0, t1)   (includes length)               *)
(*   not-parseable       the result does not parse                         *)
(*   not-idempotent      the second step is not a stutter (t2 # t1)        *)
(*   layout:<fact>       a layout fact of Fmt!LayoutOK fails on t1         *)
(*   self-check-disagrees  built-in check and NormEq differ (or it raised) *)
(*   cli-differs         the command's output is not t1 / non-zero exit    *)
(* Failing runs are printed as JSON and counted.                           *)
(***************************************************************************)
EXTENDS Integers, Sequences, FiniteSets, FiniteSetsExt, TLC, Json, IOUtils

Table == JsonDeserialize(IOEnv.LEX_TABLE)
Cases == ndJsonDeserialize(IOEnv.CASES_FILE)

L0 == INSTANCE Lex WITH Patterns <- Table.patterns, AsciiCand <- <<>>
Cands == L0!CandTuple(0)

VARIABLES i, bad, text
vars == <<i, bad, text>>

F == INSTANCE Fmt WITH Patterns <- Table.patterns, AsciiCand <- Cands

\* clauses failing for run r of a case whose source has meaning m0
RunFails(m0, r) ==
  IF r.exc1 # "" THEN {"raises"}
  ELSE
    LET tk1 == F!Tokens(r.t1)
        m1 == F!MeaningR(tk1)
        same == F!NormEqM(m0, m1)
        lay == F!LayoutOKR(r.t1, tk1, r.indent)
    IN  (IF same THEN {} ELSE {"tokens-changed"})
        \cup (IF r.parses1 THEN {} ELSE {"not-parseable"})
        \cup (IF r.exc2 = "" /\ r.t2 = r.t1 THEN {} ELSE {"not-idempotent"})
        \cup {"layout:" \o n : n \in {x \in DOMAIN lay : ~lay[x]}}
        \cup (IF r.self_n >= 0 /\ ((r.self_n = 0) <=> same) THEN {} ELSE {"self-check-disagrees"})
        \cup (IF r.cli_ran /\ (r.cli_rc # 0 \/ r.cli_out # r.t1) THEN {"cli-differs"} ELSE {})

Judge(c) ==
  LET m0 == F!Meaning(c.t0)
      failing == {k \in 1..Len(c.runs) : RunFails(m0, c.runs[k]) # {}}
      pre == IF m0[1] = "tokens" THEN {} ELSE {"source-untokenizable"}
  IN IF failing = {} /\ pre = {} THEN 0
     ELSE IF PrintT(ToJson([id |-> c.id, fam |-> c.fam, pre |-> pre,
                            runs |-> [k \in failing |-> [indent |-> c.runs[k].indent,
                                                         clauses |-> RunFails(m0, c.runs[k]),
                                                         exc1 |-> c.runs[k].exc1, exc2 |-> c.runs[k].exc2]]]))
          THEN Cardinality(failing) + Cardinality(pre) ELSE 0

Init == i = 1 /\ bad = 0 /\ text = <<>>

Step ==
  /\ i <= Len(Cases)
  /\ bad' = bad + Judge(Cases[i])
  /\ i' = i + 1
  /\ text' = text

Done ==
  /\ i = Len(Cases) + 1
  /\ PrintT(ToJson([summary |-> TRUE, cases |-> Len(Cases), failing |-> bad]))
  /\ i' = i + 1 /\ bad' = bad /\ text' = text

Next == Step \/ Done
Spec == Init /\ [][Next]_vars
=============================================================================
