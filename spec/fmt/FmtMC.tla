------------------------------- MODULE FmtMC -------------------------------
(***************************************************************************)
(* Small exhaustive model of the abstract formatter of Fmt.tla (C11).      *)
(*                                                                         *)
(* State: the current text.  A step DoFormat(w, new) replaces it by ANY    *)
(* text `new' (over the same small alphabet, up to MaxLen + 2 characters)  *)
(* that Fmt!FormatOK accepts as a result of formatting it with indent w -- *)
(* i.e. the model is the most liberal formatter the specification allows.  *)
(* TLC explores every such formatter on every short text and checks that   *)
(* the specification is consistent with what C11 demands of it:            *)
(*   MeaningPreserved     whatever sequence of formatting steps is taken,  *)
(*                        the token meaning of the text is that of the     *)
(*                        original (so NormEq really is an equivalence     *)
(*                        that formatting steps stay inside);              *)
(*   MeaningNeverChanges  the same, step by step (action property);        *)
(*   ResultIsFixedPoint   every result the specification admits may be     *)
(*                        returned unchanged by the next formatting step   *)
(*                        (idempotence is satisfiable: FormatOK(t',w,t')); *)
(*   SomeResultExists     every tokenizable text has an admissible result  *)
(*                        for every width (the specification never forces  *)
(*                        a formatter to fail) - within the length bound.  *)
(* The pattern table comes from doc/grammar.md (see LexMachine.tla).       *)
(***************************************************************************)
EXTENDS Integers, Sequences, FiniteSets, TLC, Json, IOUtils, SequencesExt

CONSTANTS Alphabet, MaxLen, Widths

Table == JsonDeserialize(IOEnv.LEX_TABLE)
L0 == INSTANCE Lex WITH Patterns <- Table.patterns, AsciiCand <- <<>>
Cands == L0!CandTuple(0)

VARIABLES ti,       \* the current text, as an index into ResultSeq
          oi,       \* the text the behaviour started from (index)
          steps     \* number of formatting steps taken
vars == <<ti, oi, steps>>

Texts(n) == UNION {[1..k -> Alphabet] : k \in 0..n}
Results == Texts(MaxLen + 2)

(* Fmt!FormatOK unfolded over tables: all candidate texts in a fixed order, the meaning of each, and its
   layout verdict per width.  FormatOK(old, w, new) is by definition NormEqM(Meaning(old), Meaning(new)) /\
   all layout facts of (new, w).  TLC re-evaluates a definition that (transitively) reads IOEnv at every use
   (measured: 6 324 evaluations of a table for MaxLen = 2) and looks functions over sequences up linearly,
   so the tables are sequences indexed by integers, computed once, by ASSUMEs, into TLC registers 2-4. *)
ASSUME TLCSet(4, SetToSeq(Results))
ResultSeq == TLCGet(4)
N == Len(ResultSeq)
F == INSTANCE Fmt WITH Patterns <- Table.patterns, AsciiCand <- Cands, text <- ResultSeq[ti]
ASSUME TLCSet(2, [k \in 1..N |-> F!Meaning(ResultSeq[k])])
ASSUME TLCSet(3, [k \in 1..N |-> [w \in Widths |-> LET lay == F!LayoutOK(ResultSeq[k], w) IN \A n \in DOMAIN lay : lay[n]]])
MeaningOf == TLCGet(2)
LayoutGood == TLCGet(3)
FormatOK(old, w, new) == F!NormEqM(MeaningOf[old], MeaningOf[new]) /\ LayoutGood[new][w]
\* the unfolding agrees with Fmt!FormatOK (spot check on every text of length <= 2)
ASSUME \A a \in {k \in 1..N : Len(ResultSeq[k]) <= 2}, b \in {k \in 1..N : Len(ResultSeq[k]) <= 2}, w \in Widths :
          FormatOK(a, w, b) = F!FormatOK(ResultSeq[a], w, ResultSeq[b])
Sources == {k \in 1..N : Len(ResultSeq[k]) <= MaxLen /\ MeaningOf[k][1] = "tokens"}

MCInit == ti \in Sources /\ oi = ti /\ steps = 0

DoFormat ==
  /\ steps < 2
  /\ \E w \in Widths, new \in 1..N :
        /\ FormatOK(ti, w, new)
        /\ ti' = new
  /\ oi' = oi /\ steps' = steps + 1

MCNext == DoFormat
MCSpec == MCInit /\ [][MCNext]_vars

TypeOK == ti \in 1..N /\ oi \in Sources /\ steps \in 0..2

MeaningPreserved == MeaningOf[ti] = MeaningOf[oi]

MeaningNeverChanges == [][MeaningOf[ti'] = MeaningOf[ti]]_vars

\* a formatter that returns its own result unchanged is admitted, for some width that produced it
ResultIsFixedPoint ==
  [][\E w \in Widths : FormatOK(ti, w, ti') /\ FormatOK(ti', w, ti')]_vars

\* (an invariant that only says something about initial states: steps = 0)
SomeResultExists ==
  steps = 0 => \A w \in Widths : \E new \in 1..N : FormatOK(ti, w, new)
=============================================================================
