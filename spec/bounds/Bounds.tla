------------------------------- MODULE Bounds -------------------------------
(***************************************************************************)
(* Integer bounds and alignment (congruence) inference for Emboss          *)
(* expressions: the concrete semantics, the abstract domain, what it means *)
(* for an inferred annotation to be sound / tight, and the documented      *)
(* transfer functions as a design-level abstract interpreter.              *)
(*                                                                         *)
(* Sources (NOT the pass code):                                            *)
(*  - doc/language-reference.md: operators, $max, $upper_bound,            *)
(*    $lower_bound, $max_size_in_*, leaf ranges of UInt/Int/Bcd,           *)
(*    parameter ranges ("an Int:4 parameter can have any value -8..+7");   *)
(*  - doc/compiler-design.md "Bounds Computation": the refined integer     *)
(*    type  { x | a <= x <= b /\ x == n (mod m) } ; leaves have m = 1,     *)
(*    n = 0 ; a constant c has a = b = n = c, m = infinity ; x + y has     *)
(*    a = a_x + a_y, b = b_x + b_y and a gcd-based alignment; no           *)
(*    cross-argument constraints are detected; refinements may only get    *)
(*    tighter between versions;                                            *)
(*  - doc/modular_congruence_multiplication_proof.tex: congruence of a     *)
(*    product;                                                             *)
(*  - compiler/util/ir_data.py IntegerType (the IR contract): modulus is   *)
(*    "infinity" (value is exactly modular_value) or a positive integer;   *)
(*    0 <= modular_value < modulus; minimum/maximum may be -/+infinity;    *)
(*    the 64-bit rule and its exemption for constant subexpressions.       *)
(*                                                                         *)
(* Representation: modulus "infinity" is 0 here (v == r (mod 0) iff v = r, *)
(* gcd(0, x) = x : "infinity is the product of all integers").             *)
(***************************************************************************)
EXTENDS Integers, Sequences, FiniteSets

-----------------------------------------------------------------------------
(* Extended integers: [inf : {-1,0,1}, v : Int] ; inf # 0 => v = 0 *)

Fin(n) == [inf |-> 0, v |-> n]
NegInf == [inf |-> -1, v |-> 0]
PosInf == [inf |-> 1, v |-> 0]
IsFin(x) == x.inf = 0

ELe(x, y) == IF x.inf # 0 \/ y.inf # 0 THEN x.inf < y.inf \/ (x.inf = y.inf /\ x.inf # 0)
                                       ELSE x.v <= y.v
ELt(x, y) == ELe(x, y) /\ x # y
EMin(x, y) == IF ELe(x, y) THEN x ELSE y
EMax(x, y) == IF ELe(x, y) THEN y ELSE x
ENeg(x) == [inf |-> -x.inf, v |-> -x.v]
\* sum; the combination (+inf) + (-inf) never arises for lower+lower / upper+upper bounds
EAdd(x, y) == IF x.inf # 0 THEN x ELSE IF y.inf # 0 THEN y ELSE Fin(x.v + y.v)
ESub(x, y) == EAdd(x, ENeg(y))
ESign(x) == IF x.inf # 0 THEN x.inf ELSE IF x.v > 0 THEN 1 ELSE IF x.v < 0 THEN -1 ELSE 0
\* product of interval end points: 0 * inf = 0 (the interval [0,0] times anything is [0,0])
EMul(x, y) ==
  IF x.inf = 0 /\ y.inf = 0 THEN Fin(x.v * y.v)
  ELSE LET s == ESign(x) * ESign(y)
       IN  IF s > 0 THEN PosInf ELSE IF s < 0 THEN NegInf ELSE Fin(0)

RECURSIVE EMinSeq(_)
EMinSeq(s) == IF Len(s) = 1 THEN s[1] ELSE EMin(s[1], EMinSeq(Tail(s)))
RECURSIVE EMaxSeq(_)
EMaxSeq(s) == IF Len(s) = 1 THEN s[1] ELSE EMax(s[1], EMaxSeq(Tail(s)))

-----------------------------------------------------------------------------
(* Congruences *)

AbsN(n) == IF n < 0 THEN -n ELSE n

RECURSIVE GcdNat(_, _)
GcdNat(a, b) == IF b = 0 THEN a ELSE GcdNat(b, a % b)
\* gcd on non-negative integers with 0 as the neutral element (0 stands for "infinity")
Gcd(a, b) == GcdNat(AbsN(a), AbsN(b))

\* v == r (mod m) ; m = 0 means "exactly r"
Cong(v, m, r) == IF m = 0 THEN v = r ELSE (v - r) % m = 0
\* canonical remainder
NormRem(r, m) == IF m = 0 THEN r ELSE r % m
\* a divides b, with 0 = "infinity" (everything divides it; it divides only itself)
Divides(a, b) == IF b = 0 THEN TRUE ELSE IF a = 0 THEN FALSE ELSE b % a = 0

-----------------------------------------------------------------------------
(* The abstract domain:  [min : Ext, max : Ext, mod : Nat, rem : Int]      *)

Abs(lo, hi, m, r) == [min |-> lo, max |-> hi, mod |-> m, rem |-> r]
ConstAbs(c) == Abs(Fin(c), Fin(c), 0, c)
Top == Abs(NegInf, PosInf, 1, 0)

IsConstAbs(a) == a.mod = 0

\* membership in the concretisation
InGamma(v, a) == ELe(a.min, Fin(v)) /\ ELe(Fin(v), a.max) /\ Cong(v, a.mod, a.rem)

\* the property: every value the expression can take is described by its annotation
Sound(a, S) == \A v \in S : InGamma(v, a)

\* the interval part is attained (no slack), for a non-empty value set
Tight(a, S) == S # {} => /\ IsFin(a.min) /\ a.min.v \in S
                         /\ IsFin(a.max) /\ a.max.v \in S

\* "treated as constant" => the value set is exactly that constant
ConstExact(a, S) == IsConstAbs(a) => (S = {a.rem} /\ a.min = Fin(a.rem) /\ a.max = Fin(a.rem))

\* the IR contract of ir_data.IntegerType
WellFormed(a) ==
  /\ a.mod >= 0
  /\ (a.mod > 0 => 0 <= a.rem /\ a.rem < a.mod)
  /\ ELe(a.min, a.max)
  /\ a.min # PosInf /\ a.max # NegInf

\* a is at least as precise as b (describes a subset of what b describes, syntactically)
AtLeastAsPrecise(a, b) ==
  /\ ELe(b.min, a.min) /\ ELe(a.max, b.max)
  /\ Divides(b.mod, a.mod)

\* finite concretisation (for model checking); only for finite bounds
Gamma(a) == {v \in a.min.v .. a.max.v : Cong(v, a.mod, a.rem)}

-----------------------------------------------------------------------------
(* Leaves: physical integer types of the prelude and parameters            *)
(*   UInt:n  0 .. 2^n - 1        Int:n  -2^(n-1) .. 2^(n-1) - 1            *)
(*   Bcd:n   0 .. 10^(n \div 4) * 2^(n % 4) - 1   ("a 7-bit Bcd value can  *)
(*           store any number from 0 to 79"; every value in the range is   *)
(*           a readable BCD value)                                         *)

LeafLo(k, w) == IF k = "Int" THEN -(2 ^ (w - 1)) ELSE 0
LeafHi(k, w) == CASE k = "UInt" -> 2 ^ w - 1
                  [] k = "Int"  -> 2 ^ (w - 1) - 1
                  [] k = "Bcd"  -> (10 ^ (w \div 4)) * (2 ^ (w % 4)) - 1
LeafRange(k, w) == LeafLo(k, w) .. LeafHi(k, w)
\* documented: a value read from a field has known bounds, m = 1, n = 0
LeafAbs(k, w) == Abs(Fin(LeafLo(k, w)), Fin(LeafHi(k, w)), 1, 0)

-----------------------------------------------------------------------------
(* Interval arithmetic, generic in the number representation, so that the  *)
(* very same definitions are model-checked on native integers (BoundsMC)   *)
(* and used with BigInt on the 64-bit family (BoundsWide).                 *)

Iv(lo, hi) == [lo |-> lo, hi |-> hi]
IvAddG(Plus(_, _), a, b) == Iv(Plus(a.lo, b.lo), Plus(a.hi, b.hi))
IvSubG(Minus(_, _), a, b) == Iv(Minus(a.lo, b.hi), Minus(a.hi, b.lo))
IvMulG(Times(_, _), MinS(_), MaxS(_), a, b) ==
  LET c == <<Times(a.lo, b.lo), Times(a.lo, b.hi), Times(a.hi, b.lo), Times(a.hi, b.hi)>>
  IN  Iv(MinS(c), MaxS(c))
IvHullG(MinS(_), MaxS(_), a, b) == Iv(MinS(<<a.lo, b.lo>>), MaxS(<<a.hi, b.hi>>))
IvMaxG(MaxS(_), a, b) == Iv(MaxS(<<a.lo, b.lo>>), MaxS(<<a.hi, b.hi>>))
IvMaxSeqG(MaxS(_), as) == Iv(MaxS([j \in 1..Len(as) |-> as[j].lo]), MaxS([j \in 1..Len(as) |-> as[j].hi]))
-----------------------------------------------------------------------------
(* Transfer functions of the design (one per operator kind).               *)
(* Norm: a one-point interval is a constant.                               *)

Norm(a) == IF IsFin(a.min) /\ a.min = a.max THEN ConstAbs(a.min.v) ELSE a

IvOf(a) == Iv(a.min, a.max)
AbsOfIv(iv, m, r) == Abs(iv.lo, iv.hi, m, r)

TAdd(a, b) ==
  LET m == Gcd(a.mod, b.mod)
  IN  Norm(AbsOfIv(IvAddG(EAdd, IvOf(a), IvOf(b)), m, NormRem(a.rem + b.rem, m)))

TSub(a, b) ==
  LET m == Gcd(a.mod, b.mod)
  IN  Norm(AbsOfIv(IvSubG(ESub, IvOf(a), IvOf(b)), m, NormRem(a.rem - b.rem, m)))

\* congruence of a product
\*  - both constant: constant
\*  - one side the constant c: c = 0 gives the constant 0, else (m*|c|, r*c)
\*  - neither constant: the theorem of modular_congruence_multiplication_proof.tex
\*      q = G(m, r), p = G(n, s), z = G(m/q, n/p) :  a*b == r*s (mod q*p*z)
MulCong(a, b) ==
  IF a.mod = 0 /\ b.mod = 0 THEN <<0, a.rem * b.rem>>
  ELSE IF a.mod = 0 THEN (IF a.rem = 0 THEN <<0, 0>>
                          ELSE <<b.mod * AbsN(a.rem), NormRem(b.rem * a.rem, b.mod * AbsN(a.rem))>>)
  ELSE IF b.mod = 0 THEN (IF b.rem = 0 THEN <<0, 0>>
                          ELSE <<a.mod * AbsN(b.rem), NormRem(a.rem * b.rem, a.mod * AbsN(b.rem))>>)
  ELSE LET q == Gcd(a.mod, a.rem)
           p == Gcd(b.mod, b.rem)
           z == Gcd(a.mod \div q, b.mod \div p)
           m == q * p * z
       IN  <<m, NormRem(a.rem * b.rem, m)>>

TMul(a, b) ==
  LET c == MulCong(a, b)
  IN  IF c[1] = 0 THEN ConstAbs(c[2])
      ELSE Norm(AbsOfIv(IvMulG(EMul, EMinSeq, EMaxSeq, IvOf(a), IvOf(b)), c[1], c[2]))

\* the value is one of two: shared congruence = gcd(gcd(m, n), |r - s|)
SharedCong(a, b) ==
  LET m == Gcd(Gcd(a.mod, b.mod), AbsN(a.rem - b.rem))
  IN  <<m, NormRem(a.rem, m)>>

\* c ? a : b  with a condition that is not known at compile time
TChoice(a, b) ==
  LET c == SharedCong(a, b)
  IN  Norm(AbsOfIv(IvHullG(EMinSeq, EMaxSeq, IvOf(a), IvOf(b)), c[1], c[2]))
\* ... and with a condition the compiler knows
TChoiceKnown(cond, a, b) == IF cond THEN a ELSE b

\* $max(a1, ..., an): the result is one of the arguments, so its congruence is the one shared by
\* all of them; its interval is [max of the minima, max of the maxima].  (Deliberately no use of
\* "an argument that can never win": the documentation promises nothing of that kind.)
RECURSIVE SharedCongSeq(_)
SharedCongSeq(as) ==
  IF Len(as) = 1 THEN <<as[1].mod, as[1].rem>>
  ELSE LET r == SharedCongSeq(Tail(as))
       IN  SharedCong(as[1], Abs(as[1].min, as[1].max, r[1], r[2]))
TMax(as) ==
  LET c == SharedCongSeq(as)
  IN  Norm(Abs(EMaxSeq([j \in 1..Len(as) |-> as[j].min]), EMaxSeq([j \in 1..Len(as) |-> as[j].max]), c[1], c[2]))
TMax2(a, b) == TMax(<<a, b>>)

\* $upper_bound / $lower_bound: a constant that bounds the argument
TUpper(a) == IF IsFin(a.max) THEN ConstAbs(a.max.v) ELSE Top
TLower(a) == IF IsFin(a.min) THEN ConstAbs(a.min.v) ELSE Top

-----------------------------------------------------------------------------
(* Concrete semantics of the operators (language-reference.md)             *)

MaxOfSeq(vs) == CHOOSE m \in {vs[i] : i \in 1..Len(vs)} : \A i \in 1..Len(vs) : vs[i] <= m

\* vs: sequence of argument values; ub: the constant the compiler substituted for a
\* $upper_bound/$lower_bound node (these two functions are specified only by an inequality)
ApplyFn(fn, vs, ub) ==
  CASE fn = "+"  -> vs[1] + vs[2]
    [] fn = "-"  -> vs[1] - vs[2]
    [] fn = "*"  -> vs[1] * vs[2]
    [] fn = "==" -> vs[1] = vs[2]
    [] fn = "!=" -> vs[1] # vs[2]
    [] fn = "<"  -> vs[1] < vs[2]
    [] fn = "<=" -> vs[1] <= vs[2]
    [] fn = ">"  -> vs[1] > vs[2]
    [] fn = ">=" -> vs[1] >= vs[2]
    [] fn = "&&" -> vs[1] /\ vs[2]
    [] fn = "||" -> vs[1] \/ vs[2]
    [] fn = "?:" -> IF vs[1] THEN vs[2] ELSE vs[3]
    [] fn = "$max" -> MaxOfSeq(vs)
    [] fn = "$upper_bound" -> ub
    [] fn = "$lower_bound" -> ub

IntFns == {"+", "-", "*", "?:", "$max", "$upper_bound", "$lower_bound"}
BoolFns == {"==", "!=", "<", "<=", ">", ">=", "&&", "||"}

=============================================================================
