----------------------------- MODULE BoundsCheck -----------------------------
(***************************************************************************)
(* C05 binding, small family: validates what the REAL compiler inferred.   *)
(*                                                                         *)
(* Input (IOEnv.CASES_FILE, a JSON array): one record per generated case:  *)
(*   vars   : the variable table [n, k, w, param] (from BoundsGen)         *)
(*   e      : the generated expression (from BoundsGen)                    *)
(*   status : "accepted" | "rejected" | "exception"  (the real front end)  *)
(*   trees  : for every expression of the compiled structure (the `let`,   *)
(*            the location/condition/attribute that carries the generated  *)
(*            expression, the alias fields, $size_in_bytes,                *)
(*            $max_size_in_bytes, $min_size_in_bytes, parameters) the tree *)
(*            read back from the IR; every node carries `ty` (the inferred *)
(*            minimum/maximum/modulus/modular_value, or boolean/enum       *)
(*            constant) and `cv` (ir_util.constant_value of the node).     *)
(*                                                                         *)
(* For every tree TLC enumerates ALL environments (values of the physical  *)
(* types of the referenced fields / parameters), evaluates every node with *)
(* the concrete semantics of Bounds.tla and decides, per node, the clauses *)
(* listed under NodeFails.  Failures are printed as JSON, one per line,    *)
(* and counted; nothing is decided outside this module.                    *)
(***************************************************************************)
EXTENDS Bounds, TLC, Json, IOUtils

Cases == JsonDeserialize(IOEnv.CASES_FILE)

VARIABLES i, bad, nodes, envs, tightNodes, evals
vars == <<i, bad, nodes, envs, tightNodes, evals>>

-----------------------------------------------------------------------------
(* Environments *)

VarRec(c, n) == c.vars[CHOOSE j \in 1..Len(c.vars) : c.vars[j].n = n]
RangeOf(c, n) == LET v == VarRec(c, n) IN LeafRange(v.k, v.w)
KnownVar(c, n) == \E j \in 1..Len(c.vars) : c.vars[j].n = n

(***************************************************************************)
(* $present(f): "returns true if the field is present in its structure".   *)
(* The fixed skeleton (harness/bounds_render.py) declares                  *)
(*     pa                          unconditional                           *)
(*     if ga == 1:  pb                                                     *)
(*     sub : Sub                   unconditional                           *)
(*     if gc == 1:  osub : Sub                                             *)
(*     struct Sub:  gy ;  if gy == 1: py ;  pz                             *)
(* so presence in ITS structure is decided by the guard the member's own   *)
(* condition reads (for x.py: the gy of that x).                           *)
(***************************************************************************)
PresKnown == {"pa", "pb", "sub.py", "sub.pz", "osub.py", "osub.pz"}
PresGuards(n) == CASE n = "pb" -> {"ga"} [] n = "sub.py" -> {"sub.gy"} [] n = "osub.py" -> {"osub.gy"}
                   [] n \in {"pa", "sub.pz", "osub.pz"} -> {}
                   [] OTHER -> {"?$present(" \o n \o ")"}        \* not a field of the skeleton: reported as UnknownVariable
PresVal(n, rho) == CASE n = "pb" -> rho["ga"] = 1 [] n = "sub.py" -> rho["sub.gy"] = 1 [] n = "osub.py" -> rho["osub.gy"] = 1
                     [] n \in {"pa", "sub.pz", "osub.pz"} -> TRUE

RECURSIVE VarsOf(_)
VarsOf(t) ==
  CASE t.k = "var" -> {t.n}
    [] t.k = "pres" -> PresGuards(t.n)
    [] t.k \in {"vref", "cref"} -> VarsOf(t.e)
    [] t.k = "op" -> UNION {VarsOf(t.args[j]) : j \in 1..Len(t.args)}
    [] OTHER -> {}

RECURSIVE EnvsOver(_, _)
EnvsOver(c, S) ==
  IF S = {} THEN {<<>>}
  ELSE LET n == CHOOSE x \in S : TRUE
       IN  {(n :> v) @@ r : v \in RangeOf(c, n), r \in EnvsOver(c, S \ {n})}

-----------------------------------------------------------------------------
(* Concrete evaluation of every node (pre-order, descending into the       *)
(* definition of referenced virtual fields / constants)                    *)

\* the constant the compiler substituted for a $upper_bound/$lower_bound node
BoundConst(t) == IF t.ty.t = "i" /\ ~t.ty.missing /\ ~t.ty.huge THEN t.ty.rem ELSE 0

\* NOTE (TLC): a function constructor [j \in 1..n |-> e] is evaluated lazily at every application,
\* so memo tables are built as tuples by explicit recursion instead.
RECURSIVE EvalAll(_, _)
RECURSIVE EvalArgs(_, _, _)
RECURSIVE ConcatAll(_, _)
RECURSIVE Heads(_, _)
ConcatAll(ss, j) == IF j > Len(ss) THEN <<>> ELSE ss[j] \o ConcatAll(ss, j + 1)
Heads(ss, j) == IF j > Len(ss) THEN <<>> ELSE <<ss[j][1]>> \o Heads(ss, j + 1)
EvalArgs(args, j, rho) == IF j > Len(args) THEN <<>> ELSE <<EvalAll(args[j], rho)>> \o EvalArgs(args, j + 1, rho)
EvalAll(t, rho) ==
  CASE t.k \in {"int", "bool"} -> <<t.v>>
    [] t.k = "var" -> <<rho[t.n]>>
    [] t.k = "pres" -> <<PresVal(t.n, rho)>>
    [] t.k \in {"vref", "cref"} -> LET sub == EvalAll(t.e, rho) IN <<sub[1]>> \o sub
    [] t.k = "op" ->
         LET subs == EvalArgs(t.args, 1, rho)
         IN  <<ApplyFn(t.fn, Heads(subs, 1), BoundConst(t))>> \o ConcatAll(subs, 1)

\* pre-order summaries aligned with EvalAll: kids = offsets of the children relative to the node
RECURSIVE Flat(_)
RECURSIVE FlatArgs(_, _)
RECURSIVE KidOffsets(_, _, _)
KidOffsets(subs, j, off) ==
  IF j > Len(subs) THEN <<>> ELSE <<off>> \o KidOffsets(subs, j + 1, off + Len(subs[j]))
Summary(t, size, kids) ==
  [k |-> t.k, fn |-> IF t.k = "op" THEN t.fn ELSE "", n |-> IF t.k \in {"var", "vref", "cref", "pres"} THEN t.n ELSE "",
   v |-> IF t.k \in {"int", "bool"} THEN t.v ELSE 0, ty |-> t.ty, cv |-> t.cv, size |-> size, kids |-> kids]
FlatArgs(args, j) == IF j > Len(args) THEN <<>> ELSE <<Flat(args[j])>> \o FlatArgs(args, j + 1)
Flat(t) ==
  CASE t.k \in {"int", "bool", "var", "pres"} -> <<Summary(t, 1, <<>>)>>
    [] t.k \in {"vref", "cref"} -> LET sub == Flat(t.e) IN <<Summary(t, 1 + Len(sub), <<1>>)>> \o sub
    [] t.k = "op" ->
         LET subs == FlatArgs(t.args, 1)
             all == ConcatAll(subs, 1)
         IN  <<Summary(t, 1 + Len(all), KidOffsets(subs, 1, 1))>> \o all

\* column j of the table of value vectors = the value set of node j
RECURSIVE Columns(_, _, _)
Columns(Vals, j, n) == IF j > n THEN <<>> ELSE <<{v[j] : v \in Vals}>> \o Columns(Vals, j + 1, n)

\* the generated expression, as read back (annotations dropped, references by name)
RECURSIVE Strip(_)
RECURSIVE StripArgs(_, _)
StripArgs(args, j) == IF j > Len(args) THEN <<>> ELSE <<Strip(args[j])>> \o StripArgs(args, j + 1)
Strip(t) ==
  CASE t.k = "int" -> [k |-> "int", v |-> t.v]
    [] t.k = "bool" -> [k |-> "bool", v |-> t.v]
    [] t.k = "var" -> [k |-> "var", n |-> t.n]
    [] t.k = "pres" -> [k |-> "pres", n |-> t.n]
    [] t.k = "cref" -> [k |-> "cref", n |-> t.n]
    [] t.k = "vref" -> IF t.e.k = "var" THEN [k |-> "var", n |-> t.e.n] ELSE [k |-> "vref", n |-> t.n]
    [] t.k = "op" -> [k |-> "op", fn |-> t.fn, args |-> StripArgs(t.args, 1)]

-----------------------------------------------------------------------------
(* Per-node clauses *)

IntOK(ty) == ty.t = "i" /\ ~ty.missing /\ ~ty.huge
ToAbs(ty) == Abs(ty.min, ty.max, ty.mod, ty.rem)

\* what the design's transfer function yields from the children's recorded annotations
\* (defined when the children it needs are well-recorded integers)
\* products of recorded numbers must stay inside TLC's 32-bit integers
MulSafe(ty) == LET ok(n) == -30000 <= n /\ n <= 30000
               IN  ok(ty.mod) /\ ok(ty.rem) /\ (ty.min.inf = 0 => ok(ty.min.v)) /\ (ty.max.inf = 0 => ok(ty.max.v))
DesignDefined(c, F, j) ==
  LET s == F[j]
      kid(m) == F[j + s.kids[m]]
  IN  CASE s.k = "int" -> TRUE
        [] s.k = "var" -> KnownVar(c, s.n)
        [] s.k \in {"vref", "cref"} -> IntOK(kid(1).ty)
        [] s.k = "op" /\ s.fn = "?:" -> kid(1).ty.t = "b" /\ IntOK(kid(2).ty) /\ IntOK(kid(3).ty)
        [] s.k = "op" /\ s.fn = "*" -> \A m \in 1..2 : IntOK(kid(m).ty) /\ MulSafe(kid(m).ty)
        [] s.k = "op" /\ s.fn \in IntFns \ {"?:", "*"} -> \A m \in 1..Len(s.kids) : IntOK(kid(m).ty)
        [] OTHER -> FALSE
Design(c, F, j) ==
  LET s == F[j]
      A(m) == ToAbs(F[j + s.kids[m]].ty)
  IN  CASE s.k = "int" -> ConstAbs(s.v)
        [] s.k = "var" -> LET v == VarRec(c, s.n) IN LeafAbs(v.k, v.w)
        [] s.k \in {"vref", "cref"} -> A(1)
        [] s.fn = "+" -> TAdd(A(1), A(2))
        [] s.fn = "-" -> TSub(A(1), A(2))
        [] s.fn = "*" -> TMul(A(1), A(2))
        [] s.fn = "?:" -> LET cond == F[j + s.kids[1]].ty
                          IN  IF cond.has THEN TChoiceKnown(cond.v, A(2), A(3)) ELSE TChoice(A(2), A(3))
        [] s.fn = "$max" -> TMax([m \in 1..Len(s.kids) |-> A(m)])
        [] s.fn = "$upper_bound" -> TUpper(A(1))
        [] s.fn = "$lower_bound" -> TLower(A(1))

\* the fragment in which the documentation promises attained bounds: every variable occurs
\* once below the node, and every ?: condition below it either really goes both ways or is a
\* constant the compiler knows
NoRepeatedVar(F, j) ==
  \A p, q \in j..(j + F[j].size - 1) : (p # q /\ F[p].k = F[q].k /\ F[p].k \in {"var", "pres"}) => F[p].n # F[q].n
CondsFree(F, S, j) ==
  \A p \in j..(j + F[j].size - 1) :
    (F[p].k = "op" /\ F[p].fn = "?:") =>
       LET cnd == p + F[p].kids[1]
       IN  S[cnd] = {TRUE, FALSE} \/ (F[cnd].ty.t = "b" /\ F[cnd].ty.has)
InTightFragment(F, S, j) == NoRepeatedVar(F, j) /\ CondsFree(F, S, j)

\* a failure is "primary" unless an integer operand of the node fails the same clause (then the
\* node merely inherits the operand's wrong annotation); used only to give violations stable names
Fail(c, role, j, s, clause, wit) ==
  [id |-> c.id, role |-> role, node |-> j, clause |-> clause, primary |-> TRUE,
   what |-> IF s.k = "op" THEN s.fn ELSE IF s.k = "var" THEN "var:" \o VarRec(c, s.n).k ELSE s.k,
   ty |-> s.ty, wit |-> wit]

NodeFails(c, role, F, S, j) ==
  LET s == F[j]
      Sj == S[j]
      a == ToAbs(s.ty)
      W(P(_)) == IF \E v \in Sj : P(v) THEN <<CHOOSE v \in Sj : P(v)>> ELSE <<>>
      KidsPass(P(_, _)) == \A m \in 1..Len(s.kids) :
                             LET q == j + s.kids[m] IN IntOK(F[q].ty) => P(ToAbs(F[q].ty), S[q])
      Inherit(f, P(_, _)) == [f EXCEPT !.primary = KidsPass(P)]
  IN  (IF s.ty.t # "i" THEN {}
       ELSE IF s.ty.missing THEN {Fail(c, role, j, s, "Missing", <<>>)}
       ELSE IF s.ty.huge THEN {Fail(c, role, j, s, "OutOfModelRange", <<>>)}
       ELSE
         (IF WellFormed(a) THEN {} ELSE {Fail(c, role, j, s, "WellFormed", <<>>)})
         \cup (IF Sound(a, Sj) THEN {} ELSE {Inherit(Fail(c, role, j, s, "Sound", W(LAMBDA v : ~InGamma(v, a))), Sound)})
         \cup (IF ConstExact(a, Sj) THEN {} ELSE {Inherit(Fail(c, role, j, s, "ConstExact", W(LAMBDA v : v # a.rem)), ConstExact)})
         \cup (IF InTightFragment(F, S, j) /\ ~Tight(a, Sj)
               THEN {Inherit(Fail(c, role, j, s, "Tight", <<>>), Tight)} ELSE {})
         \cup (IF DesignDefined(c, F, j) /\ ~AtLeastAsPrecise(a, Design(c, F, j))
               THEN {Fail(c, role, j, s, "Precision", <<>>)} ELSE {})
         \cup (IF s.k = "op" /\ s.fn \in {"$upper_bound", "$lower_bound"} /\ ~IsConstAbs(a)
               THEN {Fail(c, role, j, s, "BoundNotConstant", <<>>)} ELSE {})
         \cup (IF s.k = "op" /\ s.fn = "$upper_bound" /\ IsConstAbs(a)
                  /\ \E v \in S[j + s.kids[1]] : v > a.rem
               THEN {Fail(c, role, j, s, "UpperBound", <<>>)} ELSE {})
         \cup (IF s.k = "op" /\ s.fn = "$lower_bound" /\ IsConstAbs(a)
                  /\ \E v \in S[j + s.kids[1]] : v < a.rem
               THEN {Fail(c, role, j, s, "LowerBound", <<>>)} ELSE {}))
      \cup (IF s.ty.t \in {"b", "e"} /\ s.ty.has /\ Sj # {s.ty.v}
            THEN {Fail(c, role, j, s, "ConstExact", W(LAMBDA v : v # s.ty.v))} ELSE {})
      \cup (IF s.ty.t = "e" /\ s.ty.huge THEN {Fail(c, role, j, s, "OutOfModelRange", <<>>)} ELSE {})
      \* constant folding raised here although it did not raise on any operand (the originating node)
      \cup (IF s.cv.exc # "" /\ \A m \in 1..Len(s.kids) : F[j + s.kids[m]].cv.exc = ""
            THEN {Fail(c, role, j, s, "ConstantValueRaised", <<>>)} ELSE {})
      \cup (IF s.cv.has /\ s.cv.huge THEN {Fail(c, role, j, s, "OutOfModelRange", <<>>)} ELSE {})
      \cup (IF s.cv.has /\ ~s.cv.huge /\ Sj # {s.cv.v}
            THEN {Fail(c, role, j, s, "ConstantValue", W(LAMBDA v : v # s.cv.v))} ELSE {})

UnknownVars(c, t) == {n \in VarsOf(t) : ~KnownVar(c, n)}

NoRes == [fails |-> {}, n |-> 0, envs |-> 0, tight |-> 0, evals |-> 0]

\* one tree: all environments, all nodes
TreeRes(c, tr) ==
  IF UnknownVars(c, tr.t) # {}
  THEN [NoRes EXCEPT !.fails = {[id |-> c.id, role |-> tr.role, node |-> 0, clause |-> "UnknownVariable",
                                 primary |-> TRUE, what |-> "", ty |-> <<>>, wit |-> <<>>]}]
  ELSE LET F == Flat(tr.t)
           E == EnvsOver(c, VarsOf(tr.t))
           Vals == {EvalAll(tr.t, rho) : rho \in E}
           S == Columns(Vals, 1, Len(F))
       IN  [fails |-> UNION {NodeFails(c, tr.role, F, S, j) : j \in 1..Len(F)},
            n |-> Len(F), envs |-> Cardinality(E), evals |-> Len(F) * Cardinality(E),
            tight |-> Cardinality({j \in 1..Len(F) : IntOK(F[j].ty) /\ F[j].k \in {"op", "var"}
                                                      /\ InTightFragment(F, S, j)})]

CaseFail(c, clause) == [id |-> c.id, role |-> "", node |-> 0, clause |-> clause, primary |-> TRUE, what |-> "", ty |-> <<>>, wit |-> <<>>]

\* the tree of `let v` must be the generated expression (guards the renderer and the recorder)
LetTrees(c) == {k \in 1..Len(c.trees) : c.trees[k].role = "f:v:value"}
RoundTripOK(c) == \E k \in LetTrees(c) : Strip(c.trees[k].t) = c.e

RECURSIVE SumTrees(_, _, _)
SumTrees(c, k, acc) ==
  IF k > Len(c.trees) THEN acc
  ELSE LET r == TreeRes(c, c.trees[k])
       IN  SumTrees(c, k + 1, [fails |-> acc.fails \cup r.fails, n |-> acc.n + r.n, envs |-> acc.envs + r.envs,
                               tight |-> acc.tight + r.tight, evals |-> acc.evals + r.evals])

CaseRes(c) ==
  IF c.status = "exception" THEN [NoRes EXCEPT !.fails = {CaseFail(c, "FrontEndException")}]
  ELSE IF c.status = "rejected" THEN [NoRes EXCEPT !.fails = {CaseFail(c, "RejectedSmall")}]
  ELSE SumTrees(c, 1, [NoRes EXCEPT !.fails = IF RoundTripOK(c) THEN {} ELSE {CaseFail(c, "RoundTrip")}])

-----------------------------------------------------------------------------
\* Constant-level on purpose: TLC evaluates (and caches) it once, with LET-sharing; the same
\* expression under a state variable is re-evaluated without sharing and is orders of magnitude slower.
Results == [k \in 1..Len(Cases) |-> CaseRes(Cases[k])]

Init == i = 0 /\ bad = 0 /\ nodes = 0 /\ envs = 0 /\ tightNodes = 0 /\ evals = 0

Step ==
  /\ i < Len(Cases)
  /\ LET r == Results[i + 1]
     IN  /\ \A f \in r.fails : PrintT(ToJson(f))
         /\ bad' = bad + Cardinality(r.fails)
         /\ nodes' = nodes + r.n
         /\ envs' = envs + r.envs
         /\ tightNodes' = tightNodes + r.tight
         /\ evals' = evals + r.evals
  /\ i' = i + 1

Next == Step

\* "invariant" used only to print the totals in the last state
Finished == i = Len(Cases) =>
              PrintT(ToJson([summary |-> TRUE, cases |-> i, failures |-> bad, nodes |-> nodes, envs |-> envs,
                             tight |-> tightNodes, evals |-> evals]))
=============================================================================
