------------------------------ MODULE BoundsGen ------------------------------
(***************************************************************************)
(* Generator of well-typed Emboss expressions (cases for the C05 binding). *)
(*                                                                         *)
(* A derivation machine for the typed expression grammar: the state is the *)
(* prefix (Polish) form written so far (`pre`) and the list of still open  *)
(* holes (`todo`, each with its type and depth); one action per operator   *)
(* kind / leaf kind expands the left-most hole.  When no hole is left,     *)
(* Emit prints the finished expression (as a tree) as JSON together with   *)
(* the variable table and the position at which the harness must place it  *)
(* in the .emb text, and the behaviour ends.                               *)
(*                                                                         *)
(*  - Exhaustive = TRUE : breadth-first search; the distinct complete      *)
(*    derivations up to MaxDepth over the full leaf catalogue ARE the      *)
(*    cases (each printed once; run with one worker);                      *)
(*  - Exhaustive = FALSE: -simulate; one behaviour = one case; constants,  *)
(*    comparison operators and positions are drawn with RandomElement      *)
(*    (seeded by -seed).                                                   *)
(*                                                                         *)
(* Family "small": leaves with at most 40 values, constants -9..9; cases   *)
(* whose magnitude bound exceeds MaxMag are not emitted, so that the       *)
(* checker can enumerate all environments with native integers.            *)
(* Family "wide": UInt/Int:62..64 and :31..33 leaves, landmark constants    *)
(* around 2^31, 2^32, 2^63, 2^64; every variable is used at most once and  *)
(* every ?: condition is a fresh one-bit flag, so interval arithmetic is   *)
(* exact.                                                                  *)
(***************************************************************************)
EXTENDS Integers, Sequences, FiniteSets, TLC, Json
B == INSTANCE BigInt

CONSTANTS Family, Exhaustive, MaxDepth, MaxMag, NVars,
          FullConsts   \* exhaustive mode: all of -9..9 (TRUE) or the landmark subset (FALSE)

VARIABLES vars, rty, pre, todo, used, done
vs == <<vars, rty, pre, todo, used, done>>

-----------------------------------------------------------------------------
(* Leaf catalogues *)

VT(k, w, p) == [k |-> k, w |-> w, param |-> p]
SmallTypes == <<VT("UInt", 2, FALSE), VT("UInt", 3, FALSE), VT("Int", 1, FALSE), VT("Int", 3, FALSE),
                VT("Bcd", 3, FALSE), VT("Bcd", 4, FALSE), VT("Bcd", 6, FALSE), VT("UInt", 3, TRUE), VT("Int", 2, TRUE)>>
WideTypes == <<VT("UInt", 64, FALSE), VT("Int", 64, FALSE), VT("UInt", 63, FALSE), VT("Int", 63, FALSE),
               VT("UInt", 62, FALSE), VT("Int", 62, FALSE), VT("UInt", 33, FALSE), VT("Int", 33, FALSE),
               VT("UInt", 32, FALSE), VT("Int", 32, FALSE), VT("UInt", 31, FALSE), VT("Int", 31, FALSE),
               VT("UInt", 64, TRUE), VT("Int", 64, TRUE), VT("UInt", 32, TRUE), VT("Int", 32, TRUE)>>
Types == IF Family = "small" THEN SmallTypes ELSE WideTypes
Names == <<"a", "b", "c", "d", "e", "f", "g", "h", "i", "j", "k", "l", "m", "n", "o", "p">>
FlagNames == <<"fa", "fb", "fc">>
\* small family: fields of the fixed skeleton that $present() may be asked about (see BoundsCheck!PresVal):
\*   pa unconditional; pb conditional; sub / osub: an unconditional / a conditional field of structure type Sub,
\*   whose member py is conditional and whose member pz is not
PresNames == <<"pa", "pb", "sub.py", "sub.pz", "osub.py", "osub.pz">>
QuickPres == {2, 3}
\* the guards the conditions of the skeleton read (one bit each); "x.gy" is the member gy of field x
GuardVars == <<[n |-> "ga", k |-> "UInt", w |-> 1, param |-> FALSE], [n |-> "gc", k |-> "UInt", w |-> 1, param |-> FALSE],
               [n |-> "sub.gy", k |-> "UInt", w |-> 1, param |-> FALSE], [n |-> "osub.gy", k |-> "UInt", w |-> 1, param |-> FALSE]>>

MagOfType(t) == CASE t.k = "UInt" -> 2 ^ t.w - 1
                  [] t.k = "Int" -> 2 ^ (t.w - 1)
                  [] t.k = "Bcd" -> (10 ^ (t.w \div 4)) * (2 ^ (t.w % 4)) - 1

SmallConsts == -9..9
QuickConsts == {-9, -1, 0, 1, 2, 9}

\* landmark constants of the wide family
P(n) == B!Pow2(n)
Plus1(x) == B!Add(x, B!One)
Minus1(x) == B!Sub(x, B!One)
Landmarks ==
  <<B!Zero, B!One, B!FromInt(2), B!FromInt(3), B!FromInt(-1), B!FromInt(-2), B!FromInt(1000),
    Minus1(P(31)), P(31), Minus1(P(32)), P(32), Plus1(P(32)), B!Neg(P(31)), B!Neg(P(32)),
    P(62), Minus1(P(63)), P(63), Plus1(P(63)), B!Neg(P(63)), B!Neg(Plus1(P(63))), B!Neg(Minus1(P(63))),
    Minus1(P(64)), P(64), Plus1(P(64)), B!Neg(P(64)), Minus1(Minus1(P(63))), Minus1(Minus1(P(64)))>>

\* definitions an expression may refer to (rendered as `struct Consts` and `enum Color`)
IntE(n) == [k |-> "int", v |-> n]
BigE(mag) == [k |-> "big", neg |-> FALSE, l |-> mag]
BoolE(b) == [k |-> "bool", v |-> b]
Op(fn, args) == [k |-> "op", fn |-> fn, args |-> args]
ConstE(c) == IF c < 0 THEN Op("-", <<IntE(0), IntE(-c)>>) ELSE IntE(c)
Defs == << [n |-> "Consts.k7", ty |-> "i", v |-> 7, e |-> IntE(7)],
           [n |-> "Consts.km3", ty |-> "i", v |-> 3, e |-> ConstE(-3)],
           [n |-> "Consts.k12", ty |-> "i", v |-> 12, e |-> Op("*", <<IntE(3), IntE(4)>>)],
           [n |-> "Consts.kt", ty |-> "b", v |-> 1, e |-> BoolE(TRUE)],
           [n |-> "Consts.klt", ty |-> "b", v |-> 1, e |-> Op("<", <<IntE(5), IntE(3)>>)],
           [n |-> "Color.RED", ty |-> "e", v |-> 3, e |-> IntE(3)],
           [n |-> "Color.BLUE", ty |-> "e", v |-> 8, e |-> Op("+", <<IntE(3), IntE(5)>>)] >>
DefsOfTy(ty) == {j \in 1..Len(Defs) : Defs[j].ty = ty}

-----------------------------------------------------------------------------
(* Derivation machine *)

Pick(S) == IF Exhaustive THEN S ELSE {RandomElement(S)}

Hole(ty, d) == [ty |-> ty, d |-> d]
\* tokens of the prefix form: leaves carry their tree, operators their arity
Leaf(e) == [leaf |-> TRUE, e |-> e, fn |-> "", n |-> 0]
Node(fn, n) == [leaf |-> FALSE, e |-> IntE(0), fn |-> fn, n |-> n]

Init ==
  /\ pre = <<>> /\ used = {} /\ done = FALSE
  /\ rty \in {"i", "b"}
  /\ todo = <<Hole(rty, 0)>>
  /\ IF Exhaustive
     THEN vars = Types
     ELSE vars \in [1..NVars -> {Types[i] : i \in 1..Len(Types)}]

Open == ~done /\ todo # <<>>
H == todo[1]
Inner == H.d < MaxDepth
\* random cases are never a bare leaf (the exhaustive family covers those)
LeafOK == Exhaustive \/ MaxDepth = 0 \/ H.d > 0
PutLeaf(e) == /\ LeafOK
              /\ pre' = Append(pre, Leaf(e))
              /\ todo' = Tail(todo)
              /\ UNCHANGED <<vars, rty, done>>
PutNode(fn, holes) == /\ Inner
                      /\ pre' = Append(pre, Node(fn, Len(holes)))
                      /\ todo' = holes \o Tail(todo)
                      /\ UNCHANGED <<vars, rty, used, done>>
Sub(ty) == Hole(ty, H.d + 1)

Var ==
  /\ Open /\ H.ty = "i"
  /\ \E i \in 1..Len(vars) :
       /\ (Family = "wide" => i \notin used)
       /\ PutLeaf([k |-> "var", n |-> Names[i]])
       /\ used' = IF Family = "wide" THEN used \cup {i} ELSE used

Const ==
  /\ Open /\ H.ty = "i" /\ UNCHANGED used
  /\ IF Family = "small"
     THEN \E c \in Pick(IF Exhaustive /\ ~FullConsts THEN QuickConsts ELSE SmallConsts) : PutLeaf(ConstE(c))
     ELSE \E j \in Pick(1..Len(Landmarks)) :
            LET x == Landmarks[j]
            IN  PutLeaf(IF x.neg THEN Op("-", <<BigE(<<>>), BigE(x.mag)>>) ELSE BigE(x.mag))

BoolConst ==
  /\ Open /\ H.ty = "b" /\ Family = "small" /\ UNCHANGED used
  /\ \E b \in Pick(BOOLEAN) : PutLeaf(BoolE(b))

Ref ==
  /\ Open /\ Family = "small" /\ UNCHANGED used
  /\ \E j \in Pick(DefsOfTy(H.ty)) : PutLeaf([k |-> "cref", n |-> Defs[j].n])

\* small family: $present(field) of one of the skeleton's fields
\* (random cases: at most one per expression -- every guard doubles the environments the checker enumerates)
Pres ==
  /\ Open /\ H.ty = "b" /\ Family = "small"
  /\ (~Exhaustive => 200 \notin used)
  /\ used' = IF Exhaustive THEN used ELSE used \cup {200}
  /\ \E j \in Pick(IF Exhaustive THEN QuickPres ELSE 1..Len(PresNames)) : PutLeaf([k |-> "pres", n |-> PresNames[j]])

\* wide family: a condition is a fresh one-bit flag compared with 0 or 1
Flag ==
  /\ Open /\ H.ty = "b" /\ Family = "wide"
  /\ \E j \in 1..Len(FlagNames) :
       /\ (100 + j) \notin used
       /\ (\A jj \in 1..(j - 1) : (100 + jj) \in used)
       /\ used' = used \cup {100 + j}
       /\ \E c \in Pick({0, 1}) :
            PutLeaf(Op("==", <<[k |-> "var", n |-> FlagNames[j]], BigE(IF c = 0 THEN <<>> ELSE <<1>>)>>))

Add == Open /\ H.ty = "i" /\ PutNode("+", <<Sub("i"), Sub("i")>>)
Subtract == Open /\ H.ty = "i" /\ PutNode("-", <<Sub("i"), Sub("i")>>)
Mul == Open /\ H.ty = "i" /\ PutNode("*", <<Sub("i"), Sub("i")>>)
Max == Open /\ H.ty = "i"
       /\ \E k \in Pick(IF Family = "wide" THEN {2} ELSE IF Exhaustive THEN {1, 2} ELSE {1, 2, 3}) :
            PutNode("$max", [i \in 1..k |-> Sub("i")])
Bound == Open /\ H.ty = "i" /\ \E fn \in Pick({"$upper_bound", "$lower_bound"}) : PutNode(fn, <<Sub("i")>>)
Choice == Open /\ (Family = "wide" => H.ty = "i")
               /\ PutNode("?:", <<Sub("b"), Sub(H.ty), Sub(H.ty)>>)
\* wide family: only as the root (conditions of ?: must stay independent one-bit flags)
CmpInt == Open /\ H.ty = "b" /\ (Family = "small" \/ H.d = 0)
          /\ \E fn \in Pick({"==", "!=", "<", "<=", ">", ">="}) : PutNode(fn, <<Sub("i"), Sub("i")>>)
CmpOther == Open /\ H.ty = "b" /\ Family = "small"
            /\ \E fn \in Pick({"==", "!="}) : \E ty \in Pick({"b", "e"}) : PutNode(fn, <<Sub(ty), Sub(ty)>>)
Logic == Open /\ H.ty = "b" /\ Family = "small"
         /\ \E fn \in {"&&", "||"} : PutNode(fn, <<Sub("b"), Sub("b")>>)

-----------------------------------------------------------------------------
(* Prefix form -> tree ; magnitude bound ; emission *)

\* parse the token sequence s from position i: <<tree, next position>>
RECURSIVE Parse(_, _)
RECURSIVE ParseArgs(_, _, _)
ParseArgs(s, i, n) ==
  IF n = 0 THEN <<<<>>, i>>
  ELSE LET first == Parse(s, i)
           rest == ParseArgs(s, first[2], n - 1)
       IN  <<<<first[1]>> \o rest[1], rest[2]>>
Parse(s, i) ==
  IF s[i].leaf THEN <<s[i].e, i + 1>>
  ELSE LET as == ParseArgs(s, i + 1, s[i].n) IN <<Op(s[i].fn, as[1]), as[2]>>

VarIdx(n) == CHOOSE i \in 1..Len(Names) : Names[i] = n
DefIdx(n) == CHOOSE j \in 1..Len(Defs) : Defs[j].n = n
MaxN(a, b) == IF a >= b THEN a ELSE b
RECURSIVE MagOf(_)
RECURSIVE MagOfArgs(_, _)
MagOfArgs(as, i) == IF i > Len(as) THEN 0 ELSE MaxN(MagOf(as[i]), MagOfArgs(as, i + 1))
MagOf(t) ==
  CASE t.k = "int" -> t.v
    [] t.k \in {"bool", "pres"} -> 0
    [] t.k = "var" -> MagOfType(vars[VarIdx(t.n)])
    [] t.k = "cref" -> Defs[DefIdx(t.n)].v
    [] t.k = "op" ->
         IF t.fn \in {"+", "-"} THEN MagOf(t.args[1]) + MagOf(t.args[2])
         ELSE IF t.fn = "*" THEN (IF MagOf(t.args[1]) > MaxMag \/ MagOf(t.args[2]) > MaxMag THEN MaxMag + 1
                                  ELSE MagOf(t.args[1]) * MagOf(t.args[2]))
         ELSE IF t.fn \in {"?:", "$max", "$upper_bound", "$lower_bound"} THEN MagOfArgs(t.args, 1)
         ELSE 0

RECURSIVE HasPres(_)
HasPres(t) == t.k = "pres" \/ (t.k = "op" /\ \E j \in 1..Len(t.args) : HasPres(t.args[j]))

\* where the harness places the expression (besides nothing else, it is always a `let`)
Positions(ty) == IF ty = "i" THEN {"let", "size", "offset"} ELSE {"let", "cond", "requires"}

Emit ==
  /\ ~done /\ todo = <<>>
  /\ LET t == Parse(pre, 1)[1]
     IN  (Family = "wide" \/ MagOf(t) <= MaxMag) =>
           \E pos \in (IF Exhaustive \/ Family = "wide" THEN {"let"} ELSE Pick(Positions(rty))) :
             PrintT(ToJson([fam |-> Family,
                            vars |-> [i \in 1..Len(vars) |-> [n |-> Names[i], k |-> vars[i].k, w |-> vars[i].w,
                                                              param |-> vars[i].param]]
                                     \o (IF HasPres(t) THEN GuardVars ELSE <<>>),
                            e |-> t, ty |-> rty, pos |-> pos]))
  /\ done' = TRUE
  /\ UNCHANGED <<vars, rty, pre, todo, used>>

\* printed once: the definitions `cref` nodes refer to
ASSUME PrintT(ToJson([defs |-> [j \in 1..Len(Defs) |-> [n |-> Defs[j].n, ty |-> Defs[j].ty, e |-> Defs[j].e]]]))

Next == \/ Var \/ Const \/ BoolConst \/ Ref \/ Flag \/ Pres
        \/ Add \/ Subtract \/ Mul \/ Max \/ Bound \/ Choice \/ CmpInt \/ CmpOther \/ Logic
        \/ Emit
=============================================================================
