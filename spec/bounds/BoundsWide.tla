------------------------------ MODULE BoundsWide ------------------------------
(***************************************************************************)
(* C05 binding, 64-bit family: the gate "every value that might be         *)
(* computed at run time fits a 64-bit signed or unsigned integer, and      *)
(* every operator can be evaluated in ONE such type together with its      *)
(* operands" (compiler-design.md "Miscellaneous Constraint Checking",      *)
(* ir_data.IntegerType: "constant subexpressions are allowed to overflow,  *)
(* as long as the final, computed constant value fits").                   *)
(*                                                                         *)
(* Cases come from BoundsGen with Family = "wide": every variable occurs   *)
(* once and every ?: condition is a fresh one-bit flag, so the interval    *)
(* arithmetic of Bounds.tla (the very definitions model-checked in         *)
(* BoundsMC for soundness AND tightness) instantiated with BigInt is       *)
(* exact.  From the GENERATED expression alone the spec computes the exact *)
(* interval of every node and predicts the gate; the real front end's      *)
(* verdict (status) and, when accepted, the bounds it recorded for every   *)
(* node are then compared:                                                 *)
(*   AcceptedButDoesNotFit : accepted although a run-time node / operator  *)
(*                           does not fit                                  *)
(*   RejectedButFits       : rejected although every node and operator     *)
(*                           (run-time or not) fits                        *)
(*   ExactBounds           : recorded minimum/maximum # exact interval     *)
(*   ConstExact            : treated as constant <=> one-point interval,   *)
(*                           with that value                               *)
(*   RoundTrip             : the tree read back is not the generated one   *)
(***************************************************************************)
EXTENDS Bounds, TLC, Json, IOUtils
B == INSTANCE BigInt

Cases == JsonDeserialize(IOEnv.CASES_FILE)

VARIABLES i, bad, nodes, gateHits
vars == <<i, bad, nodes, gateHits>>

-----------------------------------------------------------------------------
RECURSIVE PowTable(_, _)
PowTable(n, acc) == IF n > 64 THEN <<>> ELSE <<acc>> \o PowTable(n + 1, B!Add(acc, acc))
P2 == PowTable(1, B!FromInt(2))      \* P2[w] = 2^w, w in 1..64

MinS64 == B!Neg(P2[63])
MaxS64 == B!Sub(P2[63], B!One)
MaxU64 == B!Sub(P2[64], B!One)
FitsS64(iv) == B!Le(MinS64, iv.lo) /\ B!Le(iv.hi, MaxS64)
FitsU64(iv) == B!Le(B!Zero, iv.lo) /\ B!Le(iv.hi, MaxU64)
Fits64(iv) == FitsS64(iv) \/ FitsU64(iv)

FlagNames == {"fa", "fb", "fc"}
VarIv(c, n) ==
  IF n \in FlagNames THEN Iv(B!Zero, B!One)
  ELSE LET v == c.vars[CHOOSE j \in 1..Len(c.vars) : c.vars[j].n = n]
       IN  IF v.k = "UInt" THEN Iv(B!Zero, B!Sub(P2[v.w], B!One))
           ELSE Iv(B!Neg(P2[v.w - 1]), B!Sub(P2[v.w - 1], B!One))

Pt(x) == Iv(x, x)
NoIv == Iv(B!Zero, B!Zero)

\* exact interval analysis of the generated tree, pre-order, one record per node:
\* [k, fn, int (integer-valued), iv, size, kids]
RECURSIVE An(_, _)
RECURSIVE AnArgs(_, _, _)
RECURSIVE Cat(_, _)
RECURSIVE Offs(_, _, _)
Cat(ss, j) == IF j > Len(ss) THEN <<>> ELSE ss[j] \o Cat(ss, j + 1)
Offs(ss, j, off) == IF j > Len(ss) THEN <<>> ELSE <<off>> \o Offs(ss, j + 1, off + Len(ss[j]))
AnArgs(c, args, j) == IF j > Len(args) THEN <<>> ELSE <<An(c, args[j])>> \o AnArgs(c, args, j + 1)
NodeRec(k, fn, int, iv, size, kids, varies) ==
  [k |-> k, fn |-> fn, int |-> int, iv |-> iv, size |-> size, kids |-> kids, varies |-> varies]
\* can the comparison of two independent quantities with these exact intervals come out both ways?
CanBeTrue(fn, a, b) ==
  CASE fn = "<" -> B!Lt(a.lo, b.hi)
    [] fn = "<=" -> B!Le(a.lo, b.hi)
    [] fn = ">" -> B!Gt(a.hi, b.lo)
    [] fn = ">=" -> B!Ge(a.hi, b.lo)
    [] fn = "==" -> B!Le(a.lo, b.hi) /\ B!Le(b.lo, a.hi)
    [] fn = "!=" -> ~(a.lo = a.hi /\ b.lo = b.hi /\ a.lo = b.lo)
Negated(fn) == CASE fn = "<" -> ">=" [] fn = "<=" -> ">" [] fn = ">" -> "<=" [] fn = ">=" -> "<"
                 [] fn = "==" -> "!=" [] fn = "!=" -> "=="
CmpVaries(fn, a, b) == CanBeTrue(fn, a, b) /\ CanBeTrue(Negated(fn), a, b)
An(c, t) ==
  CASE t.k = "big" -> <<NodeRec("big", "", TRUE, Pt(B!FromLimbs(t.neg, t.l)), 1, <<>>, FALSE)>>
    [] t.k = "var" -> <<NodeRec("var", "", TRUE, VarIv(c, t.n), 1, <<>>, TRUE)>>
    [] t.k = "op" ->
         LET subs == AnArgs(c, t.args, 1)
             all == Cat(subs, 1)
             a(m) == subs[m][1].iv
             iv == CASE t.fn = "+" -> IvAddG(B!Add, a(1), a(2))
                     [] t.fn = "-" -> IvSubG(B!Sub, a(1), a(2))
                     [] t.fn = "*" -> IvMulG(B!Mul, B!MinOfSeq, B!MaxOfSeq, a(1), a(2))
                     [] t.fn = "?:" -> IvHullG(B!MinOfSeq, B!MaxOfSeq, a(2), a(3))
                     [] t.fn = "$max" -> IvMaxG(B!MaxOfSeq, a(1), a(2))
                     [] t.fn = "$upper_bound" -> Pt(a(1).hi)
                     [] t.fn = "$lower_bound" -> Pt(a(1).lo)
                     [] OTHER -> NoIv
             varies == IF t.fn \in IntFns THEN iv.lo # iv.hi ELSE CmpVaries(t.fn, a(1), a(2))
         IN  <<NodeRec("op", t.fn, t.fn \in IntFns, iv, 1 + Len(all), Offs(subs, 1, 1), varies)>> \o all

\* not evaluated at run time under any reading: a one-point integer, or a comparison that can
\* only come out one way
IsConstNode(x) == IF x.int THEN x.iv.lo = x.iv.hi ELSE ~x.varies

\* nodes that are evaluated at run time: reachable from the root through non-constant nodes
RECURSIVE RunTime(_, _)
RunTime(X, j) ==
  {j} \cup (IF IsConstNode(X[j]) THEN {}
            ELSE UNION {RunTime(X, j + X[j].kids[m]) : m \in 1..Len(X[j].kids)})

IntParts(X, j) == (IF X[j].int THEN {j} ELSE {}) \cup
                  {j + X[j].kids[m] : m \in {m \in 1..Len(X[j].kids) : X[j + X[j].kids[m]].int}}
OpFits(X, j) == (\A p \in IntParts(X, j) : FitsS64(X[p].iv)) \/ (\A p \in IntParts(X, j) : FitsU64(X[p].iv))

NodeOK(X, j) == /\ X[j].int => Fits64(X[j].iv)
                /\ (X[j].k = "op" /\ ~IsConstNode(X[j])) => OpFits(X, j)
\* the documented gate, on the nodes that are evaluated at run time
GateHolds(X) == \A j \in RunTime(X, 1) : NodeOK(X, j)
\* most permissive reading: something, somewhere (constant subexpressions included), does not fit
SomethingDoesNotFit(X) == \E j \in 1..Len(X) : ~(/\ X[j].int => Fits64(X[j].iv)
                                                 /\ X[j].k = "op" => OpFits(X, j))

-----------------------------------------------------------------------------
(* the recorded tree *)

RECURSIVE Strip(_)
RECURSIVE StripArgs(_, _)
StripArgs(args, j) == IF j > Len(args) THEN <<>> ELSE <<Strip(args[j])>> \o StripArgs(args, j + 1)
Strip(t) ==
  CASE t.k = "big" -> [k |-> "big", neg |-> t.neg, l |-> t.l]
    [] t.k = "var" -> [k |-> "var", n |-> t.n]
    [] t.k = "vref" -> IF t.e.k = "var" THEN [k |-> "var", n |-> t.e.n] ELSE [k |-> "vref", n |-> t.n]
    [] t.k = "op" -> [k |-> "op", fn |-> t.fn, args |-> StripArgs(t.args, 1)]
    [] OTHER -> [k |-> t.k]

\* recorded annotations in the pre-order of the generated tree (alias references collapsed)
RECURSIVE Tys(_)
RECURSIVE TysArgs(_, _)
TysArgs(args, j) == IF j > Len(args) THEN <<>> ELSE Tys(args[j]) \o TysArgs(args, j + 1)
Tys(t) == IF t.k = "op" THEN <<t.ty>> \o TysArgs(t.args, 1) ELSE <<t.ty>>

Fail(c, j, x, clause, ty) ==
  [id |-> c.id, node |-> j, clause |-> clause, what |-> IF x.k = "op" THEN x.fn ELSE x.k,
   lo |-> x.iv.lo, hi |-> x.iv.hi, ty |-> ty]

ExtToBig(e) == B!FromLimbs(e.neg, e.l)

RecordedFails(c, X, T) ==
  UNION {
    LET x == X[j]
        ty == T[j]
    IN  IF ~x.int \/ ty.t # "i" THEN {}
        ELSE IF ty.missing THEN {Fail(c, j, x, "Missing", ty)}
        ELSE (IF ty.min.inf = 0 /\ ty.max.inf = 0 /\ ExtToBig(ty.min) = x.iv.lo /\ ExtToBig(ty.max) = x.iv.hi
              THEN {} ELSE {Fail(c, j, x, "ExactBounds", ty)})
             \cup (IF ty.modinf = IsConstNode(x) /\ (ty.modinf => B!FromLimbs(ty.rem.neg, ty.rem.l) = x.iv.lo)
                   THEN {} ELSE {Fail(c, j, x, "ConstExact", ty)})
    : j \in 1..Len(X)}

LetTrees(c) == {k \in 1..Len(c.trees) : c.trees[k].role = "f:v:value"}

CaseRes(c) ==
  LET X == An(c, c.e)
      gate == GateHolds(X)
      base == [fails |-> {}, n |-> Len(X), gate |-> IF gate THEN 0 ELSE 1]
      CF(clause) == [id |-> c.id, node |-> 0, clause |-> clause, what |-> "", lo |-> B!Zero, hi |-> B!Zero, ty |-> <<>>]
  IN  IF c.status = "exception" THEN [base EXCEPT !.fails = {CF("FrontEndException")}]
      ELSE IF c.status = "rejected"
           THEN [base EXCEPT !.fails = IF SomethingDoesNotFit(X) THEN {} ELSE {CF("RejectedButFits")}]
      ELSE [base EXCEPT !.fails =
              (IF gate THEN {} ELSE {CF("AcceptedButDoesNotFit")})
              \cup (IF LetTrees(c) = {} THEN {CF("RoundTrip")}
                    ELSE LET t == c.trees[CHOOSE k \in LetTrees(c) : TRUE].t
                         IN  IF Strip(t) # c.e THEN {CF("RoundTrip")}
                             ELSE RecordedFails(c, X, Tys(t)))]

Results == [k \in 1..Len(Cases) |-> CaseRes(Cases[k])]

Init == i = 0 /\ bad = 0 /\ nodes = 0 /\ gateHits = 0
Next ==
  /\ i < Len(Cases)
  /\ LET r == Results[i + 1]
     IN  /\ \A f \in r.fails : PrintT(ToJson(f))
         /\ bad' = bad + Cardinality(r.fails)
         /\ nodes' = nodes + r.n
         /\ gateHits' = gateHits + r.gate
  /\ i' = i + 1

Finished == i = Len(Cases) =>
              PrintT(ToJson([summary |-> TRUE, cases |-> i, failures |-> bad, nodes |-> nodes,
                             predictedRejects |-> gateHits]))
=============================================================================
