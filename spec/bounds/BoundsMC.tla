------------------------------ MODULE BoundsMC ------------------------------
(***************************************************************************)
(* Design-level check of the transfer functions of Bounds.tla.             *)
(*                                                                         *)
(* The abstract interpreter is run as a stack machine that evaluates an    *)
(* expression bottom-up, one action per operator kind.  Every stack entry  *)
(* carries the abstract value `a` the interpreter computed and the exact   *)
(* set `S` of values the sub-expression can take (collecting semantics;    *)
(* each pushed leaf is a fresh variable, so operands are independent -     *)
(* exactly the "every variable occurs once" fragment).                     *)
(*                                                                         *)
(*   SoundInv : Sound(a, S)      -- Sound(args) => Sound(result), by       *)
(*                                  induction along every run              *)
(*   TightInv : Tight(a, S)      -- for entries whose S is the exact       *)
(*                                  concretisation (no window)             *)
(*   WFInv    : WellFormed(a)    -- IR contract                            *)
(*   BoundInv : $upper_bound / $lower_bound results bound the argument     *)
(*                                                                         *)
(* PushAny pushes an arbitrary normalised abstract value with S = Gamma(a) *)
(* (the largest set it is sound for), so the theorem is checked for all    *)
(* small abstract arguments, not only for those reachable from leaves.     *)
(* PushWindow pushes half-/unbounded abstract values with S = a finite     *)
(* window of the concretisation (soundness only).                          *)
(* Two configurations are run: "theorem" (all pushes, MaxOps = 1: one      *)
(* application of every transfer function to every pair of small abstract  *)
(* arguments) and "compose" (leaves and constants only, MaxOps = 2).       *)
(***************************************************************************)
EXTENDS Bounds, TLC

CONSTANTS V,        \* PushAny intervals lie within -V..V
          ModMax,   \* moduli 1..ModMax and "infinity"
          C,        \* constants -C..C
          MaxOps,   \* number of operator applications per run
          W,        \* window for unbounded abstract values
          VW,       \* finite ends of half-bounded abstract values lie within -VW..VW
          MaxStk,   \* stack bound (3 lets $max take three arguments)
          Pushes    \* subset of {"leaf", "const", "any", "window"}: which push actions are on

VARIABLES stk, nops
vars == <<stk, nops>>

LeafTypes == {<<"UInt", 1>>, <<"UInt", 2>>, <<"UInt", 3>>, <<"Int", 1>>, <<"Int", 2>>, <<"Int", 3>>,
              <<"Bcd", 3>>, <<"Bcd", 4>>, <<"Bcd", 5>>}

\* normalised abstract values with finite bounds: min == max == rem (mod m), min < max
SmallAbs ==
  {Abs(Fin(t[1]), Fin(t[2]), t[3], t[1] % t[3]) :
     t \in {u \in (-V..V) \X (-V..V) \X (1..ModMax) : u[1] < u[2] /\ (u[2] - u[1]) % u[3] = 0}}

\* abstract values with an infinite bound (any remainder)
ExtBounds == {Fin(n) : n \in -VW..VW}
WindowAbs ==
  {Abs(t[1], t[2], t[3], t[4]) :
     t \in {u \in ({NegInf} \cup ExtBounds) \X ({PosInf} \cup ExtBounds) \X (1..ModMax) \X (0..(ModMax - 1)) :
              (u[1] = NegInf \/ u[2] = PosInf) /\ u[4] < u[3]}}

Entry(a, S, exact) == [a |-> a, S |-> S, exact |-> exact, bk |-> "", argS |-> {}]
BoundEntry(a, S, bk, argS) == [a |-> a, S |-> S, exact |-> TRUE, bk |-> bk, argS |-> argS]

Init == stk = <<>> /\ nops = 0

Push(e) == /\ Len(stk) < MaxStk /\ nops < MaxOps
           /\ stk' = Append(stk, e)
           /\ UNCHANGED nops

PushLeaf == "leaf" \in Pushes /\ \E t \in LeafTypes : Push(Entry(LeafAbs(t[1], t[2]), LeafRange(t[1], t[2]), TRUE))
PushConst == "const" \in Pushes /\ \E c \in -C..C : Push(Entry(ConstAbs(c), {c}, TRUE))
PushAny == "any" \in Pushes /\ \E a \in SmallAbs : Push(Entry(a, Gamma(a), TRUE))
PushWindow == "window" \in Pushes /\ \E a \in WindowAbs :
                Push(Entry(a, {v \in -W..W : InGamma(v, a)}, FALSE))

Top2 == <<stk[Len(stk) - 1], stk[Len(stk)]>>
Replace2(e) == /\ stk' = Append(SubSeq(stk, 1, Len(stk) - 2), e)
               /\ nops' = nops + 1
Replace1(e) == /\ stk' = Append(SubSeq(stk, 1, Len(stk) - 1), e)
               /\ nops' = nops + 1

Bin(T(_, _), F(_, _)) ==
  /\ Len(stk) >= 2 /\ nops < MaxOps
  /\ LET l == Top2[1]
         r == Top2[2]
     IN  Replace2(Entry(T(l.a, r.a), {F(x, y) : x \in l.S, y \in r.S}, l.exact /\ r.exact))

Add == Bin(TAdd, LAMBDA x, y : x + y)
Sub == Bin(TSub, LAMBDA x, y : x - y)
Mul == Bin(TMul, LAMBDA x, y : x * y)
Max2 == Bin(TMax2, LAMBDA x, y : IF x >= y THEN x ELSE y)

\* condition not known at compile time and independent of the branches: either branch
ChoiceFree ==
  /\ Len(stk) >= 2 /\ nops < MaxOps
  /\ LET l == Top2[1]
         r == Top2[2]
     IN  Replace2(Entry(TChoice(l.a, r.a), l.S \cup r.S, l.exact /\ r.exact))

ChoiceKnown ==
  /\ Len(stk) >= 2 /\ nops < MaxOps
  /\ \E c \in BOOLEAN :
       LET l == Top2[1]
           r == Top2[2]
       IN  Replace2(Entry(TChoiceKnown(c, l.a, r.a), IF c THEN l.S ELSE r.S,
                          IF c THEN l.exact ELSE r.exact))

\* $max over the whole stack (1 to MaxStk arguments)
RECURSIVE MaxOfVals(_)
MaxOfVals(xs) == IF Len(xs) = 1 THEN xs[1] ELSE LET m == MaxOfVals(Tail(xs)) IN IF xs[1] >= m THEN xs[1] ELSE m
RECURSIVE Tuples(_, _)
Tuples(es, j) == IF j > Len(es) THEN {<<>>} ELSE {<<x>> \o t : x \in es[j].S, t \in Tuples(es, j + 1)}
MaxN == /\ Len(stk) >= 1 /\ nops < MaxOps
        /\ stk' = <<Entry(TMax([j \in 1..Len(stk) |-> stk[j].a]),
                          {MaxOfVals(t) : t \in Tuples(stk, 1)},
                          \A j \in 1..Len(stk) : stk[j].exact)>>
        /\ nops' = nops + 1

\* $upper_bound(x) / $lower_bound(x) are the constants max / min of x's annotation
Upper == /\ Len(stk) >= 1 /\ nops < MaxOps
         /\ LET x == stk[Len(stk)]
            IN  /\ IsFin(x.a.max)
                /\ Replace1(BoundEntry(TUpper(x.a), {x.a.max.v}, "ub", x.S))
Lower == /\ Len(stk) >= 1 /\ nops < MaxOps
         /\ LET x == stk[Len(stk)]
            IN  /\ IsFin(x.a.min)
                /\ Replace1(BoundEntry(TLower(x.a), {x.a.min.v}, "lb", x.S))

Next == \/ PushLeaf \/ PushConst \/ PushAny \/ PushWindow
        \/ Add \/ Sub \/ Mul \/ Max2 \/ MaxN \/ ChoiceFree \/ ChoiceKnown \/ Upper \/ Lower

-----------------------------------------------------------------------------
SoundInv == \A i \in 1..Len(stk) : Sound(stk[i].a, stk[i].S)
TightInv == \A i \in 1..Len(stk) : stk[i].exact => Tight(stk[i].a, stk[i].S)
WFInv == \A i \in 1..Len(stk) : WellFormed(stk[i].a)
ConstInv == \A i \in 1..Len(stk) : stk[i].exact => ConstExact(stk[i].a, stk[i].S)
\* exact entries with a one-point value set are recognised as constants
SingletonInv == \A i \in 1..Len(stk) :
                  (stk[i].exact /\ Cardinality(stk[i].S) = 1) => IsConstAbs(stk[i].a)

\* $upper_bound / $lower_bound really bound every value of their argument
BoundInv == \A i \in 1..Len(stk) :
              /\ stk[i].bk = "ub" => \A v \in stk[i].argS : v <= stk[i].a.rem
              /\ stk[i].bk = "lb" => \A v \in stk[i].argS : v >= stk[i].a.rem

\* examples from the documentation / proof
ASSUME TMul(Abs(Fin(3), Fin(33), 5, 3), ConstAbs(4)) = Abs(Fin(12), Fin(132), 20, 12)
ASSUME TAdd(LeafAbs("UInt", 8), ConstAbs(1)) = Abs(Fin(1), Fin(256), 1, 0)
ASSUME TMax2(LeafAbs("UInt", 8), ConstAbs(500)) = ConstAbs(500)
ASSUME LeafHi("Bcd", 7) = 79 /\ LeafLo("Int", 4) = -8 /\ LeafHi("Int", 4) = 7 /\ LeafHi("UInt", 8) = 255
ASSUME SharedCong(Abs(Fin(7), Fin(19), 12, 7), Abs(Fin(15), Fin(35), 20, 15)) = <<4, 3>>
ASSUME SharedCong(ConstAbs(10), ConstAbs(7)) = <<3, 1>>
ASSUME SharedCong(ConstAbs(4), ConstAbs(4)) = <<0, 4>>
=============================================================================
