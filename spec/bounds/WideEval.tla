------------------------------ MODULE WideEval ------------------------------
(***************************************************************************)
(* C05 / C01 binding at 64-bit scale: the VALUE the generated C++ computes *)
(* for an expression.                                                      *)
(*                                                                         *)
(* Cases are the ACCEPTED modules of the BoundsGen "wide" family (leaves   *)
(* UInt/Int of 31..33 and 62..64 bits, landmark constants around 2^31,     *)
(* 2^32, 2^63, 2^64, every variable once, ?: conditions are one-bit        *)
(* flags).  For each, the harness set the leaves to landmark values        *)
(* through the real generated view (Write), read the virtual field         *)
(* `let v = <expression>` back and recorded Ok() and the value in decimal. *)
(* TLC evaluates the expression over the integers (BigInt) and compares:   *)
(*   ValueKnown            every leaf is readable, so v must be Ok()       *)
(*   ValueEqualsReference  Read() = the mathematical value                 *)
(* This is the consequence C05 draws from the 64-bit gate ("every run-time *)
(* subexpression fits one 64-bit type together with its operands"): if the *)
(* back end picks a C++ type that is too narrow, or the wrong signedness,  *)
(* for an intermediate result, the value read differs.                     *)
(***************************************************************************)
EXTENDS Integers, Sequences, FiniteSets, TLC, Json, IOUtils
B == INSTANCE BigInt

Cases == JsonDeserialize(IOEnv.CASES_FILE)

VARIABLES i, bad, evals
vars == <<i, bad, evals>>

RECURSIVE PowTable(_, _)
PowTable(n, acc) == IF n > 64 THEN <<>> ELSE <<acc>> \o PowTable(n + 1, B!Add(acc, acc))
P2 == PowTable(1, B!FromInt(2))      \* P2[w] = 2^w, w in 1..64

FlagNames == {"fa", "fb", "fc"}
VarOf(c, n) == c.vars[CHOOSE j \in 1..Len(c.vars) : c.vars[j].n = n]
\* static bounds of a leaf (for $upper_bound / $lower_bound of a leaf)
LeafLo(c, n) == IF n \in FlagNames \/ VarOf(c, n).k = "UInt" THEN B!Zero ELSE B!Neg(P2[VarOf(c, n).w - 1])
LeafHi(c, n) == IF n \in FlagNames THEN B!One
                ELSE IF VarOf(c, n).k = "UInt" THEN B!Sub(P2[VarOf(c, n).w], B!One)
                ELSE B!Sub(P2[VarOf(c, n).w - 1], B!One)

ValOf(env, n) == LET x == env.vals[CHOOSE j \in 1..Len(env.vals) : env.vals[j].n = n] IN B!FromLimbs(x.neg, x.l)

IntFns == {"+", "-", "*", "?:", "$max", "$upper_bound", "$lower_bound"}
IsInt(t) == t.k \in {"big", "var"} \/ (t.k = "op" /\ t.fn \in IntFns)

(* exact static interval [lo, hi] of an integer subexpression (single-occurrence expressions: interval
   arithmetic is exact); needed for $upper_bound / $lower_bound *)
RECURSIVE Lo(_, _), Hi(_, _)
Corners(c, a, b) == <<B!Mul(Lo(c, a), Lo(c, b)), B!Mul(Lo(c, a), Hi(c, b)), B!Mul(Hi(c, a), Lo(c, b)), B!Mul(Hi(c, a), Hi(c, b))>>
Lo(c, t) ==
  CASE t.k = "big" -> B!FromLimbs(t.neg, t.l)
    [] t.k = "var" -> LeafLo(c, t.n)
    [] t.fn = "+" -> B!Add(Lo(c, t.args[1]), Lo(c, t.args[2]))
    [] t.fn = "-" -> B!Sub(Lo(c, t.args[1]), Hi(c, t.args[2]))
    [] t.fn = "*" -> B!MinOfSeq(Corners(c, t.args[1], t.args[2]))
    [] t.fn = "?:" -> B!Min(Lo(c, t.args[2]), Lo(c, t.args[3]))
    [] t.fn = "$max" -> B!Max(Lo(c, t.args[1]), Lo(c, t.args[2]))
    [] t.fn = "$upper_bound" -> Hi(c, t.args[1])
    [] t.fn = "$lower_bound" -> Lo(c, t.args[1])
Hi(c, t) ==
  CASE t.k = "big" -> B!FromLimbs(t.neg, t.l)
    [] t.k = "var" -> LeafHi(c, t.n)
    [] t.fn = "+" -> B!Add(Hi(c, t.args[1]), Hi(c, t.args[2]))
    [] t.fn = "-" -> B!Sub(Hi(c, t.args[1]), Lo(c, t.args[2]))
    [] t.fn = "*" -> B!MaxOfSeq(Corners(c, t.args[1], t.args[2]))
    [] t.fn = "?:" -> B!Max(Hi(c, t.args[2]), Hi(c, t.args[3]))
    [] t.fn = "$max" -> B!Max(Hi(c, t.args[1]), Hi(c, t.args[2]))
    [] t.fn = "$upper_bound" -> Hi(c, t.args[1])
    [] t.fn = "$lower_bound" -> Lo(c, t.args[1])

(* the mathematical value *)
RECURSIVE EvI(_, _, _), EvB(_, _, _)
EvI(c, env, t) ==
  CASE t.k = "big" -> B!FromLimbs(t.neg, t.l)
    [] t.k = "var" -> ValOf(env, t.n)
    [] t.fn = "+" -> B!Add(EvI(c, env, t.args[1]), EvI(c, env, t.args[2]))
    [] t.fn = "-" -> B!Sub(EvI(c, env, t.args[1]), EvI(c, env, t.args[2]))
    [] t.fn = "*" -> B!Mul(EvI(c, env, t.args[1]), EvI(c, env, t.args[2]))
    [] t.fn = "?:" -> IF EvB(c, env, t.args[1]) THEN EvI(c, env, t.args[2]) ELSE EvI(c, env, t.args[3])
    [] t.fn = "$max" -> B!Max(EvI(c, env, t.args[1]), EvI(c, env, t.args[2]))
    [] t.fn = "$upper_bound" -> Hi(c, t.args[1])
    [] t.fn = "$lower_bound" -> Lo(c, t.args[1])
EvB(c, env, t) ==
  CASE t.k = "bool" -> t.v
    [] t.fn = "&&" -> EvB(c, env, t.args[1]) /\ EvB(c, env, t.args[2])
    [] t.fn = "||" -> EvB(c, env, t.args[1]) \/ EvB(c, env, t.args[2])
    [] t.fn \in {"==", "!="} /\ ~IsInt(t.args[1]) ->
         (EvB(c, env, t.args[1]) = EvB(c, env, t.args[2])) = (t.fn = "==")
    [] OTHER ->
         LET x == B!Cmp(EvI(c, env, t.args[1]), EvI(c, env, t.args[2])) IN
         CASE t.fn = "==" -> x = 0 [] t.fn = "!=" -> x # 0 [] t.fn = "<" -> x < 0
           [] t.fn = "<=" -> x <= 0 [] t.fn = ">" -> x > 0 [] t.fn = ">=" -> x >= 0

Got(env) == B!FromDecDigits(env.neg, env.d)

EnvFails(c, k) ==
  LET env == c.envs[k] IN
  IF env.kind = "U" THEN {[id |-> c.id, env |-> k, clause |-> "ValueKnown", want |-> <<>>, got |-> <<>>]}
  ELSE IF IsInt(c.e)
       THEN (IF env.kind = "I" /\ Got(env) = EvI(c, env, c.e) THEN {}
             ELSE {[id |-> c.id, env |-> k, clause |-> "ValueEqualsReference",
                    want |-> [neg |-> EvI(c, env, c.e).neg, d |-> B!ToDecDigits(EvI(c, env, c.e))], got |-> [kind |-> env.kind, neg |-> env.neg, d |-> env.d]]})
       ELSE (IF env.kind = "B" /\ (env.d = <<1>>) = EvB(c, env, c.e) THEN {}
             ELSE {[id |-> c.id, env |-> k, clause |-> "ValueEqualsReference",
                    want |-> [b |-> EvB(c, env, c.e)], got |-> [kind |-> env.kind, neg |-> env.neg, d |-> env.d]]})

CaseFails(c) == UNION {EnvFails(c, k) : k \in 1..Len(c.envs)}

Init == i = 0 /\ bad = 0 /\ evals = 0
Next ==
  /\ i < Len(Cases)
  /\ LET f == CaseFails(Cases[i + 1])
     IN  /\ \A x \in f : PrintT(ToJson(x))
         /\ bad' = bad + Cardinality(f)
         /\ evals' = evals + Len(Cases[i + 1].envs)
  /\ i' = i + 1

Finished == i = Len(Cases) => PrintT(ToJson([summary |-> TRUE, cases |-> i, failures |-> bad, evals |-> evals]))
=============================================================================
