------------------------------ MODULE ScopeGen ------------------------------
(***************************************************************************)
(* Case generator for C12 (direction G).                                   *)
(*                                                                         *)
(* Tree number t is a deterministic function (the hash below) of GEN_SALT  *)
(* and t: on top of a base (prelude; an imported module with a struct and  *)
(* an enum; the main module importing it) NSTEPS definitions are added to  *)
(* the main module -- types at module level or nested, fields with or      *)
(* without abbreviation whose types are written as Type, Outer.Inner or    *)
(* imp.Type, arrays, `let` aliases and values, parameters, enum values,    *)
(* an anonymous bits, an inline enum -- all names from pools of three or   *)
(* four per kind, so that reuse across sibling, nested, imported and       *)
(* prelude scopes (and duplicates) happens by itself.                      *)
(*                                                                         *)
(* For every tree the candidate reference sites are all (scope, slot,      *)
(* form, path) with path from the pools below; a hash keeps about one in   *)
(* SITE_MOD.  A site is realised as a FRESH member s<k> / SK<k> of the     *)
(* scope whose start / size / condition / array length / type / value /    *)
(* [requires] is the path (so it cannot create dependency cycles and does  *)
(* not disturb other references), or as a [requires] of the structure.     *)
(*                                                                         *)
(* Emitted programs: a tree that Scope rejects by itself is emitted alone; *)
(* otherwise ONE program with all kept sites that Scope resolves, and one  *)
(* program per kept site that Scope rejects (so every expected failure is  *)
(* observed in isolation).  Which is which is decided here by Scope's own  *)
(* operators; ScopeCheck recomputes everything from the emitted program.   *)
(***************************************************************************)
EXTENDS Scope, Json, IOUtils

EnvNat(name, dflt) == IF name \in DOMAIN IOEnv THEN atoi(IOEnv[name]) ELSE dflt
GSALT == EnvNat("GEN_SALT", 0)
GLO == EnvNat("GEN_LO", 0)
GCNT == EnvNat("GEN_CNT", 4)
SITEMOD == EnvNat("GEN_SITE_MOD", 12)
MAXFAIL == EnvNat("GEN_MAX_FAIL", 10)

HP == 46337
H(x) == CHOOSE v \in {(y * y + y * 3 + 12345) % HP : y \in {x % HP}} : TRUE
Rnd(salt, a, b) == H(H(H(salt) + a * 7 + 3) + b * 11 + 5)
Pick(seq, salt, a, b) == seq[(Rnd(salt, a, b) % Len(seq)) + 1]

TNs == <<"Aa", "Bb", "Cc", "UInt">>
FNs == <<"xx", "yy", "zz">>
ANs == <<"ab", "xx", "cd">>
VNs == <<"VA", "VB">>
Camel(f) == CASE f = "xx" -> "Xx" [] f = "yy" -> "Yy" [] f = "zz" -> "Zz" [] f = "ww" -> "Ww" [] OTHER -> "Qq"

Def(kind, name, parent) ==
    [kind |-> kind, name |-> name, parent |-> parent, abbr |-> <<>>, arr |-> FALSE, inl |-> FALSE,
     tyd |-> 0, target |-> 0, refs |-> <<>>, site |-> FALSE]
Ref(slot, form, path) == [slot |-> slot, form |-> form, path |-> path]
TyRef(path) == <<Ref("type", "type", path)>>

MainId == 12
BaseDefs(salt) ==
    <<Def("mod", "", 0), Def("ext", "UInt", 1), Def("ext", "Int", 1), Def("ext", "Flag", 1),
      Def("ext", "Bcd", 1), Def("ext", "Float", 1),
      Def("mod", "imp.emb", 0),
      Def("struct", Pick(<<"Aa", "Bb">>, salt, 90, 1), 7),
      [Def("field", Pick(FNs, salt, 90, 2), 8) EXCEPT !.refs = TyRef(<<"UInt">>)],
      Def("enum", Pick(<<"Cc", "Dd">>, salt, 90, 3), 7),
      Def("val", Pick(VNs, salt, 90, 4), 10),
      Def("mod", "m.emb", 0),
      [Def("imp", "imp", MainId) EXCEPT !.target = 7]>>

InMain(defs, i) == i = MainId \/ (defs[i].parent # 0 /\ \E k \in DOMAIN Up([defs |-> defs], i) : Up([defs |-> defs], i)[k] = MainId)
DepthOf(defs, i) == Len(Up([defs |-> defs], i)) - 1
SortedIds(S) == CHOOSE q \in {TLCEval([k \in 1 .. Cardinality(T) |-> CHOOSE x \in T : Cardinality({y \in T : y < x}) = k - 1]) : T \in {TLCEval(S)}} : TRUE

MainOfKinds(defs, kinds) == SortedIds({i \in DOMAIN defs : i > MainId /\ defs[i].kind \in kinds /\ InMain(defs, i)})

TypePathPool ==
    <<<<"UInt">>, <<"UInt">>, <<"UInt">>, <<"Flag">>, <<"Aa">>, <<"Bb">>, <<"Cc">>, <<"Aa">>, <<"Bb">>,
      <<"Aa", "Bb">>, <<"Bb", "Aa">>, <<"Aa", "Cc">>, <<"imp", "Aa">>, <<"imp", "Bb">>, <<"imp", "Cc">>, <<"Xx">>>>

(* names already defined in scope s (fields, abbreviations, hoisted fields, types) *)
UsedIn(defs, s) ==
    UNION {{defs[c].name} \cup {defs[c].abbr[k] : k \in DOMAIN defs[c].abbr}
           \cup (IF defs[c].kind = "anon"
                 THEN UNION {{defs[g].name} \cup {defs[g].abbr[k] : k \in DOMAIN defs[g].abbr} :
                                g \in {h \in DOMAIN defs : defs[h].parent = c}}
                 ELSE {}) :
              c \in {d \in DOMAIN defs : defs[d].parent = s}}

(* seven times out of eight a name that is still free in the scope, else any name of the pool *)
Fresh(pool, used, salt, i, b) ==
    LET free == SelectSeq(pool, LAMBDA x : x \notin used)
    IN  IF free # <<>> /\ Rnd(salt, i, b) % 8 # 0 THEN Pick(free, salt, i, b + 20) ELSE Pick(pool, salt, i, b + 20)

FPool == <<"xx", "yy", "zz", "ww">>
TPool == <<"Aa", "Bb", "Cc", "Dd">>

(* the path Outer.Inner of a type of the main module *)
TailOf(defs, i) == SubSeq(Canon([defs |-> defs], i), 2, Len(Canon([defs |-> defs], i)))

FieldType(defs, salt, i) ==
    LET types == MainOfKinds(defs, {"struct", "bits", "enum"})
        r == Rnd(salt, i, 8) % 16
    IN  IF r < 6 \/ (types = <<>> /\ r # 6) THEN <<"UInt">>
        ELSE IF r = 6 THEN Pick(TypePathPool, salt, i, 10)
        ELSE IF r = 7 THEN <<"imp", defs[8 + 2 * (Rnd(salt, i, 10) % 2)].name>>
        ELSE IF r < 11 THEN <<defs[Pick(types, salt, i, 10)].name>>
        ELSE TailOf(defs, Pick(types, salt, i, 10))

(* one construction step *)
Grow(defs, salt, i) ==
    LET act == Rnd(salt, i, 1) % 11
        structs == MainOfKinds(defs, {"struct", "bits"})
        plainStructs == MainOfKinds(defs, {"struct"})
        enums == MainOfKinds(defs, {"enum"})
        n == Len(defs)
        newType(kind) ==
            LET parents == <<MainId>> \o SelectSeq(plainStructs, LAMBDA s : DepthOf(defs, s) < 2)
                par == Pick(parents, salt, i, 2)
            IN  defs \o <<Def(kind, IF Rnd(salt, i, 9) % 20 = 0 THEN "UInt" ELSE Fresh(TPool, UsedIn(defs, par), salt, i, 3), par)>>
                     \o (IF kind = "enum" THEN <<Def("val", Pick(VNs, salt, i, 12), n + 1)>> ELSE <<>>)   \* an enum needs a value
        s1 == Pick(structs, salt, i, 2)
        ps == Pick(plainStructs, salt, i, 2)
        fname(s) == Fresh(FPool, UsedIn(defs, s), salt, i, 3)
        abbr(s) == IF Rnd(salt, i, 4) % 3 = 0 THEN <<Fresh(ANs, UsedIn(defs, s) \cup {fname(s)}, salt, i, 5)>> ELSE <<>>
        fieldsOf(s) == SelectSeq(MainOfKinds(defs, {"field", "virt"}), LAMBDA f : defs[f].parent = s)
    IN  IF act \in {0, 1} \/ structs = <<>> THEN newType(Pick(<<"struct", "struct", "struct", "enum", "bits">>, salt, i, 6))
        ELSE IF act \in {2, 3, 4} THEN
            defs \o <<[Def("field", fname(s1), s1) EXCEPT !.abbr = abbr(s1), !.arr = Rnd(salt, i, 7) % 8 = 0,
                                                        !.refs = TyRef(FieldType(defs, salt, i))]>>
        ELSE IF act = 5 THEN
            defs \o <<[Def("virt", fname(s1), s1) EXCEPT !.refs =
                         IF fieldsOf(s1) = <<>> \/ Rnd(salt, i, 7) % 8 = 0
                         THEN <<Ref("value", "static", <<"imp", defs[10].name, defs[11].name>>)>>
                         ELSE IF Rnd(salt, i, 7) % 8 \in {1, 2, 3}
                         THEN (* `let v = f.g`: an alias of a member of an existing field *)
                              <<Ref("alias", "field", <<defs[Pick(fieldsOf(s1), salt, i, 8)].name, Pick(FPool, salt, i, 9)>>)>>
                         ELSE <<Ref("alias", "field", <<defs[Pick(fieldsOf(s1), salt, i, 8)].name>>)>>]>>
        ELSE IF act = 6 THEN defs \o <<[Def("param", fname(s1), s1) EXCEPT !.refs = TyRef(<<"UInt">>)]>>   \* `name: UInt:8`
        ELSE IF act = 7 THEN
            IF enums = <<>> THEN newType("enum")
            ELSE defs \o <<Def("val", Fresh(VNs, UsedIn(defs, Pick(enums, salt, i, 2)), salt, i, 3), Pick(enums, salt, i, 2))>>
        ELSE IF act = 8 THEN
            IF plainStructs = <<>> \/ \E a \in DOMAIN defs : defs[a].kind = "anon" /\ defs[a].parent = ps
            THEN newType("struct")
            ELSE defs \o <<Def("anon", AnonName, ps),
                           [Def("field", fname(ps), n + 1) EXCEPT !.abbr = abbr(ps), !.refs = TyRef(<<"UInt">>)]>>
                      \o (IF Rnd(salt, i, 7) % 2 = 0 THEN <<>>
                          ELSE <<[Def("field", Fresh(FPool, UsedIn(defs, ps) \cup {fname(ps)} \cup {abbr(ps)[k] : k \in DOMAIN abbr(ps)}, salt, i, 9), n + 1)
                                     EXCEPT !.refs = TyRef(<<"Flag">>)]>>)
        ELSE IF act = 9 THEN
            (* `0 [+1]  enum  xx:` -- a nested enum Xx and a field of that type *)
            IF plainStructs = <<>> THEN newType("struct")
            ELSE defs \o <<Def("enum", Camel(fname(ps)), ps),
                           Def("val", Pick(VNs, salt, i, 8), n + 1),
                           [Def("field", fname(ps), ps) EXCEPT !.inl = TRUE, !.tyd = n + 1]>>
        ELSE (* a field whose type is a struct of the main module: members to look up *)
            defs \o <<[Def("field", fname(s1), s1) EXCEPT !.abbr = abbr(s1),
                          !.refs = TyRef(TailOf(defs, Pick(structs, salt, i, 9)))]>>

RECURSIVE Build(_, _, _, _)
Build(defs, salt, i, n) ==
    IF i > n THEN defs
    ELSE CHOOSE r \in {Build(d2, salt, i + 1, n) : d2 \in {TLCEval(Grow(defs, salt, i))}} : TRUE

(* A fixed tree on which the site space is enumerated exhaustively (GEN_FIXED = 1,
   GEN_SITE_MOD = 1): Aa has a nested struct Bb, an abbreviated field, a composite
   field, an anonymous bits with an abbreviated field, an alias vv of the composite
   field, an alias uu of a member of it (uu.xx must go through yy.zz to Cc.xx) and
   a parameter; the module also has an enum Bb (so `Bb` is ambiguous inside Aa and
   an enum outside) and a struct Cc.                                            *)
FixedTree ==
    [defs |->
       <<Def("mod", "", 0), Def("ext", "UInt", 1), Def("ext", "Int", 1), Def("ext", "Flag", 1),
         Def("ext", "Bcd", 1), Def("ext", "Float", 1),
         Def("mod", "imp.emb", 0),
         Def("struct", "Aa", 7),
         [Def("field", "xx", 8) EXCEPT !.refs = TyRef(<<"UInt">>)],
         Def("enum", "Cc", 7),
         Def("val", "VA", 10),
         Def("mod", "m.emb", 0),
         [Def("imp", "imp", MainId) EXCEPT !.target = 7],
         Def("struct", "Aa", MainId),                                                   \* 14
         Def("struct", "Bb", 14),                                                       \* 15
         [Def("field", "yy", 15) EXCEPT !.refs = TyRef(<<"UInt">>)],                   \* 16
         [Def("param", "ww", 14) EXCEPT !.refs = TyRef(<<"UInt">>)],                   \* 17
         [Def("field", "xx", 14) EXCEPT !.abbr = <<"ab">>, !.refs = TyRef(<<"UInt">>)], \* 18
         [Def("field", "yy", 14) EXCEPT !.refs = TyRef(<<"Aa", "Bb">>)],               \* 19
         Def("anon", AnonName, 14),                                                     \* 20
         [Def("field", "zz", 20) EXCEPT !.abbr = <<"cd">>, !.refs = TyRef(<<"UInt">>)], \* 21
         [Def("virt", "vv", 14) EXCEPT !.refs = <<Ref("alias", "field", <<"yy">>)>>],  \* 22
         Def("enum", "Bb", MainId),                                                     \* 23
         Def("val", "VA", 23),                                                          \* 24
         Def("struct", "Cc", MainId),                                                   \* 25
         [Def("field", "xx", 25) EXCEPT !.refs = TyRef(<<"UInt">>)],                   \* 26
         [Def("field", "zz", 15) EXCEPT !.refs = TyRef(<<"Cc">>)],                     \* 27  Aa.Bb.zz : Cc
         [Def("virt", "uu", 14) EXCEPT !.refs = <<Ref("alias", "field", <<"yy", "zz">>)>>]>>]   \* 28  alias of a member

GFIXED == EnvNat("GEN_FIXED", 0)
PFX == IF GFIXED = 1 THEN "f" ELSE "t"

Tree(t) ==
    IF GFIXED = 1 THEN FixedTree
    ELSE CHOOSE T \in {[defs |-> Build(BaseDefs(salt), salt, 1, 5 + (Rnd(salt, 0, 2) % 8))] : salt \in {H(GSALT * 313 + t)}} : TRUE

---------------------------------------------------------------------------
(* candidate reference sites                                               *)
Types == <<"Aa", "Bb", "Cc", "UInt", "Xx">>
Consts == <<"VA", "VB">>
Members == <<"VA", "VB", "xx", "yy", "ab">>
ImpMembers == <<"VA", "VB", "xx", "yy">>
Heads == <<"xx", "yy", "zz", "ww", "vv", "uu", "ab", "cd", "imp", "this">>
Snakes == <<"xx", "yy", "zz", "ab">>
Three == <<"xx", "yy", "zz">>

NType == 35
TypePath(p) ==
    IF p < 5 THEN <<Types[p + 1]>>
    ELSE IF p < 30 THEN <<Types[((p - 5) \div 5) + 1], Types[((p - 5) % 5) + 1]>>
    ELSE <<"imp", Types[p - 29]>>

NStatic == 97
StaticPath(p) ==
    IF p < 2 THEN <<Consts[p + 1]>>
    ELSE IF p < 27 THEN <<Types[((p - 2) \div 5) + 1], Members[((p - 2) % 5) + 1]>>
    ELSE IF p < 77 THEN <<Types[((p - 27) \div 10) + 1], Types[(((p - 27) \div 2) % 5) + 1], Consts[((p - 27) % 2) + 1]>>
    ELSE <<"imp", Types[((p - 77) \div 4) + 1], ImpMembers[((p - 77) % 4) + 1]>>

NField == 77
FieldPath(p) ==
    IF p < 10 THEN <<Heads[p + 1]>>
    ELSE IF p < 50 THEN <<Heads[((p - 10) \div 4) + 1], Snakes[((p - 10) % 4) + 1]>>
    ELSE <<Three[((p - 50) \div 9) + 1], Three[(((p - 50) \div 3) % 3) + 1], Three[((p - 50) % 3) + 1]>>

NPaths(form) == CASE form = "type" -> NType [] form = "static" -> NStatic [] OTHER -> NField
PathOf(form, p) == CASE form = "type" -> TypePath(p) [] form = "static" -> StaticPath(p) [] OTHER -> FieldPath(p)

StructSlots == <<<<"type", "type">>, <<"start", "field">>, <<"size", "static">>, <<"cond", "field">>,
                 <<"len", "field">>, <<"value", "static">>, <<"value", "field">>, <<"attr", "field">>,
                 <<"sattr", "field">>, <<"cond", "static">>>>
AnonSlots == <<<<"type", "type">>, <<"start", "field">>>>
EnumSlots == <<<<"eval", "static">>>>
SlotsFor(kind) == CASE kind = "enum" -> EnumSlots [] kind = "anon" -> AnonSlots [] OTHER -> StructSlots

(* kept candidates of tree T, as codes scope * 100000 + slot * 1000 + path *)
Kept(T, salt) ==
    LET scopes == MainOfKinds(T.defs, {"struct", "bits", "enum", "anon"})
    IN  UNION {UNION {{scopes[si] * 100000 + li * 1000 + p :
                          p \in {q \in 0 .. (NPaths(SlotsFor(T.defs[scopes[si]].kind)[li][2]) - 1) :
                                    Rnd(salt, si * 16 + li, q) % SITEMOD = 0}} :
                      li \in DOMAIN SlotsFor(T.defs[scopes[si]].kind)} :
               si \in DOMAIN scopes}

CodeScope(c) == c \div 100000
CodeSlot(T, c) == SlotsFor(T.defs[CodeScope(c)].kind)[(c % 100000) \div 1000]
CodeRef(T, c) == Ref(CodeSlot(T, c)[1], CodeSlot(T, c)[2], PathOf(CodeSlot(T, c)[2], c % 1000))

(* program T with site c realised as fresh member number k *)
WithSite(P, T, c, k) ==
    LET s == CodeScope(c)
        ref == CodeRef(T, c)
        nm == IF T.defs[s].kind = "enum" THEN "SK" \o ToString(k) ELSE "s" \o ToString(k)
        d == IF T.defs[s].kind = "enum" THEN [Def("val", nm, s) EXCEPT !.refs = <<ref>>, !.site = TRUE]
             ELSE IF ref.slot = "type" THEN [Def("field", nm, s) EXCEPT !.refs = <<ref>>, !.site = TRUE]
             ELSE IF ref.slot = "value" THEN [Def("virt", nm, s) EXCEPT !.refs = <<ref>>, !.site = TRUE]
             ELSE [Def("field", nm, s) EXCEPT !.refs = <<Ref("type", "type", <<"UInt">>), ref>>, !.site = TRUE]
    IN  IF ref.slot = "sattr"
        THEN [defs |-> [P.defs EXCEPT ![s].refs = Append(@, ref)]]
        ELSE [defs |-> Append(P.defs, d)]

(* is site c, alone on top of T, rejected by Scope? *)
SiteBad(T, c) ==
    \E P \in {WithSite(T, T, c, 1)} :
        IF CodeRef(T, c).slot = "sattr"
        THEN BadRef(P, CodeScope(c), CodeRef(T, c))
        ELSE \E k \in DOMAIN P.defs[Len(P.defs)].refs : BadRef(P, Len(P.defs), P.defs[Len(P.defs)].refs[k])

RECURSIVE WithSites(_, _, _, _)
WithSites(P, T, codes, k) ==
    IF k > Len(codes) THEN P
    ELSE CHOOSE r \in {WithSites(P2, T, codes, k + 1) : P2 \in {TLCEval(WithSite(P, T, codes[k], k))}} : TRUE

(* the programs emitted for tree t *)
Programs(t) ==
    CHOOSE out \in
      {IF BadDefs(T) # {}
       THEN <<[id |-> PFX \o ToString(t) \o "-tree", what |-> "tree", defs |-> T.defs]>>
       ELSE CHOOSE o2 \in
              {<<[id |-> PFX \o ToString(t) \o "-ok", what |-> "oksites",
                  defs |-> WithSites(T, T, SortedIds(kept \ bad), 1).defs]>>
               \o [j \in 1 .. Len(badSeq) |->
                     [id |-> PFX \o ToString(t) \o "-bad" \o ToString(badSeq[j]), what |-> "badsite",
                      defs |-> WithSite(T, T, badSeq[j], 1).defs]] :
                 badSeq \in {LET m == (Cardinality(bad) \div MAXFAIL) + 1       \* thin out evenly, not "the first few"
                                  thin == SortedIds({c \in bad : Rnd(GSALT + t, c % 1000, c \div 1000) % m = 0})
                              IN  SubSeq(thin, 1, IF Len(thin) < MAXFAIL THEN Len(thin) ELSE MAXFAIL)}} : TRUE :
         T \in {Tree(t)},
         kept \in {TLCEval(Kept(Tree(t), H(GSALT * 17 + t)))},
         bad \in {TLCEval({c \in Kept(Tree(t), H(GSALT * 17 + t)) : SiteBad(Tree(t), c)})}} : TRUE

VARIABLE st
Init == TLCSet(3, <<>>) /\ st = [t |-> GLO, done |-> FALSE]
Step ==
    /\ st.t < GLO + GCNT
    /\ TLCSet(3, TLCGet(3) \o Programs(st.t))
    /\ st' = [st EXCEPT !.t = st.t + 1]
Flush ==
    /\ st.t = GLO + GCNT /\ ~st.done
    /\ ndJsonSerialize(IOEnv.GEN_OUT, TLCGet(3))
    /\ PrintT(ToJson([emitted |-> Len(TLCGet(3))]))
    /\ st' = [st EXCEPT !.done = TRUE]
Next == Step \/ Flush

=============================================================================
