----------------------------- MODULE ScopeCheck -----------------------------
(***************************************************************************)
(* Binding of Scope to the real front end (C12).                           *)
(*                                                                         *)
(* RECS_FILE is ndjson: one line per generated program (as ScopeGen wrote  *)
(* it) extended by the harness with `obs` (see harness/scope_run.py):      *)
(*   exc     exception escaping the front end ("" if none)                 *)
(*   errors  error groups of the run stopped before annotate_types, each   *)
(*           [at |-> definition index of the primary message's position]   *)
(*   late    same for the complete run (made when `errors` is empty)       *)
(*   defs    every NameDefinition in the IR: [canon, pos, found, at]       *)
(*   refs    every resolved reference: [at, form, path, canons]            *)
(* Everything expected is computed here from the program with Scope's      *)
(* operators; one JSON line is printed per failing clause.                 *)
(***************************************************************************)
EXTENDS Scope, Json, IOUtils

Recs == TLCGet(1)

F(r, c, e, g) == [id |-> r.id, clause |-> c, expected |-> ToString(e), got |-> ToString(g)]

SeqSet(s) == {s[k] : k \in DOMAIN s}

(* an error reported on the line of a field whose type is written inline may be
   about that inline type                                                      *)
AtBad(P, bad, at) ==
    /\ at \in Ids(P)
    /\ \/ at \in bad
       \/ (P.defs[at].inl /\ P.defs[at].tyd \in bad)
       \/ \E c \in Children(P, at) : P.defs[at].kind = "anon" /\ c \in bad

(* was reference `ref` of definition `at` recorded with the expected binding? *)
Bound(P, o, at, ref, r) ==
    \E k \in DOMAIN o.refs :
        /\ o.refs[k].at = at
        /\ o.refs[k].path = ref.path
        /\ IF ref.form = "field"
           THEN o.refs[k].form = "field" /\ o.refs[k].canons = r.canons
           ELSE o.refs[k].form = "static" /\ o.refs[k].canons = <<r.canons[Len(r.canons)]>>

Failures(r) ==
    LET P == [defs |-> r.defs]
        o == r.obs
        (* a crash counts when it happens in the passes C12 is about (the early run), or
           when the early run accepted a program Scope rejects and the complete run then
           crashes instead of rejecting it                                             *)
        crash == IF o.exc # "" THEN o.exc
                 ELSE IF o.errors = <<>> /\ o.late_exc # "" /\ BadDefs(P) # {} THEN "late: " \o o.late_exc
                 ELSE ""
    IN  IF crash # ""
        THEN {F(r, "exception:" \o
                   (CHOOSE t \in {IF "notfield" \in cs THEN "notfield"
                                  ELSE IF "parammember" \in cs THEN "parammember"
                                  ELSE IF "notcomposite" \in cs THEN "notcomposite"
                                  ELSE IF "arraymember" \in cs THEN "arraymember"
                                  ELSE IF "ambiguous" \in cs THEN "ambiguous"
                                  ELSE IF "missing" \in cs THEN "missing"
                                  ELSE IF "duplicate" \in cs \/ DupDefs(P) # {} THEN "duplicate"
                                  ELSE "accepted-program" :
                                     cs \in {TLCEval({Resolve(P, pr[1], P.defs[pr[1]].refs[pr[2]]).cls :
                                                pr \in UNION {{<<at, k>> : k \in DOMAIN P.defs[at].refs} : at \in Ids(P)}})}} : TRUE),
                "no exception", crash)}
        ELSE UNION {
          IF bad = {}
          THEN (IF o.errors # <<>> THEN {F(r, "spurious-error", "accepted", o.errors)} ELSE
                (* canonical names: exactly the expected definitions, each once, each leading back *)
                (IF {o.defs[k].canon : k \in DOMAIN o.defs} # DefCanons(P)
                 THEN {F(r, "definitions",
                         DefCanons(P) \ {o.defs[k].canon : k \in DOMAIN o.defs},
                         {o.defs[k].canon : k \in DOMAIN o.defs} \ DefCanons(P))} ELSE {})
                \cup (IF \E a, b \in DOMAIN o.defs : a # b /\ o.defs[a].canon = o.defs[b].canon
                      THEN {F(r, "canonical-not-unique", "unique", "duplicate canonical name")} ELSE {})
                \cup {F(r, "canonical-leads-elsewhere", o.defs[k].pos, o.defs[k].found) :
                         k \in {j \in DOMAIN o.defs : o.defs[j].pos # o.defs[j].found}}
                \cup {F(r, "wrong-target:" \o P.defs[pr[1]].refs[pr[2]].form,
                        Resolve(P, pr[1], P.defs[pr[1]].refs[pr[2]]).canons,
                        <<pr[1], P.defs[pr[1]].refs[pr[2]].path>>) :
                         pr \in {q \in UNION {{<<at, k>> : k \in DOMAIN P.defs[at].refs} : at \in Ids(P)} :
                                    ~Bound(P, o, q[1], P.defs[q[1]].refs[q[2]],
                                           Resolve(P, q[1], P.defs[q[1]].refs[q[2]]))}})
          ELSE (IF o.errors # <<>>
                THEN {F(r, "error-at-wrong-definition", bad, o.errors[k].at) :
                         k \in {j \in DOMAIN o.errors : ~AtBad(P, bad, o.errors[j].at)}}
                ELSE IF o.late # <<>> /\ \E k \in DOMAIN o.late : AtBad(P, bad, o.late[k].at)
                THEN {}          (* rejected by a later pass, at the right definition *)
                ELSE {F(r, "not-rejected", bad, "accepted")}) :
          bad \in {TLCEval(BadDefs(P))}}

VARIABLES i, nfail, stats
vars == <<i, nfail, stats>>

StatKeys == {"accepted", "rejected-early", "rejected-late", "dup", "refs-ok", "refs-bad"}
Init == TLCSet(1, ndJsonDeserialize(IOEnv.RECS_FILE)) /\ i = 0 /\ nfail = 0 /\ stats = [k \in StatKeys |-> 0]

Step ==
    /\ i < Len(Recs)
    /\ \E r \in {Recs[i + 1]} :
       \E fs \in {Failures(r)} :
       \E P \in {[defs |-> r.defs]} :
       \E bad \in {TLCEval(BadDefs(P))} :
       \E cls \in {TLCEval([pr \in UNION {{<<at, k>> : k \in DOMAIN P.defs[at].refs} : at \in Ids(P)} |->
                              Resolve(P, pr[1], P.defs[pr[1]].refs[pr[2]]).cls])} :
         /\ \A f \in fs : PrintT(ToJson(f))
         /\ \A pr \in {q \in DOMAIN cls : P.defs[q[1]].site \/ P.defs[q[1]].refs[q[2]].slot = "sattr"} :
               PrintT(ToJson([tag |-> cls[pr] \o ":" \o P.defs[pr[1]].refs[pr[2]].form \o ":" \o P.defs[pr[1]].refs[pr[2]].slot]))
         /\ nfail' = nfail + Cardinality(fs)
         /\ stats' = [k \in StatKeys |->
                        stats[k] + (CASE k = "accepted" -> IF bad = {} THEN 1 ELSE 0
                                      [] k = "rejected-early" -> IF bad # {} /\ r.obs.errors # <<>> THEN 1 ELSE 0
                                      [] k = "rejected-late" -> IF bad # {} /\ r.obs.errors = <<>> /\ r.obs.late # <<>> THEN 1 ELSE 0
                                      [] k = "dup" -> IF DupDefs(P) # {} THEN 1 ELSE 0
                                      [] k = "refs-ok" -> Cardinality({pr \in DOMAIN cls : cls[pr] = "ok"})
                                      [] OTHER -> Cardinality({pr \in DOMAIN cls : cls[pr] \notin {"ok", "indirect"}}))]
    /\ i' = i + 1

Done ==
    /\ i = Len(Recs)
    /\ PrintT(ToJson([summary |-> TRUE, records |-> i, failures |-> nfail, stats |-> stats]))
    /\ i' = i + 1
    /\ UNCHANGED <<nfail, stats>>

Next == Step \/ Done

=============================================================================
