------------------------------ MODULE ScopeMC ------------------------------
(***************************************************************************)
(* Design-level model checking of Scope: TLC builds EVERY scope tree that  *)
(* can be made with at most MaxDefs further definitions / attributes on    *)
(* top of a fixed base (prelude with UInt; an imported module with a       *)
(* struct and an enum; the main module importing it, with a struct Aa that *)
(* has a nested struct Bb and an abbreviated field, and a module-level     *)
(* enum Bb) out of tiny name pools, so that names are                      *)
(* necessarily reused across sibling, nested and imported scopes, and      *)
(* checks on every tree and every reference in it                          *)
(*   CanonicalNamesUnique, ResolveIsLexical, AbbreviationsPrivate          *)
(* plus sanity: Resolve is total (some class for every reference) and      *)
(* every failure class is reachable (see the Reach_* "never" invariants    *)
(* used only by the vacuity run).                                          *)
(***************************************************************************)
EXTENDS Scope

CONSTANTS MaxDefs,      \* definitions / attributes added on top of the base
          MaxDepth,     \* nesting depth of types below the module
          Rich          \* TRUE: larger name pools (thorough tier)

TN == {"Aa", "Bb", "UInt"} \cup (IF Rich THEN {"Cc"} ELSE {})   \* type names ("UInt" also lives in the prelude)
FN == {"xx", "yy"} \cup (IF Rich THEN {"zz"} ELSE {})           \* field / parameter names
AN == {"xx", "ab"}                  \* abbreviations
VN == {"VA"}                        \* enum value names

Def(kind, name, parent) ==
    [kind |-> kind, name |-> name, parent |-> parent, abbr |-> <<>>, arr |-> FALSE, inl |-> FALSE,
     tyd |-> 0, target |-> 0, refs |-> <<>>]
Ref(slot, form, path) == [slot |-> slot, form |-> form, path |-> path]

Base == <<Def("mod", "", 0),                        \* 1 prelude
          Def("ext", "UInt", 1),                    \* 2
          Def("mod", "imp.emb", 0),                 \* 3
          Def("struct", "Aa", 3),                   \* 4   imp.Aa
          [Def("field", "xx", 4) EXCEPT !.refs = <<Ref("type", "type", <<"UInt">>)>>],   \* 5
          Def("enum", "Bb", 3),                     \* 6   imp.Bb
          Def("val", "VA", 6),                      \* 7
          Def("mod", "m.emb", 0),                   \* 8   the main module
          [Def("imp", "imp", 8) EXCEPT !.target = 3],                                     \* 9
          Def("struct", "Aa", 8),                   \* 10  Aa
          Def("struct", "Bb", 10),                  \* 11  Aa.Bb
          [Def("field", "yy", 11) EXCEPT !.refs = <<Ref("type", "type", <<"UInt">>)>>],  \* 12  Aa.Bb.yy
          [Def("field", "xx", 10) EXCEPT !.abbr = <<"ab">>, !.refs = <<Ref("type", "type", <<"UInt">>)>>],  \* 13 Aa.xx (ab)
          Def("enum", "Bb", 8),                     \* 14  Bb (module level: ambiguous with Aa.Bb inside Aa)
          Def("val", "VA", 14)>>                    \* 15
Main == 8

VARIABLES P, steps
vars == <<P, steps>>

Depth(i) == Len(Up(P, i)) - 1
Scopes(kinds) == {i \in Ids(P) : P.defs[i].kind \in kinds /\ Main \in {Up(P, i)[k] : k \in DOMAIN Up(P, i)}}

TypePaths == {<<t>> : t \in TN} \cup {<<t, u>> : t \in TN, u \in TN} \cup {<<"imp", t>> : t \in TN}
FieldPaths == {<<f>> : f \in FN \cup AN \cup {"imp", "this"}} \cup {<<f, g>> : f \in FN \cup AN, g \in FN \cup AN}
StaticPaths == {<<v>> : v \in VN} \cup {<<t, v>> : t \in TN, v \in VN \cup FN \cup AN}
                \cup {<<"imp", t, v>> : t \in TN, v \in VN \cup FN}

Add(d) == P' = [defs |-> Append(P.defs, d)] /\ steps' = steps + 1
Room == steps < MaxDefs

AddType ==
    /\ Room
    /\ \E s \in Scopes({"mod", "struct"}), k \in {"struct", "enum"}, n \in TN :
          /\ Depth(s) < MaxDepth
          /\ Add(Def(k, n, s))

AddField ==
    /\ Room
    /\ \E s \in Scopes({"struct"}), n \in FN, ab \in {<<>>} \cup {<<a>> : a \in AN}, ty \in TypePaths, arr \in BOOLEAN :
          /\ arr => ty \in {<<"UInt">>, <<"Aa">>}
          /\ Add([Def("field", n, s) EXCEPT !.abbr = ab, !.arr = arr, !.refs = <<Ref("type", "type", ty)>>])

AddParam ==
    /\ Room
    /\ \E s \in Scopes({"struct"}), n \in FN :
          Add([Def("param", n, s) EXCEPT !.refs = <<Ref("type", "type", <<"UInt">>)>>])   \* `n: UInt:8`

AddVal ==
    /\ Room
    /\ \E s \in Scopes({"enum"}), n \in VN : Add(Def("val", n, s))

(* a `let`: an alias of a field path, or a value mentioning a field / a constant *)
AddVirt ==
    /\ Room
    /\ \E s \in Scopes({"struct"}), n \in FN :
          \/ \E p \in FieldPaths : Add([Def("virt", n, s) EXCEPT !.refs = <<Ref("alias", "field", p)>>])
          \/ \E p \in {q \in FieldPaths : Len(q) = 1 \/ Rich} :
                Add([Def("virt", n, s) EXCEPT !.refs = <<Ref("value", "field", p)>>])
          \/ \E p \in StaticPaths : Add([Def("virt", n, s) EXCEPT !.refs = <<Ref("value", "static", p)>>])

(* an anonymous bits with one field, and a [requires] on a field *)
AddAnon ==
    /\ Room
    /\ steps' = steps + 1
    /\ \E s \in Scopes({"struct"}), n \in FN, ab \in {<<>>} \cup {<<a>> : a \in AN} :
          P' = [defs |-> P.defs \o <<Def("anon", AnonName, s),
                                     [Def("field", n, Len(P.defs) + 1) EXCEPT !.abbr = ab,
                                         !.refs = <<Ref("type", "type", <<"UInt">>)>>]>>]

AddAttr ==
    /\ Room
    /\ steps' = steps + 1
    /\ \E f \in Scopes({"field"}) :
          /\ Len(P.defs[f].refs) = 1
          /\ \E p \in {<<"this">>} \cup {<<g>> : g \in FN} :
                P' = [defs |-> [P.defs EXCEPT ![f].refs = Append(@, Ref("attr", "field", p))]]

Init == P = [defs |-> Base] /\ steps = 0
Next == AddType \/ AddField \/ AddParam \/ AddVal \/ AddVirt \/ AddAnon \/ AddAttr

---------------------------------------------------------------------------
Inv_CanonicalNamesUnique == CanonicalNamesUnique(P)
Inv_ResolveIsLexical == ResolveIsLexical(P)
Inv_AbbreviationsPrivate == AbbreviationsPrivate(P)

Inv_All == AllScopeProperties(P)

AllRefs == UNION {{<<at, k>> : k \in DOMAIN P.defs[at].refs} : at \in Ids(P)}

(* vacuity: each of these is EXPECTED to be violated (run separately) *)
Never(c) == \A pr \in AllRefs : Resolve(P, pr[1], P.defs[pr[1]].refs[pr[2]]).cls # c
Never_ok == Never("ok")
Never_missing == Never("missing")
Never_ambiguous == Never("ambiguous")
Never_notfield == Never("notfield")
Never_notcomposite == Never("notcomposite")
Never_arraymember == Never("arraymember")
Never_indirect == Never("indirect")
Never_dup == DupDefs(P) = {}

=============================================================================
