------------------------------- MODULE Scope -------------------------------
(***************************************************************************)
(* C12 -- names resolve to the one lexically visible definition, or the    *)
(* module is rejected.                                                     *)
(*                                                                         *)
(* Written from the property statement, doc/language-reference.md          *)
(* (imports, struct / subtypes / inline types / anonymous bits / virtual   *)
(* fields and aliases / parameters / abbreviations / `[requires]` and      *)
(* `this` / "Enum values generally must be qualified by their type") and   *)
(* doc/compiler-design.md ("Symbol Resolution Part 1: Head Symbols": bind  *)
(* iff defined in exactly one available scope; "Part 2: Field Access").    *)
(*                                                                         *)
(* A program P is a record [defs], defs a sequence of definitions          *)
(*   [kind, name, parent, abbr, arr, inl, tyd, target, refs]               *)
(*   kind   "mod"    a module; name = its file name ("" = the prelude)     *)
(*          "imp"    `import "f" as name` in module parent; target = the   *)
(*                   definition index of module f                          *)
(*          "struct" | "bits" | "enum" | "ext"   a named type in module or *)
(*                   type `parent` (an inline type is simply a subtype of  *)
(*                   the type it is written in, as the reference says)     *)
(*          "anon"   the type of an anonymous `bits` field of struct       *)
(*                   parent; it has no name a program could write          *)
(*          "field"  physical field of type parent   "virt" `let` field    *)
(*          "param"  run-time parameter              "val"  enum value     *)
(*   abbr   <<>> or <<abbreviation>>                                       *)
(*   arr    the field is an array                                          *)
(*   inl    the field's type is written inline / is an anonymous bits:     *)
(*          it IS definition tyd, no name is looked up                     *)
(*   refs   the references written in this definition, each               *)
(*          [slot, form, path]:                                            *)
(*            form "type"   snake? . Type (. Type)*     a type reference   *)
(*                 "static" snake? . Type ... . name    a constant ref.    *)
(*                 "field"  snake (. snake)*            a field reference  *)
(*            slot "type" | "start" | "size" | "cond" | "len" | "value" |  *)
(*                 "eval" (enum value) | "attr" ([requires] on a field) |  *)
(*                 "sattr" ([requires] on a structure)                     *)
(*                                                                         *)
(* TLC evaluates operator arguments and LETs by name; values used more     *)
(* than once are therefore bound over singleton sets (see spec/deps).      *)
(***************************************************************************)
EXTENDS Naturals, Sequences, FiniteSets, TLC

NamedTypeKinds == {"struct", "bits", "enum", "ext"}
TypeKinds == NamedTypeKinds \cup {"anon"}
MemberKinds == {"field", "virt", "param", "val"}
AnonName == "%anon"

Ids(P) == DOMAIN P.defs
Children(P, s) == {i \in Ids(P) : P.defs[i].parent = s}
PreludeId(P) == CHOOSE i \in Ids(P) : P.defs[i].kind = "mod" /\ P.defs[i].name = ""

(* canonical name: the path of names from the module's file name down *)
RECURSIVE Canon(_, _)
Canon(P, i) ==
    IF P.defs[i].parent = 0 THEN <<P.defs[i].name>>
    ELSE Canon(P, P.defs[i].parent) \o <<P.defs[i].name>>

(* the scopes from definition s outwards, ending at its module *)
RECURSIVE Up(_, _)
Up(P, s) == IF P.defs[s].parent = 0 THEN <<s>> ELSE <<s>> \o Up(P, P.defs[s].parent)

---------------------------------------------------------------------------
(* What a scope defines.  An entry is [name, canon, vis, d]:                *)
(*   vis "searchable": found from nested scopes too (type names, imports)  *)
(*       "local"     : found only from the scope itself, and as a member   *)
(*                     after a dot (fields, parameters, enum values)       *)
(*       "private"   : found only from the scope itself (abbreviations,    *)
(*                     `this`)                                             *)
(*   d  the definition that carries the entry's type information           *)

MemberEntries(P, c, canon) ==
    {[name |-> P.defs[c].name, canon |-> canon, vis |-> "local", d |-> c]}
    \cup {[name |-> P.defs[c].abbr[k], canon |-> canon, vis |-> "private", d |-> c] : k \in DOMAIN P.defs[c].abbr}

EntriesFrom(P, s, c) ==
    CASE P.defs[c].kind \in NamedTypeKinds \cup {"imp"} ->
             {[name |-> P.defs[c].name, canon |-> Canon(P, c), vis |-> "searchable", d |-> c]}
      [] P.defs[c].kind \in MemberKinds -> MemberEntries(P, c, Canon(P, c))
      [] P.defs[c].kind = "anon" ->
             (* "the fields of the bits will be treated as though they are fields of the
                outer struct": each is also a (virtual, alias) field s.name of s          *)
             UNION {MemberEntries(P, f, Canon(P, s) \o <<P.defs[f].name>>) :
                       f \in {g \in Children(P, c) : P.defs[g].kind \in {"field", "virt"}}}
      [] OTHER -> {}

Entries(P, s) ==
    IF P.defs[s].kind \in {"field", "virt"}
    THEN (* inside a field's own attributes: "the value of the current field must be
            referred to as `this`" *)
         {[name |-> "this", canon |-> Canon(P, s), vis |-> "private", d |-> s]}
    ELSE TLCEval(UNION {EntriesFrom(P, s, c) : c \in Children(P, s)})

(* two definitions of one name in one scope *)
DupPairs(P, s) == {pr \in Entries(P, s) \X Entries(P, s) : pr[1] # pr[2] /\ pr[1].name = pr[2].name}
ScopeIds(P) == {s \in Ids(P) : P.defs[s].kind \in TypeKinds \cup {"mod"}}
DupDefs(P) == UNION {{pr[1].d : pr \in DupPairs(P, s)} : s \in ScopeIds(P)}

---------------------------------------------------------------------------
(* Where a reference written in definition `at` looks                      *)

HomeScope(P, at) == IF P.defs[at].kind \in TypeKinds THEN at ELSE P.defs[at].parent

Chain(P, at, slot) ==
    (IF slot = "attr" THEN <<at>> ELSE <<>>) \o Up(P, HomeScope(P, at)) \o <<PreludeId(P)>>

(* every definition of `name` that is visible: anything in the innermost
   scope, searchable names in the enclosing ones, the module and the prelude *)
HeadSet(P, chain, name) ==
    UNION {{[sc |-> chain[k], e |-> x] :
               x \in {y \in Entries(P, chain[k]) : y.name = name /\ (k = 1 \/ y.vis = "searchable")}} :
           k \in DOMAIN chain}

Fail(c) == [cls |-> c, canons |-> <<>>, d |-> 0]
Ok(canons, d) == [cls |-> "ok", canons |-> canons, d |-> d]
The(S) == CHOOSE x \in S : TRUE

(* the scope a qualifier opens: an import stands for the imported module *)
Opens(P, d) == IF P.defs[d].kind = "imp" THEN P.defs[d].target ELSE d

(* Type.Sub, Enum.VALUE, Type.field, import.Type ...: each further name is
   looked up in what the previous one designates; abbreviations and `this`
   are not visible from outside                                             *)
RECURSIVE Walk(_, _, _, _, _)
Walk(P, e, path, k, canons) ==
    IF k > Len(path) THEN Ok(canons, e.d)
    ELSE The({IF P.defs[o].kind \notin TypeKinds \cup {"mod"} THEN Fail("missing")
              ELSE The({IF nx = {} THEN Fail("missing")
                        ELSE IF Cardinality(nx) > 1 THEN Fail("duplicate")
                        ELSE Walk(P, The(nx), path, k + 1, canons \o <<The(nx).canon>>) :
                           nx \in {TLCEval({x \in Entries(P, o) : x.name = path[k] /\ x.vis # "private"})}}) :
                 o \in {Opens(P, e.d)}})

ResolveStatic(P, at, slot, path) ==
    The({IF hs = {} THEN Fail("missing")
         ELSE IF Cardinality(hs) > 1 THEN Fail("ambiguous")
         ELSE Walk(P, The(hs).e, path, 2, <<The(hs).e.canon>>) :
            hs \in {TLCEval(HeadSet(P, Chain(P, at, slot), path[1]))}})

(* the references of a definition that determine its type / what it aliases *)
TypeRefs(P, f) == {P.defs[f].refs[k] : k \in {j \in DOMAIN P.defs[f].refs : P.defs[f].refs[j].slot = "type"}}
AliasRefs(P, f) == {P.defs[f].refs[k] : k \in {j \in DOMAIN P.defs[f].refs : P.defs[f].refs[j].slot = "alias"}}

(* the type definition of field f; 0 when its own type reference does not resolve *)
TypeOfField(P, f) ==
    IF P.defs[f].inl THEN P.defs[f].tyd
    ELSE IF TypeRefs(P, f) = {} THEN 0
    ELSE The({IF r.cls = "ok" THEN r.d ELSE 0 : r \in {ResolveStatic(P, f, "type", The(TypeRefs(P, f)).path)}})

(* a.b.c: "members after a dot are looked up in the referenced field's type";
   `let x = y` / `let x = y.z` make x an alias of that field                    *)
RECURSIVE Member(_, _, _, _, _, _), ResolveFieldPath(_, _, _, _, _)

(* follow aliases: -> [st |-> "is", f], or "indirect" (the alias itself does not
   resolve: reported there), or "notcomposite" (a computed value has no members) *)
Settle(P, f, fuel) ==
    IF P.defs[f].kind # "virt" THEN [st |-> "is", f |-> f]
    ELSE IF AliasRefs(P, f) = {} \/ fuel = 0 THEN [st |-> "notcomposite", f |-> 0]
    ELSE The({IF r.cls = "ok" THEN [st |-> "is", f |-> r.d]
              ELSE [st |-> "indirect", f |-> 0] :
                 r \in {ResolveFieldPath(P, f, "value", The(AliasRefs(P, f)).path, fuel - 1)}})

Member(P, f0, path, k, canons, fuel) ==
    The({IF s.st # "is" THEN Fail(s.st)
         ELSE IF P.defs[s.f].kind = "virt" THEN Member(P, s.f, path, k, canons, fuel - 1)
         ELSE IF P.defs[s.f].kind = "param" THEN Fail("parammember")   \* a parameter is an integer or an enum
         ELSE IF P.defs[s.f].arr THEN Fail("arraymember")
         ELSE The({IF t = 0 THEN Fail("indirect")
                   ELSE IF P.defs[t].kind \notin {"struct", "bits", "anon"} THEN Fail("missing")
                   ELSE The({IF nx = {} THEN Fail("missing")
                             ELSE IF Cardinality(nx) > 1 THEN Fail("duplicate")
                             ELSE IF k = Len(path) THEN Ok(canons \o <<The(nx).canon>>, The(nx).d)
                             ELSE Member(P, The(nx).d, path, k + 1, canons \o <<The(nx).canon>>, fuel) :
                                nx \in {TLCEval({x \in Entries(P, t) : x.name = path[k] /\ x.vis = "local"})}}) :
                      t \in {TypeOfField(P, s.f)}}) :
            s \in {Settle(P, f0, fuel)}})

ResolveFieldPath(P, at, slot, path, fuel) ==
    The({IF hs = {} THEN Fail("missing")
         ELSE IF Cardinality(hs) > 1 THEN Fail("ambiguous")
         ELSE IF P.defs[The(hs).e.d].kind \notin {"field", "virt", "param"} THEN Fail("notfield")
         ELSE IF Len(path) = 1 THEN Ok(<<The(hs).e.canon>>, The(hs).e.d)
         ELSE Member(P, The(hs).e.d, path, 2, <<The(hs).e.canon>>, fuel) :
            hs \in {TLCEval(HeadSet(P, Chain(P, at, slot), path[1]))}})

(* Resolve(site): the reference `ref` written in definition `at` *)
Resolve(P, at, ref) ==
    IF ref.form = "field"
    THEN ResolveFieldPath(P, at, IF ref.slot = "alias" THEN "value" ELSE ref.slot, ref.path, Len(P.defs))
    ELSE ResolveStatic(P, at, ref.slot, ref.path)

---------------------------------------------------------------------------
(* Accept / reject                                                         *)

(* classes that must make the compiler reject AT this definition; "indirect" means
   the failure is another definition's (reported there)                          *)
BadRef(P, at, ref) == Resolve(P, at, ref).cls \notin {"ok", "indirect"}
BadRefDefs(P) == {at \in Ids(P) : \E k \in DOMAIN P.defs[at].refs : BadRef(P, at, P.defs[at].refs[k])}
BadDefs(P) == DupDefs(P) \cup BadRefDefs(P)
Accepts(P) == BadDefs(P) = {}

(* every definition's canonical name (imports have none that is observable) *)
Hoisted(P) ==
    UNION {UNION {{Canon(P, P.defs[c].parent) \o <<P.defs[f].name>> :
                     f \in {g \in Children(P, c) : P.defs[g].kind \in {"field", "virt"}}} :
                  c \in {a \in Ids(P) : P.defs[a].kind = "anon"}}}
DefCanons(P) == {Canon(P, i) : i \in {j \in Ids(P) : P.defs[j].kind \notin {"mod", "imp"}}} \cup Hoisted(P)

---------------------------------------------------------------------------
(* Design-level properties (model-checked by ScopeMC over all small trees) *)

(* in a program without duplicate definitions canonical names are unique *)
CanonicalNamesUnique(P) ==
    DupDefs(P) = {} =>
        /\ \A i, j \in Ids(P) : (i # j /\ P.defs[i].kind # "imp" /\ P.defs[j].kind # "imp") => Canon(P, i) # Canon(P, j)
        /\ \A i \in Ids(P) : P.defs[i].kind \notin {"mod", "imp"} => Canon(P, i) \notin Hoisted(P)

(* a resolved head is defined in a scope that lexically encloses the reference,
   under the name that was written (or its abbreviation / `this`), and no other
   visible scope defines it; one canonical name per path element              *)
LexicalRef(P, at, ref, r) ==
    r.cls = "ok" =>
        \A chain \in {Chain(P, at, IF ref.slot = "alias" THEN "value" ELSE ref.slot)} :
          /\ Cardinality(HeadSet(P, chain, ref.path[1])) = 1
          /\ \E n \in DOMAIN chain : \E x \in Entries(P, chain[n]) :
                x.name = ref.path[1] /\ x.canon = r.canons[1]
          /\ Len(r.canons) = Len(ref.path)
          /\ \A n \in DOMAIN r.canons :
                \/ r.canons[n][Len(r.canons[n])] = ref.path[n]
                \/ (n = 1 /\ ref.path[1] = "this")
                \/ \E d \in Ids(P) : /\ ref.path[n] \in {P.defs[d].abbr[q] : q \in DOMAIN P.defs[d].abbr}
                                     /\ r.canons[n][Len(r.canons[n])] = P.defs[d].name

(* an abbreviation only ever resolves as the head of a path written inside the
   structure that holds it (never after a dot, never from a nested or enclosing
   scope, never from a field's own attribute)                                  *)
AbbrevPrivateRef(P, at, ref, r) ==
    r.cls = "ok" =>
        \A n \in DOMAIN ref.path :
            (ref.path[n] # "this" /\ r.canons[n][Len(r.canons[n])] # ref.path[n]) =>
                /\ n = 1
                /\ ref.slot # "attr"
                /\ r.canons[1] = Canon(P, HomeScope(P, at)) \o <<r.canons[1][Len(r.canons[1])]>>

ImportCanons(P) == {Canon(P, i) : i \in {j \in Ids(P) : P.defs[j].kind = "imp"}}
OkIsDefinedRef(P, r) ==
    r.cls = "ok" => \A n \in DOMAIN r.canons : r.canons[n] \in DefCanons(P) \cup ImportCanons(P)

ResolveIsLexical(P) ==
    \A at \in Ids(P) : \A k \in DOMAIN P.defs[at].refs :
        \A r \in {Resolve(P, at, P.defs[at].refs[k])} : LexicalRef(P, at, P.defs[at].refs[k], r)

AbbreviationsPrivate(P) ==
    \A at \in Ids(P) : \A k \in DOMAIN P.defs[at].refs :
        \A r \in {Resolve(P, at, P.defs[at].refs[k])} : AbbrevPrivateRef(P, at, P.defs[at].refs[k], r)

Classes == {"ok", "missing", "ambiguous", "duplicate", "notfield", "notcomposite", "parammember", "arraymember", "indirect"}

(* all of the above with one Resolve per reference (what the model checker runs) *)
AllScopeProperties(P) ==
    /\ CanonicalNamesUnique(P)
    /\ \A at \in Ids(P) : \A k \in DOMAIN P.defs[at].refs :
          \A r \in {Resolve(P, at, P.defs[at].refs[k])} :
             /\ r.cls \in Classes
             /\ LexicalRef(P, at, P.defs[at].refs[k], r)
             /\ AbbrevPrivateRef(P, at, P.defs[at].refs[k], r)
             /\ OkIsDefinedRef(P, r)

=============================================================================
