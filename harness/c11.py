"""C11 - the formatter preserves meaning, is idempotent, and never fails on valid input.

spec/fmt/Fmt.tla       the formatter as an abstract action Format(indent): NormEq (same tokens up to
                       layout, with equal lengths), layout facts, idempotence; Tokens = Lex.tla
spec/fmt/FmtMC.tla     small exhaustive model of the abstract action (every run)
spec/fmt/FmtTrace.tla  validates recorded traces  t0 -fmt-> t1 -fmt-> t2  of the real formatter
Python renders sources, runs format_emb / parser / emboss-format from the repo's tree, records.
"""
import json
import os
import random

from .common import REPO, SPEC, MachineryError, Scratch, run_tlc, write_cfg
from . import fmt_gen, fmt_run, lex_gen, lex_run

LEVEL = "model_checking"
FMT_DIR = os.path.join(SPEC, "fmt")
JVM = {"JAVA_TOOL_OPTIONS": "-XX:ParallelGCThreads=2 -XX:CICompilerCount=2"}


def run_mc(chk, scr, table_path, tier):
    cfg = scr.file("FmtMC.cfg")
    consts = {"Alphabet": "{97, 35, 32, 10}", "MaxLen": 3 if tier == "quick" else 4, "Widths": "{1, 2}"}
    write_cfg(cfg, spec="MCSpec", constants=consts, invariants=["TypeOK", "MeaningPreserved", "SomeResultExists"],
              properties=["ResultIsFixedPoint", "MeaningNeverChanges"])
    env = dict(JVM)
    env["LEX_TABLE"] = table_path
    res = run_tlc(os.path.join(FMT_DIR, "FmtMC.tla"), cfg, lib_areas=("fmt", "lex"),
                  workers=1 if tier == "quick" else min(4, lex_run.MAXPROC), env=env, coverage=True, timeout=2400,
                  metadir=os.path.join(scr.path, "meta-fmtmc"))
    chk.add_tlc(res, part="FmtMC")
    if not res.clean:
        chk.violation("fmt:spec-mc:%s" % ",".join(res.invariant_violated + res.action_prop_violated),
                      "FmtMC: the abstract formatter specification is inconsistent:\n" + res.error_trace_tail(60))
    cov = res.coverage()
    chk.extra["mc_actions"] = {k: v[1] for k, v in cov.items() if k in ("MCInit", "DoFormat")}
    chk.extra["mc_constants"] = consts


def sources(chk, scr, tier, seed, only=None):
    """[(id, family, text)] - not yet filtered for parseability."""
    q = tier == "quick"
    out = []
    rnd = random.Random("c11/%d" % seed)
    corpus = fmt_gen.corpus_sources()
    if not only or "corpus" in only:
        out += [(cid, "corpus", text) for cid, text in corpus]
    if not only or "perturbed" in only:
        per_file = 2 if q else 12
        for cid, text in corpus:
            toks = fmt_run.real_tokens(text)
            if toks is None:
                continue
            for k in range(per_file):
                style = fmt_gen.STYLES[1 + (k % 3)]
                r = random.Random("%s/%d/%d" % (cid, seed, k))
                out.append(("%s~%s%d" % (cid, style, k), "perturbed", fmt_gen.render(toks, r, style)))
    if not only or "grammar" in only:
        from . import grammar_gen
        n = 150 if q else 2500
        st = {}
        sents = grammar_gen.sentences(seed + 11, n, 70 if q else 110, scratch=scr, cover=8 if q else 3, stats=st)
        chk.extra["grammar_sentences"] = len(sents)
        chk.extra["grammar_production_coverage"] = st
        for k, kinds in enumerate(sents):
            if not kinds:
                continue
            for v in range(2 if q else 3):
                r = random.Random("sent/%d/%d/%d" % (seed, k, v))
                style = fmt_gen.STYLES[(k + v) % 4]
                out.append(("sent-%d-%s%d" % (k, style, v), "grammar", fmt_gen.render(fmt_gen.kinds_to_tokens(kinds, r), r, style)))
    return out


def report(chk, cases, fails):
    by_id = {c["id"]: c for c in cases}
    for f in fails:
        case = by_id.get(f["id"])
        t0 = "".join(chr(x) for x in case["t0"]) if case else ""
        for pre in f.get("pre", []):
            chk.violation("fmt:%s:%s" % (f["fam"], pre), "source %s is rejected by Lex.tla although the real tokenizer and parser accept it\n%r" % (f["id"], t0[:400]),
                          {"id": f["id"], "fam": f["fam"], "t0": case["t0"] if case else None})
        runs = f["runs"]
        items = runs.items() if isinstance(runs, dict) else enumerate(runs, 1)
        for k, r in items:
            clauses = sorted(r["clauses"])
            run = None
            if case:
                run = next((x for x in case["runs"] if x["indent"] == r["indent"]), None)
            t1 = "".join(chr(x) for x in run["t1"]) if run else ""
            t2 = "".join(chr(x) for x in run["t2"]) if run else ""
            key = "fmt:%s:%s" % (f["fam"], "+".join(clauses))
            desc = ("emboss formatter, source %s (family %s), indent %s: %s\nexc1=%r exc2=%r\n--- t0 ---\n%s\n--- t1 = fmt(t0) ---\n%s" % (
                f["id"], f["fam"], r["indent"], clauses, r.get("exc1"), r.get("exc2"), t0[:1200], t1[:1200]))
            if "not-idempotent" in clauses:
                desc += "\n--- t2 = fmt(t1) ---\n" + t2[:1200]
            chk.violation(key, desc, {"id": f["id"], "fam": f["fam"], "indent": r["indent"], "t0": case["t0"] if case else None,
                                      "clauses": clauses})


def run(chk, only=None):
    tier = chk.tier
    q = tier == "quick"
    with Scratch("c11") as scr:
        table_path = scr.file("lex_table.json")
        lex_run.write_table(table_path)
        if not only or "mc" in only:
            run_mc(chk, scr, table_path, tier)
        fam_only = {o for o in only if o != "mc"} if only else None
        if only and not fam_only:
            _finish(chk)
            return
        srcs = sources(chk, scr, tier, chk.seed, fam_only)
        rnd = random.Random("c11-indents/%d" % chk.seed)
        jobs = []
        for cid, fam, text in srcs:
            if q:
                indents = sorted({2, rnd.choice([1, 3, 4]), rnd.choice([5, 6, 7, 8])}) if fam == "corpus" else sorted({rnd.choice([1, 2, 3, 4]), rnd.choice([2, 4, 8])})
            else:
                indents = list(range(1, 9)) if fam == "corpus" else sorted(rnd.sample(range(1, 9), 4))
            jobs.append((cid, fam, text, indents))
        import time
        t_a = time.time()
        recs = fmt_run.record_all(jobs)
        t_b = time.time()
        cases = [c for c in recs if c is not None]
        chk.extra["sources_rendered"] = len(jobs)
        chk.extra["sources_parseable"] = len(cases)
        fams = {}
        for c in cases:
            fams[c["fam"]] = fams.get(c["fam"], 0) + 1
        chk.extra["families"] = fams
        if not cases:
            raise MachineryError("no parseable source was produced")
        # the command-line entry point on a sample
        picks = []
        r2 = random.Random("c11-cli/%d" % chk.seed)
        cand = [(ci, ri) for ci, c in enumerate(cases) for ri, r in enumerate(c["runs"])
                if all(x < 0xD800 or x > 0xDFFF for x in c["t0"]) and len(c["t0"]) < 6000]
        r2.shuffle(cand)
        picks = cand[: (8 if q else 60)]
        fmt_run.add_cli(cases, picks, scr.sub("cli"))
        chk.extra["cli_runs"] = len(picks)
        t_c = time.time()
        fails = fmt_run.run_fmttrace(chk, scr, table_path, cases, "FmtTrace", env_extra=JVM)
        chk.extra["phase_wall_s"] = {"record": round(t_b - t_a, 1), "cli": round(t_c - t_b, 1), "tlc": round(time.time() - t_c, 1)}
        report(chk, cases, fails)
        nruns = sum(len(c["runs"]) for c in cases)
        chk.traces += nruns
        chk.evaluations += nruns
        changed = 0
        for c in cases:
            if any(r["t1"] != c["t0"] for r in c["runs"]):
                changed += 1
        chk.nontrivial_count += changed
        for c in cases[:: max(1, len(cases) // 5)][:5]:
            chk.sample({"id": c["id"], "fam": c["fam"], "len_t0": len(c["t0"]), "indents": [r["indent"] for r in c["runs"]],
                        "t0_head": "".join(chr(x) for x in c["t0"][:80])})
        if not only:
            selftest_binding(chk, scr, table_path, cases)
    _finish(chk)


def selftest_binding(chk, scr, table_path, cases):
    """Corrupt recorded traces: a dropped token / a non-idempotent second step must be rejected."""
    from .common import Check
    good = next((c for c in cases if c["fam"] == "corpus" and len(c["t0"]) > 200 and c["runs"] and not c["runs"][0]["exc1"]), None)
    if good is None:
        return
    muts = []
    a = json.loads(json.dumps(good)); a["id"] = "selftest-droptoken"; a["runs"] = a["runs"][:1]
    t1 = a["runs"][0]["t1"]
    # remove the first letter/digit run of the formatted text
    k = next(i for i, x in enumerate(t1) if chr(x).isalnum())
    j = k
    while j < len(t1) and (chr(t1[j]).isalnum() or t1[j] == 95):
        j += 1
    a["runs"][0]["t1"] = t1[:k] + t1[j:]
    a["runs"][0]["t2"] = a["runs"][0]["t1"]
    muts.append(a)
    b = json.loads(json.dumps(good)); b["id"] = "selftest-t2"; b["runs"] = b["runs"][:1]
    b["runs"][0]["t2"] = b["runs"][0]["t2"] + [10]
    muts.append(b)
    tmp = Check(chk.prop, chk.tier, chk.seed)
    fails = fmt_run.run_fmttrace(tmp, scr, table_path, muts, "selftest")
    rejected = {f["id"] for f in fails}
    chk.extra["binding_selftest"] = {"corrupted_traces": len(muts), "rejected": len(rejected)}
    if len(rejected) != len(muts):
        raise MachineryError("binding self-test: corrupted formatter traces were accepted: %s" % sorted({m["id"] for m in muts} - rejected))


def _finish(chk):
    chk.rule = ("sources: every .emb of the repo; each re-rendered from its own token texts with seeded spacing (tight/"
                "wide/ragged: 0..9 blanks or tabs between tokens, trailing blanks, blank / whitespace-only / comment-only "
                "lines, indentation widths 1..6 or tabs); sentences of the real grammar from TLC SentenceGen instantiated "
                "with seeded names, numbers, strings, comments, docs; kept only if the real parser accepts them. Each with "
                "2-3 (quick) / 4-8 (thorough) indent widths from 1..8. Non-trivial = formatting changed the text.")
    chk.assumptions += [
        "Tokens() is Lex.tla over the documented pattern table (modelling decisions D1-D4 of C10 apply)",
        "Parses(t1) is observed from the real parser (parser correctness is C08/C09)",
        "layout facts NoTrailingBlank / EndsWithNewline are robust facts of the renderer, not documented; IndentIsWidth follows the --indent help text",
        "'same IR apart from positions' is implied by NormEq + determinism of the parser; the IR itself is not compared",
    ]


def replay(chk, path):
    with open(path) as f:
        rp = json.load(f)
    case = rp["case"]
    t0 = "".join(chr(x) for x in case["t0"])
    with Scratch("c11r") as scr:
        table_path = scr.file("lex_table.json")
        lex_run.write_table(table_path)
        rec = fmt_run.record_one((case.get("id", "replay"), case.get("fam", "replay"), t0, [case.get("indent", 2)]))
        if rec is None:
            raise MachineryError("replay source does not parse")
        fails = fmt_run.run_fmttrace(chk, scr, table_path, [rec], "replay")
        report(chk, [rec], fails)
        chk.traces = 1
