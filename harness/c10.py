"""C10 - tokenization is lossless, position-accurate and classifies as documented.

spec/lex/Lex.tla      the tokenizer (generic regex matcher over the DOCUMENTED pattern table read
                      from doc/grammar.md, longest match / earliest on ties, line splitting,
                      indentation stack) and the C10 properties as predicates over (text, tokens)
spec/lex/LexMachine.tla, LexMC.tla   the machine and its exhaustive small model (every run)
spec/lex/LexCheck.tla binds token lists recorded from compiler/front_end/tokenizer.py:
                      TLC computes Tokenize(text), compares, and evaluates every property on the
                      recorded list.  Python renders texts, runs the real tokenizer, records.
"""
import json
import os
import time

from .common import (REPO, SPEC, Check, MachineryError, Scratch, run_tlc, write_cfg)
from . import lex_gen, lex_run

LEVEL = "model_checking"
LEX_DIR = os.path.join(SPEC, "lex")
JVM = {"JAVA_TOOL_OPTIONS": "-XX:ParallelGCThreads=2 -XX:CICompilerCount=2"}

MC_INVARIANTS = ["TypeOK", "StackChain", "OneEnabled", "BestIsBest", "BalancedSoFar", "PendingLeftOfScan",
                 "DoneIsGood", "ErrorHasCause"]
MC_ACTIONS = ["ScanToken", "SkipBlank", "Unrecognized", "EndLine", "Indent", "Dedent", "BadIndent",
              "CloseDedent", "Finish"]


def run_mc(chk, scr, table_path, tier):
    """Design-level: LexMachine over all short texts / small indentation texts; all invariants."""
    cfg = scr.file("LexMC.cfg")
    if tier == "quick":
        consts = {"Alphabet": "{97, 65, 95, 48, 120, 45, 35, 34, 32, 10}", "MaxLen": 3, "MaxLines": 2}
    else:
        consts = {"Alphabet": "{97, 65, 95, 48, 120, 45, 35, 36, 34, 32, 10}", "MaxLen": 4, "MaxLines": 3}
    write_cfg(cfg, spec="MCSpec", constants=consts, invariants=MC_INVARIANTS, properties=["Progress"])
    env = dict(JVM)
    env["LEX_TABLE"] = table_path
    res = run_tlc(os.path.join(LEX_DIR, "LexMC.tla"), cfg, lib_areas=("lex",), workers=1 if tier == "quick" else min(6, lex_run.MAXPROC),
                  env=env, coverage=True, timeout=2400, metadir=os.path.join(scr.path, "meta-mc"))
    chk.add_tlc(res, part="LexMC")
    if res.invariant_violated or res.action_prop_violated or not res.clean:
        chk.violation("lex:spec-mc:%s" % ",".join(res.invariant_violated + res.action_prop_violated),
                      "LexMC: the specification's own behaviours violate an invariant:\n" + res.error_trace_tail(60))
        return
    cov = res.coverage()
    never = [a for a in MC_ACTIONS if cov.get(a, (0, 0))[1] == 0]
    chk.extra["mc_actions_never_taken"] = never
    chk.extra["mc_constants"] = consts


def build_cases(chk, table, tier, seed, only=None):
    comp = lex_run.compile_doc_patterns(table)
    fams = []
    q = tier == "quick"
    # (G) exhaustive short texts over the 14-symbol alphabet + line terminator
    fams.append(("short", lambda: lex_gen.exhaustive(lex_gen.ALPHA15, 3 if q else 4)
                 + lex_gen.sampled_strings(lex_gen.ALPHA15, 4, 1500 if q else 0, seed)
                 + lex_gen.sampled_strings(lex_gen.ALPHA15, 5, 1500 if q else 40000, seed)
                 + lex_gen.sampled_strings(lex_gen.ALPHA15, 7, 500 if q else 10000, seed)))
    fams.append(("indent", lambda: lex_gen.indent_texts(2 if q else 3, [3, 4, 5], 2500 if q else 30000, seed)))
    # (V) inputs the spec did not choose
    fams.append(("corpus", lambda: lex_gen.corpus(seed)))
    fams.append(("soup", lambda: lex_gen.soup(table, seed, 2500 if q else 48000, 600 if q else 6000)))
    fams.append(("mutated", lambda: lex_gen.mutated(seed, 800 if q else 12000)))
    fams.append(("unicode", lambda: lex_gen.unicode_family()))
    cases = []
    counts = {}
    for name, gen in fams:
        if only and name not in only:
            continue
        items = gen()
        counts[name] = len(items)
        for cid, fam, text in items:
            plens = None
            if fam in ("short", "short-sample", "soup") and text and len(text.splitlines()) == 1 and len(text) <= 12:
                plens = lex_run.doc_pattern_lens(table, comp, text.splitlines()[0])
            cases.append(lex_run.record(text, cid, fam, plens))
    return cases, counts


def _text_of(case):
    return "".join(chr(c) for c in case["text"])


def report(chk, cases, fails):
    by_id = {c["id"]: c for c in cases}
    for f in fails:
        case = by_id.get(f["id"])
        clauses = sorted(f["clauses"])
        text = _text_of(case) if case else ""
        key = "lex:%s:%s" % (f["fam"], "+".join(clauses))
        desc = ("tokenizer.tokenize disagrees with Lex.tla on %s (family %s): clauses %s\n"
                "text=%r\nspec: ok=%s ntok=%s err=%s tok[%s]=%s\nimpl: ok=%s ntok=%s err=%s tok[%s]=%s" % (
                    f["id"], f["fam"], clauses, text[:300], f["spec_ok"], f["spec_ntok"], f["spec_err"], f["first_diff"],
                    f["spec_tok"], f["impl_ok"], f["impl_ntok"], f["impl_err"], f["first_diff"], f["impl_tok"]))
        chk.violation(key, desc, {"text": case["text"] if case else None, "id": f["id"], "fam": f["fam"], "tlc": f})


def evidence(chk, cases, counts):
    chk.traces += len(cases)
    chk.evaluations += len(cases)
    sigs = set()
    errs = 0
    kinds = {}
    for c in cases:
        if c["ok"]:
            sig = tuple(t["sym"] for t in c["toks"])
            if len(sig) >= 3:
                sigs.add(hash(sig))
        else:
            errs += 1
            kinds[c["err"]["kind"]] = kinds.get(c["err"]["kind"], 0) + 1
    chk.nontrivial_count += len(sigs) + errs
    chk.extra.setdefault("families", {}).update(counts)
    chk.extra["impl_errors_recorded"] = kinds
    for c in cases[:: max(1, len(cases) // 5)][:5]:
        chk.sample({"id": c["id"], "text": _text_of(c)[:60], "ok": c["ok"], "ntok": len(c["toks"]), "err": c["err"]})


def selftest_binding(chk, scr, table_path, cases):
    """BUILDING rule 10: one corrupted field of a good record must be rejected by TLC."""
    good = next((c for c in cases if c["ok"] and len(c["toks"]) >= 3 and c["fam"] == "corpus"), None)
    if good is None:
        good = next((c for c in cases if c["ok"] and len(c["toks"]) >= 3), None)
    if good is None:
        return
    muts = []
    a = json.loads(json.dumps(good)); a["id"] = "selftest-col"; a["toks"][1]["c1"] += 1; muts.append(a)
    b = json.loads(json.dumps(good)); b["id"] = "selftest-drop"; del b["toks"][1]; muts.append(b)
    c = json.loads(json.dumps(good)); c["id"] = "selftest-sym"; c["toks"][0]["sym"] = "BadWord" if c["toks"][0]["sym"] != "BadWord" else "SnakeWord"; muts.append(c)
    tmp = Check(chk.prop, chk.tier, chk.seed)
    fails = lex_run.run_lexcheck(tmp, scr, table_path, muts, "selftest", nshards=1)
    rejected = {f["id"] for f in fails}
    chk.extra["binding_selftest"] = {"corrupted_records": len(muts), "rejected": len(rejected)}
    if len(rejected) != len(muts):
        raise MachineryError("binding self-test: corrupted token records were accepted: %s" %
                             sorted({m["id"] for m in muts} - rejected))


def run(chk, only=None):
    t0 = time.time()
    tier = chk.tier
    with Scratch("c10") as scr:
        table_path = scr.file("lex_table.json")
        table = lex_run.write_table(table_path)
        chk.extra["documented_patterns"] = len(table["patterns"])
        if not only or "mc" in only:
            run_mc(chk, scr, table_path, tier)
        fam_only = None
        if only:
            fam_only = {o for o in only if o != "mc"}
            if not fam_only:
                _finish(chk)
                return
        cases, counts = build_cases(chk, table, tier, chk.seed, fam_only)
        fails = lex_run.run_lexcheck(chk, scr, table_path, cases, "LexCheck", env_extra=JVM)
        report(chk, cases, fails)
        evidence(chk, cases, counts)
        if not only:
            selftest_binding(chk, scr, table_path, cases)
    _finish(chk)


def _finish(chk):
    chk.rule = ("texts: every string of length<=3 (quick) / <=4 (thorough) over the 15-symbol alphabet "
                "'aA_01xb$\"\\-# \\t\\n' plus seeded longer ones; 1..5-line texts over 6 leading-whitespace shapes x "
                "3 bodies; every .emb, error example and language-reference code block of the repo; token soup from "
                "the documented literals and pattern examples/near-misses; seeded edits of corpus lines; every "
                "str.splitlines() terminator and str.isspace() code point at line start/middle/end. "
                "Non-trivial = distinct symbol sequence of >=3 tokens, or a rejected text.")
    chk.assumptions += [
        "D1 line terminators = Python str.splitlines(); D2 \\s / leading whitespace = Python Unicode whitespace (docs silent)",
        "D3 positions of synthesized tokens (\"\\n\", Indent, Dedent) follow the code (docs silent)",
        "D4 error = first offending line; column compared only for 'unrecognized'; message wording not compared",
        "grammar.md table cell decoding: `\\|` is a literal bar in quoted-symbol rows, the markdown escape of `|` elsewhere",
        "matcher-vs-re: max-NFA-length reading of each documented regex is compared with Python re on single-line cases",
    ]


def replay(chk, path):
    with open(path) as f:
        rp = json.load(f)
    case = rp["case"]
    text = "".join(chr(c) for c in case["text"])
    with Scratch("c10r") as scr:
        table_path = scr.file("lex_table.json")
        lex_run.write_table(table_path)
        rec = lex_run.record(text, case.get("id", "replay"), case.get("fam", "replay"))
        fails = lex_run.run_lexcheck(chk, scr, table_path, [rec], "replay", nshards=1)
        report(chk, [rec], fails)
        chk.traces = 1
