"""Run the REAL compiler from /repo's working tree, in-process.

Import this only inside worker processes / checks that need the compiler: the import costs a few
seconds (2.6 MB cached parser).
"""
import os
import sys

from .common import REPO

if REPO not in sys.path:
    sys.path.insert(0, REPO)
sys.dont_write_bytecode = True


def _mods():
    from compiler.front_end import glue
    from compiler.back_end.cpp import header_generator
    from compiler.util import error as error_mod
    return glue, header_generator, error_mod


def reader_for(files):
    def read(name):
        if name in files:
            return files[name], None
        return None, ["file '%s' not found" % name]
    return read


def front_end(files, main, stop_before_step=None):
    """files: {name: text}.  Returns (ir, debug_info, errors) from the real front end."""
    glue, _, _ = _mods()
    return glue.parse_emboss_file(main, reader_for(files), stop_before_step=stop_before_step)


def compile_header(files, main, enum_traits=True):
    """Returns (header_text or None, ir or None, errors)."""
    glue, hg, _ = _mods()
    ir, dbg, errors = glue.parse_emboss_file(main, reader_for(files))
    if errors:
        return None, None, errors
    header, errors = hg.generate_header(ir, hg.Config(include_enum_traits=enum_traits))
    if errors:
        return None, ir, errors
    return header, ir, []


def flat_errors(errors):
    """[[Message]] -> list of dicts."""
    out = []
    for group in errors:
        g = []
        for m in group:
            loc = m.location
            g.append({
                "file": m.source_file,
                "sev": str(m.severity),
                "msg": m.message,
                "l1": getattr(loc.start, "line", None) if loc is not None else None,
                "c1": getattr(loc.start, "column", None) if loc is not None else None,
                "l2": getattr(loc.end, "line", None) if loc is not None else None,
                "c2": getattr(loc.end, "column", None) if loc is not None else None,
                "synthetic": bool(getattr(loc, "is_synthetic", False)) if loc is not None else None,
            })
        out.append(g)
    return out
