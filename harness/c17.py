"""C17 - compilation is a pure function of its input files.

  (MC) PipelineMC: all schedules of <= 3 (thorough 4) compilations over source sets that share imports,
       carry anonymous `bits`, carry the same file name with different text, in 2 processes with restarts
       and 2 hash seeds: Pure, SplitEqualsInProc, AnonDistinct, CacheCounter, Conforms; the defective
       variants (cache keyed by file name only, no copy on cache hit, set-order output, per-compile
       counter) must be caught.
  (G)  TLC enumerates schedules (which process compiles which source set through which import-dir
       order in which mode, with process restarts).  Each schedule is replayed in real interpreters:
       every spec process is a fork of a pristine interpreter that has imported the compiler and
       compiled nothing (in-process family, under two hash seeds), or a fresh `embossc` /
       `emboss_front_end | emboss_codegen_cpp` subprocess with PYTHONHASHSEED in {0,1,..,random}
       (fresh-process family, import-dir permutations with duplicated identical files included).
  (V)  PipelineTrace validates every recorded event (cache hit/miss against the cache the monitor
       predicts, anonymous numbering against the counter) and evaluates Pure on the recorded output
       hashes: same source files => identical verdict, IR, header, diagnostics (byte-identical when the
       predicted numbering coincides, identical up to the numbering otherwise).
No golden output: only a difference between two runs can raise an alarm.
"""
import json
import os
import subprocess
import sys
import threading

from .common import REPO, NCPU, Scratch, MachineryError, run_parallel
from . import pipe_tlc, pipe_worker, pipe_probe

LEVEL = "model_checking"

QUICK = dict(mc_compiles=3, gen=[dict(procs=("p1",), compiles=3, constraints=("NoRestart",)), dict(procs=("p1",), compiles=2)], cli_seeds=("0", "1", "random"), split_all_seeds=False,
             workers=10, second_seed_fraction=0.5)
THOROUGH = dict(mc_compiles=4, gen=[dict(procs=("p1", "p2"), compiles=3), dict(procs=("p1",), compiles=4)],
                cli_seeds=("0", "1", "2", "3", "random"), split_all_seeds=True, workers=14, second_seed_fraction=1.0)

# ---- the real texts behind the abstract texts of PipelineMC (tA, tS1, ...) ------------------------------

S1 = '''[$default byte_order: "LittleEndian"]
struct Shared:
  0 [+1]  bits:
    0 [+1]  Flag  f
    1 [+3]  UInt  u
  1 [+1]  UInt  v
'''
S2 = '''[$default byte_order: "LittleEndian"]
struct Shared:
  0 [+1]  bits:
    0 [+1]  Flag  f
  1 [+1]  bits:
    0 [+1]  Flag  g
  let c1 = c2 + 1
  let c2 = c1 + 1
  let d1 = d2 + 1
  let d2 = d1 + 1
  let e1 = e2
  let e2 = e3
  let e3 = e1
struct Other:
  let x1 = x2
  let x2 = x1
'''
A = '''import "s.emb" as s
[$default byte_order: "LittleEndian"]
struct Top:
  0 [+1]  bits:
    0 [+4]  UInt  lo
    4 [+4]  UInt  hi
  1 [+2]  s.Shared  shared
  3 [+1]  enum  kind:
    FIRST = 0
    SECOND = 1
  let sum = lo + hi
  # values whose serialized form is "falsy": the literal false, zero, an empty-string-valued attribute
  if false:
    4 [+1]  UInt  never
  let off = false
  let zero = 0
  let neither = off && (lo == 16)
  let none = zero * hi
'''
B = '''struct Foo:
  0 [+1]  UInt  x
  1 [+1]  UInt  UInt
'''
C = '''import "s.emb" as s
import "missing.emb" as m
import "s.emb" as s_again
struct Foo:
  0 [+2]  s.Shared  x
'''
D = '''import "s.emb" as s
[$default byte_order: "LittleEndian"]
struct Cyc:
  0 [+1]  bits:
    0 [+1]  Flag  p
  1 [+1]  bits:
    0 [+1]  Flag  q
  let a1 = a2 + 1
  let a2 = a1 + 1
  let b1 = b2 + 1
  let b2 = b3 + 1
  let b3 = b1 + 1
  let k1 = k2
  let k2 = k1
struct Cyc2:
  let m1 = m2
  let m2 = m1
  let n1 = n2
  let n2 = n1
'''
F = '''import "f.emb" as me
[$default byte_order: "LittleEndian"]
struct Foo:
  0 [+1]  UInt  x
'''
G = '''struct Foo:
  0 [+1]  UInt  x ~ y
  1 [+1]  UInt  9z
'''
H = '''[(cpp) namespace: "bad namespace"]
struct Foo:
  0 [+1]  UInt  x
'''
N = '''import "s.emb" as s
[$default byte_order: "LittleEndian"]
struct Outer:
  struct Inner:
    0 [+1]  UInt  x
  0 [+1]  Inner  a
  1 [+1]  Other  b
struct Inner:
  0 [+1]  UInt  y
struct Other:
  struct Inner:
    0 [+1]  UInt  z
  0 [+1]  Inner  c
'''

K = '''[expected_back_ends: "cpp, rust, java, verilog"]
[(go) namespace: "x"]
[(swift) namespace: "y"]
[$default byte_order: "LittleEndian"]
struct Foo:
  [(zig) thing: 1]
  0 [+1]  UInt  x
'''

W = '''import "x1.emb" as x1
import "y1.emb" as y1
[$default byte_order: "LittleEndian"]
struct Foo:
  0 [+1]  UInt  x
'''
CYC = '''import "%s.emb" as other
[$default byte_order: "LittleEndian"]
struct Bar:
  0 [+1]  UInt  y
'''

FS = {
    "d1": {"a.emb": A, "s.emb": S1, "b.emb": B, "c.emb": C, "d.emb": D, "f.emb": F, "g.emb": G, "h.emb": H, "n.emb": N, "k.emb": K,
           "w.emb": W, "x1.emb": CYC % "x2", "x2.emb": CYC % "x1", "y1.emb": CYC % "y2", "y2.emb": CYC % "y1"},
    "d2": {"s.emb": S2},
    "d3": {"s.emb": S1, "a.emb": A},
}
WHAT = {"a": "accepted, anonymous bits, imports s", "b": "syntax error", "c": "missing + duplicate import",
        "d": "several dependency cycles", "f": "self import", "g": "lexical error", "h": "back-end error",
        "n": "ambiguous names", "s": "shared import", "k": "attribute errors listing sets of names",
        "w": "two disjoint import cycles"}


def build_fs(root):
    paths = {}
    for d, files in FS.items():
        p = os.path.join(root, d)
        os.makedirs(p, exist_ok=True)
        for n, t in files.items():
            with open(os.path.join(p, n), "w", encoding="utf-8") as f:
                f.write(t)
        paths[d] = p
    return paths


def label(step):
    """Readable identity of the set of source files a step compiles (TLC computed `view`)."""
    v = step["view"]
    return "%s|s=%s|%s" % (step["main"], v.get("s", "?"), pipe_probe.h(json.dumps(v, sort_keys=True), 6))


def schedule_job(idx, sched, paths, hashseed):
    steps = []
    for k, st in enumerate(sched["steps"]):
        key = "ip:" + label(st) + ("|front" if st["mode"] == "front" else "")
        steps.append({"p": st["p"], "fresh": st["fresh"],
                      "job": {"main": st["main"] + ".emb", "dirs": [paths[d] for d in st["dirs"]], "mode": st["mode"],
                              "key": key, "tid": "sched%d.%d:%s<%s>%s@hashseed=%s" % (idx, k, st["main"], "+".join(st["dirs"]), st["mode"], hashseed)}})
    return {"op": "sched", "tid": "sched%d" % idx, "steps": steps}


def run_cli(sc, paths, idx, st):
    """One fresh-process compilation (`embossc`, or front end | back end) under the given hash seed."""
    d = sc.sub("cli%d" % idx)
    cwd = os.path.join(d, "cwd")
    os.makedirs(cwd, exist_ok=True)
    env = dict(os.environ, PYTHONDONTWRITEBYTECODE="1", PYTHONHASHSEED=st["seed"], PYTHONPATH=REPO)
    main = st["main"] + ".emb"
    dirs = []
    for x in st["dirs"]:
        dirs += ["--import-dir", paths[x]]
    py = sys.executable

    def run(cmd):
        p = subprocess.run(cmd, cwd=cwd, env=env, stdout=subprocess.PIPE, stderr=subprocess.PIPE, timeout=600)
        return p.returncode, p.stderr.decode("utf-8", "replace")

    ir_text = None
    if st["mode"] == "split":
        irj = os.path.join(d, "ir.json")
        hdr = os.path.join(d, "out.h")
        rc, err = run([py, "-m", "compiler.front_end.emboss_front_end", "--color-output", "never"] + dirs + ["--output-file", irj, main])
        if rc == 0:
            rc2, err2 = run([py, "-m", "compiler.back_end.cpp.emboss_codegen_cpp", "--color-output", "never",
                             "--input-file", irj, "--output-file", hdr])
            rc, err = max(rc, rc2), err + err2
        if os.path.exists(irj):
            ir_text = open(irj, encoding="utf-8").read()
    else:
        hdr = os.path.join(d, "out", main + ".h")
        rc, err = run([py, os.path.join(REPO, "embossc"), "--color-output", "never"] + dirs +
                      ["--output-path", os.path.join(d, "out"), main])
    from .c16 import traceback_site
    tb = traceback_site(err)
    header = open(hdr, encoding="utf-8").read() if os.path.exists(hdr) else None
    lab = label(st)
    tid = "cli%d:%s<%s>%s@seed=%s" % (idx, st["main"], "+".join(st["dirs"]), st["mode"], st["seed"])

    def hp(txt):
        if txt is None:
            return "-", "-"
        norm, _ = pipe_probe.normalise_anon(txt)
        return pipe_probe.h(txt, 16), pipe_probe.h(norm, 16)

    hr, hn = hp(header)
    er, en = hp(err)
    base = {"ev": "Cli", "tid": tid, "mode": "embossc" if st["mode"] != "split" else "front_end|codegen_cpp", "seed": st["seed"],
            "exit": rc, "tb": tb, "has_header": header is not None, "stderr_empty": err.strip() == "",
            "kind": "exit%d" % rc, "anon": ["fresh"]}
    evs = [dict(base, key="cli:" + lab, ir_json_raw="-", ir_json_norm="-", header_raw=hr, header_norm=hn,
                stderr_raw=er, stderr_norm=en)]
    if ir_text is not None:
        ir_r, ir_n = hp(ir_text)
        evs.append(dict(base, key="cli-ir:" + lab, ir_json_raw=ir_r, ir_json_norm=ir_n, header_raw="-", header_norm="-",
                        stderr_raw="-", stderr_norm="-"))
    return evs, {"tid": tid, "stderr": err[-1500:], "main": main, "dirs": st["dirs"], "seed": st["seed"], "mode": st["mode"]}


def run(chk, only=None):
    cfg = QUICK if chk.tier == "quick" else THOROUGH
    want = lambda p: only is None or p in only
    chk.rule = ("schedules are enumerated by TLC from PipelineMC (all sequences of compilations of the listed source sets, "
                "process restarts, import-directory orders, modes); a replay is non-trivial when it puts a source set in a "
                "distinct context: (source set, entry point, hash seed, position after which other sets, cache hit/miss pattern)")
    chk.assumptions += [
        "a spec process = fork of a pristine interpreter that imported the compiler but compiled nothing (in-process family) or a fresh subprocess (fresh-process family)",
        "in-process outputs are compared with in-process outputs, CLI outputs with CLI outputs (the CLI renders diagnostics without source snippets)",
        "diagnostics of a source set with a missing import legitimately name the search path; such sets are not run under permuted directories",
    ]
    with Scratch("c17") as sc:
        if want("mc"):
            pipe_tlc.run_mc(chk, sc, choice_set="deep", max_compiles=cfg["mc_compiles"], part="mc-design-deep",
                            coverage=(chk.tier != "quick"))
            pipe_tlc.run_mc(chk, sc, choice_set="wide", max_compiles=1, part="mc-design-wide", coverage=True)
            pipe_tlc.run_variants(chk, sc, ["keyfile", "nocopy", "setorder", "percompile"])
        if not (want("inproc") or want("cli")):
            return
        paths = build_fs(sc.sub("fs"))
        streams = []
        contexts = set()
        ncomp = 0
        # ------------- fresh-process family (runs in the background while the in-process family replays) -------------
        cli_out = {}

        def do_cli():
            d = pipe_tlc._spec_copy(sc, "gen-cli")
            from .common import write_cfg, run_tlc
            cfgp = os.path.join(d, "gen.cfg")
            write_cfg(cfgp, constants=pipe_tlc.mc_constants("doc", "cli", 1, gen=True, procs=("p1",), seeds=cfg["cli_seeds"]),
                      invariants=("GenPrint",), constraints=(() if cfg["split_all_seeds"] else ("SplitOnlySeedZero",)))
            res = run_tlc(os.path.join(d, "PipelineMC.tla"), cfgp, workers=1, timeout=900)
            cli_out["gen"] = res
            seen, steps = set(), []
            for c in res.printed_json():
                st = c["steps"][0]
                k = json.dumps(st, sort_keys=True)
                if k not in seen:
                    seen.add(k)
                    steps.append(st)
            # "random" twice: two independent draws
            steps += [dict(s, seed="random") for s in steps if s["seed"] == "random"]
            res2 = run_parallel([(lambda i=i, s=s: run_cli(sc, paths, i, s)) for i, s in enumerate(steps)], nproc=pipe_tlc.max_par(4))
            cli_out["res"] = res2
            cli_out["steps"] = steps

        th = None
        if want("cli"):
            th = threading.Thread(target=do_cli)
            th.start()
        # ------------- in-process family -------------
        pools = []
        if want("inproc"):
            scheds = []
            for g in cfg["gen"]:
                scheds += pipe_tlc.run_gen(chk, sc, choice_set="gen", max_compiles=g["compiles"], procs=g["procs"],
                                           seeds=("0",), part="schedule-generator", constraints=g.get("constraints", ()))
            chk.extra["schedules_generated"] = len(scheds)
            scale = float(os.environ.get("VERIF_C17_SCALE", "1") or 1)   # development aid: replay a sample only
            if scale < 1:
                step = max(1, int(round(1 / scale)))
                scheds = scheds[chk.seed % step::step]
                chk.extra["schedules_replayed_sample"] = len(scheds)
            jobs = [schedule_job(i, s, paths, "0") for i, s in enumerate(scheds)]
            jobs1 = [schedule_job(i, s, paths, "1") for i, s in enumerate(scheds)]
            for s in scheds[:2]:
                chk.sample([{k: st[k] for k in ("p", "main", "dirs", "mode", "fresh", "ids", "kind")} for st in s["steps"]])
            nw = max(2, pipe_tlc.max_par(min(cfg["workers"], max(2, NCPU - 4))))
            n1 = nw - nw // 3
            second = jobs1 if cfg["second_seed_fraction"] >= 1 else jobs1[::2]
            p0 = pipe_worker.Pool(sc.sub("seed0"), n1, job_timeout=300, hashseed="0", pristine=True, name="s0w")
            p1 = pipe_worker.Pool(sc.sub("seed1"), max(1, nw - n1), job_timeout=300, hashseed="1", pristine=True, name="s1w")
            t0 = threading.Thread(target=lambda: p0.run([dict(j) for j in jobs]))
            t1 = threading.Thread(target=lambda: p1.run([dict(j) for j in second]))
            t0.start(); t1.start(); t0.join(); t1.join()
            pools = [p0, p1]
            if p0.timeouts or p0.crashes or p1.timeouts or p1.crashes:
                raise MachineryError("schedule worker died or timed out: %r" % ((p0.timeouts + p0.crashes + p1.timeouts + p1.crashes)[:3],))
        if th:
            th.join()
        shard_files = []
        # pair the streams of the two seeds so that every shard sees both
        if pools:
            s0 = sorted(pools[0].streams)
            s1 = sorted(pools[1].streams)
            nsh = min(4, len(s0))
            groups = [[] for _ in range(nsh)]
            for i, s in enumerate(s0):
                groups[i % nsh].append(s)
            for i, s in enumerate(s1):
                groups[i % nsh].append(s)
            for gi, g in enumerate(groups):
                sf, _ = pipe_tlc.shard_streams(sc, g, 1, "ip%d" % gi)
                shard_files += sf
            for s in s0 + s1:
                hitmiss = []
                seed = None
                for e in pipe_worker.read_stream(s):
                    if e["ev"] == "Start":
                        seed, hist = e["seed"], []
                    elif e["ev"] == "Compile":
                        ncomp += 1
                        cur = e
                        hitmiss = []
                    elif e["ev"] == "Mod":
                        hitmiss.append("?")
                    elif e["ev"] == "Tok" and hitmiss:
                        hitmiss[-1] = "m"
                    elif e["ev"] in ("Report", "Exception"):
                        pat = "".join("h" if x == "?" else x for x in hitmiss)
                        contexts.add((cur["key"], cur["mode"], seed, tuple(hist[-2:]), pat))
                        hist.append(cur["key"])
        cli_inputs = {}
        if "res" in cli_out:
            chk.add_tlc(cli_out["gen"], part="fresh-process-generator")
            cli_stream = sc.file("cli.ndjson")
            with open(cli_stream, "w") as f:
                for evs, info in cli_out["res"]:
                    for e in evs:
                        f.write(json.dumps(e) + "\n")
                    ncomp += 1
                    cli_inputs[info["tid"]] = info
                    contexts.add((evs[0]["key"], evs[0]["mode"], info["seed"], tuple(info["dirs"])))
            shard_files.append(cli_stream)
            chk.extra["fresh_process_compilations"] = len(cli_out["res"])
            chk.sample({"fresh-process": cli_out["res"][0][1]["tid"], "exit": cli_out["res"][0][0][0]["exit"]})
        chk.traces = ncomp
        chk.nontrivial_count = len(contexts)
        verdicts, summaries = pipe_tlc.validate_streams(chk, sc, shard_files, part="trace-validation")
        chk.evaluations = sum(s["events"] for s in summaries)
        chk.extra["events_validated"] = chk.evaluations
        chk.extra["events_blamed"] = sum(s["blamed"] for s in summaries)
        seen = set()
        for v in verdicts:
            for clause, site in v["clauses"]:
                key = pipe_tlc.key_of(clause, site, v.get("input", ""))
                payload = None
                if key not in seen:
                    seen.add(key)
                    main = (v.get("input") or "").split(":", 1)[-1].split("|")[0]
                    payload = {"compilation": v.get("tid"), "differs_from": v.get("against"), "source_set": v.get("input"),
                               "what": WHAT.get(main, ""), "files": {d: FS[d] for d in FS} if main else None,
                               "cli": cli_inputs.get(v.get("tid"))}
                chk.violation(key, "%s [%s]: compilation %s versus %s" % (clause, v.get("input") or site, v.get("tid"), v.get("against")),
                              payload)


def replay(chk, path):
    """Re-run the source set named in a replay file as fresh `embossc` processes under hash seeds 0..3 and
    through both import-directory orders where that applies; Pure is judged again by TLC."""
    with open(path) as f:
        rp = json.load(f)
    case = rp.get("case") or {}
    src = (case.get("source_set") or "").split(":", 1)[-1]
    main = src.split("|")[0]
    if main not in WHAT:
        raise MachineryError("replay file does not name a source set")
    s_text = src.split("|s=")[1].split("|")[0] if "|s=" in src else "tS1"
    dirs = ["d2", "d1"] if s_text == "tS2" else ["d1"]
    view = {"s": s_text, "main": main}
    with Scratch("c17r") as sc:
        paths = build_fs(sc.sub("fs"))
        steps = [{"main": main, "dirs": dirs, "mode": m, "seed": sd, "view": view}
                 for sd in ("0", "1", "2", "3") for m in ("inproc", "split")]
        res = run_parallel([(lambda i=i, s=s: run_cli(sc, paths, i, s)) for i, s in enumerate(steps)], nproc=pipe_tlc.max_par(4))
        stream = sc.file("cli.ndjson")
        with open(stream, "w") as f:
            for evs, _info in res:
                for e in evs:
                    f.write(json.dumps(e) + "\n")
        verdicts, _ = pipe_tlc.validate_streams(chk, sc, [stream], part="replay")
        chk.traces = len(res)
        for v in verdicts:
            for clause, site in v["clauses"]:
                chk.violation(pipe_tlc.key_of(clause, site, v.get("input", "")),
                              "%s [%s]: %s versus %s" % (clause, v.get("input"), v.get("tid"), v.get("against")), case)
