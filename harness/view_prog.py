"""MiniEmboss abstract programs for the view checks (C01, C03, C04, C06, C20, C07).

One data shape is shared by TLC (spec/view/View.tla reads it as `Prog`), the renderer (-> .emb text)
and the C++ driver generator.  Only `render` knows concrete syntax.

Program = {"name": str, "types": {Name: TypeDef}, "order": [Name...], "enums": {Name: EnumDef}}
TypeDef = {"kind": "struct"|"bits", "unit": 8|1, "params": [{"name","signed","bits"}], "fields": [Field],
           "requires": [Expr]?, "default_order": "LE"|"BE"|None}
Field   = scalar: {"name","kind":"scalar","start","size","cond","st","w","order","requires":[Expr]?, "enum":Name?}
          sub:    {"name","kind":"sub","start","size","cond","type","args":[Expr],"bitsize","order","anon":bool,"inline":bool}
          array:  {"name","kind":"array","start","size","cond","elsize","elem":{...},"auto":bool}
          virt:   {"name","kind":"virt","value":Expr,"alias":[names],"anon":bool,"vt":"int"|"bool","requires":[Expr]?}
Expr    = {"k":"int","v"} {"k":"bool","v"} {"k":"enum","enum","name","v"} {"k":"this"} {"k":"par","i","name"}
          {"k":"ref","path":[..]} {"k":"present","path":[..]} {"k":"op","fn","args":[..]}
Fields carry render hints that TLC ignores: "start_next": True (print `$next`), "abbr", "text_output", "explicit_bits".
"""
import copy
import json


# ------------------------------------------------------------------ expression builders
def I(v):
    return {"k": "int", "v": int(v)}


def Bo(v):
    return {"k": "bool", "v": bool(v)}


def R(*path):
    return {"k": "ref", "path": list(path)}


def Par(i, name):
    return {"k": "par", "i": i, "name": name}


def Pres(*path):
    return {"k": "present", "path": list(path)}


def Op(fn, *args):
    return {"k": "op", "fn": fn, "args": [E(a) for a in args]}


def En(enum, name, v):
    return {"k": "enum", "enum": enum, "name": name, "v": v}


THIS = {"k": "this"}
TRUE_ = Bo(True)


def E(x):
    if isinstance(x, dict):
        return x
    if isinstance(x, bool):
        return Bo(x)
    if isinstance(x, int):
        return I(x)
    if isinstance(x, str):
        return R(*x.split("."))
    raise TypeError(x)


class TypeB:
    """Builder for one struct/bits definition."""

    def __init__(self, prog, name, kind, params=(), default_order=None, requires=None):
        self.prog = prog
        self.name = name
        self.d = {
            "kind": kind,
            "unit": 8 if kind == "struct" else 1,
            "params": [{"name": n, "signed": s, "bits": b} for (n, s, b) in params],
            "fields": [],
            "requires": [E(requires)] if requires is not None else [],
            "default_order": default_order,
        }
        self.anon_count = 0

    # location helpers
    def _loc(self, start, size):
        hint = {}
        if start == "$next":
            prev = [f for f in self.d["fields"] if f["kind"] != "virt" and not f.get("anon_member")]
            assert prev
            p = prev[-1]
            start = Op("+", p["start"], p["size"])
            hint["start_next"] = True
        return E(start), E(size), hint

    def _order(self, order, nbytes_known_1=False):
        return order or self.d["default_order"] or self.prog.default_order or "Null"

    def scalar(self, name, start, size, st="UInt", cond=True, order=None, requires=None, enum=None, bits=None, **hints):
        start, size, h = self._loc(start, size)
        assert size["k"] == "int"
        w = size["v"] * self.d["unit"]
        if bits is not None:
            assert bits == w
            h["explicit_bits"] = True
        f = {"name": name, "kind": "scalar", "start": start, "size": size, "cond": E(cond), "st": st, "w": w,
             "order": self._order(order), "requires": [E(requires)] if requires is not None else []}
        if enum:
            f["enum"] = enum
            f["st"] = "EnumS" if self.prog.enums[enum]["signed"] else "EnumU"
        f.update(h)
        f.update(hints)
        self.d["fields"].append(f)
        return self

    def sub(self, name, start, size, type_, args=(), cond=True, order=None, anon=False, inline=False, **hints):
        start, size, h = self._loc(start, size)
        T = self.prog.types[type_]
        bitsize = 0
        if T["unit"] == 1 and self.d["unit"] == 8:
            assert size["k"] == "int"
            bitsize = size["v"] * 8
        f = {"name": name, "kind": "sub", "start": start, "size": size, "cond": E(cond), "type": type_,
             "args": [E(a) for a in args], "bitsize": bitsize, "order": self._order(order), "anon": anon, "inline": inline}
        f.update(h)
        f.update(hints)
        self.d["fields"].append(f)
        return self

    def anon_bits(self, start, size, members, cond=True, order=None):
        """members: callable(TypeB) that adds fields to the anonymous bits type."""
        self.anon_count += 1
        tname = "%sAnon%d" % (self.name, self.anon_count)
        fname = "anon%d_" % self.anon_count
        tb = self.prog.bits(tname, hidden=True)
        members(tb)
        self.sub(fname, start, size, tname, cond=cond, order=order, anon=True)
        for m in self.prog.types[tname]["fields"]:
            if m["kind"] == "virt":
                continue
            vt = "int"
            self.d["fields"].append({"name": m["name"], "kind": "virt", "value": R(fname, m["name"]), "alias": [fname, m["name"]],
                                     "anon": True, "vt": vt, "requires": [], "anon_member": True, "xform": []})
        return self

    def array(self, name, start, size, elem, elsize, cond=True, auto=False, **hints):
        """elem: ("UInt"|"Int"|"Bcd", order) scalar of elsize bytes, or ("sub", TypeName)."""
        start, size, h = self._loc(start, size)
        if elem[0] == "sub":
            T = self.prog.types[elem[1]]
            e = {"kind": "sub", "type": elem[1], "bitsize": elsize * 8 if T["unit"] == 1 else 0, "order": self._order(elem[2] if len(elem) > 2 else None)}
        else:
            e = {"kind": "scalar", "st": elem[0], "w": elsize * self.d["unit"], "order": self._order(elem[1] if len(elem) > 1 else None)}
        f = {"name": name, "kind": "array", "start": start, "size": size, "cond": E(cond), "elsize": elsize, "elem": e, "auto": auto}
        f.update(h)
        f.update(hints)
        self.d["fields"].append(f)
        return self

    def virt(self, name, value, vt="int", requires=None, **hints):
        f = {"name": name, "kind": "virt", "value": E(value), "alias": [], "anon": False, "vt": vt, "xform": [],
             "requires": [E(requires)] if requires is not None else []}
        f.update(hints)
        self.d["fields"].append(f)
        return self

    def transform(self, name, op, dest, c, requires=None, **hints):
        """Writable virtual per the language reference: op in "y+c" (also rendered c+y with flip=True), "y-c", "c-y"."""
        path = dest.split(".") if isinstance(dest, str) else list(dest)
        y = R(*path)
        if op == "y+c":
            value = Op("+", I(c), y) if hints.pop("flip", False) else Op("+", y, I(c))
        elif op == "y-c":
            value = Op("-", y, I(c))
        else:
            value = Op("-", I(c), y)
        f = {"name": name, "kind": "virt", "value": value, "alias": [], "anon": False, "vt": "int",
             "xform": [{"op": op, "c": c, "dest": path}], "requires": [E(requires)] if requires is not None else []}
        f.update(hints)
        self.d["fields"].append(f)
        return self

    def transform_expr(self, name, value, dest, lo_hi, requires=None, **hints):
        """Writable virtual whose value nests additions/subtractions of constants around ONE field `dest`
        ((y - 50) + 30, 100 - (y - 5), ...).  lo_hi: the values of the virtual at dest's smallest / largest value
        (only used to pick write candidates at the edges)."""
        path = dest.split(".") if isinstance(dest, str) else list(dest)
        f = {"name": name, "kind": "virt", "value": E(value), "alias": [], "anon": False, "vt": "int",
             "xform": [{"op": "expr", "c": 0, "dest": path, "edges": sorted(lo_hi)}],
             "requires": [E(requires)] if requires is not None else []}
        f.update(hints)
        self.d["fields"].append(f)
        return self

    def alias(self, name, *path, **hints):
        f = {"name": name, "kind": "virt", "value": R(*path), "alias": list(path), "anon": False, "vt": "int", "requires": [], "xform": []}
        f.update(hints)
        self.d["fields"].append(f)
        return self


class Program:
    def __init__(self, name, default_order="LE"):
        self.name = name
        self.default_order = default_order
        self.types = {}
        self.order = []
        self.enums = {}
        self.hidden = set()

    def enum(self, name, values, signed=False, bits=None, case=None):
        # case: render hint `[(cpp) enum_case: ...]` - the C++ spelling of the enumerators; the text format keeps the Emboss names
        self.enums[name] = {"values": [{"name": n, "v": v} for n, v in values], "signed": signed, "bits": bits}
        if case:
            self.enums[name]["case"] = case
        return self

    def struct(self, name, params=(), default_order=None, requires=None):
        tb = TypeB(self, name, "struct", params, default_order, requires)
        self.types[name] = tb.d
        self.order.append(name)
        return tb

    def bits(self, name, params=(), hidden=False, requires=None):
        tb = TypeB(self, name, "bits", params, None, requires)
        self.types[name] = tb.d
        self.order.append(name)
        if hidden:
            self.hidden.add(name)
        return tb

    def to_json(self):
        return {"name": self.name, "types": copy.deepcopy(self.types), "order": list(self.order), "enums": copy.deepcopy(self.enums),
                "default_order": self.default_order, "hidden": sorted(self.hidden)}


def from_json(j):
    p = Program(j["name"], j.get("default_order", "LE"))
    p.types = j["types"]
    p.order = j["order"]
    p.enums = j["enums"]
    p.hidden = set(j.get("hidden", []))
    return p


# ------------------------------------------------------------------ rendering to .emb
_PREC = {"?:": 1, "||": 2, "&&": 2, "==": 3, "!=": 3, "<": 3, "<=": 3, ">": 3, ">=": 3, "+": 4, "-": 4, "*": 5}


def render_expr(e, parent_prec=0):
    k = e["k"]
    if k == "int":
        return str(e["v"]) if e["v"] >= 0 else "(%d)" % e["v"] if parent_prec else str(e["v"])
    if k == "bool":
        return "true" if e["v"] else "false"
    if k == "enum":
        return "%s.%s" % (e["enum"], e["name"])
    if k == "this":
        return "this"
    if k == "par":
        return e["name"]
    if k == "ref":
        return ".".join(e["path"])
    if k == "present":
        return "$present(%s)" % ".".join(e["path"])
    fn = e["fn"]
    a = e["args"]
    if fn == "max":
        return "$max(%s)" % ", ".join(render_expr(x) for x in a)
    if fn == "?:":
        s = "%s ? %s : %s" % (render_expr(a[0], 2), render_expr(a[1], 2), render_expr(a[2], 2))
        return "(%s)" % s if parent_prec else s
    p = _PREC[fn]
    # always parenthesise nested binary operators: unambiguous for every Emboss precedence rule
    s = "%s %s %s" % (render_expr(a[0], p + 1), fn, render_expr(a[1], p + 1))
    return "(%s)" % s if parent_prec else s


_ORDER_NAME = {"LE": "LittleEndian", "BE": "BigEndian", "Null": "Null"}
_ST_NAME = {"UInt": "UInt", "Int": "Int", "Bcd": "Bcd", "Flag": "Flag"}


def _field_lines(prog, T, f, ind):
    out = []
    pad = " " * ind
    if f["kind"] == "virt":
        if f.get("anon_member"):
            return []
        out.append("%slet %s = %s" % (pad, f["name"], render_expr(f["value"])))
        for r in f.get("requires", []):
            out.append("%s  [requires: %s]" % (pad, render_expr(r)))
        if f.get("text_output"):
            out.append('%s  [text_output: "%s"]' % (pad, f["text_output"]))
        return out
    cond = f["cond"]
    if not (cond["k"] == "bool" and cond["v"] is True):
        out.append("%sif %s:" % (pad, render_expr(cond)))
        pad += "  "
        ind += 2
    start = "$next" if f.get("start_next") else render_expr(f["start"])
    loc = "%s [+%s]" % (start, render_expr(f["size"]))
    attrs = []
    body = []
    if f["kind"] == "scalar":
        if f["st"] in ("EnumU", "EnumS"):
            ty = f["enum"]
        else:
            ty = _ST_NAME[f["st"]]
        if f.get("explicit_bits"):
            ty += ":%d" % f["w"]
        if T["unit"] == 8 and f["order"] != (T.get("default_order") or prog.default_order or "Null"):
            attrs.append('[byte_order: "%s"]' % _ORDER_NAME[f["order"]])
        for r in f.get("requires", []):
            attrs.append("[requires: %s]" % render_expr(r))
    elif f["kind"] == "sub":
        S = prog.types[f["type"]]
        if f["anon"]:
            ty = "bits:"
        elif f.get("inline"):
            ty = S["kind"]
        else:
            ty = f["type"]
            if f["args"]:
                ty += "(%s)" % ", ".join(render_expr(a) for a in f["args"])
        if S["unit"] == 1 and T["unit"] == 8 and f["order"] != (T.get("default_order") or prog.default_order or "Null"):
            attrs.append('[byte_order: "%s"]' % _ORDER_NAME[f["order"]])
        if f["anon"] or f.get("inline"):
            for m in S["fields"]:
                body += _field_lines(prog, S, m, ind + 2)
    elif f["kind"] == "array":
        e = f["elem"]
        if e["kind"] == "scalar":
            ty = "%s:%d" % (_ST_NAME[e["st"]], e["w"])
        else:
            ty = e["type"]
        if f.get("auto"):
            ty += "[]"
        else:
            if f["size"]["k"] == "int":
                ty += "[%d]" % (f["size"]["v"] // f["elsize"])
            elif f["elsize"] == 1:
                ty += "[%s]" % render_expr(f["size"])
            else:
                ty += "[]"
        eo = e.get("order")
        if T["unit"] == 8 and eo and eo != (T.get("default_order") or prog.default_order or "Null") and (e["kind"] == "scalar" or prog.types[e["type"]]["unit"] == 1):
            attrs.append('[byte_order: "%s"]' % _ORDER_NAME[eo])
    if f.get("text_output"):
        attrs.append('[text_output: "%s"]' % f["text_output"])
    name = "" if (f["kind"] == "sub" and f["anon"]) else f["name"]
    abbr = " (%s)" % f["abbr"] if f.get("abbr") else ""
    if f["kind"] == "sub" and f["anon"]:
        out.append("%s%s  %s" % (pad, loc, ty))
    elif f["kind"] == "sub" and f.get("inline"):
        out.append("%s%s  %s  %s%s:" % (pad, loc, ty, name, abbr))
    else:
        out.append("%s%s  %s  %s%s" % (pad, loc, ty, name, abbr))
    for a in attrs:
        out.append("%s  %s" % (pad, a))
    out += body
    return out


def render(prog, namespace=None):
    """Program -> .emb text."""
    j = prog if isinstance(prog, Program) else from_json(prog)
    lines = []
    if j.default_order and j.default_order != "Null":
        lines.append('[$default byte_order: "%s"]' % _ORDER_NAME[j.default_order])
    lines.append('[(cpp) namespace: "%s"]' % (namespace or ("vt::" + j.name.lower())))
    lines.append("")
    for en, ed in j.enums.items():
        lines.append("enum %s:" % en)
        if ed.get("signed"):
            lines.append("  [is_signed: true]")
        if ed.get("bits"):
            lines.append("  [maximum_bits: %d]" % ed["bits"])
        if ed.get("case"):
            lines.append('  [(cpp) $default enum_case: "%s"]' % ed["case"])
        for v in ed["values"]:
            lines.append("  %s = %d" % (v["name"], v["v"]))
        lines.append("")
    inline_types = set()
    for tn in j.order:
        for f in j.types[tn]["fields"]:
            if f["kind"] == "sub" and (f["anon"] or f.get("inline")):
                inline_types.add(f["type"])
    for tn in j.order:
        if tn in inline_types:
            continue
        T = j.types[tn]
        params = ""
        if T["params"]:
            params = "(%s)" % ", ".join("%s: %s:%d" % (p["name"], "Int" if p["signed"] else "UInt", p["bits"]) for p in T["params"])
        lines.append("%s %s%s:" % (T["kind"], tn, params))
        if T["kind"] == "struct" and T.get("default_order") and T.get("default_order") != j.default_order:
            lines.append('  [$default byte_order: "%s"]' % _ORDER_NAME[T["default_order"]])
        for r in T.get("requires", []):
            lines.append("  [requires: %s]" % render_expr(r))
        n = 0
        for f in T["fields"]:
            fl = _field_lines(j, T, f, 2)
            n += len(fl)
            lines += fl
        if n == 0:
            lines.append("  --")
        lines.append("")
    return "\n".join(lines) + "\n"


def inline_type_name(outer, field_name):
    """The compiler names an inline `bits foo:`/`struct foo:` type after the field, CamelCased."""
    return "".join(w.capitalize() for w in field_name.split("_"))


def tlc_prog(prog):
    """The part of the program TLC reads (render hints are harmless extras)."""
    j = prog.to_json() if isinstance(prog, Program) else prog
    return {"types": _strip(j["types"]), "enums": _strip(j["enums"]) or {"NoEnum": {"values": []}}}


def _strip(x):
    """JSON null cannot cross into TLC; nulls only occur in render hints."""
    if isinstance(x, dict):
        return {k: _strip(v) for k, v in x.items() if v is not None}
    if isinstance(x, list):
        return [_strip(v) for v in x]
    return x


def dumps(prog):
    return json.dumps(prog.to_json() if isinstance(prog, Program) else prog, separators=(",", ":"))
