"""C12: abstract scope programs (printed by spec/scope/ScopeGen.tla) -> .emb files.

A program is {"defs": [...]} (see Scope.tla).  Only concrete syntax lives here.  Besides the
files the renderer returns `regions`: (file, line, col1, col2, def index) saying which definition
a source position belongs to (a whole line, or for parameters the columns of `name: UInt:8`).
Definition indices are 1-based like in TLA+.
"""

HEADER_ATTR = '[$default byte_order: "LittleEndian"]'
TYPE_KINDS = ("struct", "bits", "enum", "ext")


class _Out:
    def __init__(self, fname):
        self.fname = fname
        self.lines = []
        self.regions = []

    def add(self, text, d=0, c1=1, c2=10 ** 6):
        self.lines.append(text)
        if d:
            self.regions.append((self.fname, len(self.lines), c1, c2, d))


def _path(ref):
    return ".".join(ref["path"])


def _ref(d, slot):
    for r in d["refs"]:
        if r["slot"] == slot:
            return r
    return None


def render(prog):
    defs = prog["defs"]
    kids = {}
    for i, d in enumerate(defs, 1):
        kids.setdefault(d["parent"], []).append(i)
    inlined = {d["tyd"] for d in defs if d["inl"]}
    files, regions = {}, []

    def D(i):
        return defs[i - 1]

    def member(out, i, ind):
        d = D(i)
        k = d["kind"]
        if k == "virt":
            r = _ref(d, "alias") or _ref(d, "value")
            if r is None:
                expr = str(i)
            elif r["slot"] == "alias" or r["form"] == "static":
                expr = _path(r)
            else:
                expr = _path(r) + "+1"
            out.add("%slet %s = %s" % (ind, d["name"], expr), i)
            return
        if k == "val":
            r = _ref(d, "eval")
            out.add("%s%s = %s" % (ind, d["name"], _path(r) if r else str(i)), i)
            return
        if k == "anon":
            out.add("%s%d [+1]  bits:" % (ind, i % 3), i)
            for c in kids.get(i, []):
                member(out, c, ind + "  ")
            return
        if k != "field":
            return
        start = _ref(d, "start")
        size = _ref(d, "size")
        cond = _ref(d, "cond")
        ln = _ref(d, "len")
        ty = _ref(d, "type")
        if cond:
            out.add("%sif %s == 0:" % (ind, _path(cond)), i)
            ind2 = ind + "  "
        else:
            ind2 = ind
        loc = "%s [+%s]" % (_path(start) if start else "0", _path(size) if size else "1")
        abbr = " (%s)" % d["abbr"][0] if d["abbr"] else ""
        if d["inl"]:
            t = D(d["tyd"])
            out.add("%s%s  %s  %s%s:" % (ind2, loc, t["kind"], d["name"], abbr), i)
            body = kids.get(d["tyd"], [])
            for c in body:
                member(out, c, ind2 + "  ")
            if not body:
                out.add("%s  -- empty" % ind2)
        else:
            tname = _path(ty) if ty else "UInt"
            if ln:
                tname += ":8[%s]" % _path(ln) if tname == "UInt" else "[%s]" % _path(ln)
            elif d["arr"]:
                tname += "[2]"
            out.add("%s%s  %s  %s%s" % (ind2, loc, tname, d["name"], abbr), i)
        at = _ref(d, "attr")
        if at:
            out.add("%s  [requires: %s == 0]" % (ind2, _path(at)), i)

    def typedef(out, i, ind):
        d = D(i)
        k = d["kind"]
        head = "%s%s %s" % (ind, "external" if k == "ext" else k, d["name"])
        params = [c for c in kids.get(i, []) if D(c)["kind"] == "param"]
        col = len(head) + 2
        spans = []
        if params:
            parts = []
            for c in params:
                txt = "%s: UInt:8" % D(c)["name"]
                spans.append((c, col, col + len(txt) - 1))
                col += len(txt) + 2
                parts.append(txt)
            head += "(" + ", ".join(parts) + ")"
        out.add(head + ":", i)
        for c, c1, c2 in spans:
            out.regions.append((out.fname, len(out.lines), c1, c2, c))
        n0 = len(out.lines)
        for r in d["refs"]:
            if r["slot"] == "sattr":
                out.add("%s  [requires: %s == 0]" % (ind, _path(r)), i)
        for c in kids.get(i, []):
            if D(c)["kind"] in TYPE_KINDS and c not in inlined:
                typedef(out, c, ind + "  ")
        for c in kids.get(i, []):
            if D(c)["kind"] in ("field", "virt", "val", "anon"):
                member(out, c, ind + "  ")
        if len(out.lines) == n0:
            out.add("%s  -- empty" % ind)

    for i, d in enumerate(defs, 1):
        if d["kind"] != "mod" or d["name"] == "":
            continue
        out = _Out(d["name"])
        for c in kids.get(i, []):
            if D(c)["kind"] == "imp":
                out.add('import "%s" as %s' % (D(D(c)["target"])["name"], D(c)["name"]), c)
        out.add(HEADER_ATTR)
        for c in kids.get(i, []):
            if D(c)["kind"] in TYPE_KINDS:
                typedef(out, c, "")
        files[d["name"]] = "\n".join(out.lines) + "\n"
        regions += out.regions
    return files, regions


def locate(regions, fname, line, col):
    """Definition index at a source position (most specific region), 0 when none."""
    best, width = 0, None
    for f, ln, c1, c2, d in regions:
        if f == fname and ln == line and (col is None or c1 <= col <= c2):
            w = c2 - c1
            if width is None or w < width:
                best, width = d, w
    return best
