"""C13: abstract typing case (JSON printed by spec/typing/TypingGen.tla) -> .emb text.

Only concrete syntax lives here.  The renderer also reports, per slot, the line span of the
definition that contains the slot's expression (`def`) and the line(s) the expression itself is
on (`at`); TLC uses them to decide whether an error "points into the definition".
"""

ENUM_VALUE_NAMES = {"Ea": ["AA", "AB"], "Eb": ["BA", "BB"], "Ec": ["CA", "CB"], "Ed": ["AA", "AB"]}
# the spec's enum Ed is the enum `Ea' of an imported module: same name and value names as the local Ea, another type
ENUM_SYNTAX = {"Ea": "Ea", "Eb": "Eb", "Ec": "Ec", "Ed": "im.Ea"}
IMPORTED = {"im.emb": "enum Ea:\n  AA = 1\n  AB = 2\n"}
MAIN = "m.emb"


def files(text):
    return dict(IMPORTED, **{MAIN: text})


# what the skeleton below declares; TypingCheck.tla compares this with Typing!Leaves
SKELETON_LEAVES = [
    {"name": "a", "decl": "UInt", "en": ""},
    {"name": "b", "decl": "Int", "en": ""},
    {"name": "c", "decl": "Bcd", "en": ""},
    {"name": "f", "decl": "Flag", "en": ""},
    {"name": "g", "decl": "Flag", "en": ""},
    {"name": "e", "decl": "Enum", "en": "Ea"},
    {"name": "h", "decl": "Enum", "en": "Eb"},
    {"name": "m", "decl": "Enum", "en": "Ed"},
    {"name": "s", "decl": "Struct", "en": ""},
    {"name": "s.flag", "decl": "Struct", "en": ""},
    {"name": "r", "decl": "Array", "en": ""},
    {"name": "s.x", "decl": "UInt", "en": ""},
    {"name": "vi", "decl": "VInt", "en": ""},
    {"name": "vb", "decl": "VBool", "en": ""},
    {"name": "ve", "decl": "VEnum", "en": "Ea"},
    {"name": "p", "decl": "PUInt", "en": ""},
    {"name": "pj", "decl": "PInt", "en": ""},
    {"name": "q", "decl": "PEnum", "en": "Ea"},
]

BINARY = {"+", "-", "*", "<", "<=", ">", ">=", "==", "!=", "&&", "||"}


def expr(e, top=True):
    """Fully parenthesised concrete syntax (every operator operand that is itself an operator
    application is wrapped), so precedence / chaining rules of the grammar never interfere."""
    k = e["k"]
    if k == "int":
        return str(e["n"])
    if k == "bool":
        return "true" if e["n"] else "false"
    if k == "ev":
        return "%s.%s" % (ENUM_SYNTAX[e["s"]], ENUM_VALUE_NAMES[e["s"]][e["n"] - 1])
    if k == "ref":
        return e["s"]
    if k == "this":
        return "this"
    if k == "str":
        return '"%s"' % e["s"]
    assert k == "op", e
    fn, args = e["s"], e["args"]
    if fn.startswith("$"):
        return "%s(%s)" % (fn, ", ".join(expr(a, True) for a in args))
    sub = [expr(a, False) for a in args]
    if fn in BINARY and len(args) == 2:
        txt = "%s %s %s" % (sub[0], fn, sub[1])
    elif fn == "neg" and len(args) == 1:
        txt = "-%s" % sub[0]
    elif fn == "pos" and len(args) == 1:
        txt = "+%s" % sub[0]
    elif fn == "?:" and len(args) == 3:
        txt = "%s ? %s : %s" % tuple(sub)
    else:
        raise ValueError("cannot render %r" % (e,))
    return txt if top else "(" + txt + ")"


class _Lines:
    def __init__(self):
        self.lines = []

    def add(self, text):
        self.lines.append(text)
        return len(self.lines)  # 1-based line number


def render(prog):
    """prog: {"sites": {slot: expr}, "args": [expr]}.  Returns (text, spans) with
    spans[slot] = {"def": [l1, l2], "at": [l1, l2]} (slots arg1/arg2/args share the field line)."""
    s = prog["sites"]
    L = _Lines()
    sp = {}
    L.add('import "im.emb" as im')
    L.add('[$default byte_order: "LittleEndian"]')
    ea1 = L.add("enum Ea:")
    l_amax = L.add("  [maximum_bits: %s]" % expr(s["amax"]))
    l_asig = L.add("  [is_signed: %s]" % expr(s["asig"]))
    l_enumv = L.add("  AA = %s" % expr(s["enumv"]))
    ea2 = L.add("  AB = 2")
    sp["amax"] = {"def": [ea1, ea2], "at": [l_amax, l_amax]}
    sp["asig"] = {"def": [ea1, ea2], "at": [l_asig, l_asig]}
    sp["enumv"] = {"def": [l_enumv, l_enumv], "at": [l_enumv, l_enumv]}
    for t in ["enum Eb:", "  BA = 1", "  BB = 2", "enum Ec:", "  CA = 1", "  CB = 2",
              "struct Inner:", "  0 [+1]  bits:", "    0 [+3]  UInt  x", "  1 [+1]  bits  flag:", "    0 [+8]  UInt  fx",
              "struct Pa(pi: UInt:3, pe: Ea):", "  0 [+1]  UInt  z"]:
        L.add(t)
    sa1 = L.add("struct Sa(p: UInt:3, pj: Int:3, q: Ea):")
    l_sreq = L.add("  [requires: %s]" % expr(s["sreq"]))
    for t in ["  0 [+2]  bits:", "    0 [+3]  UInt  a", "    3 [+3]  Int  b", "    6 [+1]  Flag  f",
              "    7 [+1]  Flag  g", "    8 [+4]  Bcd  c", "  2 [+1]  Ea  e", "  3 [+1]  Eb  h",
              "  4 [+2]  Inner  s", "  5 [+2]  UInt:8[2]  r", "  7 [+1]  im.Ea  m", "  let vi = a + 1", "  let vb = a < 2",
              "  let ve = f ? Ea.AB : e"]:
        L.add(t)
    l = L.add("  %s [+1]  UInt  t_start" % expr(s["start"]))
    sp["start"] = {"def": [l, l], "at": [l, l]}
    l = L.add("  16 [+%s]  UInt:8[]  t_size" % expr(s["size"]))
    sp["size"] = {"def": [l, l], "at": [l, l]}
    l = L.add("  20 [+4]  UInt:8[%s]  t_len" % expr(s["len"]))
    sp["len"] = {"def": [l, l], "at": [l, l]}
    l = L.add("  if %s:" % expr(s["cond"]))
    l2 = L.add("    24 [+1]  UInt  t_cond")
    sp["cond"] = {"def": [l, l2], "at": [l, l]}
    l = L.add("  let t_virt = %s" % expr(s["virt"]))
    sp["virt"] = {"def": [l, l], "at": [l, l]}
    l = L.add("  25 [+1]  UInt  t_req")
    l2 = L.add("    [requires: %s]" % expr(s["freq"]))
    sp["freq"] = {"def": [l, l2], "at": [l2, l2]}
    l = L.add("  26 [+2]  UInt  t_bo")
    l2 = L.add("    [byte_order: %s]" % expr(s["abo"]))
    sp["abo"] = {"def": [l, l2], "at": [l2, l2]}
    l = L.add("  28 [+1]  UInt  t_txt")
    l2 = L.add("    [text_output: %s]" % expr(s["atxt"]))
    sp["atxt"] = {"def": [l, l2], "at": [l2, l2]}
    l = L.add("  29 [+1]  Pa(%s)  t_arg" % ", ".join(expr(a) for a in prog["args"]))
    for k in ("arg1", "arg2", "args"):
        sp[k] = {"def": [l, l], "at": [l, l]}
    sp["sreq"] = {"def": [sa1, l], "at": [l_sreq, l_sreq]}
    return "\n".join(L.lines) + "\n", sp
