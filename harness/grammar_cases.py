"""Build C08 cases: run the REAL lr1.Grammar(...).parser() and the REAL Parser.parse, write down what
they did (tables, conflicts, per-string outcome).  No expectation is computed here."""
import collections
import itertools
import os
import sys

from .common import REPO
from . import grammar_tables as gt

if REPO not in sys.path:
    sys.path.insert(0, REPO)
sys.dont_write_bytecode = True

NO_TREE = {"t": "", "i": 0}


class StepLimit(Exception):
    pass


class _CountingDict(collections.defaultdict):
    """Parser.parse looks its ACTION table up exactly once per move with .get(state, {}); counting
    those calls bounds the number of moves without touching the code under test.  (Keeps the
    default factory of the table it wraps, so missing-row behaviour is unchanged.)"""

    def __init__(self, d, budget):
        collections.defaultdict.__init__(self, getattr(d, "default_factory", None), d)
        self.budget = budget
        self.left = budget

    def get(self, k, default=None):
        self.left -= 1
        if self.left < 0:
            raise StepLimit()
        return dict.get(self, k, default)


def tree_json(node):
    from compiler.front_end import lr1
    if isinstance(node, lr1.Reduction):
        return {"p": gt.prod_json(node.production), "c": [tree_json(c) for c in node.children]}
    return {"t": str(node.symbol), "i": int(node.text)}


def outcome_json(result):
    """lr1.ParseResult -> the uniform record LRCases.tla reads."""
    if result.error is None:
        return {"ok": True, "tree": tree_json(result.parse_tree), "idx": 0, "tok": "", "exp": [], "code": [], "exc": ""}
    e = result.error
    return {"ok": False, "tree": NO_TREE, "idx": e.index, "tok": str(e.token.symbol),
            "exp": sorted(str(x) for x in e.expected_tokens),
            "code": [] if e.code is None else [str(e.code)], "exc": ""}


def tokens_of(w):
    from compiler.util import parser_types
    return [parser_types.Token(s, str(i), None) for i, s in enumerate(w)]


def parse_outcome(parser, w):
    """Run the real Parser.parse on the symbol sequence w; exceptions are outcomes too."""
    if isinstance(parser.action, _CountingDict):
        parser.action.left = parser.action.budget
    try:
        return outcome_json(parser.parse(tokens_of(w)))
    except StepLimit:
        exc = "diverges"
    except RecursionError:
        exc = "RecursionError"
    except Exception as e:  # noqa: BLE001 - whatever the driver raises is the observation
        exc = type(e).__name__
    return {"ok": False, "tree": NO_TREE, "idx": 0, "tok": "", "exp": [], "code": [], "exc": exc}


def all_strings(terms, n):
    for k in range(n + 1):
        for w in itertools.product(terms, repeat=k):
            yield list(w)


def real_parser(g):
    """lr1.Grammar(start, productions).parser() for g = {"start":..., "prods": [[lhs,[rhs]]]}."""
    from compiler.front_end import lr1
    from compiler.util import parser_types
    prods = [parser_types.Production(p[0], tuple(p[1])) for p in g["prods"]]
    return lr1.Grammar(g["start"], prods).parser()


def terminals_of(g):
    nts = {p[0] for p in g["prods"]}
    seen = []
    for p in g["prods"]:
        for s in p[1]:
            if s not in nts and s not in seen:
                seen.append(s)
    return sorted(seen)


def build_case(spec):
    """spec: {"id","name","g","n","namb","expect", optional "terms", "strings", "fuel"} -> full case."""
    g = spec["g"]
    fuel = spec.get("fuel", 500)
    case = {"id": spec["id"], "name": spec.get("name", ""), "g": g, "n": spec["n"], "namb": spec.get("namb", -1),
            "expect": spec.get("expect", ""), "fuel": fuel,
            "terms": spec.get("terms") or terminals_of(g), "gen_exc": "", "cert": False}
    try:
        parser = real_parser(g)
    except Exception as e:  # noqa: BLE001 - a generator crash is an observation
        case.update({"gen_exc": type(e).__name__ + ": " + str(e)[:200], "tables": {"prods": [], "states": []},
                     "conflicts": [], "runs": []})
        return case
    case["tables"] = gt.export_parser(parser)
    case["conflicts"] = gt.export_conflicts(parser)
    parser.action = _CountingDict(parser.action, fuel)
    runs = []
    strings = spec["strings"] if "strings" in spec else all_strings(case["terms"], spec["n"])
    for w in strings:
        r = parse_outcome(parser, w)
        r["w"] = w
        runs.append(r)
    case["runs"] = runs
    return case


def _init_worker():
    from compiler.front_end import lr1  # noqa: F401  (import once per worker)


def build_cases(specs, nproc=None):
    """Build many small cases in a process pool (fork; each worker imports lr1 once)."""
    import multiprocessing as mp
    nproc = nproc or min(12, os.cpu_count() or 4)
    if len(specs) < 50:
        return [build_case(s) for s in specs]
    ctx = mp.get_context("fork")
    with ctx.Pool(nproc, initializer=_init_worker) as pool:
        return pool.map(build_case, specs, chunksize=max(1, len(specs) // (nproc * 8)))


# ---------------------------------------------------------------------------------------------
# Catalogue of textbook shapes (input data only; "expect" is checked by TLC, not here)
# ---------------------------------------------------------------------------------------------

def _g(start, text):
    prods = []
    for line in text.strip().splitlines():
        lhs, rhs = line.split("->")
        for alt in rhs.split("|"):
            prods.append([lhs.strip(), alt.split()])
    return {"start": start, "prods": prods}


CATALOGUE = [
    # name, grammar, n (string bound), namb (ambiguity bound), expect, mc (also explored by LRCheck)
    ("left-recursive-list", _g("E", "E -> E + T | T\nT -> x"), 6, 5, "conflict-free", True),
    ("right-recursive", _g("S", "S -> a S | b"), 6, 5, "conflict-free", True),
    ("nullable-chain", _g("S", "S -> A B c\nA -> a |\nB -> b |"), 5, 5, "conflict-free", True),
    ("nested-nullable", _g("S", "S -> A B C\nA -> a A |\nB -> b |\nC -> c |"), 5, 5, "conflict-free", True),
    ("balanced", _g("S", "S -> a S b |"), 6, 6, "conflict-free", True),
    ("dragon-4.55", _g("S", "S -> C C\nC -> c C | d"), 6, 5, "conflict-free", True),
    ("lr1-not-lalr", _g("S", "S -> a A d | b B d | a B e | b A e\nA -> c\nB -> c"), 4, 4, "conflict-free", True),
    ("lr1-needs-lookahead", _g("S", "S -> A a | B b\nA -> c\nB -> c"), 4, 4, "conflict-free", True),
    ("expression-alsu-4.1", _g("E", "E -> E + T | T\nT -> T * F | F\nF -> ( E ) | x"), 5, 4, "conflict-free", True),
    ("emboss-style-lists", _g("M", "M -> C* D*\nC* -> | C C*\nD* -> | D D*\nC -> c n\nD -> d n"), 6, 4, "conflict-free", True),
    ("optional-then-same", _g("S", "S -> O a\nO -> | b"), 4, 4, "conflict-free", True),
    ("unit-chain", _g("S", "S -> A\nA -> B\nB -> C\nC -> c | c C"), 5, 5, "conflict-free", True),
    ("palindromes-not-lr", _g("S", "S -> a S a | b S b |"), 6, 6, "", True),
    ("lr2-not-lr1", _g("S", "S -> A x y | B x z\nA -> a\nB -> a"), 4, 4, "", True),
    ("ambiguous-expression", _g("E", "E -> E + E | x"), 5, 5, "", True),
    ("dangling-else", _g("S", "S -> i S | i S e S | x"), 5, 5, "", True),
    ("ambiguous-concat", _g("S", "S -> S S | a |"), 4, 3, "", True),
    ("cyclic-units", _g("S", "S -> A | a\nA -> S"), 3, 3, "", True),
    ("ambiguous-nullable-pair", _g("S", "S -> A A\nA -> a |"), 3, 3, "", True),
    ("hidden-left-recursion", _g("S", "S -> A S b | c\nA -> "), 5, 4, "", True),
    # late error detection is possible only through an unproductive nonterminal: kept out of the MC
    ("unproductive-tail", _g("S", "S -> a | b A\nA -> c A"), 4, 4, "", False),
    ("unproductive-start", _g("S", "S -> S a"), 3, 3, "", False),
]


def catalogue_specs(first_id=0):
    out = []
    for k, (name, g, n, namb, expect, mc) in enumerate(CATALOGUE):
        out.append({"id": first_id + k, "name": name, "g": g, "n": n, "namb": namb, "expect": expect, "mc": mc})
    return out
