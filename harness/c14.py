"""C14 - physical layout and attribute rules are enforced exactly as documented.

Parts (``--only``):
  mc         LayoutMC: exhaustive model check of the edit machine with small constants
             (realisable base + at most one illegal edit; byte-order inheritance look-up =
             push-down; bit-list range tests = integer arithmetic; landmarks are the boundaries).
  catalogue  exhaustive generation (breadth-first, <= 3 edits, full boundary sets): every program
             the edit machine can reach, stratified by (edit class, verdict, broken rules),
             replayed into the real compiler and decided by LayoutCheck.
  sim        TLC -simulate random walks (seeded) of up to 7 edits: inherited byte orders,
             nested types, arrays of user types, typed fields ...; every successor of every
             visited state is a case.
  reserved   every reserved word of doc/grammar.md (quick: a seeded sample) as field / type /
             enum value name.
  selftest   corrupted observations must be flagged by LayoutCheck.
"""
import json
import os
import random
import time

from . import layout_render, typing_pool
from .common import (MachineryError, Scratch, SPEC, chunks, dump_json, run_parallel, run_tlc,
                     write_cfg)

LEVEL = "model_checking"
AREA = os.path.join(SPEC, "layout")

TIERS = {
    "quick": dict(
        mc=dict(MaxTypes=2, MaxFields=2, MaxEdits=3, StructSizes=[1, 2, 9], BitsSizes=[1, 64, 65],
                EnumMaxBits=[8]),
        cat=dict(MaxTypes=2, MaxFields=3, MaxEdits=3, ContextFirst=True, per_stratum=1, cap=6000),
        sim=dict(procs=4, walks=5, walk=True, MaxTypes=4, MaxFields=4, MaxEdits=7, per_stratum=1, cap=2500),
        reserved_sample=24,
        mc_timeout=900,
    ),
    "thorough": dict(
        mc=dict(MaxTypes=2, MaxFields=3, MaxEdits=3, StructSizes=[0, 1, 2, 8, 9], BitsSizes=[0, 1, 32, 57, 64, 65],
                EnumMaxBits=[0, 8]),
        cat=dict(MaxTypes=2, MaxFields=3, MaxEdits=3, ContextFirst=True, per_stratum=8, cap=30000),
        sim=dict(procs=12, walks=12, walk=True, MaxTypes=5, MaxFields=5, MaxEdits=8, per_stratum=3, cap=30000),
        reserved_sample=None,
        mc_timeout=3000,
    ),
}

STRUCT_SIZES = [0, 1, 2, 3, 4, 8, 9]
BITS_SIZES = [0, 1, 2, 7, 8, 16, 31, 32, 33, 56, 57, 63, 64, 65]
ENUM_MAXBITS = [0, 1, 8, 63, 64]
CANON = {"snake": ["class"], "camel": ["Self"], "shouty": ["NULL"]}
ALL_RULES = ["scalar_width", "flag_width", "float_width", "enum_field_width", "explicit_size_mismatch",
             "field_too_small", "byte_type_in_bits", "array_element_not_fixed", "array_element_not_byte_multiple",
             "array_inner_length", "byte_order_missing", "byte_order_null", "bits_not_fixed", "bits_too_big",
             "enum_value_range", "attr_context", "attr_value", "attr_duplicate", "reserved_name"]


def _tla_set(xs):
    return "{" + ", ".join(json.dumps(x) if isinstance(x, str) else str(x) for x in xs) + "}"


def _constants(c, words, reserved, emit):
    return {
        "MaxTypes": c["MaxTypes"], "MaxFields": c["MaxFields"], "MaxEdits": c["MaxEdits"],
        "StructSizes": _tla_set(c.get("StructSizes", STRUCT_SIZES)),
        "BitsSizes": _tla_set(c.get("BitsSizes", BITS_SIZES)),
        "EnumMaxBits": _tla_set(c.get("EnumMaxBits", ENUM_MAXBITS)),
        "SnakeWords": _tla_set(words["snake"]), "CamelWords": _tla_set(words["camel"]),
        "ShoutyWords": _tla_set(words["shouty"]), "Reserved": _tla_set(reserved),
        "ContextFirst": "TRUE" if c.get("ContextFirst") else "FALSE",
        "KeepDead": "FALSE" if c.get("walk") else "TRUE",
        "Emit": "TRUE" if emit else "FALSE",
    }


def _dedupe(cases):
    seen, out = set(), []
    for c in cases:
        k = json.dumps(c["prog"], sort_keys=True)
        if k not in seen:
            seen.add(k)
            out.append(c)
    return out


def _stratify(cases, per_stratum, cap, seed):
    """Deterministic subsample that keeps every (edit class, verdict, broken rules) combination."""
    rnd = random.Random(seed)
    groups = {}
    for c in cases:
        d = c.get("d") or {}
        f = {k: v for k, v in (d.get("f") or {}).items() if k not in ("name", "start")}
        # the boundary parameters of the edit are part of the stratum: every swept value is kept
        key = (c["cls"], c["ok"], tuple(sorted({x["rule"] for x in c["fails"]})),
               json.dumps([d.get("op"), d.get("a"), f, d.get("x")], sort_keys=True))
        groups.setdefault(key, []).append(c)
    out = []
    for key in sorted(groups):
        g = groups[key]
        out.extend(g if len(g) <= per_stratum else rnd.sample(g, per_stratum))
    if len(out) > cap:
        out = rnd.sample(out, cap)
    return out, len(groups)


# ---------------------------------------------------------------------------------------------

def _run_mc(chk, sc, cfg, rw):
    cfgp = sc.file("mc.cfg")
    write_cfg(cfgp, constants=_constants(cfg["mc"], CANON, sum(CANON.values(), []), False),
              invariants=["BaseRealisable", "DeadIsIllegal", "BlameExists", "InheritanceAgrees"])
    res = run_tlc(os.path.join(AREA, "LayoutMC.tla"), cfgp, lib_areas=("layout",), workers=2,
                  coverage=True, timeout=cfg["mc_timeout"], metadir=sc.sub("meta-mc"))
    chk.add_tlc(res, part="mc")
    if res.invariant_violated:
        chk.violation("design:" + ",".join(res.invariant_violated),
                      "LayoutMC: invariant %s violated\n%s" % (res.invariant_violated, res.error_trace_tail(40)))
    elif not res.clean:
        raise MachineryError("LayoutMC did not complete:\n" + res.error_trace_tail(40))
    chk.extra["mc_constants"] = cfg["mc"]
    return []


def _gen_bfs(chk, sc, c, words, reserved, part):
    cfgp = sc.file(part + ".cfg")
    write_cfg(cfgp, constants=_constants(c, words, reserved, True))
    res = run_tlc(os.path.join(AREA, "LayoutGen.tla"), cfgp, lib_areas=("layout",), workers=1,
                  timeout=2400, metadir=sc.sub("meta-" + part), heap="6g")
    chk.add_tlc(res, part=part + "-gen")
    if not res.clean:
        raise MachineryError("%s generation failed:\n%s" % (part, res.error_trace_tail(40)))
    return _dedupe(res.printed_json())


def _gen_sim_one(chk, sc, c, words, reserved, seed, k):
    cfgp = sc.file("sim%d.cfg" % k)
    write_cfg(cfgp, constants=_constants(c, words, reserved, True))
    res = run_tlc(os.path.join(AREA, "LayoutGen.tla"), cfgp, lib_areas=("layout",), workers=1,
                  simulate=c["walks"], depth=30, seed=seed * 1000 + k + 1, timeout=2400,
                  metadir=sc.sub("meta-sim%d" % k), heap="3g")
    chk.add_tlc(res, part="sim-gen")
    if res.rc != 0:
        raise MachineryError("generator failed:\n" + res.error_trace_tail(40))
    got = _dedupe(res.printed_json())
    sel, _ = _stratify(got, c["per_stratum"], c["cap"], seed * 1000 + k)   # keep memory bounded
    return [len(got)] + sel


def _replay(cases):
    texts, index = [], {}

    def need(prog):
        k = json.dumps(prog, sort_keys=True)
        if k not in index:
            text, spans = layout_render.render(prog)
            index[k] = (len(texts), spans)
            texts.append(text)
        return index[k]
    refs = [(need(c["prog"]), need(c["base"])) for c in cases]
    results = typing_pool.compile_all([(i, {"m.emb": t}, "m.emb") for i, t in enumerate(texts)])
    records = []
    for tid, (c, (me, base)) in enumerate(zip(cases, refs)):
        r, rb = results[me[0]], results[base[0]]
        records.append({
            "tid": tid, "cls": c["cls"], "gok": c["ok"], "prog": c["prog"], "spans": me[1],
            "obs": {"acc": r["acc"], "exc": r["exc"],
                    "errs": [{"l1": e["l1"], "l2": e["l2"], "syn": e["syn"], "main": e["main"]} for e in r["errs"]]},
            "bacc": rb["acc"],
            "_text": texts[me[0]], "_errs": r["errs"], "_exc_text": r["exc_text"], "_fails": c["fails"],
            "_base_text": texts[base[0]],
        })
    return records


def _decide(chk, sc, records, part, reserved, nshards=6):
    shards = [s for s in chunks(records, min(nshards, max(1, len(records) // 1500 + 1))) if s]
    files = []
    for k, sh in enumerate(shards):
        p = sc.file("%s-cases-%d.json" % (part, k))
        dump_json(p, {"cases": [{kk: v for kk, v in r.items() if not kk.startswith("_")} for r in sh]})
        files.append(p)
    cfgp = sc.file("check.cfg")
    write_cfg(cfgp, constants={"Reserved": _tla_set(reserved)}, invariants=["Consumed"])

    def job(k):
        return lambda: run_tlc(os.path.join(AREA, "LayoutCheck.tla"), cfgp, lib_areas=("layout",), workers=1,
                               env={"CASES_FILE": files[k]}, timeout=1800,
                               metadir=sc.sub("meta-%s-chk%d" % (part, k)), heap="3g")
    verdicts, total, masked = [], 0, 0
    for k, res in enumerate(run_parallel([job(k) for k in range(len(files))], nproc=min(len(files), typing_pool.jobs_limit()))):
        chk.add_tlc(res, part=part + "-check")
        if not res.clean:
            raise MachineryError("LayoutCheck failed:\n" + res.error_trace_tail(40))
        out = res.printed_json()
        summ = [o for o in out if o.get("clause") == "summary"]
        if len(summ) != 1 or summ[0]["total"] != len(shards[k]):
            raise MachineryError("LayoutCheck did not consume its shard (%r)" % (summ,))
        total += summ[0]["total"]
        masked += summ[0]["masked"]
        verdicts.extend(o for o in out if o.get("clause") != "summary")
    return verdicts, total, masked


def _report(chk, records, verdicts):
    by_tid = {r["tid"]: r for r in records}
    for v in verdicts:
        if v["clause"] == "generator_disagrees":
            raise MachineryError("spec/harness inconsistency: %r" % (v,))
        r = by_tid[v["tid"]]
        key = "%s:%s" % (v["clause"], v["tag"])
        errs = "; ".join("%d:%d %s" % (e["l1"], e["c1"], e["msg"]) for e in r["_errs"][:3])
        what = {
            "exception": "the compiler raised %s" % r["_exc_text"],
            "realisable_rejected": "a module that satisfies the documented rules was rejected (its last edit: %s; the "
                                   "module before that edit was accepted): %s" % (r["cls"], errs),
            "unrealisable_accepted": "a module breaking %s was accepted" % sorted({f["rule"] for f in r["_fails"]}),
            "error_not_in_definition": "module breaking %s: rejected, but no error points into the definition that "
                                       "contains the offending construct: %s" % (sorted({f["rule"] for f in r["_fails"]}), errs),
        }.get(v["clause"], v["clause"])
        chk.violation(key, "%s [last edit %s]\n%s\n--- m.emb ---\n%s" % (key, r["cls"], what, r["_text"]),
                      {"case": {k: x for k, x in r.items() if not k.startswith("_")}, "emb": r["_text"],
                       "base_emb": r["_base_text"], "fails": r["_fails"]})


def _selftest(chk, sc, records, reserved):
    good = [r for r in records if r["obs"]["exc"] == "" and r["bacc"]]
    acc = [r for r in good if r["gok"] and r["obs"]["acc"]][:6]
    rej = [r for r in good if not r["gok"] and not r["obs"]["acc"]][:12]
    bad = []
    for r in acc:
        c = json.loads(json.dumps(r)); c["obs"]["acc"] = False
        c["obs"]["errs"] = [{"l1": 1, "l2": 1, "syn": False, "main": True}]; bad.append(c)
    for r in rej[:6]:
        c = json.loads(json.dumps(r)); c["obs"]["acc"] = True; c["obs"]["errs"] = []; bad.append(c)
    for r in rej[6:]:
        c = json.loads(json.dumps(r))
        for e in c["obs"]["errs"]:
            e["l1"] = e["l2"] = 9999
        bad.append(c)
    for n, c in enumerate(bad):
        c["tid"] = n
    if not bad:
        return
    verdicts, _, _ = _decide(chk, sc, bad, "selftest", reserved, nshards=1)
    flagged = {v["tid"] for v in verdicts}
    chk.extra["selftest"] = {"corrupted": len(bad), "flagged": len(flagged)}
    if len(flagged) < len(bad):
        raise MachineryError("binding self-test: corrupted records %r were not flagged by LayoutCheck"
                             % [c["tid"] for c in bad if c["tid"] not in flagged])


def run(chk, only=None):
    cfg = TIERS[chk.tier]
    typing_pool.warm()
    parts = only or {"mc", "catalogue", "sim", "reserved", "selftest"}
    rw = layout_render.reserved_words()
    reserved = rw["all"]
    rnd = random.Random(chk.seed)
    few = {k: sorted(set(CANON[k] + rnd.sample(rw[k], min(3, len(rw[k]))))) for k in ("snake", "camel", "shouty")}
    chk.rule = ("TLC builds modules by edit actions whose parameters sweep the documented boundaries (scalar widths "
                "0..65, Float 16/32/33/64, enum landmarks +-2^(m-1), 2^m, typed fields exact/padded/small, arrays, "
                "byte-order sources, every attribute x context x default x value kind, reserved names); "
                "Layout!Failures classifies each result; non-trivial = distinct (edit class, verdict, broken rules)")
    chk.assumptions += [
        "reserved words and name shapes are read from doc/grammar.md / language-reference.md of the repo under test",
        "left out as ambiguous in the reference: maximum_bits outside 1..64, non-default enum_case, text_output on "
        "virtual fields, `$default byte_order` on a bits, byte_order on a field that is not byte-order dependent, "
        "multi-byte arrays of one-byte elements with no byte order at all, which array dimension is 'outermost' "
        "(only `[][]` is used as the violation), bits types held in containers wider than 64 bits, "
        "expected_back_ends / external-only attributes (undocumented or 'unstable')",
        "a fixed-size struct or bits placed in a LARGER field is legal (language-reference, $size_in_bytes / "
        "$size_in_bits sections)",
        "`enum_case` is the C++ back end's attribute `(cpp) enum_case`; without the qualifier it must be rejected",
        "error location (secondary clause): some non-synthetic error must lie within the top-level definition "
        "(or the module attribute block) that contains a broken rule",
    ]
    phase = chk.extra.setdefault("phase_wall_s", {})

    def timed(name, fn, *a):
        t0 = time.time()
        r = fn(*a)
        phase[name] = round(phase.get(name, 0) + time.time() - t0, 1)
        return r

    with Scratch("c14") as sc:
        # stage 1: all TLC generation / model-checking runs, side by side (each is single-threaded)
        jobs, names = [], []
        if "mc" in parts:
            jobs.append(lambda: _run_mc(chk, sc, cfg, rw)); names.append("mc")
        if "catalogue" in parts:
            jobs.append(lambda: _gen_bfs(chk, sc, cfg["cat"], few, reserved, "catalogue")); names.append("catalogue")
        if "reserved" in parts:
            n = cfg["reserved_sample"]
            words = {k: (rw[k] if n is None else sorted(set(CANON[k] + rnd.sample(rw[k], min(n, len(rw[k]))))))
                     for k in ("snake", "camel", "shouty")}
            # type / value / field renames need 1 / 1 / 2 edits before them
            jobs.append(lambda: _gen_bfs(chk, sc, dict(MaxTypes=1, MaxFields=2, MaxEdits=3, ContextFirst=True,
                                                       StructSizes=[2], BitsSizes=[8], EnumMaxBits=[0]),
                                         words, reserved, "reserved")); names.append("reserved")
        if "sim" in parts:
            for k in range(cfg["sim"]["procs"]):
                jobs.append((lambda kk: (lambda: _gen_sim_one(chk, sc, cfg["sim"], few, reserved, chk.seed, kk)))(k))
                names.append("sim")
        t0 = time.time()
        outs = run_parallel(jobs, nproc=typing_pool.jobs_limit())
        phase["tlc-generation+mc"] = round(time.time() - t0, 1)
        cases, simgot = [], []
        for name, got in zip(names, outs):
            if name == "catalogue":
                chk.extra["catalogue_reachable_programs"] = len(got)
                sel, ng = _stratify(got, cfg["cat"]["per_stratum"], cfg["cat"]["cap"], chk.seed)
                chk.extra["catalogue_strata"] = ng
                cases += sel
            elif name == "reserved":
                got = [c for c in got if c["cls"].startswith("rename")]
                chk.extra["reserved_cases"] = len(got)
                chk.extra["reserved_words_documented"] = {"declared": rw["declared"], "found": len(rw["all"]),
                                                          "snake": len(rw["snake"]), "camel": len(rw["camel"]),
                                                          "shouty": len(rw["shouty"])}
                cases += got
            elif name == "sim":
                chk.extra["sim_programs_generated"] = chk.extra.get("sim_programs_generated", 0) + got[0]
                simgot += got[1:]
        if simgot:
            simgot = _dedupe(simgot)
            chk.extra["sim_programs"] = len(simgot)
            sel, ng = _stratify(simgot, cfg["sim"]["per_stratum"], cfg["sim"]["cap"], chk.seed + 1)
            chk.extra["sim_strata"] = ng
            cases += sel
        cases = _dedupe(cases)
        if cases:
            recs = timed("compile", _replay, cases)
            verdicts, total, masked = timed("check", _decide, chk, sc, recs, "all", reserved)
            _report(chk, recs, verdicts)
            chk.traces += total
            # vacuity guard: a case whose base module is already rejected decides nothing ("masked")
            sk_text, _ = layout_render.render({"mattrs": [], "types": []})
            sk = typing_pool.compile_all([(0, {"m.emb": sk_text}, "m.emb")])[0]
            if not sk["acc"]:
                chk.violation("realisable_rejected:empty-program", "the module with no generated declaration at all is rejected: %s\n%s"
                              % ("; ".join(e["msg"] for e in sk["errs"][:3]) or sk["exc_text"], sk_text), {"emb": sk_text})
            elif masked * 5 > total:
                raise MachineryError("%d of %d cases are masked by a rejected base module although the empty program is accepted: "
                                     "the run decides too little" % (masked, total))
            chk.extra["cases"] = {"total": total, "realisable": sum(1 for c in cases if c["ok"]),
                                  "unrealisable": sum(1 for c in cases if not c["ok"]),
                                  "masked_by_rejected_base": masked}
            rules = {}
            for c in cases:
                chk.note_nontrivial("%s|%s|%s" % (c["cls"], c["ok"], "+".join(sorted({f["rule"] for f in c["fails"]}))))
                for f in c["fails"]:
                    rules[f["rule"]] = rules.get(f["rule"], 0) + 1
            chk.extra["cases_per_broken_rule"] = dict(sorted(rules.items()))
            chk.extra["rules_never_broken"] = [r for r in ALL_RULES if r not in rules]
            for r in [x for x in recs if x["gok"]][:2] + [x for x in recs if not x["gok"]][:3]:
                chk.sample({"last_edit": r["cls"], "realisable": r["gok"], "accepted": r["obs"]["acc"],
                            "broken": sorted({f["rule"] for f in r["_fails"]}), "emb": r["_text"].splitlines()[:14]})
            if "selftest" in parts:
                timed("selftest", _selftest, chk, sc, recs, reserved)
        chk.evaluations = chk.traces


def replay(chk, path):
    """Re-decide one stored violation against the repo's current working tree."""
    with open(path) as f:
        stored = json.load(f)
    payload = stored["case"]
    emb, base_emb = payload["emb"], payload.get("base_emb", payload["emb"])
    r, rb = typing_pool.compile_all([(0, {"m.emb": emb}, "m.emb"), (1, {"m.emb": base_emb}, "m.emb")])
    rec = dict(payload["case"])
    rec["tid"] = 0
    rec["obs"] = {"acc": r["acc"], "exc": r["exc"],
                  "errs": [{"l1": e["l1"], "l2": e["l2"], "syn": e["syn"], "main": e["main"]} for e in r["errs"]]}
    rec["bacc"] = rb["acc"]
    rec.update({"_text": emb, "_errs": r["errs"], "_exc_text": r["exc_text"], "_base_text": base_emb,
                "_fails": payload.get("fails", [])})
    reserved = layout_render.reserved_words()["all"]
    with Scratch("c14r") as sc:
        verdicts, total, _ = _decide(chk, sc, [rec], "replay", reserved, nshards=1)
        _report(chk, [rec], verdicts)
        chk.traces = chk.evaluations = total
        chk.rule = "replay of %s" % stored.get("key")
