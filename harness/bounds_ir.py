"""C05: walk the REAL IR and transcribe, for every subexpression, its shape and the annotations the
compiler inferred (expression.type) plus what ir_util.constant_value (the folding used by the back end)
returns for it.  Nothing is decided here: numbers are re-encoded so that TLC can read them
(native JSON numbers below 10^9, base-10000 limbs in the wide family).

Runs inside a process that has imported the compiler from harness.common.REPO (see bounds_pool).
"""
from .bounds_render import int_to_limbs, STRUCT

NATIVE = 10**9

_FN = {
    "ADDITION": "+", "SUBTRACTION": "-", "MULTIPLICATION": "*", "EQUALITY": "==", "INEQUALITY": "!=",
    "AND": "&&", "OR": "||", "LESS": "<", "LESS_OR_EQUAL": "<=", "GREATER": ">", "GREATER_OR_EQUAL": ">=",
    "CHOICE": "?:", "MAXIMUM": "$max", "UPPER_BOUND": "$upper_bound", "LOWER_BOUND": "$lower_bound",
    "PRESENCE": "$present",
}


class Unsupported(Exception):
    pass


def _big(n):
    return {"neg": n < 0, "l": int_to_limbs(n)}


class Walker:
    def __init__(self, ir, fam):
        from compiler.util import ir_data, ir_util
        self.ir = ir
        self.fam = fam
        self.ir_data = ir_data
        self.ir_util = ir_util
        self.nodes = 0

    # ---- number encodings -------------------------------------------------------------------
    def ext(self, s):
        """minimum_value / maximum_value strings -> extended integer record."""
        if s == "infinity":
            return {"inf": 1, "v": 0} if self.fam == "small" else {"inf": 1, "neg": False, "l": []}
        if s == "-infinity":
            return {"inf": -1, "v": 0} if self.fam == "small" else {"inf": -1, "neg": False, "l": []}
        n = int(s)
        if self.fam == "small":
            if abs(n) >= NATIVE:
                return None
            return {"inf": 0, "v": n}
        b = _big(n)
        b["inf"] = 0
        return b

    def ty(self, t):
        w = t.which_type
        if w == "integer":
            i = t.integer
            parts = (i.modulus, i.modular_value, i.minimum_value, i.maximum_value)
            if any(p is None or p == "" for p in parts):
                return {"t": "i", "missing": True, "huge": False}
            lo, hi = self.ext(i.minimum_value), self.ext(i.maximum_value)
            out = {"t": "i", "missing": False, "huge": False}
            if self.fam == "small":
                mod = 0 if i.modulus == "infinity" else int(i.modulus)
                rem = int(i.modular_value)
                if lo is None or hi is None or abs(mod) >= NATIVE or abs(rem) >= NATIVE:
                    return {"t": "i", "missing": False, "huge": True}
                out.update({"min": lo, "max": hi, "mod": mod, "rem": rem})
            else:
                out.update({"min": lo, "max": hi, "modinf": i.modulus == "infinity",
                            "mod": _big(0 if i.modulus == "infinity" else int(i.modulus)),
                            "rem": _big(int(i.modular_value))})
            return out
        if w == "boolean":
            has = t.boolean.has_field("value")
            return {"t": "b", "has": bool(has), "v": bool(t.boolean.value) if has else False}
        if w == "enumeration":
            has = t.enumeration.has_field("value")
            v = int(t.enumeration.value) if has else 0
            if self.fam == "small":
                if abs(v) >= NATIVE:
                    return {"t": "e", "has": bool(has), "v": 0, "huge": True}
                return {"t": "e", "has": bool(has), "v": v, "huge": False}
            return {"t": "e", "has": bool(has), "v": _big(v), "huge": False}
        return {"t": "o"}

    def cv(self, e):
        try:
            v = self.ir_util.constant_value(e)
        except Exception as ex:  # recorded, judged by the spec (a crash is not a value)
            return {"has": False, "v": 0, "huge": False, "exc": type(ex).__name__}
        if v is None:
            return {"has": False, "v": 0, "huge": False, "exc": ""}
        if isinstance(v, bool):
            return {"has": True, "v": v, "huge": False, "exc": ""}
        if self.fam == "small":
            if abs(v) >= NATIVE:
                return {"has": True, "v": 0, "huge": True, "exc": ""}
            return {"has": True, "v": v, "huge": False, "exc": ""}
        return {"has": True, "v": _big(v), "huge": False, "exc": ""}

    # ---- trees ------------------------------------------------------------------------------
    def tree(self, e, depth=0):
        if depth > 40:
            raise Unsupported("reference chain too deep")
        self.nodes += 1
        w = e.which_expression
        node = {"ty": self.ty(e.type), "cv": self.cv(e)}
        if w == "constant":
            n = int(e.constant.value)
            if self.fam == "small":
                if abs(n) >= NATIVE:
                    raise Unsupported("literal out of native range")
                node.update({"k": "int", "v": n})
            else:
                node.update({"k": "big", "neg": n < 0, "l": int_to_limbs(n)})
        elif w == "boolean_constant":
            node.update({"k": "bool", "v": bool(e.boolean_constant.value)})
        elif w == "field_reference":
            ref = e.field_reference.path[-1]
            obj = self.ir_util.find_object(ref, self.ir)
            path = list(ref.canonical_name.object_path)
            if isinstance(obj, self.ir_data.RuntimeParameter):
                node.update({"k": "var", "n": path[-1]})
            elif isinstance(obj, self.ir_data.Field) and self.ir_util.field_is_virtual(obj):
                node.update({"k": "vref", "n": ".".join(path), "e": self.tree(obj.read_transform, depth + 1)})
            elif isinstance(obj, self.ir_data.Field):
                node.update({"k": "var", "n": path[-1]})
            else:
                raise Unsupported("field_reference to %s" % type(obj).__name__)
        elif w == "constant_reference":
            obj = self.ir_util.find_object(e.constant_reference.canonical_name, self.ir)
            path = list(e.constant_reference.canonical_name.object_path)
            if isinstance(obj, self.ir_data.EnumValue):
                node.update({"k": "cref", "n": ".".join(path), "e": self.tree(obj.value, depth + 1)})
            elif isinstance(obj, self.ir_data.Field):
                node.update({"k": "cref", "n": ".".join(path), "e": self.tree(obj.read_transform, depth + 1)})
            else:
                raise Unsupported("constant_reference to %s" % type(obj).__name__)
        elif w == "function":
            name = _FN.get(e.function.function.name)
            if name == "$present" and len(e.function.args) == 1 and e.function.args[0].which_expression == "field_reference":
                # the operand is a name, not a value: the path as written, by the local names of its elements
                path = e.function.args[0].field_reference.path
                if any(r.canonical_name.object_path[-1].startswith("emboss_reserved") for r in path):
                    # the synthesized condition of an alias of an anonymous bits member: scaffolding, not the case's text
                    raise Unsupported("function PRESENCE of a synthesized field")
                node.update({"k": "pres", "n": ".".join(r.canonical_name.object_path[-1] for r in path)})
                return node
            if name is None or name == "$present":
                raise Unsupported("function %s" % e.function.function.name)
            node.update({"k": "op", "fn": name, "args": [self.tree(a, depth) for a in e.function.args]})
        else:
            raise Unsupported("expression kind %s" % w)
        return node

    def _is_trivial(self, e):
        return e.which_expression in ("constant", "boolean_constant")

    def struct_trees(self, struct_name=STRUCT):
        """All expressions of the structure: [{role, t}] plus the list of skipped (unsupported) roles."""
        typ = None
        for t in self.ir.module[0].type:
            if t.name.name.text == struct_name:
                typ = t
        if typ is None:
            raise Unsupported("structure %s not in IR" % struct_name)
        sites = []
        for a in typ.attribute:
            if a.value.has_field("expression"):
                sites.append(("attr:" + a.name.text, a.value.expression))
        for f in typ.structure.field:
            fname = f.name.name.text
            if f.has_field("location"):
                sites.append(("f:%s:start" % fname, f.location.start))
                sites.append(("f:%s:size" % fname, f.location.size))
            if f.has_field("existence_condition"):
                sites.append(("f:%s:cond" % fname, f.existence_condition))
            if f.has_field("read_transform"):
                sites.append(("f:%s:value" % fname, f.read_transform))
            for a in f.attribute:
                if a.value.has_field("expression"):
                    sites.append(("f:%s:attr:%s" % (fname, a.name.text), a.value.expression))
        out, skipped = [], []
        for role, e in sites:
            if e is None or e.which_expression is None:
                continue
            if self._is_trivial(e) and role != "f:v:value":
                continue  # literal offsets/sizes/conditions of the scaffolding fields
            try:
                out.append({"role": role, "t": self.tree(e)})
            except Unsupported as u:
                skipped.append("%s: %s" % (role, u))
        return out, skipped
