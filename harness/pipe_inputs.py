"""Input families for C16 (none chosen to be valid) and source sets for C17/C18.

Pure rendering: every function here is deterministic in (seed, family, index) and decides nothing.
An input is (files: {name: text}, main: name).  Bounds follow the property: <= ~300 lines,
expression / type nesting <= 40.
"""
import glob
import os
import random
import re

from .common import REPO

MAX_LINES = 300
MAX_NEST = 40


def rng_for(seed, fam, idx):
    return random.Random("%s/%s/%s" % (seed, fam, idx))


# ------------------------------------------------------------------------------------------------
# corpus
# ------------------------------------------------------------------------------------------------

def load_corpus():
    """{import-path: text} of every .emb the repository ships as test data, plus the prelude."""
    files = {}
    td = os.path.join(REPO, "testdata")
    for p in sorted(glob.glob(os.path.join(td, "*.emb"))):
        files["testdata/" + os.path.basename(p)] = open(p, encoding="utf-8").read()
    for p in sorted(glob.glob(os.path.join(td, "import_dir", "project", "*.emb"))):
        files["project/" + os.path.basename(p)] = open(p, encoding="utf-8").read()
    for p in sorted(glob.glob(os.path.join(td, "format", "*.emb"))):
        files["testdata/format/" + os.path.basename(p)] = open(p, encoding="utf-8").read()
    if "testdata/imported.emb" in files:
        # BUILD genrule imported_genfiles: sed s/emboss::test/emboss::test::generated/
        files["testdata/imported_genfiles.emb"] = files["testdata/imported.emb"].replace(
            "emboss::test", "emboss::test::generated")
    for n, t in COVERING.items():      # construct-rich accepted modules (see COVERING below)
        files[n] = t
    files["prelude_as_user_file.emb"] = open(os.path.join(REPO, "compiler", "front_end", "prelude.emb"),
                                             encoding="utf-8").read()
    return files


def corpus_mains(corpus):
    return [n for n in sorted(corpus) if len(corpus[n].splitlines()) <= MAX_LINES + 20]


def prelude_text():
    return open(os.path.join(REPO, "compiler", "front_end", "prelude.emb"), encoding="utf-8").read()


# ------------------------------------------------------------------------------------------------
# token vocabulary from doc/grammar.md (literal tokens in double quotes + word classes)
# ------------------------------------------------------------------------------------------------

_vocab_cache = None


def vocabulary():
    global _vocab_cache
    if _vocab_cache is None:
        txt = open(os.path.join(REPO, "doc", "grammar.md"), encoding="utf-8").read()
        lits = set()
        for m in re.finditer(r'"((?:[^"\\\s]|\\.)+)"', txt.split("```shell", 1)[-1].split("```", 1)[0]):
            t = m.group(1).replace('\\"', '"').replace("\\\\", "\\")
            if t and t != "\\n":
                lits.add(t)
        _vocab_cache = sorted(lits)
    return _vocab_cache


SNAKE = ["x", "y", "z", "a", "b", "len", "size", "flag", "tag", "payload", "hdr", "f0", "f1", "value", "count"]
CAMEL = ["Foo", "Bar", "Baz", "Qux", "UInt", "Int", "Flag", "Bcd", "Float", "Inner", "Msg"]
SHOUTY = ["AA", "BB", "CC", "ZERO", "ONE", "MAX_VAL", "B_1"]
NUMS = ["0", "1", "2", "3", "4", "7", "8", "16", "32", "64", "65", "255", "256", "0x10", "0xff", "0b101", "1_000",
        "18446744073709551615", "18446744073709551616", "9223372036854775808", "340282366920938463463374607431768211456"]


# ------------------------------------------------------------------------------------------------
# family: random bytes / code points
# ------------------------------------------------------------------------------------------------

def gen_bytes(r):
    mode = r.randrange(5)
    n = r.choice([0, 1, 2, 3, 5, 8, 20, 60, 200, 1000])
    if mode == 0:
        return bytes(r.randrange(256) for _ in range(n)).decode("latin-1")
    if mode == 1:
        return "".join(chr(r.randrange(32, 127)) for _ in range(n))
    if mode == 2:
        pool = [0, 9, 10, 11, 12, 13, 28, 29, 30, 31, 32, 0x85, 0xa0, 0x2028, 0x2029, 0xfeff, 0x1f600, 0xd7ff, 0xe000,
                0x10ffff, 34, 35, 45, 92, 36]
        return "".join(chr(r.choice(pool)) if r.random() < 0.5 else chr(r.randrange(32, 127)) for _ in range(n))
    if mode == 3:
        return "".join(chr(r.choice([r.randrange(0x80), r.randrange(0x800), r.randrange(0xd7ff), r.randrange(0xe000, 0x110000)]))
                       for _ in range(n))
    # a valid line with one arbitrary character injected
    base = "struct Foo:\n  0 [+1]  UInt  x\n"
    i = r.randrange(len(base) + 1)
    return base[:i] + chr(r.choice([0, 11, 12, 13, 28, 0x85, 0x2028, 0x2029, 0xa0, 127, 255, 0x3000])) + base[i:]


# ------------------------------------------------------------------------------------------------
# family: token soup
# ------------------------------------------------------------------------------------------------

def gen_soup(r):
    voc = vocabulary()
    lines = []
    indent = 0
    for _ in range(r.randrange(1, 25)):
        toks = []
        for _ in range(r.randrange(0, 12)):
            k = r.random()
            if k < 0.45:
                toks.append(r.choice(voc))
            elif k < 0.6:
                toks.append(r.choice(SNAKE))
            elif k < 0.72:
                toks.append(r.choice(CAMEL))
            elif k < 0.78:
                toks.append(r.choice(SHOUTY))
            elif k < 0.9:
                toks.append(r.choice(NUMS))
            elif k < 0.93:
                toks.append('"%s"' % r.choice(["", "a", "x.emb", "LittleEndian", "\\\"", "\\n", "unterminated\\"]))
            elif k < 0.96:
                toks.append(r.choice(["-- doc", "--", "--x", "# comment", "#"]))
            else:
                toks.append(r.choice(["$", "$$", "_", "0x", "9z", "Aa_b", "a__b", "\t"]))
        indent = max(0, indent + r.choice([-2, -1, 0, 0, 0, 1, 2, 2]))
        lines.append(" " * indent + r.choice([" ", "", "  "]).join(toks))
    return "\n".join(lines) + r.choice(["", "\n", "\n\n"])


# ------------------------------------------------------------------------------------------------
# family: grammar-shaped programs (syntactically valid, semantically arbitrary)
# ------------------------------------------------------------------------------------------------

class ProgGen:
    """Random programs following the shape of the documented grammar (doc/grammar.md, language-reference.md).

    Identifiers come from small pools so that references sometimes resolve, sometimes are ambiguous,
    sometimes dangle; types, sizes, attributes and expressions are arbitrary.
    Hook: if harness.grammar_gen.sentences exists it is used by `gen_sentence` below instead.
    """

    def __init__(self, r, imports=()):
        self.r = r
        self.imports = list(imports)
        self.lines = []
        self.types = ["UInt", "Int", "Flag", "Bcd", "Float", "Foo", "Bar", "Baz", "Qux", "Inner", "Msg"]
        self.fields = list(SNAKE)

    def out(self, ind, s):
        if len(self.lines) < MAX_LINES:
            self.lines.append("  " * ind + s)

    def name(self):
        return self.r.choice(self.fields)

    def type_name(self):
        r = self.r
        t = r.choice(self.types)
        if self.imports and r.random() < 0.15:
            t = r.choice(self.imports) + "." + t
        if r.random() < 0.1:
            t = r.choice(CAMEL) + "." + t
        return t

    def expr(self, depth=0):
        r = self.r
        if depth >= r.choice([1, 2, 2, 3, 4, 6]):
            k = r.random()
            if k < 0.35:
                return r.choice(NUMS)
            if k < 0.7:
                p = self.name()
                while r.random() < 0.25:
                    p += "." + self.name()
                return p
            if k < 0.78:
                return r.choice(["true", "false"])
            if k < 0.88:
                return r.choice(CAMEL) + "." + r.choice(SHOUTY)
            if k < 0.94:
                return r.choice(["$size_in_bytes", "$size_in_bits", "$max_size_in_bytes", "$min_size_in_bits", "$next",
                                 "$static_size_in_bits", "$is_statically_sized", "$logical_value"])
            return r.choice(CAMEL) + "." + r.choice(["$size_in_bytes", "$size_in_bits"])
        k = r.random()
        a = self.expr(depth + 1)
        b = self.expr(depth + 1)
        if k < 0.45:
            return "%s %s %s" % (a, r.choice(["+", "-", "*", "==", "!=", "<", "<=", ">", ">=", "&&", "||"]), b)
        if k < 0.6:
            return "(%s %s %s)" % (a, r.choice(["+", "-", "*", "==", "<", "&&", "||"]), b)
        if k < 0.72:
            return "%s ? %s : %s" % (a, b, self.expr(depth + 1))
        if k < 0.87:
            fn = r.choice(["$max", "$present", "$upper_bound", "$lower_bound", "$has"])
            args = [a, b][: r.choice([1, 1, 2])]
            return "%s(%s)" % (fn, ", ".join(args))
        if k < 0.93:
            return "%s%s" % (r.choice(["-", "+"]), a)
        return "(%s)" % a

    def attr(self):
        r = self.r
        name = r.choice(["byte_order", "requires", "text_output", "static_requirements", "fixed_size_in_bits",
                         "is_integer", "addressable_unit_size", "maximum_bits", "is_signed", "namespace",
                         "enum_case", "expected_back_ends", "bogus"])
        if name in ("byte_order", "text_output", "namespace", "enum_case", "expected_back_ends") and r.random() < 0.8:
            val = '"%s"' % r.choice(["LittleEndian", "BigEndian", "Null", "Emit", "Skip", "a::b", "kCamel", "SHOUTY_CASE",
                                     "cpp", "", "nonsense"])
        else:
            val = self.expr(2)
        pre = r.choice(["", "", "", "$default ", "(cpp) ", "(xx) "])
        return "[%s%s: %s]" % (pre, name, val)

    def field_type(self):
        r = self.r
        t = self.type_name()
        if r.random() < 0.2:
            t += "(%s)" % ", ".join(self.expr(2) for _ in range(r.randrange(0, 3)))
        if r.random() < 0.25:
            t += ":%s" % r.choice(["8", "16", "32", "64", "3", "0", "128", self.expr(3)])
        for _ in range(r.choice([0, 0, 0, 1, 1, 2])):
            t += "[%s]" % r.choice(["", "4", "2", "0", self.expr(3)])
        return t

    def location(self):
        r = self.r
        start = r.choice(["0", "1", "4", "$next", self.expr(3)])
        size = r.choice(["1", "2", "4", "8", "0", self.expr(3)])
        return "%s [+%s]" % (start, size)

    def field(self, ind, in_bits, depth):
        r = self.r
        k = r.random()
        if k < 0.08:
            self.out(ind, "if %s:" % self.expr(1))
            for _ in range(r.randrange(1, 3)):
                self.plain_field(ind + 1)
            return
        if k < 0.16:
            self.out(ind, "let %s = %s" % (self.name(), self.expr(0)))
            if r.random() < 0.3:
                self.out(ind + 1, self.attr())
            return
        if k < 0.24 and not in_bits and depth < 4:
            self.out(ind, "%s  bits:" % self.location())
            for _ in range(r.randrange(1, 4)):
                self.field(ind + 1, True, depth + 1)
            return
        if k < 0.32 and depth < 4:
            kind = r.choice(["struct", "bits", "enum"]) if not in_bits else r.choice(["bits", "enum"])
            self.out(ind, "%s  %s  %s:" % (self.location(), kind, self.name()))
            if kind == "enum":
                self.enum_body(ind + 1)
            else:
                for _ in range(r.randrange(1, 4)):
                    self.field(ind + 1, kind == "bits", depth + 1)
            return
        self.plain_field(ind)

    def plain_field(self, ind):
        r = self.r
        ab = " (%s)" % self.name() if r.random() < 0.1 else ""
        self.out(ind, "%s  %s  %s%s%s" % (self.location(), self.field_type(), self.name(), ab,
                                           "  " + self.attr() if r.random() < 0.1 else ""))
        if r.random() < 0.15:
            self.out(ind + 1, self.attr())
        if r.random() < 0.08:
            self.out(ind + 1, "-- documentation")

    def enum_body(self, ind):
        r = self.r
        if r.random() < 0.2:
            self.out(ind, self.attr())
        for _ in range(r.randrange(1, 5)):
            self.out(ind, "%s = %s" % (r.choice(SHOUTY), r.choice(NUMS + [self.expr(3)])))

    def typedef(self, ind=0, depth=0):
        r = self.r
        kind = r.choice(["struct", "struct", "struct", "bits", "enum", "external"])
        nm = r.choice(CAMEL[:5] + CAMEL[9:])
        params = ""
        if kind in ("struct", "bits") and r.random() < 0.2:
            params = "(%s)" % ", ".join("%s: %s" % (self.name(), self.field_type()) for _ in range(r.randrange(1, 3)))
        self.out(ind, "%s %s%s:" % (kind, nm, params))
        if r.random() < 0.15:
            self.out(ind + 1, "-- doc for %s" % nm)
        if r.random() < 0.25:
            self.out(ind + 1, self.attr())
        if kind == "enum":
            self.enum_body(ind + 1)
        elif kind == "external":
            self.out(ind + 1, self.attr())
        else:
            if depth < 2 and r.random() < 0.15:
                self.typedef(ind + 1, depth + 1)
            for _ in range(r.randrange(1, 7)):
                self.field(ind + 1, kind == "bits", depth)

    def module(self):
        r = self.r
        if r.random() < 0.2:
            self.out(0, "-- module documentation")
        for i, nm in enumerate(self.imports):
            self.out(0, 'import "%s.emb" as %s' % (nm, nm))
        if r.random() < 0.6:
            self.out(0, '[$default byte_order: "%s"]' % r.choice(["LittleEndian", "BigEndian"]))
        if r.random() < 0.4:
            self.out(0, '[(cpp) namespace: "%s"]' % r.choice(["a::b", "x", "::abs::ns", "bad namespace"]))
        for _ in range(r.randrange(1, 5)):
            self.typedef()
        return "\n".join(self.lines) + "\n"


def gen_program(r, imports=()):
    return ProgGen(r, imports).module()


class ValidGen:
    """Mostly well-formed programs (sequential layout, declared types, typed expressions) with, usually,
    one seeded semantic slip -- so that the late passes (dependency order, type checking, bounds,
    attribute and constraint checks, write inference, back end) are the ones that have to react."""

    SLIPS = ["none", "none", "size", "undef", "later", "boolint", "dup", "cycle", "reserved", "huge", "enumrange",
             "arraysize", "condtype", "attr", "param", "overlap", "bitsbig", "selfref", "byteorder", "negsize", "next"]

    def __init__(self, r):
        self.r = r
        self.lines = []
        self.slip = r.choice(self.SLIPS)
        self.slip_at = r.randrange(1, 8)
        self.nfield = 0

    def out(self, ind, s):
        self.lines.append("  " * ind + s)

    def slipped(self, what):
        if self.slip == what:
            self.nfield += 0
            return self.counter == self.slip_at
        return False

    def module(self):
        r = self.r
        self.counter = 0
        if self.slip != "byteorder":
            self.out(0, '[$default byte_order: "%s"]' % r.choice(["LittleEndian", "BigEndian"]))
        if r.random() < 0.5:
            self.out(0, '[(cpp) namespace: "gen::%s"]' % r.choice(["a", "b::c"]))
        enums = []
        for i in range(r.randrange(0, 3)):
            nm = "En%d" % i
            enums.append(nm)
            self.out(0, "enum %s:" % nm)
            if r.random() < 0.4:
                self.out(1, "[maximum_bits: %d]" % r.choice([8, 16, 32, 64]))
            vals = r.sample(range(0, 200), r.randrange(1, 5))
            for k, v in enumerate(vals):
                vv = str(v)
                if self.slip == "enumrange" and k == 0:
                    vv = r.choice(["18446744073709551616", "-9223372036854775809", "256 * 256 * 256 * 256 * 256 * 256 * 256 * 256 * 256"])
                self.out(1, "V%d_%s = %s" % (k, "X", vv))
        structs = []
        for si in range(r.randrange(1, 4)):
            nm = "St%d" % si
            params = ""
            if r.random() < 0.2 or self.slip == "param":
                params = "(n: UInt:8)" if self.slip != "param" else r.choice(["(n: UInt)", "(n: Flag)", "(n: UInt:8, n: UInt:8)", "(n: St0)"])
            kind = "struct"
            self.out(0, "%s %s%s:" % (kind, nm, params))
            if r.random() < 0.2:
                self.out(1, "-- documentation of %s" % nm)
            fields = []   # (name, kind)
            off = 0
            for fi in range(r.randrange(1, 8)):
                self.counter += 1
                fname = "f%d" % fi
                choice = r.random()
                ints = [f for f, k in fields if k == "int"]
                if self.slipped("dup") and fields:
                    fname = fields[0][0]
                if self.slipped("reserved"):
                    fname = r.choice(["class", "int", "this", "for", "return", "switch"])
                if choice < 0.45 or not fields:
                    size = r.choice([1, 2, 4, 8])
                    ty = r.choice(["UInt", "Int", "UInt", "Bcd"])
                    loc_size = str(size)
                    if self.slipped("size"):
                        loc_size = r.choice(["3", "9", "16", "0"])
                    if self.slipped("huge"):
                        loc_size = r.choice(["2000", "4294967296", "18446744073709551615", "1152921504606846976"])
                    if self.slipped("negsize"):
                        loc_size = "0 - 1"
                    if self.slipped("boolint"):
                        loc_size = "true"
                    start = str(off)
                    if self.slipped("next"):
                        start = "$next" if fields else "$next"
                    if self.slipped("overlap"):
                        start = "0"
                    self.out(1, "%s [+%s]  %s  %s" % (start, loc_size, ty, fname))
                    if r.random() < 0.15 and ty != "Bcd":
                        self.out(2, "[requires: this %s %d]" % (r.choice(["<", ">", "!=", "=="]), r.randrange(0, 300)))
                    fields.append((fname, "int"))
                    if self.slipped("huge") and ints is not None:
                        self.out(1, "let uses_%s = %s + 1" % (fname, fname))
                    off += size
                elif choice < 0.55 and enums:
                    self.out(1, "%d [+1]  %s  %s" % (off, r.choice(enums), fname))
                    fields.append((fname, "enum"))
                    off += 1
                elif choice < 0.68 and ints:
                    n = r.choice(ints)
                    cnt = n if not self.slipped("arraysize") else r.choice(["true", "0 - 1", "undefined_len", "18446744073709551616"])
                    self.out(1, "%d [+%s]  UInt:8[]  %s" % (off, cnt, fname))
                    fields.append((fname, "arr"))
                    off += 0
                elif choice < 0.78 and ints:
                    cond = "%s %s %d" % (r.choice(ints), r.choice(["==", "<", ">=", "!="]), r.randrange(0, 9))
                    if self.slipped("condtype"):
                        cond = r.choice([ints[0], "1 + 2", "true + 1", "%s && 1" % ints[0]])
                    if self.slipped("undef"):
                        cond = "nowhere > 1"
                    self.out(1, "if %s:" % cond)
                    self.out(2, "%d [+1]  UInt  %s" % (off, fname))
                    fields.append((fname, "int"))
                    off += 1
                elif choice < 0.9 and ints:
                    a = r.choice(ints)
                    b = r.choice(ints)
                    e = r.choice(["%s + %s", "%s * %s", "%s - %s", "$max(%s, %s)", "%s == %s ? %s : 0" % ("%s", "%s", a)]) % (a, b)
                    if self.slipped("later"):
                        e = "f%d + 1" % (fi + 1)
                    if self.slipped("cycle") or self.slipped("selfref"):
                        e = "%s + 1" % fname
                    if self.slipped("boolint"):
                        e = "%s + true" % a
                    self.out(1, "let %s = %s" % (fname, e))
                    fields.append((fname, "int"))
                elif choice < 0.95:
                    w = r.choice([1, 2, 4])
                    self.out(1, "%d [+%d]  bits:" % (off, w))
                    used = 0
                    for bi in range(r.randrange(1, 4)):
                        bw = r.choice([1, 2, 3, 4])
                        if self.slipped("bitsbig"):
                            bw = r.choice([65, 128, w * 8 + 1])
                        t = "Flag" if bw == 1 else "UInt"
                        self.out(2, "%d [+%d]  %s  %s_b%d" % (used, bw, t, fname, bi))
                        used += bw
                    off += w
                elif structs:
                    tgt = r.choice(structs)
                    self.out(1, "%d [+%s]  %s  %s" % (off, "%s.$size_in_bytes" % tgt if r.random() < 0.5 else "8", tgt, fname))
                    fields.append((fname, "struct"))
                    off += 8
                else:
                    self.out(1, "%d [+4]  Float  %s" % (off, fname))
                    fields.append((fname, "float"))
                    off += 4
                if self.slipped("attr"):
                    self.out(2, r.choice(['[byte_order: "MiddleEndian"]', "[text_output: 3]", '[requires: "x"]', "[fixed_size_in_bits: 8]",
                                          '[(cpp) namespace: "x"]', "[byte_order: LittleEndian]", "[$default requires: true]"]))
            structs.append(nm)
        return "\n".join(self.lines) + "\n"


def gen_valid(r):
    return ValidGen(r).module()


_SYMBOL_TEXT = None


def render_sentence(r, kinds):
    """Token-kind sequence of the real grammar (harness.grammar_gen.sentences, TLC generated) -> text,
    with pooled identifiers so that references sometimes resolve."""
    out, ind, line = [], 0, []
    for k in kinds:
        if k in ('"\\n"', "eol", "\\n"):
            out.append("  " * ind + " ".join(line))
            line = []
        elif k == "Indent":
            ind += 1
        elif k == "Dedent":
            ind = max(0, ind - 1)
        elif k == "SnakeWord":
            line.append(r.choice(SNAKE))
        elif k == "CamelWord":
            line.append(r.choice(CAMEL))
        elif k == "ShoutyWord":
            line.append(r.choice(SHOUTY))
        elif k == "Number":
            line.append(r.choice(NUMS))
        elif k == "BooleanConstant":
            line.append(r.choice(["true", "false"]))
        elif k == "String":
            line.append('"%s"' % r.choice(["LittleEndian", "BigEndian", "x.emb", "a::b"]))
        elif k == "Documentation":
            line.append("-- doc")
        elif k == "Comment":
            line.append("# c")
        else:
            line.append(k.strip('"'))
    if line:
        out.append("  " * ind + " ".join(line))
    return "\n".join(out) + "\n"


# ------------------------------------------------------------------------------------------------
# family: mutations and truncations of corpus files
# ------------------------------------------------------------------------------------------------

def token_spans(text, tokenize):
    """[(line0, col0, col1, text)] of single-line, non-empty tokens; uses the repo tokenizer as a tool."""
    spans = []
    try:
        toks, errs = tokenize(text, "x")
    except Exception:
        toks = None
    if not toks:
        for li, line in enumerate(text.split("\n")):
            for m in re.finditer(r"\S+", line):
                spans.append((li, m.start(), m.end(), m.group(0), "?"))
        return spans
    for t in toks:
        loc = t.source_location
        if t.text and loc.start.line == loc.end.line and t.text != "\n":
            spans.append((loc.start.line - 1, loc.start.column - 1, loc.end.column - 1, t.text, t.symbol))
    return spans


def gen_mutation(r, text, tokenize):
    lines = text.split("\n")
    kind = r.choice(["dell", "dupl", "swapl", "indent", "dedent", "tokdel", "tokdup", "tokswap", "tokrep", "chr", "chrdel", "join",
                     "sem", "sem", "sem", "sem", "sem", "sem"])
    L = list(lines)
    if kind in ("dell", "dupl", "swapl", "indent", "dedent", "join"):
        i = r.randrange(len(L))
        j = r.randrange(len(L))
        if kind == "dell":
            del L[i]
        elif kind == "dupl":
            L.insert(j, L[i])
        elif kind == "swapl":
            L[i], L[j] = L[j], L[i]
        elif kind == "indent":
            L[i] = "  " + L[i]
        elif kind == "dedent":
            L[i] = L[i][2:] if L[i].startswith("  ") else L[i].lstrip()
        else:
            if i + 1 < len(L):
                L[i:i + 2] = [L[i] + " " + L[i + 1].strip()]
        return kind, "\n".join(L)
    if kind in ("chr", "chrdel"):
        if not text:
            return kind, text
        i = r.randrange(len(text))
        if kind == "chr":
            return kind, text[:i] + r.choice("[]():=+-*?,.$ax0A\n\"# <>&|_") + text[i + 1:]
        return kind, text[:i] + text[i + 1:]
    spans = token_spans(text, tokenize)
    if not spans:
        return kind, text
    if kind == "sem":
        # keep the syntax, change the meaning: a token is replaced by another token of the same class
        # taken from the same file (or by a boundary value), so later passes see it
        cls = r.choice(["Number", "SnakeWord", "CamelWord", "ShoutyWord", "BooleanConstant", "String", "op"])
        ops = {'"+"', '"-"', '"*"', '"=="', '"!="', '"<"', '"<="', '">"', '">="', '"&&"', '"||"'}
        if cls == "op":
            cands = [sp for sp in spans if sp[4] in ops]
        else:
            cands = [sp for sp in spans if sp[4] == cls]
        if not cands:
            return kind + ":none", text
        li, c0, c1, tx, sym = r.choice(cands)
        pool = sorted({sp[3] for sp in cands})
        if cls == "Number":
            pool += ["0", "1", "7", "8", "63", "64", "65", "255", "256", "2000", "18446744073709551615",
                     "18446744073709551616", "true", "x", "-1", "(0-1)", "$size_in_bytes", "$next"]
        elif cls == "CamelWord":
            pool += ["UInt", "Int", "Flag", "Bcd", "Float", "Nope"]
        elif cls == "BooleanConstant":
            pool += ["true", "false", "0", "1"]
        elif cls == "String":
            pool += ['"LittleEndian"', '"BigEndian"', '"Null"', '""', '"x"', '"a::b"', '"kCamel"']
        elif cls == "op":
            pool = [x.strip('"') for x in ops]
        elif cls == "SnakeWord":
            pool += ["this", "undefined_name"]
        new = r.choice(pool)
        L[li] = L[li][:c0] + new + L[li][c1:]
        return "sem:" + cls, "\n".join(L)
    li, c0, c1, tx, _ = r.choice(spans)
    _, _, _, other, _ = r.choice(spans)
    if kind == "tokdel":
        new = ""
    elif kind == "tokdup":
        new = tx + " " + tx
    elif kind == "tokswap":
        new = other
    else:
        new = r.choice(vocabulary() + SNAKE + CAMEL + SHOUTY + NUMS)
    L[li] = L[li][:c0] + new + L[li][c1:]
    return kind, "\n".join(L)


def truncation_points(text, tokenize):
    """Every token boundary (start and end of every token) as (line0, col0)."""
    pts = set()
    for li, c0, c1, _, _ in token_spans(text, tokenize):
        pts.add((li, c0))
        pts.add((li, c1))
    return sorted(pts)


def truncate_at(text, pt, keep_newline=False):
    lines = text.split("\n")
    li, c = pt
    t = "\n".join(lines[:li] + [lines[li][:c]])
    return t + ("\n" if keep_newline else "")


# ------------------------------------------------------------------------------------------------
# family: deep nesting / long files (the stated bounds)
# ------------------------------------------------------------------------------------------------

def gen_nest(r):
    k = r.randrange(6)
    d = r.choice([5, 10, 20, 30, MAX_NEST])
    if k == 0:
        e = "(" * d + "x" + ")" * d
        return "struct Foo:\n  0 [+1]  UInt  x\n  let y = %s\n" % e
    if k == 1:
        e = "x"
        for i in range(d):
            e = "(%s + %d)" % (e, i)
        return "struct Foo:\n  0 [+1]  UInt  x\n  0 [+%s]  UInt:8[]  y\n" % e
    if k == 2:
        e = "x"
        for i in range(d):
            e = "%s == %d ? %d : (%s)" % ("x", i, i, e)
        return "struct Foo:\n  0 [+1]  UInt  x\n  let y = %s\n" % e
    if k == 3:
        lines = ["struct Foo:"]
        for i in range(min(d, 38)):
            lines.append("  " * (i + 1) + "%d [+%d]  struct  s%d:" % (0, 64, i))
        lines.append("  " * (min(d, 38) + 1) + "0 [+1]  UInt  leaf")
        return "\n".join(lines) + "\n"
    if k == 4:
        lines = ["struct Foo:"]
        for i in range(MAX_LINES - 2):
            lines.append("  %d [+1]  UInt  f%d" % (i, i))
        return "\n".join(lines) + "\n"
    t = "UInt:8" + "[2]" * d
    return "struct Foo:\n  0 [+%d]  %s  x\n" % (2 ** min(d, 20), t)


# ------------------------------------------------------------------------------------------------
# family: import sets (missing / duplicate / cyclic / self / shadowed)
# ------------------------------------------------------------------------------------------------

def gen_import_set(r):
    names = ["m", "a", "b", "c"]
    files = {}
    shape = r.choice(["missing", "dup", "cycle2", "cycle3", "self", "diamond", "chain", "random", "badname", "prelude"])
    def body(nm, imps, bad=False):
        g = ProgGen(r, imps)
        return g.module()
    if shape == "missing":
        files["m.emb"] = body("m", ["nothere"])
    elif shape == "dup":
        files["m.emb"] = 'import "a.emb" as a\nimport "a.emb" as a2\n' + gen_program(r)
        files["a.emb"] = gen_program(r)
    elif shape == "cycle2":
        files["m.emb"] = body("m", ["a"])
        files["a.emb"] = body("a", ["m"])
    elif shape == "cycle3":
        files["m.emb"] = body("m", ["a"])
        files["a.emb"] = body("a", ["b"])
        files["b.emb"] = body("b", ["m"])
    elif shape == "self":
        files["m.emb"] = body("m", ["m"])
    elif shape == "diamond":
        files["m.emb"] = body("m", ["a", "b"])
        files["a.emb"] = body("a", ["c"])
        files["b.emb"] = body("b", ["c"])
        files["c.emb"] = body("c", [])
    elif shape == "chain":
        files["m.emb"] = body("m", ["a"])
        files["a.emb"] = body("a", ["b"])
        files["b.emb"] = r.choice([gen_program(r), gen_soup(r), "struct Foo:", ""])
    elif shape == "badname":
        files["m.emb"] = 'import "%s" as x\n' % r.choice(["", " ", "../x.emb", "a\\\\b", "m.emb\\n", "é.emb", "a.emb "]) + gen_program(r)
        files["a.emb"] = gen_program(r)
    elif shape == "prelude":
        files["m.emb"] = 'import "" as p\nstruct Foo:\n  0 [+1]  p.UInt  x\n'
    else:
        for n in names:
            imps = [x for x in names if r.random() < 0.35]
            files[n + ".emb"] = body(n, imps)
    return files, "m.emb"


# ------------------------------------------------------------------------------------------------
# family: syntactically valid, semantically arbitrary small modules ("semantic soup"): fields whose sizes / offsets /
# conditions, virtual fields and enum values are random expressions over ALL the names of the module in any order
# (forward references, references across structures, values of the wrong kind), module attributes with values of
# random kinds.  Dense in exactly the shapes that later passes must reject without falling over.
# ------------------------------------------------------------------------------------------------

def _soup_expr(r, ctx, depth, ty="int"):
    """ctx: {"own": [(name, type)] defined before this point (mostly used), "later": [(name, type)] defined later,
    "static": [(dotted name, type)]}.  Type-directed ("int" / "bool"), with an occasional operand of the wrong kind."""
    if r.random() < 0.06:
        ty = "bool" if ty == "int" else "int"
    if depth <= 0 or r.random() < 0.3:
        k = r.randrange(20)
        own = [n for n, t in ctx["own"] if t == ty]
        later = [n for n, t in ctx["later"] if t == ty]
        if k < 9 and (own or later):
            return r.choice(own if (own and (not later or r.random() < 0.85)) else later)
        if k < 12 or (ty == "bool" and k < 17):
            if ty == "bool":
                return r.choice(["true", "false"])
            return str(r.choice([0, 1, 2, 3, 8, 9, 255, 256, 2 ** 31, 2 ** 32, 2 ** 63, 2 ** 64 - 1, -1]))
        st = [n for n, t in ctx["static"] if t == ty]
        if k < 17 and st:
            return r.choice(st)
        if ty == "bool" and ctx.get("fields"):
            return "$present(%s)" % r.choice(ctx["fields"])
        sp = ctx.get("special")
        return r.choice(sp) if sp and ty == "int" else ("7" if ty == "int" else "true")
    k = r.randrange(12)
    if ty == "int":
        if k < 6:
            return "(%s %s %s)" % (_soup_expr(r, ctx, depth - 1), r.choice(["+", "-", "*"]), _soup_expr(r, ctx, depth - 1))
        if k < 9:
            return "(%s ? %s : %s)" % (_soup_expr(r, ctx, depth - 1, "bool"), _soup_expr(r, ctx, depth - 1), _soup_expr(r, ctx, depth - 1))
        if k < 11:
            return "$max(%s, %s)" % (_soup_expr(r, ctx, depth - 1), _soup_expr(r, ctx, depth - 1))
        return "%s(%s)" % (r.choice(["$upper_bound", "$lower_bound"]), _soup_expr(r, ctx, depth - 1))
    if k < 6:
        return "(%s %s %s)" % (_soup_expr(r, ctx, depth - 1), r.choice(["==", "!=", "<", "<=", ">", ">="]), _soup_expr(r, ctx, depth - 1))
    if k < 7:
        e = [n for n, t in ctx["static"] if t == "enum"]
        return "(%s %s %s)" % (r.choice(e), r.choice(["==", "!="]), r.choice(e))
    if k < 10:
        return "(%s %s %s)" % (_soup_expr(r, ctx, depth - 1, "bool"), r.choice(["&&", "||"]), _soup_expr(r, ctx, depth - 1, "bool"))
    return "(%s ? %s : %s)" % (_soup_expr(r, ctx, depth - 1, "bool"), _soup_expr(r, ctx, depth - 1, "bool"), _soup_expr(r, ctx, depth - 1, "bool"))


def gen_semsoup(r):
    if r.random() < 0.06:
        # `$next` after fields whose end is a large run-time value: diagnostics located at the user's own `$next`
        w = r.choice([1, 2, 4, 8, 8, 8])
        ty = r.choice(["UInt", "UInt", "Int"])
        start2 = r.choice(["x", "x", "x * 2", "x + 1", "(x * x)", "8", "x - 1"])
        size2 = r.choice(["8", "8", "1", "x", "4"])
        third = r.choice(["$next", "$next", "$next + 1", "$next * 2", "$next + x"])
        return ('[$default byte_order: "LittleEndian"]\nstruct Foo:\n  0 [+%d]  %s  x\n  %s [+%s]  %s  y\n  %s [+1]  UInt  z\n'
                % (w, ty, start2, size2, r.choice(["UInt", "UInt:8[]"]), third))
    lines = []
    # calm: every expression is plain, so the module is valid except (perhaps) for one attribute - the later passes and the
    # back end are reached
    calm = r.random() < 0.3
    if r.random() < (0.9 if calm else 0.3):
        name = r.choice(["expected_back_ends", "(cpp) namespace", "$default byte_order", "(cpp) $default enum_case", "(cpp) $default enum_case",
                         "byte_order", "requires", "(java) namespace", "text_output", "$default requires", "fixed_size_in_bits", "(cpp) enum_case"])
        val = r.choice(['"cpp"', '"cpp, java"', "5", "true", "Ee.AA", '""', '"a b"', '"BigEndian"', '"kCamelCase"', "1 + 1", '"cpp,"', '", cpp"',
                        '"snake_case"', '"SHOUTY_CASE,"', '"kCamelCase, SHOUTY_CASE"', '"BAD"', '"kCamelCase,,SHOUTY_CASE"'])
        lines.append("[%s: %s]" % (name, val))
    if r.random() < 0.9:
        lines.append('[$default byte_order: "%s"]' % r.choice(["LittleEndian", "BigEndian"]))
    static = [("Ee.AA", "enum"), ("Ee.BB", "enum"), ("Ff.AA", "enum"), ("Ff.CC", "enum"), ("Ss.v1", "int"), ("Ss.v2", "int"), ("Tt.v1", "int"),
              ("Ss.f1", "int"), ("Tt.f2", "int"), ("Ss.v3", "bool"), ("Tt.v3", "bool")]
    for sname in ("Ss", "Tt"):
        fields, lets = ["f1", "f2", "f3"], ["v1", "v2", "v3"]
        typ = {"f1": "int", "f2": "int", "f3": "int", "v1": "int", "v2": "int", "v3": "bool", "p1": "int"}
        order = fields + lets
        r.shuffle(order)
        param = r.choice(["", "", "", "(p1: UInt:8)", "(p1: Ee)"])
        lines.append("struct %s%s:" % (sname, param))
        tn = lambda xs: [(x, typ[x]) for x in xs]
        if r.random() < 0.1:
            lines.append("  [requires: %s]" % _soup_expr(r, {"own": tn(order), "later": [], "static": static, "fields": fields}, 2, "bool"))
        off = 0
        spicy = set(r.sample(order, r.choice([1, 1, 2, 2, 3])))
        if calm:
            spicy = set()
        for i, n in enumerate(order):
            ctx = {"own": tn(order[:i] + (["p1"] if param else [])), "later": tn(order[i + 1:]), "static": static,
                   "fields": [x for x in order[:i] if x in fields]}
            if n in lets:
                if n in spicy:
                    e = _soup_expr(r, ctx, r.choice([1, 2, 2]), typ[n])
                else:
                    e = r.choice(["1", "2"]) if typ[n] == "int" else r.choice(["true", "false"])
                lines.append("  let %s = %s" % (n, e))
                continue
            if n in spicy:
                k = r.random()
                start = str(off) if k < 0.5 else ("$next" if (k < 0.7 and ctx["fields"]) else _soup_expr(r, dict(ctx, special=["$next"] if ctx["fields"] else ["0"]), 1))
                size = r.choice(["1", "2", "4", "8", "8"]) if r.random() < 0.5 else _soup_expr(r, ctx, 1)
                other = "Tt" if sname == "Ss" else "Ee"
                ty = r.choice(["UInt", "UInt", "UInt", "Int", "Ee", "Bcd", "Flag", "UInt:8[]", other, "Float", "UInt:8[%s]" % _soup_expr(r, ctx, 1)])
                if r.random() < 0.25:
                    lines.append("  if %s:" % _soup_expr(r, ctx, 2, "bool"))
                    lines.append("    %s [+%s]  %s  %s" % (start, size, ty, n))
                    ind = "      "
                else:
                    lines.append("  %s [+%s]  %s  %s" % (start, size, ty, n))
                    ind = "    "
                if r.random() < 0.15:
                    lines.append("%s[requires: %s]" % (ind, _soup_expr(r, dict(ctx, special=["this"]), 2, "bool")))
            else:
                lines.append("  %d [+1]  UInt  %s" % (off, n))
            off += 8
    for ename in ("Ee", "Ff"):
        lines.append("enum %s:" % ename)
        if r.random() < 0.15:
            lines.append("  [maximum_bits: %s]" % r.choice(["8", "64", "65", "0", "true", "Ee.AA"]))
        vals = ["AA", "BB", "CC"]
        for i, vn in enumerate(vals):
            if calm or r.random() < 0.75:
                lines.append("  %s = %d" % (vn, i + 1))
            else:
                ctx = {"own": [(x, "int") for x in vals[:i]], "later": [(x, "int") for x in vals[i + 1:]],
                       "static": [(x, ("int" if t == "enum" else t)) for x, t in static if not x.startswith(ename)] + [("Ee.AA", "enum"), ("Ff.AA", "enum")]}
                lines.append("  %s = %s" % (vn, _soup_expr(r, ctx, r.choice([0, 1]))))
    return "\n".join(lines) + "\n"


# ------------------------------------------------------------------------------------------------
# family: diagnostics that cross a module boundary (an error in one file with a note in another; an error
# that lies wholly in an imported file).  The two files get paddings of different lengths so that a
# position of one file is (usually) not a position of the other.
# ------------------------------------------------------------------------------------------------

XMOD_LIB = '''[$default byte_order: "LittleEndian"]

enum Kind:
  AA = 1
  BB = 2

external Ext:
  [addressable_unit_size: 8]
  [fixed_size_in_bits: 32]

external Picky:
  [addressable_unit_size: 8]
  [static_requirements: $is_statically_sized && $static_size_in_bits == 32]

struct Header(n: UInt:8, k: Kind):
  0 [+1]  UInt  length
    [requires: this < 100]
  let twice = length * 2
  let four = 4
  let flag = length > 3

struct Fixed:
  [fixed_size_in_bits: 32]
  0 [+4]  UInt  x

bits Bitty:
  0 [+4]  UInt  lo
  4 [+4]  UInt  hi
'''

XMOD_USES = [
    ("static-nonconstant", "  0 [+lib.Header.twice]  UInt:8[]  payload"),
    ("static-nonconstant-let", "  let v = lib.Header.twice + 1"),
    ("static-nonconstant-bool", "  if lib.Header.flag:\n    0 [+1]  UInt  payload"),
    ("static-physical", "  let v = lib.Header.length"),
    ("static-physical-size", "  0 [+lib.Fixed.x]  UInt:8[]  payload"),
    ("static-constant", "  0 [+lib.Header.four]  UInt:8[]  payload"),
    ("param-count", "  0 [+1]  lib.Header(1)  h"),
    ("param-count-0", "  0 [+1]  lib.Header  h"),
    ("param-count-3", "  0 [+1]  lib.Header(1, lib.Kind.AA, 3)  h"),
    ("param-type", "  0 [+1]  lib.Header(1, 2)  h"),
    ("param-type-enum", "  0 [+1]  lib.Header(lib.Kind.AA, lib.Kind.AA)  h"),
    ("param-type-bool", "  0 [+1]  lib.Header(true, lib.Kind.AA)  h"),
    ("param-local-enum", "  0 [+1]  lib.Header(1, Kind.AA)  h"),
    ("param-unneeded", "  0 [+4]  lib.Fixed(1)  f"),
    ("explicit-size-struct", "  0 [+2]  lib.Fixed:16  f"),
    ("explicit-size-external", "  0 [+2]  lib.Ext:16  e"),
    ("explicit-size-array", "  0 [+4]  lib.Ext:16[2]  e"),
    ("static-requirements", "  0 [+2]  lib.Picky  p"),
    ("static-requirements-array", "  0 [+4]  lib.Picky:16[2]  p"),
    ("size-mismatch", "  0 [+3]  lib.Fixed  f"),
    ("bits-in-struct", "  0 [+2]  lib.Bitty  b"),
    ("struct-in-bits", "  0 [+4]  bits:\n    0 [+32]  lib.Fixed  f"),
    ("unknown-type", "  0 [+1]  lib.Nope  x"),
    ("unknown-value", "  let v = lib.Kind.CC"),
    ("unknown-field", "  let v = lib.Header.nope"),
    ("unknown-alias", "  0 [+1]  other.Fixed  x"),
    ("enum-mix", "  let v = lib.Kind.AA == Kind.AA"),
    ("enum-choice", "  let v = true ? lib.Kind.AA : Kind.AA"),
    ("enum-field", "  0 [+1]  lib.Kind  k\n  let v = k == Kind.AA"),
    ("enum-as-struct", "  0 [+1]  lib.Kind(1)  k"),
    ("requires-enum", "  0 [+1]  lib.Kind  k\n    [requires: this == 1]"),
    ("ok", "  0 [+4]  lib.Fixed  f\n  4 [+1]  lib.Header(1, lib.Kind.BB)  h"),
]

XMOD_LIB_DEFECTS = [
    ("lib-duplicate", "struct Fixed:\n  0 [+1]  UInt  y\n"),
    ("lib-duplicate-field", "struct Dup:\n  0 [+1]  UInt  y\n  1 [+1]  UInt  y\n"),
    ("lib-type-error", "struct Bad:\n  0 [+1]  UInt  y\n  let z = y + true\n"),
    ("lib-cycle", "struct Cyc:\n  0 [+q]  UInt:8[]  p\n  let q = r\n  let r = q\n"),
    ("lib-byte-order", "struct Ord:\n  0 [+2]  UInt  y\n    [byte_order: \"Sideways\"]\n"),
    ("lib-attribute", "struct Att:\n  [nonsense: 1]\n  0 [+1]  UInt  y\n"),
    ("lib-bounds", "struct Big:\n  0 [+8]  UInt  y\n  let z = y * y * 3\n"),
    ("lib-syntax", "struct Syn:\n  0 [+1  UInt  y\n"),
    ("lib-indent", "struct Ind:\n  0 [+1]  UInt  y\n    1 [+1]  UInt  z\n"),
    ("lib-imports-main", None),
]


def gen_xmod(r, idx):
    """(files, main): a short (or long) main module using a long (or short) library module wrongly, or a library
    with a defect of its own; every (use, padding pattern) is reached as idx grows."""
    n_use = len(XMOD_USES)
    n_def = len(XMOD_LIB_DEFECTS)
    k = idx % (n_use + n_def)
    pad_lib, pad_main = r.choice([(r.randrange(20, 60), 0), (0, r.randrange(40, 80)), (r.randrange(0, 5), r.randrange(0, 5))])
    pad = lambda n: "".join("# padding line %d\n" % i for i in range(n))
    lib = pad(pad_lib) + XMOD_LIB
    head = 'import "lib.emb" as lib\n[$default byte_order: "LittleEndian"]\n' + pad(pad_main)
    local = "enum Kind:\n  AA = 1\n"
    if k < n_use:
        name, use = XMOD_USES[k]
        extra = XMOD_USES[r.randrange(n_use)][1] if r.random() < 0.25 else None
        body = use + ("\n" + extra.replace("payload", "payload2").replace(" v ", " v2 ").replace("  h", "  h2")
                       .replace("  f", "  f2").replace("  p", "  p2").replace("  e", "  e2").replace("  k", "  k2")
                       .replace("  x", "  x2").replace("  b", "  b2") if extra else "")
        main = head + local + "struct Main:\n" + body + "\n"
    else:
        name, defect = XMOD_LIB_DEFECTS[k - n_use]
        if defect is None:
            lib = 'import "m.emb" as back\n' + lib
        else:
            lib = lib + "\n" + defect
        main = head + local + "struct Main:\n  0 [+4]  lib.Fixed  f\n"
    return {"m.emb": main, "lib.emb": lib}, "m.emb", name


# ------------------------------------------------------------------------------------------------
# C18: a hand-written family of accepted modules meant to touch every IR class and field spec
# ------------------------------------------------------------------------------------------------

COVERING = {
    "cov_basic.emb": '''-- Module documentation line one.
-- Module documentation line two.
import "cov_lib.emb" as lib
[$default byte_order: "LittleEndian"]
[(cpp) namespace: "cov::basic"]

struct Header(kind: UInt:8, scale: lib.Scale):
  -- Structure documentation.
  [requires: len >= 2 && len <= 200]
  0     [+1]   UInt        len (l)
    -- Field documentation.
    [requires: this != 7]
  1     [+1]   lib.Color   color
  2     [+2]   UInt        big_endian_field
    [byte_order: "BigEndian"]
  if len > 4:
    4   [+4]   Int         offset
  if kind == 3 && scale == lib.Scale.DOUBLE:
    8   [+1]   UInt:8      wide_value
  let twice = len * 2
    -- Virtual field documentation.
  let alias_of_len = len
  let present = $present(offset)
  let upper = $upper_bound(len) + $lower_bound(len)
  let biggest = $max(len, 3, twice)
  let choice = len > 3 ? 1 : 0
  let negative = -1 - len
  let compare = (len == 1) || (len != 2) || (len < 3) || (len <= 4) || (len > 5) || (len >= 6)
  let both = true && (len == 0)
  let huge = 0xffff_ffff_ffff_ffff
  let bin = 0b1010_1010
  let size = $size_in_bytes
  let max_size = $max_size_in_bytes
  let static_size = lib.Pair.$size_in_bytes
  let constant_ref = lib.Color.RED
  12    [+4]   bits:
    0   [+1]   Flag        low
    1   [+3]   UInt        three
    4   [+4]   lib.Nibble  nib
  16    [+len] UInt:8[]    payload
  $next [+2]   UInt:8[2]   fixed_array
  $next [+8]   lib.Pair[2] pairs
  $next [+4]   struct      inline_struct:
    0   [+2]   UInt        a
    2   [+2]   UInt        b
  $next [+1]   enum        inline_enum:
    FIRST  = 0
    SECOND = 1
  $next [+1]   bits        inline_bits:
    0   [+4]   UInt        lo
    4   [+4]   UInt        hi
  40    [+8]   Param(len)  parameterized
  48    [+4]   Float       ratio
  52    [+2]   Bcd         decimal
  0     [+1]   UInt        overlay  [text_output: "Skip"]

struct Param(n: UInt:8):
  0     [+n]   UInt:8[]    data
  let n_plus_one = n + 1

struct Multi:
  0     [+24]  UInt:8[2][3][4]  cube
  24    [+4]   UInt:16[2]  halves
''',
    "cov_lib.emb": '''[$default byte_order: "BigEndian"]
[(cpp) namespace: "cov::lib"]

enum Color:
  -- Enum documentation.
  [maximum_bits: 8]
  [is_signed: false]
  RED   = 0
    -- Value documentation.
  GREEN = 1  [(cpp) enum_case: "kCamel"]
  BLUE  = 2
  BIG   = 255

enum Scale:
  [(cpp) $default enum_case: "SHOUTY_CASE, kCamel"]
  SINGLE = 1
  DOUBLE = 2
  NEGATIVE = -5

enum Wide:
  MAX64 = 18446744073709551615
  ZERO = 0

bits Nibble:
  0 [+2]  UInt  lo2
  2 [+2]  UInt  hi2

struct Pair:
  0 [+2]  UInt  first
  2 [+2]  Int   second

external Opaque:
  [addressable_unit_size: 8]
  [is_integer: true]
  [fixed_size_in_bits: 32]
''',
    "cov_dyn.emb": '''[$default byte_order: "LittleEndian"]
struct Dyn:
  0 [+1]  UInt  count
  1 [+1]  UInt  width
  2 [+count * width]  UInt:8[]  table
  let tail = 2 + count * width
  tail [+2]  UInt  trailer
  if count == 0:
    0 [+1]  bits:
      0 [+1]  Flag  empty_marker
  let writable = count - 1
  let deep = ((count + 1) * 2 - 3) * 4

struct Outer:
  enum NestedEnum:
    [maximum_bits: 16]
    AA = 0
    BB = 1
  0 [+2]  NestedEnum  e
  2 [+2]  Inner  inner
  let through = inner.x
  let has_it = $present(inner.x)

struct Inner:
  0 [+2]  UInt  x

struct Auto:
  0 [+8]  UInt:16[]  autos
  let n = 4
''',
}


def covering_sets():
    """[(name, files, main)] for the covering family: every file as a main module."""
    files = dict(COVERING)
    return [(n, files, n) for n in sorted(COVERING)]
