"""Pool of worker processes that imported the REAL compiler once (import costs seconds) and
compile module texts in-process.  Shared by C13 and C14.

Each job is (id, {file: text}, main).  Each result is a plain dict:
  {"id", "acc": bool, "stage": "front"|"back"|"", "exc": "" | stable key of the raising site,
   "exc_text": str, "errs": [{"l1","l2","c1","c2","syn","main","msg"}]}   (error messages only,
   first message of each error group first; notes are dropped).
The pool only runs and records; it takes no decision about the property.
"""
import multiprocessing as mp
import os
import traceback

from .common import REPO, MachineryError, NCPU


def _init():
    import sys
    sys.setrecursionlimit(10000)
    from . import emb
    emb._mods()


def _exc_key(exc):
    """Stable identification of where the compiler raised: ExceptionType@file:function of the
    innermost frame inside the repo."""
    tb = traceback.extract_tb(exc.__traceback__)
    site = "?"
    for fr in tb:
        if fr.filename.startswith(REPO):
            site = "%s:%s" % (os.path.basename(fr.filename), fr.name)
    return "%s@%s" % (type(exc).__name__, site)


def _flatten(errors, main, emb):
    out = []
    for group in emb.flat_errors(errors):
        for m in group:
            if "error" not in m["sev"].lower():
                continue
            out.append({
                "l1": m["l1"] if m["l1"] is not None else 0,
                "l2": m["l2"] if m["l2"] is not None else 0,
                "c1": m["c1"] if m["c1"] is not None else 0,
                "c2": m["c2"] if m["c2"] is not None else 0,
                "syn": bool(m["synthetic"]),
                "main": m["file"] == main,
                "msg": (m["msg"] or "")[:200],
            })
    return out


def _compile_inner(jid, files, main, res, emb):
    try:
        glue, hg, _ = emb._mods()
        ir, _dbg, errors = glue.parse_emboss_file(main, emb.reader_for(files))
        if errors:
            res["stage"] = "front"
            res["errs"] = _flatten(errors, main, emb)
            return res
        header, errors = hg.generate_header(ir, hg.Config(include_enum_traits=True))
        if errors:
            res["stage"] = "back"
            res["errs"] = _flatten(errors, main, emb)
            return res
        res["acc"] = True
        return res
    finally:
        # the front end keeps every parsed text for the life of the process; drop ours (not the
        # prelude's) so that a worker compiling tens of thousands of modules stays small
        cache = getattr(glue, "_cached_modules", None) if "glue" in locals() else None
        if isinstance(cache, dict):
            for k in [k for k in cache if isinstance(k, tuple) and len(k) == 2 and k[1] in files]:
                del cache[k]


def _compile(job):
    from . import emb
    jid, files, main = job
    res = {"id": jid, "acc": False, "stage": "", "exc": "", "exc_text": "", "errs": []}
    try:
        return _compile_inner(jid, files, main, res, emb)
    except RecursionError as e:  # still an exception of the compiler
        res["exc"] = _exc_key(e)
        res["exc_text"] = "RecursionError"
        return res
    except Exception as e:  # noqa: BLE001 - the property is "never crashes"
        res["exc"] = _exc_key(e)
        res["exc_text"] = "".join(traceback.format_exception_only(type(e), e)).strip()[:300]
        return res


_POOL = None


def jobs_limit():
    """How many processes a check may keep busy at once (env VERIF_JOBS; default: cores - 4)."""
    try:
        n = int(os.environ.get("VERIF_JOBS", "0"))
    except ValueError:
        n = 0
    return n if n > 0 else max(2, NCPU - 4)


def _pool(nproc):
    """One pool per check process.  The compiler is imported ONCE, in the parent, before forking:
    the import costs seconds (much more on a loaded machine) and forked workers share it."""
    global _POOL
    if _POOL is None:
        _init()
        import gc
        gc.collect()
        gc.freeze()          # keep the imported compiler out of the children's collector (no COW storms)
        ctx = mp.get_context("fork")
        _POOL = ctx.Pool(nproc)
        import atexit
        atexit.register(close)
    return _POOL


def warm(nproc=None):
    """Fork the workers now, while the calling process is still small."""
    _pool(max(1, nproc or jobs_limit()))


def close():
    global _POOL
    if _POOL is not None:
        _POOL.terminate()
        _POOL.join()
        _POOL = None


def compile_all(jobs, nproc=None):
    """jobs: list of (id, files, main).  Results in job order."""
    jobs = list(jobs)
    if not jobs:
        return []
    nproc = max(1, nproc or jobs_limit())
    try:
        pool = _pool(nproc)
        return pool.map(_compile, jobs, chunksize=max(1, min(32, len(jobs) // (nproc * 4) or 1)))
    except Exception as e:  # pool trouble is machinery, not a verdict
        close()
        raise MachineryError("compile pool failed: %r" % (e,)) from e
