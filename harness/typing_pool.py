"""Pool of worker processes that imported the REAL compiler once (import costs seconds) and
compile module texts in-process.  Shared by C13 and C14.

Each job is (id, {file: text}, main).  Each result is a plain dict:
  {"id", "acc": bool, "stage": "front"|"back"|"", "exc": "" | stable key of the raising site,
   "exc_text": str, "errs": [{"l1","l2","c1","c2","syn","main","msg"}]}   (error messages only,
   first message of each error group first; notes are dropped).
The pool only runs and records; it takes no decision about the property.
"""
import multiprocessing as mp
import os
import traceback

from .common import REPO, MachineryError, NCPU


def _init():
    import sys
    sys.setrecursionlimit(10000)
    from . import emb
    emb._mods()


def _exc_key(exc):
    """Stable identification of where the compiler raised: ExceptionType@file:function of the
    innermost frame inside the repo."""
    tb = traceback.extract_tb(exc.__traceback__)
    site = "?"
    for fr in tb:
        if fr.filename.startswith(REPO):
            site = "%s:%s" % (os.path.basename(fr.filename), fr.name)
    return "%s@%s" % (type(exc).__name__, site)


def _flatten(errors, main, emb):
    out = []
    for group in emb.flat_errors(errors):
        for m in group:
            if "error" not in m["sev"].lower():
                continue
            out.append({
                "l1": m["l1"] if m["l1"] is not None else 0,
                "l2": m["l2"] if m["l2"] is not None else 0,
                "c1": m["c1"] if m["c1"] is not None else 0,
                "c2": m["c2"] if m["c2"] is not None else 0,
                "syn": bool(m["synthetic"]),
                "main": m["file"] == main,
                "msg": (m["msg"] or "")[:200],
            })
    return out


def _compile(job):
    from . import emb
    jid, files, main = job
    res = {"id": jid, "acc": False, "stage": "", "exc": "", "exc_text": "", "errs": []}
    try:
        glue, hg, _ = emb._mods()
        ir, _dbg, errors = glue.parse_emboss_file(main, emb.reader_for(files))
        if errors:
            res["stage"] = "front"
            res["errs"] = _flatten(errors, main, emb)
            return res
        header, errors = hg.generate_header(ir, hg.Config(include_enum_traits=True))
        if errors:
            res["stage"] = "back"
            res["errs"] = _flatten(errors, main, emb)
            return res
        res["acc"] = True
        return res
    except RecursionError as e:  # still an exception of the compiler
        res["exc"] = _exc_key(e)
        res["exc_text"] = "RecursionError"
        return res
    except Exception as e:  # noqa: BLE001 - the property is "never crashes"
        res["exc"] = _exc_key(e)
        res["exc_text"] = "".join(traceback.format_exception_only(type(e), e)).strip()[:300]
        return res


def compile_all(jobs, nproc=None):
    """jobs: list of (id, files, main).  Results in job order."""
    jobs = list(jobs)
    if not jobs:
        return []
    nproc = max(1, min(nproc or max(2, NCPU - 4), len(jobs)))
    ctx = mp.get_context("fork")
    try:
        with ctx.Pool(nproc, initializer=_init) as pool:
            return pool.map(_compile, jobs, chunksize=max(1, min(64, len(jobs) // (nproc * 4) or 1)))
    except Exception as e:  # pool trouble is machinery, not a verdict
        raise MachineryError("compile pool failed: %r" % (e,)) from e
