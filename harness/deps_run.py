"""C15: run rendered dependency cases through the REAL front end and record what it did.

Worker side (multiprocessing): imports the compiler from common.REPO once, wraps
dependency_checker.find_dependency_cycles (module attribute looked up by glue.process_ir at call
time) so that the error groups of the cycle pass can be told apart from errors of other passes
without looking at message text, and compiles modules under a SIGALRM watchdog.

Nothing here decides anything: it records groups (as node ids, by source position), IR field
order and fields_in_dependency_order.
"""
import functools
import signal
import traceback

from . import deps_render as R

STOP = "resolve_field_references"      # = just after set_dependency_order (checked in _init)
WATCHDOG_S = 90

_cap = []
_emb = None


class _Hang(Exception):
    pass


def _alarm(signum, frame):
    raise _Hang()


def _init():
    global _emb
    from . import emb
    _emb = emb
    glue, _, _ = emb._mods()
    dc = glue.dependency_checker
    if not getattr(dc.find_dependency_cycles, "_verif_wrapped", False):
        orig = dc.find_dependency_cycles

        @functools.wraps(orig)
        def rec(ir):
            r = orig(ir)
            _cap.append(r)
            return r

        rec._verif_wrapped = True
        dc.find_dependency_cycles = rec
    signal.signal(signal.SIGALRM, _alarm)


def pass_names():
    """Names of the passes of glue.process_ir, read from its source (for a sanity check)."""
    import inspect
    import re
    glue, _, _ = _emb._mods()
    src = inspect.getsource(glue.process_ir)
    m = re.search(r"passes = \((.*?)\n    \)", src, re.S)
    return re.findall(r"\.(\w+),", m.group(1)) if m else []


def _compile(files, main, stop):
    """-> dict(hang, exc, errors(flat), cycle_pass_ran, cycle_groups, ir)"""
    del _cap[:]
    out = {"hang": False, "exc": "", "errors": [], "cyc": None, "ir": None}
    signal.setitimer(signal.ITIMER_REAL, WATCHDOG_S)
    try:
        ir, _, errs = _emb.front_end(files, main, stop_before_step=stop)
        out["ir"] = ir
        out["errors"] = _emb.flat_errors(errs)
    except _Hang:
        out["hang"] = True
    except RecursionError:
        out["exc"] = "RecursionError"
    except BaseException as e:  # noqa
        tb = traceback.extract_tb(e.__traceback__)
        out["exc"] = type(e).__name__ + (" in " + tb[-1].name if tb else "")
    finally:
        signal.setitimer(signal.ITIMER_REAL, 0)
    if _cap:
        out["cyc"] = len(_cap[-1])
    return out


def _attribute(group, where):
    """group: flat messages; where: {(file, line): (case index, node id)} -> (case index or None, [ids])."""
    owner, ids = None, []
    for m in group:
        c, nid = where.get((m["file"], m["l1"]), (None, 0))
        if c is not None:
            owner = c if owner is None else owner
            if c != owner:
                nid = 0
        ids.append(nid)
    return owner, ids


def _name_fallback(group, ids, case):
    """Automatically generated fields have no source line; they are named in the message."""
    out = []
    for m, nid in zip(group, ids):
        if nid == 0:
            last = m["msg"].splitlines()[-1].strip()
            if last in R.SYNTH:
                nid = case["n"] + 1 + R.SYNTH.index(last)
        out.append(nid)
    return out


def _blank_obs():
    return {"hang": False, "exc": "", "groups": [], "other": 0, "src": [], "order": [], "full": "skip", "batch": 0}


def run_text_batch(job):
    """job: {fam: struct|static, cases: [case], full: bool, need_order: bool}
    All cases are rendered into ONE module.  Returns {case id: obs} or {"retry": [case ids]} when the
    module as a whole failed in a way that cannot be attributed (hang, exception, foreign error)."""
    fam, cases = job["fam"], job["cases"]
    lines = list(R.HEADER)
    where, tnames = {}, {}
    for k, case in enumerate(cases):
        if fam == "struct":
            tn = "Sx%d" % k
            ls, marks = R.render_struct(case, tn)
            tnames[tn] = k
        else:
            ls, marks = R.render_static(case, "x%dx" % k)
        for off, nid in enumerate(marks):
            where[("m.emb", len(lines) + off + 1)] = (k, nid)
        lines += ls
    text = "\n".join(lines) + "\n"
    res = _compile({"m.emb": text}, "m.emb", STOP)
    obs = {c["id"]: _blank_obs() for c in cases}
    for o in obs.values():
        o["batch"] = len(cases)
    single = len(cases) == 1
    if res["hang"] or res["exc"]:
        if not single:
            return {"retry": [c["id"] for c in cases]}
        o = obs[cases[0]["id"]]
        o["hang"], o["exc"] = res["hang"], res["exc"]
        return {"obs": obs, "text": text}
    if res["errors"]:
        is_cycle = res["cyc"] is not None and res["cyc"] > 0
        for g in res["errors"]:
            owner, ids = _attribute(g, where)
            if owner is None and single:
                owner = 0
            if owner is None:
                return {"retry": [c["id"] for c in cases]}
            ids = _name_fallback(g, ids, cases[owner])
            if not single and 0 in ids:
                return {"retry": [c["id"] for c in cases]}
            o = obs[cases[owner]["id"]]
            if is_cycle:
                o["groups"].append(ids)
            else:
                o["other"] += 1
        if not is_cycle and not single:
            return {"retry": [c["id"] for c in cases]}
        return {"obs": obs, "text": text}
    # accepted up to and including set_dependency_order
    if fam == "struct":
        ir = res["ir"]
        for t in ir.module[0].type:
            k = tnames.get(t.name.name.text)
            if k is None:
                continue
            case = cases[k]
            names = [f.name.name.text for f in t.structure.field]
            ids = []
            for nm in names:
                if nm in R.SYNTH:
                    ids.append(case["n"] + 1 + R.SYNTH.index(nm))
                elif nm.startswith("f") and nm[1:].isdigit():
                    ids.append(int(nm[1:]))
                # the filler field `zz` of a structure without fields is not a node
            o = obs[case["id"]]
            o["src"] = ids
            o["order"] = [
                (case["n"] + 1 + R.SYNTH.index(names[x]) if names[x] in R.SYNTH else int(names[x][1:]))
                for x in t.structure.fields_in_dependency_order if names[x] != "zz"
            ]
    if job.get("full"):
        res2 = _compile({"m.emb": text}, "m.emb", None)
        full = "ok" if not (res2["hang"] or res2["exc"] or res2["errors"]) else "err"
        for o in obs.values():
            o["full"] = full
            if res2["hang"] or res2["exc"]:
                o["hang"], o["exc"] = res2["hang"], res2["exc"] and ("full: " + res2["exc"])
    return {"obs": obs, "text": text}


def run_mods(job):
    """job: {cases: [case]} -- each case is its own set of files and its own compile."""
    out = {}
    texts = {}
    for k, case in enumerate(job["cases"]):
        files, main, ids = R.render_mods(case, "c%d" % k)
        res = _compile(files, main, STOP)
        o = _blank_obs()
        o["batch"] = 1
        o["hang"], o["exc"] = res["hang"], res["exc"]
        is_cycle = res["cyc"] is not None and res["cyc"] > 0
        for g in res["errors"]:
            if is_cycle:
                o["groups"].append([ids.get(m["file"], 0) for m in g])
            else:
                o["other"] += 1
        if not (res["hang"] or res["exc"] or res["errors"]) and job.get("full"):
            res2 = _compile(files, main, None)
            o["full"] = "ok" if not (res2["hang"] or res2["exc"] or res2["errors"]) else "err"
        out[case["id"]] = o
        texts[case["id"]] = files
    return {"obs": out, "files": texts}


def dispatch(job):
    if job["fam"] == "mods":
        return run_mods(job)
    return run_text_batch(job)
