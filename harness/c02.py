"""C02 -- scalar fields decode with the documented byte order, bit numbering and format.

Parts (``--only``): mc, rt, gen, selftest.

mc       spec/scalar/BVMC (bit-vector library vs native integers) and spec/scalar/ScalarMC (Scalar.tla,
         small constants, exhaustive) -- design-level model checking.
rt       run-time level: a generated C++ driver instantiates the REAL views of REPO/runtime/cpp for
         every static (type, width, container, byte order) and dynamic offsets, prints
         Ok()/Read()/ValueType per (configuration, contents); TLC (ScalarCheck.tla) compares every
         record with Scalar.tla.
gen      generated-code level: .emb modules compiled by the REAL compiler, same records, same check.
selftest a recorded value is corrupted; TLC must reject exactly that record.
"""
import json
import os
import threading

from . import scalar_check, scalar_gen, scalar_rt
from .common import SPEC, MachineryError, NCPU, Scratch, run_tlc

LEVEL = "model_checking"
SCALAR_DIR = os.path.join(SPEC, "scalar")

RULE = ("run-time level: every static (type in UInt/Int/Bcd/Flag/Float/enum signed+unsigned, width, container "
        "8..64 bits, byte order LE/BE/Null, direct BitBlock or OffsetBitBlock, asserted alignment) is instantiated over "
        "the real runtime headers; per configuration the offsets 0, 1, max-1, max and one seeded offset (thorough: every "
        "offset) are driven with content patterns all-0, all-1, walking-1/walking-0 over container bits, nibble fills, "
        "BCD digit rotations, field=0111..1 on zeros / 1000..0 on ones, seeded fills; generated-code level: .emb `bits` "
        "of every size held under each byte order and byte-aligned struct fields of 1..8 bytes, compiled by the real "
        "compiler, read through Make...View on pointers of alignment 8/1/2/4 and MakeAligned...View<8>.  TLC decodes "
        "every record with Scalar.tla (bit 0 = LSB of the container in its byte order; two's complement; BCD per "
        "nibble; IEEE bit pattern) and compares Ok(), Read() and ValueType.  A record is non-trivial when the field's "
        "bits are neither all 0 nor all 1.")


def _mc(chk, sc, tier, errors):
    try:
        res = run_tlc(os.path.join(SCALAR_DIR, "BVMC.tla"), os.path.join(SCALAR_DIR, "BVMC.cfg"), workers=min(scalar_rt.max_procs(), 4),
                      timeout=1500, metadir=sc.sub("meta-bvmc"))
        chk.add_tlc(res, part="mc-bitvectors")
        if not res.clean:
            chk.violation("mc:bv-library", "BVMC: the bit-vector library disagrees with integer arithmetic\n" + res.error_trace_tail(40))
        res = run_tlc(os.path.join(SCALAR_DIR, "ScalarMC.tla"), os.path.join(SCALAR_DIR, "ScalarMC.cfg"),
                      workers=min(scalar_rt.max_procs(), 6 if tier == "quick" else 12), timeout=3000, coverage=True, env={"MC_SIZE": tier},
                      metadir=sc.sub("meta-scalarmc"))
        chk.add_tlc(res, part="mc-scalar")
        if not res.clean:
            chk.violation("mc:scalar-design", "ScalarMC: an invariant of Scalar.tla fails on the model itself\n" + res.error_trace_tail(60))
        cov = res.coverage()
        missing = [a for a in ("MCChoose", "MCLoad", "MCRead", "MCWrite") if cov.get(a, (0, 0))[1] == 0]
        chk.extra["mc_actions_never_taken"] = missing
        if missing:
            raise MachineryError("ScalarMC is vacuous: actions never taken: %s" % missing)
    except BaseException as e:     # propagate to the main thread
        errors.append(e)


def _rt(sc, tier, seed, out, errors):
    try:
        d = sc.sub("rt")
        configs = scalar_rt.static_configs(tier)
        paths = scalar_rt.write_sources(d, configs, 16 if tier == "quick" else 32)
        exes = scalar_rt.build(d, paths)
        files, total = scalar_rt.run_drivers(exes, d, tier, "R", seed)
        out["rt"] = dict(files=files, records=total, static_configs=len(configs))
    except BaseException as e:
        errors.append(e)


def _gen(sc, tier, seed, out, errors):
    try:
        d = sc.sub("gen")
        ccs, sources = scalar_gen.prepare(d, tier, 6 if tier == "quick" else 120)
        exes = scalar_gen.build(d, ccs)
        files, total = scalar_rt.run_drivers(exes, d, tier, "R", seed, shard_offset=250)
        out["gen"] = dict(files=files, records=total, modules=len(sources), fields=sum(n for _, n in ccs))
    except BaseException as e:
        errors.append(e)


def _selftest(chk, sc, part_file):
    """Corrupt one recorded value; ScalarCheck must flag exactly that record."""
    d = sc.sub("selftest")
    lines = []
    with open(part_file) as f:
        for line in f:
            lines.append(line)
            if len(lines) >= 400:
                break
    target = None
    for idx, line in enumerate(lines):
        r = json.loads(line)
        if r["k"] == "R" and r["ok"] == 1 and r["t"] in ("UInt", "Int") and r["v"]:
            r["v"][0] ^= 1
            target = r["tid"]
            lines[idx] = json.dumps(r, separators=(",", ":")) + "\n"
            break
    if target is None:
        raise MachineryError("self-test: no suitable record to corrupt")
    p = os.path.join(d, "corrupt.ndjson")
    with open(p, "w") as f:
        f.writelines(lines)
    results, mism, summ = scalar_check.check_files([p], d)
    for r in results:
        chk.add_tlc(r, part="selftest")
    hit = [m for m in mism if m["tid"] == target and m["clause"].startswith("read-")]
    if not hit:
        raise MachineryError("self-test failed: a corrupted Read() value (tid %s) was not rejected by ScalarCheck" % target)
    chk.extra["selftest"] = "record %s with one flipped value bit rejected by TLC (clause %s)" % (target, hit[0]["clause"])


def run(chk, only=None):
    parts = only or {"mc", "rt", "gen", "selftest"}
    tier = chk.tier
    with Scratch("c02") as sc:
        errors, out, threads = [], {}, []
        if "mc" in parts:
            threads.append(threading.Thread(target=_mc, args=(chk, sc, tier, errors)))
        if "rt" in parts or "selftest" in parts:
            threads.append(threading.Thread(target=_rt, args=(sc, tier, chk.seed, out, errors)))
        if "gen" in parts:
            threads.append(threading.Thread(target=_gen, args=(sc, tier, chk.seed, out, errors)))
        for t in threads:
            t.start()
        for t in threads:
            t.join()
        if errors:
            raise errors[0]
        files = []
        for lvl in ("rt", "gen"):
            if lvl in out:
                files += out[lvl]["files"]
                chk.extra[lvl] = {k: v for k, v in out[lvl].items() if k != "files"}
        if files:
            parts_files, nrec = scalar_rt.rebalance(files, sc.sub("parts"), "part", min(scalar_rt.max_procs(), 16))
            results, mism, summ = scalar_check.check_files(parts_files, sc.path)
            for r in results:
                chk.add_tlc(r, part="binding")
            chk.traces = sum(s["records"] for s in summ)
            chk.evaluations = chk.traces
            chk.nontrivial_count = sum(s["nontrivial"] for s in summ)
            widths = sorted(set().union(*[set(s["widths"]) for s in summ]))
            offsets = sorted(set().union(*[set(s["offsets"]) for s in summ]))
            containers = sorted(set().union(*[set(s["containers"]) for s in summ]))
            chk.extra["covered"] = dict(widths=len(widths), offsets=len(offsets), containers=containers)
            dev = os.environ.get("VERIF_DEV_SCALAR_TYPES") or os.environ.get("VERIF_DEV_GEN_LIMIT")
            if dev:
                chk.extra["dev_filter"] = "development filter active (%s): coverage not enforced" % dev
            if not dev and (widths != list(range(1, 65)) or offsets != list(range(0, 64))
                            or containers != list(range(8, 65, 8))):
                raise MachineryError("placement coverage incomplete: widths=%s offsets=%s containers=%s" % (
                    widths, offsets, containers))
            scalar_check.report(chk, mism)
            for m in mism[:2]:
                chk.sample(m)
            with open(parts_files[0]) as f:
                for _ in range(3):
                    line = f.readline()
                    if line:
                        chk.sample(json.loads(line))
            if "selftest" in parts:
                _selftest(chk, sc, parts_files[0])
        chk.rule = RULE
        chk.exhaustive = False
        chk.assumptions += [
            "host is little-endian x86-64 with g++ (the EMBOSS_* fast paths taken are those of this platform)",
            "contents are pattern families, not all 2^c values; decoding is linear over bits so walking patterns "
            "detect any wrong bit mapping, shift, mask or extension",
            "quick tier drives 5 offsets per static configuration at the run-time level; thorough drives every offset",
            "Float is compared as a bit pattern only",
        ]


def replay(chk, path):
    """Re-run the configuration of a recorded violation (run-time level) or the whole generated level."""
    with open(path) as f:
        case = json.load(f)["case"]
    cfg = case["cfg"]
    with Scratch("c02-replay") as sc:
        if case.get("lvl") == "gen":
            out, errors = {}, []
            _gen(sc, chk.tier, chk.seed, out, errors)
            if errors:
                raise errors[0]
            files = out["gen"]["files"]
        else:
            d = sc.sub("rt")
            configs = [k for k in scalar_rt.static_configs("thorough")
                       if (k["t"], k["w"], k["c"], k["ord"], k["u"], k["d"]) ==
                       (cfg["t"], cfg["w"], cfg["c"], cfg["ord"], cfg["u"], case.get("dir", 0))]
            if not configs:
                raise MachineryError("replay: configuration not found: %s" % cfg)
            exes = scalar_rt.build(d, scalar_rt.write_sources(d, configs, 1))
            files, _ = scalar_rt.run_drivers(exes, d, "thorough", "R", chk.seed)
        parts_files, nrec = scalar_rt.rebalance(files, sc.sub("parts"), "part", 4)
        results, mism, summ = scalar_check.check_files(parts_files, sc.path)
        for r in results:
            chk.add_tlc(r, part="replay")
        chk.traces = sum(s["records"] for s in summ)
        scalar_check.report(chk, [m for m in mism if m["clause"] == case["clause"]] or mism)
