"""Inputs for C11: parseable .emb texts with seeded layout variation.

render(tokens, rnd, style)   token list [(symbol, text)] -> text with seeded spacing, blank lines,
                             comment-only lines and indentation widths (a renderer, not an oracle:
                             whether the result parses is established by running the real parser).
corpus_sources()             every .emb of the repo
perturbed(...)               corpus files re-rendered from their own token texts
from_sentences(...)          token-kind sentences of the real grammar (harness/grammar_gen.py,
                             TLC SentenceGen) instantiated with seeded names/numbers/strings/comments
"""
import random

from . import lex_gen

NL = '"\\n"'

SNAKE = ["a", "x", "foo", "field_1", "bar_baz", "len", "size", "b2", "payload", "tag", "n"]
CAMEL = ["Foo", "Bar", "UInt", "Int", "Flag", "Baz2", "MyType", "Qux"]
SHOUTY = ["AB", "VALUE", "RED_1", "X_", "MAX_VALUE", "BIG"]
NUMBER = ["0", "1", "8", "12", "64", "1_000", "0x1F", "0xffff_ffff", "0b1010", "0b1010_0101", "007"]
STRING = ['"s"', '""', '"a b"', '"a\\nb"', '"q\\"q"', '"back\\\\slash"', '"LittleEndian"']
BOOL = ["true", "false"]
DOC = ["-- doc", "--", "-- two  words", "--   indented", "-- trailing   ", "-- # not a comment", "-- \t tab"]
COMMENT = ["# c", "#", "#c", "# trailing   ", "#  two  spaces", "# -- not doc", "#\ttab"]

TIGHT = set("[]().,:?*+")      # zero spaces next to these never merges two tokens


def instantiate(kind, rnd):
    if kind == "SnakeWord":
        return rnd.choice(SNAKE)
    if kind == "CamelWord":
        return rnd.choice(CAMEL)
    if kind == "ShoutyWord":
        return rnd.choice(SHOUTY)
    if kind == "Number":
        return rnd.choice(NUMBER)
    if kind == "String":
        return rnd.choice(STRING)
    if kind == "BooleanConstant":
        return rnd.choice(BOOL)
    if kind == "Documentation":
        return rnd.choice(DOC)
    if kind == "Comment":
        return rnd.choice(COMMENT)
    if kind in (NL, "Indent", "Dedent"):
        return ""
    if len(kind) >= 2 and kind[0] == '"' and kind[-1] == '"':
        return kind[1:-1]
    raise ValueError("unknown token kind %r" % kind)


STYLES = ("plain", "tight", "wide", "ragged")


def render(tokens, rnd, style="plain"):
    """tokens: [(symbol, text)] including "\\n"/Indent/Dedent symbols (their text is ignored)."""
    out = []
    stack = [""]
    line = []          # token texts of the current line
    at_line_start = True

    def gap(left, right):
        if style == "plain":
            return " "
        if style == "tight":
            if left[-1] in TIGHT or right[0] in TIGHT:
                return ""
            return " "
        if style == "wide":
            return " " * rnd.randint(1, 4)
        r = rnd.random()
        if r < 0.25 and (left[-1] in TIGHT or right[0] in TIGHT):
            return ""
        if r < 0.5:
            return " "
        if r < 0.7:
            return "  "
        if r < 0.8:
            return "\t"
        if r < 0.85:
            return " \t "
        return " " * rnd.randint(3, 9)

    def extra_lines():
        """blank / whitespace-only / comment-only lines that may follow any line"""
        if style == "plain":
            return []
        res = []
        r = rnd.random()
        if r < 0.15:
            res.append("")
        elif r < 0.22:
            res.extend([""] * rnd.randint(2, 4))
        elif r < 0.27:
            res.append(" " * rnd.randint(1, 7))
        elif r < 0.32:
            res.append("\t")
        elif r < 0.40:
            res.append(rnd.choice(["", " ", "  ", "      ", "\t"]) + rnd.choice(COMMENT))
        elif r < 0.43:
            res.extend([rnd.choice(["", "    "]) + rnd.choice(COMMENT), "", rnd.choice(COMMENT)])
        return res

    def flush():
        nonlocal line
        text = stack[-1] if line else ""
        for k, t in enumerate(line):
            if k:
                text += gap(line[k - 1], t)
            text += t
        if style in ("wide", "ragged") and rnd.random() < 0.2:
            text += " " * rnd.randint(1, 3)
        out.append(text)
        out.extend(extra_lines())
        line = []

    if style != "plain" and rnd.random() < 0.3:
        out.extend(extra_lines() or [""])
    for sym, text in tokens:
        if sym == NL:
            flush()
        elif sym == "Indent":
            if style == "plain":
                w = "  "
            elif style == "tight":
                w = " "
            else:
                w = rnd.choice([" ", "  ", "   ", "    ", "      ", "\t", "  \t"])
            stack.append(stack[-1] + w)
        elif sym == "Dedent":
            if len(stack) > 1:
                stack.pop()
        else:
            line.append(text)
    if line:
        flush()
    term = "\n"
    body = term.join(out)
    if style == "plain" or rnd.random() < 0.8:
        body += term
    return body


def corpus_sources():
    import os
    return [("corpus:" + os.path.relpath(f, lex_gen.REPO), lex_gen.read_text(f))
            for f in lex_gen.corpus_files()]


def kinds_to_tokens(kinds, rnd):
    return [(k, instantiate(k, rnd)) for k in kinds]
