"""Drive the REAL formatter and record traces for FmtTrace.tla; run FmtTrace over them.

Per source text t0 (only if the real tokenizer+parser accept it) and per indent width:
    t1 = format(parse(t0), indent)      (or the exception)
    parses1 = does t1 parse
    t2 = format(parse(t1), indent)      (or the exception)
    self_n = number of complaints of format_emb.sanity_check_format_result(t1, t0)  (-1: it raised)
    optionally: what `emboss-format --no-edit-in-place --indent N file` printed for t0
Nothing is judged here.
"""
import json
import multiprocessing
import os
import subprocess
import sys
import tempfile

from .common import REPO, SPEC, MachineryError, run_parallel, run_tlc, write_cfg
from .lex_run import MAXPROC, cps

FMT_DIR = os.path.join(SPEC, "fmt")

_mods = None


def _load():
    global _mods
    if _mods is None:
        if REPO not in sys.path:
            sys.path.insert(0, REPO)
        sys.dont_write_bytecode = True
        from compiler.front_end import format_emb, parser, tokenizer
        _mods = (format_emb, parser, tokenizer)
    return _mods


def parse_text(text):
    """-> parse tree or None (real tokenizer + real parser)."""
    format_emb, parser, tokenizer = _load()
    tokens, errors = tokenizer.tokenize(text, "f.emb")
    if errors:
        return None
    res = parser.parse_module(tokens)
    if res.error:
        return None
    return res.parse_tree


def real_tokens(text):
    format_emb, parser, tokenizer = _load()
    tokens, errors = tokenizer.tokenize(text, "f.emb")
    if errors:
        return None
    return [(t.symbol, t.text) for t in tokens]


def _fmt(tree, indent):
    format_emb, parser, tokenizer = _load()
    return format_emb.format_emboss_parse_tree(tree, format_emb.Config(indent_width=indent))


def record_one(job):
    """job = (id, fam, t0, indents) -> case dict, or None if t0 is not parseable (precondition)."""
    cid, fam, t0, indents = job
    format_emb, parser, tokenizer = _load()
    tree0 = parse_text(t0)
    if tree0 is None:
        return None
    runs = []
    for indent in indents:
        run = {"indent": indent, "exc1": "", "t1": [], "parses1": False, "exc2": "", "t2": [], "self_n": 0,
               "cli_ran": False, "cli_rc": 0, "cli_out": []}
        try:
            t1 = _fmt(tree0, indent)
        except Exception as e:
            run["exc1"] = type(e).__name__ + ": " + str(e)[:200]
            runs.append(run)
            continue
        run["t1"] = cps(t1)
        tree1 = parse_text(t1)
        run["parses1"] = tree1 is not None
        if tree1 is not None:
            try:
                run["t2"] = cps(_fmt(tree1, indent))
            except Exception as e:
                run["exc2"] = type(e).__name__ + ": " + str(e)[:200]
        else:
            run["exc2"] = "unparseable"
        try:
            run["self_n"] = len(format_emb.sanity_check_format_result(t1, t0))
        except Exception as e:
            run["self_n"] = -1
        runs.append(run)
    return {"id": cid, "fam": fam, "t0": cps(t0), "runs": runs}


def _init_worker():
    _load()


def record_all(jobs, nproc=None):
    nproc = max(1, min(nproc or MAXPROC, 8, len(jobs)))
    if nproc == 1:
        return [record_one(j) for j in jobs]
    ctx = multiprocessing.get_context("fork")
    with ctx.Pool(nproc, initializer=_init_worker) as pool:
        return pool.map(record_one, jobs, chunksize=max(1, len(jobs) // (nproc * 8)))


def run_cli(text, indent, workdir, tag):
    """emboss-format --no-edit-in-place --indent N <file>  ->  (rc, stdout text)"""
    path = os.path.join(workdir, "cli-%s.emb" % tag)
    with open(path, "w", encoding="utf-8", newline="") as f:
        f.write(text)
    env = dict(os.environ)
    env["PYTHONDONTWRITEBYTECODE"] = "1"
    env["PYTHONIOENCODING"] = "utf-8"
    env["PYTHONUTF8"] = "1"
    p = subprocess.run([sys.executable, os.path.join(REPO, "emboss-format"), "--no-edit-in-place", "--indent", str(indent), path],
                       cwd=REPO, env=env, stdout=subprocess.PIPE, stderr=subprocess.PIPE, timeout=300)
    return p.returncode, p.stdout.decode("utf-8", errors="replace"), p.stderr.decode("utf-8", errors="replace")


def add_cli(cases, picks, workdir):
    """picks: [(case index, run index)]; runs the command in parallel and stores its output in the run."""
    def job(ci, ri):
        c = cases[ci]
        r = c["runs"][ri]
        text = "".join(chr(x) for x in c["t0"])
        rc, out, err = run_cli(text, r["indent"], workdir, "%d-%d" % (ci, ri))
        r["cli_ran"] = True
        r["cli_rc"] = rc
        r["cli_out"] = cps(out) if not err.strip() else cps(out + "\n<stderr>" + err[:200])
    run_parallel([(lambda ci=ci, ri=ri: job(ci, ri)) for ci, ri in picks], nproc=min(MAXPROC, 6))


def run_fmttrace(chk, scr, table_path, cases, part, timeout=2400, env_extra=None):
    """Shard cases over single-worker TLC processes; returns TLC's printed failure records."""
    if not cases:
        return []
    weight = sum(len(c["t0"]) + sum(len(r["t1"]) for r in c["runs"]) for c in cases)
    nshards = min(max(MAXPROC, 1) * 2 if MAXPROC < 8 else MAXPROC, max(1, weight // 20000))
    order = sorted(range(len(cases)), key=lambda k: -len(cases[k]["t0"]))
    shards = [[cases[k] for k in order[s::nshards]] for s in range(nshards)]
    shards = [s for s in shards if s]
    cfg = scr.file("FmtTrace-%s.cfg" % part)
    write_cfg(cfg, spec="Spec")
    jobs = []
    for k, sh in enumerate(shards):
        cpath = scr.file("fmt-%s-%d.ndjson" % (part, k))
        with open(cpath, "w") as f:
            for c in sh:
                f.write(json.dumps(c, separators=(",", ":")) + "\n")

        def job(cpath=cpath, k=k):
            env = dict(env_extra or {})
            env.update({"LEX_TABLE": table_path, "CASES_FILE": cpath})
            return run_tlc(os.path.join(FMT_DIR, "FmtTrace.tla"), cfg, lib_areas=("fmt", "lex"), workers=1, env=env,
                           timeout=timeout, metadir=os.path.join(scr.path, "meta-%s-%d" % (part, k)))
        jobs.append(job)
    results = run_parallel(jobs, nproc=min(len(jobs), MAXPROC))
    fails = []
    for res, sh in zip(results, shards):
        chk.add_tlc(res, part=part)
        if not res.clean:
            raise MachineryError("FmtTrace did not complete cleanly:\n" + res.error_trace_tail(40))
        ok = False
        for obj in res.printed_json():
            if isinstance(obj, dict) and obj.get("summary"):
                ok = obj["cases"] == len(sh)
            elif isinstance(obj, dict) and "runs" in obj:
                fails.append(obj)
        if not ok:
            raise MachineryError("FmtTrace did not consume every case (part %s)" % part)
    return fails
