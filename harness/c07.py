"""C07 - every module the compiler accepts yields a header that compiles and instantiates.

"Is valid C++" is decided by g++.  The specification supplies the quantifier:
  names     spec/names/NameGen.tla: TLC enumerates modules whose type / field / enum-value names sit next to the
            identifiers the back end derives or the run time uses (FooView next to Foo, has_x next to x, backing_,
            Ok, ...), exhaustively for at most MaxOdd non-default names per module;
  progs     the feature catalogue and TLC-generated programs of spec/view/ProgGen.tla (all view features);
  corpus    every .emb of the repository that the compiler accepts.
For each ACCEPTED module the header is emitted with and without enum traits and compiled (g++ -fsyntax-only,
-std=c++11/14/17) together with a full-instantiation driver generated from the front end's IR: explicit
instantiation of every generated view class (which instantiates every accessor, has_, Ok, Equals, CopyFrom,
text method ...), Make*View for every structure, the enum helpers for every enum, and a static_assert of every
compile-time constant (constant virtual fields, $size / $min_size / $max_size constants, enum values) against
the value in the IR.
Python renders, compiles and collects; it decides nothing beyond "the C++ compiler reported an error".
"""
import json
import os
import re
import subprocess
import sys

from . import emb, view_catalog, view_prog, view_run
from .common import REPO, SPEC, NCPU, Scratch, MachineryError, run_parallel, run_tlc, write_cfg

LEVEL = "exploration"

STDS = ("c++11", "c++14", "c++17")


# ------------------------------------------------------------------------------------------------
# module sources
# ------------------------------------------------------------------------------------------------
def name_modules(sc, max_odd):
    d = sc.sub("namegen")
    mod = os.path.join(d, "NameGenRun.tla")
    with open(mod, "w") as f:
        f.write("---- MODULE NameGenRun ----\nEXTENDS NameGen\n====\n")
    cfg = os.path.join(d, "NameGenRun.cfg")
    write_cfg(cfg, spec="Spec", constants={"MaxOdd": max_odd}, invariants=["Distinct"])
    res = run_tlc(mod, cfg, lib_areas=("names",), workers=1, timeout=900, coverage=True)
    if not res.clean:
        raise MachineryError("NameGen failed:\n" + res.error_trace_tail())
    mods = [m for m in res.printed_json() if isinstance(m, dict) and "types" in m]
    return mods, res


def const_module(sc):
    """ConstGen.tla -> one module declaring every landmark constant as virtual constants and enum values."""
    d = sc.sub("constgen")
    mod = os.path.join(d, "ConstGenRun.tla")
    with open(mod, "w") as f:
        f.write("---- MODULE ConstGenRun ----\nEXTENDS ConstGen\n====\n")
    cfg = os.path.join(d, "ConstGenRun.cfg")
    write_cfg(cfg, invariants=["AllInRange"])
    res = run_tlc(mod, cfg, lib_areas=("names",), workers=1, timeout=600)
    if not res.clean:
        raise MachineryError("ConstGen failed:\n" + res.error_trace_tail())
    vals = None
    for o in res.printed_json():
        if isinstance(o, dict) and "consts" in o:
            vals = sorted({(-1 if c["neg"] else 1) * int("".join(str(x) for x in c["d"])) for c in o["consts"]})
    if not vals:
        raise MachineryError("ConstGen printed nothing")
    lines = ['[$default byte_order: "LittleEndian"]', '[(cpp) namespace: "nm::consts"]']
    lines.append("enum Signed:")
    for i, v in enumerate(x for x in vals if -(2 ** 63) <= x < 2 ** 63):
        lines.append("  SV%d = %d" % (i, v))
    lines.append("enum Unsigned:")
    for i, v in enumerate(x for x in vals if x >= 0):
        lines.append("  UV%d = %d" % (i, v))
    lines.append("struct Consts:")
    lines.append("  0 [+1]  UInt  x")
    for i, v in enumerate(vals):
        lines.append("  let c%d = %d" % (i, v))
        if v + 1 <= 2 ** 64 - 1 and not (v < 0 and v + 1 >= 0 and False):
            if (v >= 0) or (v + 1 < 2 ** 63):
                lines.append("  let p%d = c%d + 1" % (i, i))
        if v - 1 >= -(2 ** 63) and (v - 1 >= 0 or v < 2 ** 63):
            lines.append("  let m%d = c%d - 1" % (i, i))
    # conditional fields that compare tags of several widths with every landmark (the back end turns three or more
    # `tag == constant` siblings into a switch over the tag's C++ type: constants outside that type must not become labels)
    for tn, tty, nb in (("Tag8", "UInt", 1), ("Tag32", "UInt", 4), ("TagS32", "Int", 4), ("Tag64", "UInt", 8), ("TagS64", "Int", 8)):
        lines.append("struct %s:" % tn)
        lines.append("  0 [+%d]  %s  tag" % (nb, tty))
        for i, v in enumerate(vals):
            # the documented 64-bit rule: the operands of one operator must fit one of int64 / uint64 together
            if tty == "Int" or v < 0:
                legal = -(2 ** 63) <= v < 2 ** 63 and (tty == "Int" or nb < 8)
            else:
                legal = True
            if not legal:
                continue
            lines.append("  if tag == %d:" % v)
            lines.append("    %d [+1]  UInt  k%d" % (nb, i))
    return "\n".join(lines) + "\n", res, len(vals)


def render_name_module(k, m):
    t1, t2 = m["types"]
    f1, f2 = m["fields"]
    v = m["values"][0]
    return ('[$default byte_order: "LittleEndian"]\n[(cpp) namespace: "nm::m%d"]\n'
            "enum Kind:\n  %s = 1\n  OTHER_VALUE = 2\n"
            "struct %s:\n  0 [+1]  UInt  x\n  1 [+1]  Kind  k\n"
            "struct %s:\n  0 [+1]  UInt  %s\n  1 [+2]  UInt  %s\n  3 [+2]  %s  sub\n  let lv = %s + 1\n"
            % (k, v, t2, t1, f1, f2, t2, f1))


def corpus_files():
    out = []
    for root in ("testdata", "compiler/front_end"):
        for dp, _dn, fn in os.walk(os.path.join(REPO, root)):
            for n in sorted(fn):
                if n.endswith(".emb"):
                    out.append(os.path.relpath(os.path.join(dp, n), REPO))
    return sorted(out)


def repo_reader(extra=None):
    def read(name):
        if extra and name in extra:
            return extra[name], None
        p = os.path.join(REPO, name)
        try:
            with open(p, encoding="utf-8") as f:
                return f.read(), None
        except (IOError, UnicodeError) as e:
            return None, [str(e)]
    return read


# ------------------------------------------------------------------------------------------------
# IR -> full-instantiation driver
# ------------------------------------------------------------------------------------------------
SPECIAL = {"$size_in_bytes": "IntrinsicSizeInBytes", "$size_in_bits": "IntrinsicSizeInBits",
           "$max_size_in_bytes": "MaxSizeInBytes", "$max_size_in_bits": "MaxSizeInBits",
           "$min_size_in_bytes": "MinSizeInBytes", "$min_size_in_bits": "MinSizeInBits"}


def cpp_int(v):
    if v >= 2 ** 63:
        return "%dULL" % v
    if v == -(2 ** 63):
        return "(-9223372036854775807LL - 1)"
    return "%dLL" % v


def module_namespace(module):
    for a in module.attribute:
        if a.name.text == "namespace" and a.back_end and a.back_end.text == "cpp":
            ns = a.value.string_constant.text.strip()
            return "::" + ns.lstrip(":")
    return "::emboss_generated_code"


def walk_types(module):
    """[(path tuple, TypeDefinition)] in declaration order, nested types included."""
    out = []

    def rec(t, path):
        p = path + (t.name.name.text,)
        out.append((p, t))
        for s in t.subtype:
            rec(s, p)
    for t in module.type:
        rec(t, ())
    return out


def driver_for(ir, header_name, with_traits, uses_enum_case):
    """C++ source that includes the header and names everything in it (compile-only)."""
    from compiler.util import ir_util, ir_data
    m = ir.module[0]
    ns = module_namespace(m)
    # without enum traits the header leaves the text helpers out (documented for --no-cc-enum-traits)
    src = ['#define C07_TEXT %d' % (1 if with_traits else 0), '#include <cstdint>', '#include <string>', '#include <sstream>',
           '#include "%s"' % header_name, ""]
    asserts = 0
    views = 0
    enums = 0
    body = []
    for path, t in walk_types(m):
        q = ns + "".join("::" + p for p in path[:-1])
        if t.has_field("structure"):
            cls = "%s::Generic%sView" % (q, path[-1])
            unit = 8 if t.addressable_unit == ir_data.AddressableUnit.BYTE else 1
            fixed = ir_util.get_integer_attribute(t.attribute, "fixed_size_in_bits")
            if unit == 8:
                storage = "::emboss::support::ReadWriteContiguousBuffer"
            else:
                n = fixed if fixed else 64
                n = min(64, max(8, ((n + 7) // 8) * 8))
                storage = ("::emboss::support::BitBlock<::emboss::support::LittleEndianByteOrderer<"
                           "::emboss::support::ReadWriteContiguousBuffer>, %d>" % n)
            src.append("template class %s<%s>;" % (cls, storage))
            views += 1
            vt = "%s<%s>" % (cls, storage)
            body.append("  { %s v; %s(v); }" % (vt, "touch" if unit == 8 else "touch_bits"))
            if unit == 8:
                args = []
                ok = True
                for p in t.runtime_parameter:
                    if p.type.which_type == "integer":
                        args.append("0")
                    elif p.type.which_type == "enumeration":
                        en = p.type.enumeration.name.canonical_name
                        args.append("static_cast<%s%s>(0)" % (ns, "".join("::" + x for x in en.object_path)))
                    else:
                        ok = False
                if ok and not t.name.is_anonymous:
                    body.append("  { auto v = %s::Make%sView(%sbuf, sizeof buf); touch(v); }" % (q, path[-1], "".join(a + ", " for a in args)))
            # compile-time constants
            for f in t.structure.field:
                if not ir_util.field_is_virtual(f):
                    continue
                name = f.name.name.text
                cname = SPECIAL.get(name, name if not name.startswith("$") else None)
                if cname is None:
                    continue
                if ir_util.constant_value(f.existence_condition) is not True:
                    continue
                ty = f.read_transform.type
                if ty.which_type == "integer" and ty.integer.modulus == "infinity":
                    val = int(ty.integer.modular_value)
                    src.append('static_assert(%s::%s().Read() == %s, "%s.%s");' % (vt, cname, cpp_int(val), ".".join(path), name))
                    asserts += 1
                elif ty.which_type == "boolean" and ty.boolean.has_field("value"):
                    src.append('static_assert(%s::%s().Read() == %s, "%s.%s");' % (vt, cname, "true" if ty.boolean.value else "false", ".".join(path), name))
                    asserts += 1
        elif t.has_field("enumeration"):
            en = "%s::%s" % (q, path[-1])
            enums += 1
            body.append("  { %s e = static_cast<%s>(0); (void)e;" % (en, en))
            if with_traits:
                # the helpers live in the enum's namespace and are found by argument-dependent lookup
                body.append("    (void)TryToGetEnumFromName(\"X\", &e); (void)TryToGetNameFromEnum(e);")
                body.append("    (void)EnumIsKnown(e); std::ostringstream os; os << e; }")
            else:
                body.append("  }")
            if not uses_enum_case:
                signed = ir_util.get_boolean_attribute(t.attribute, "is_signed")
                for v in t.enumeration.value:
                    val = ir_util.constant_value(v.value)
                    if val is None:
                        continue
                    cast = "::std::int64_t" if signed else "::std::uint64_t"
                    src.append('static_assert(static_cast<%s>(%s::%s) == %s, "%s.%s");' % (cast, en, v.name.name.text, cpp_int(val), ".".join(path), v.name.name.text))
                    asserts += 1
    src.append("""
template <class V> static void touch(V v) {
  (void)v.Ok(); (void)v.IsComplete(); (void)v.SizeIsKnown(); (void)v.Equals(v); (void)v.UncheckedEquals(v);
  (void)v.TryToCopyFrom(v); v.CopyFrom(v); v.UncheckedCopyFrom(v); (void)v.BackingStorage();
#if C07_TEXT
  std::string s = ::emboss::WriteToString(v); (void)::emboss::UpdateFromText(v, s);
  (void)::emboss::WriteToString(v, ::emboss::MultilineText());
#endif
}
// `bits` views: the API doc/cpp-reference.md documents for them (no CopyFrom / Equals / BackingStorage)
template <class V> static void touch_bits(V v) {
  (void)v.Ok(); (void)v.IsComplete(); (void)v.SizeIsKnown(); (void)v.IntrinsicSizeInBits(); (void)v.MaxSizeInBits(); (void)v.MinSizeInBits();
#if C07_TEXT
  std::string s = ::emboss::WriteToString(v); (void)::emboss::UpdateFromText(v, s);
#endif
}
void never_called() {
  static char buf[4096];
""" + "\n".join(body) + "\n}\nint main() { return 0; }\n")
    return "\n".join(src), {"views": views, "enums": enums, "asserts": asserts}


def syntax_check(src_path, incdirs, std):
    cmd = ["g++", "-std=" + std, "-fsyntax-only", "-w", "-I", REPO]
    for i in incdirs:
        cmd += ["-I", i]
    cmd.append(src_path)
    p = subprocess.run(cmd, stdout=subprocess.PIPE, stderr=subprocess.STDOUT, text=True, timeout=900)
    return p.returncode, p.stdout


def first_error(out):
    for l in out.splitlines():
        if " error: " in l:
            return re.sub(r"^.*?error: ", "", l)[:160]
    return out.strip().splitlines()[-1][:160] if out.strip() else "?"


def error_class(msg):
    """Stable class of a g++ error: its text without the identifiers of this module."""
    m = re.sub(r"['‘][^'’]*['’]", "<id>", msg)
    m = re.sub(r"\d+", "N", m)
    return re.sub(r"\s+", " ", m)[:90]


# ------------------------------------------------------------------------------------------------
def prepare_module(chk, sc, tag, files, main, combos, family):
    """Compile one module with the real compiler (in this process, sequentially).  If it is accepted, write the
    header(s) and the full-instantiation driver for every enum-traits setting and return the g++ jobs."""
    if REPO not in sys.path:
        sys.path.insert(0, REPO)
    from compiler.front_end import glue
    from compiler.back_end.cpp import header_generator as hg
    reader = repo_reader(files)
    try:
        ir, _dbg, errors = glue.parse_emboss_file(main, reader)
    except Exception as e:  # totality is C16's property; here the module simply is not "accepted"
        return {"accepted": False, "crash": type(e).__name__}, []
    if errors:
        return {"accepted": False}, []
    d = sc.sub("m_" + re.sub(r"\W+", "_", tag)[:80])
    text = files.get(main) if files and main in files else reader(main)[0]
    stats = {"accepted": True, "compiles": 0}
    cjobs = []
    for traits in sorted({c[1] for c in combos}):
        hdir = os.path.join(d, "t%d" % traits)
        # the header of every non-prelude module (the main one and its imports) through the real back end
        for mod in ir.module:
            if not mod.source_file_name:
                continue
            try:
                mir, _d2, merr = glue.parse_emboss_file(mod.source_file_name, reader)
                header, herr = hg.generate_header(mir, hg.Config(include_enum_traits=bool(traits)))
            except Exception as e:
                chk.violation("%s:back-end-exception:%s" % (family, type(e).__name__),
                              "the C++ back end raised %r on accepted module %s (%s)" % (e, mod.source_file_name, tag), {"main": main, "text": text})
                return stats, []
            if merr or herr:
                stats["back_end_rejected"] = True
                return stats, []
            hp = os.path.join(hdir, mod.source_file_name + ".h")
            os.makedirs(os.path.dirname(hp), exist_ok=True)
            with open(hp, "w") as f:
                f.write(header)
        uses_enum_case = "enum_case" in (text or "")
        src, st = driver_for(ir, main + ".h", bool(traits), uses_enum_case)
        stats.update(st)
        sp = os.path.join(hdir, "driver.cc")
        with open(sp, "w") as f:
            f.write(src)
        for std, tr in combos:
            if tr == traits:
                cjobs.append({"tag": tag, "family": family, "main": main, "text": text, "src": sp, "hdir": hdir, "std": std, "traits": traits,
                              "others": sorted((files or {}).keys())})
    return stats, cjobs


def compile_job(j):
    rc, out = syntax_check(j["src"], [j["hdir"]], j["std"])
    return j, rc, out


def run(chk, only=None):
    quick = chk.tier == "quick"
    want = lambda p: only is None or p in only
    combos_all = [(s, t) for s in STDS for t in (1, 0)]
    combos_quick = [("c++11", 1), ("c++14", 0), ("c++17", 1)]
    combos = combos_quick if quick else combos_all
    jobs = []
    with Scratch("c07") as sc:
        if want("names"):
            mods, res = name_modules(sc, 1 if quick else 2)
            chk.add_tlc(res, part="NameGen")
            chk.extra["name_modules"] = len(mods)
            for k, m in enumerate(mods):
                text = render_name_module(k, m)
                jobs.append(("names:%d:%s" % (k, "/".join(m["types"][:1] + m["fields"][:1] + m["values"])), {"nm.emb": text}, "nm.emb", "names",
                             combos if not quick else [combos_quick[k % 3]]))
        if want("consts"):
            text, res, nvals = const_module(sc)
            chk.add_tlc(res, part="ConstGen")
            chk.extra["landmark_constants"] = nvals
            jobs.append(("consts:landmarks", {"consts.emb": text}, "consts.emb", "consts", combos))
        if want("progs"):
            progs = view_catalog.catalog()
            gen, gres = view_run.generated_programs(sc, 12 if quick else 200, chk.seed + 7, 5 if quick else 6, 3, name="c07")
            chk.add_tlc(gres, part="ProgGen")
            chk.extra["generated_programs"] = len(gen)
            for p in progs + gen:
                name = p.name.lower() + ".emb"
                jobs.append(("progs:" + p.name, {name: view_prog.render(p)}, name, "progs", combos))
        if want("corpus"):
            for rel in corpus_files():
                jobs.append(("corpus:" + rel, None, rel, "corpus", combos))
        results = []
        cjobs = []
        for j in jobs:
            st, cj = prepare_module(chk, sc, j[0], j[1], j[2], j[4], j[3])
            results.append((j, st))
            cjobs += cj
        by_tag = {j[0]: st for j, st in results}
        reported = set()
        for cj, rc, out in run_parallel([(lambda c=c: compile_job(c)) for c in cjobs], nproc=max(2, NCPU - 1)):
            by_tag[cj["tag"]]["compiles"] += 1
            if rc != 0 and cj["tag"] not in reported:
                reported.add(cj["tag"])
                msg = first_error(out)
                what = cj["tag"].split(":", 2)[2] if cj["family"] == "names" else error_class(msg)
                chk.violation("%s:c++-error:%s" % (cj["family"], what),
                              "accepted module %s (%s): generated header + full-instantiation driver does not compile with -std=%s, "
                              "enum traits %s:\n%s\n--- %s ---\n%s" % (cj["main"], cj["tag"], cj["std"], "on" if cj["traits"] else "off",
                                                                       out[:1500], cj["main"], (cj["text"] or "")[:1500]),
                              {"main": cj["main"], "text": cj["text"], "std": cj["std"], "enum_traits": bool(cj["traits"]),
                               "first_error": msg, "other_files": cj["others"]})
    acc = [r for _j, r in results if r.get("accepted")]
    chk.evaluations = sum(r.get("compiles", 0) for r in acc)
    chk.traces = 0
    chk.nontrivial_count = len(acc)
    fam = {}
    for j, r in results:
        f = fam.setdefault(j[3], {"modules": 0, "accepted": 0, "compiles": 0, "views": 0, "enums": 0, "static_asserts": 0, "front_end_crashes": 0})
        f["modules"] += 1
        f["accepted"] += 1 if r.get("accepted") else 0
        f["compiles"] += r.get("compiles", 0)
        f["views"] += r.get("views", 0)
        f["enums"] += r.get("enums", 0)
        f["static_asserts"] += r.get("asserts", 0)
        f["front_end_crashes"] += 1 if r.get("crash") else 0
    chk.extra["families"] = fam
    # vacuity guard: the landmark module is legal by construction; if the compiler rejects it the family decides nothing
    for j, r in results:
        if j[3] == "consts" and not r.get("accepted"):
            chk.violation("consts:module-rejected", "the landmark-constant module (legal by construction: every constant and every comparison fits "
                          "one 64-bit type) is rejected by the compiler: %s\n%s" % (r.get("crash") or r.get("error") or "", j[1]["consts.emb"][:3000]),
                          {"text": j[1]["consts.emb"]})
    for j, r in results[:400:37]:
        chk.sample({"module": j[0], "accepted": bool(r.get("accepted")), "compiles": r.get("compiles", 0),
                    "text_head": ((j[1] or {}).get(j[2]) or "")[:300]})
    chk.rule = ("modules: TLC-enumerated identifier-shape modules (NameGen.tla), the view feature catalogue and ProgGen.tla programs, "
                "and every .emb of the repository; an evaluation is one g++ -fsyntax-only run over header + full-instantiation driver "
                "for one (standard, enum traits) combination; non-trivial = the module was accepted by the real compiler (so the run "
                "had a header to judge)")
    chk.assumptions += ["g++ is the judge of C++ validity (clang builds the same headers in C04)",
                        "explicit instantiation of each generated view class template instantiates every non-template member",
                        "quick: 3 of the 6 (standard, traits) combinations per module; thorough: all 6"]
    chk.extra["explanation"] = "see rule; verdict = C++ compiler diagnostics on accepted modules"
