"""Read the DOCUMENTED token pattern table (doc/grammar.md, "Pattern | Symbol") into regex ASTs.

Nothing here looks at compiler/front_end/tokenizer.py.  The result is handed to TLC as a JSON
constant (Lex.tla: `Patterns`); matching, longest match and tie breaking are done by Lex.tla.

Regex subset (what the documented table uses): literal characters, `\\x` escapes of punctuation,
`\\n \\t \\r \\f \\v`, `\\s`, `.`, `$`, character classes with ranges / negation / escapes,
`* + ? {m} {m,} {m,n}`, `(?:...)` / `(...)` groups, `|`.

AST node (uniform record so that TLC sees one shape):
  {"k": "set"|"cat"|"alt"|"rep"|"eol", "neg": bool, "ws": bool, "rs": [[lo,hi]...], "subs": [...],
   "min": int, "max": int}      (max = -1: unbounded)
"""
import os
import re as _pyre

from .common import REPO, MachineryError

_ESC = {"n": 10, "t": 9, "r": 13, "f": 12, "v": 11, "0": 0, "a": 7}


def _node(k, neg=False, ws=False, rs=(), subs=(), mn=0, mx=0):
    return {"k": k, "neg": neg, "ws": ws, "rs": [list(r) for r in rs], "subs": list(subs), "min": mn, "max": mx}


def _lit(cp):
    return _node("set", rs=[(cp, cp)])


class _P:
    def __init__(self, s):
        self.s = s
        self.i = 0

    def peek(self):
        return self.s[self.i] if self.i < len(self.s) else None

    def eat(self, ch=None):
        c = self.peek()
        if c is None or (ch is not None and c != ch):
            raise MachineryError("regex parse error in %r at %d (wanted %r)" % (self.s, self.i, ch))
        self.i += 1
        return c

    def alt(self):
        branches = [self.cat()]
        while self.peek() == "|":
            self.eat()
            branches.append(self.cat())
        return branches[0] if len(branches) == 1 else _node("alt", subs=branches)

    def cat(self):
        items = []
        while self.peek() is not None and self.peek() not in "|)":
            items.append(self.rep())
        if len(items) == 1:
            return items[0]
        return _node("cat", subs=items)

    def rep(self):
        a = self.atom()
        while True:
            c = self.peek()
            if c == "*":
                self.eat(); a = _node("rep", subs=[a], mn=0, mx=-1)
            elif c == "+":
                self.eat(); a = _node("rep", subs=[a], mn=1, mx=-1)
            elif c == "?":
                self.eat(); a = _node("rep", subs=[a], mn=0, mx=1)
            elif c == "{":
                self.eat()
                m = _pyre.match(r"(\d+)(,(\d*))?\}", self.s[self.i:])
                if not m:
                    raise MachineryError("bad {m,n} in %r" % self.s)
                self.i += m.end()
                lo = int(m.group(1))
                hi = lo if m.group(2) is None else (int(m.group(3)) if m.group(3) else -1)
                a = _node("rep", subs=[a], mn=lo, mx=hi)
            else:
                return a
            if self.peek() in ("?", "+"):
                raise MachineryError("lazy/possessive quantifier not supported in %r" % self.s)

    def escape(self, in_class):
        self.eat("\\")
        c = self.eat()
        if c == "s":
            return _node("set", ws=True)
        if c in "dDwWSbBAZ" or c.isdigit() and c != "0":
            raise MachineryError("regex escape \\%s not supported (pattern %r)" % (c, self.s))
        if c in _ESC:
            return _lit(_ESC[c])
        if c.isalnum():
            raise MachineryError("regex escape \\%s not supported (pattern %r)" % (c, self.s))
        return _lit(ord(c))

    def atom(self):
        c = self.peek()
        if c == "(":
            self.eat()
            if self.s.startswith("?:", self.i):
                self.i += 2
            elif self.peek() == "?":
                raise MachineryError("group extension not supported in %r" % self.s)
            a = self.alt()
            self.eat(")")
            return a
        if c == "[":
            return self.cls()
        if c == ".":
            self.eat()
            return _node("set", neg=True, rs=[(10, 10)])
        if c == "$":
            self.eat()
            return _node("eol")
        if c == "^":
            raise MachineryError("anchor ^ not supported in %r" % self.s)
        if c == "\\":
            return self.escape(False)
        if c in "*+?{":
            raise MachineryError("nothing to repeat in %r" % self.s)
        self.eat()
        return _lit(ord(c))

    def cls(self):
        self.eat("[")
        neg = False
        if self.peek() == "^":
            self.eat(); neg = True
        rs = []
        ws = False
        first = True
        while True:
            c = self.peek()
            if c is None:
                raise MachineryError("unterminated class in %r" % self.s)
            if c == "]" and not first:
                self.eat()
                break
            first = False
            if c == "\\":
                n = self.escape(True)
                if n["ws"]:
                    ws = True
                    continue
                lo = n["rs"][0][0]
            else:
                self.eat()
                lo = ord(c)
            if self.peek() == "-" and self.i + 1 < len(self.s) and self.s[self.i + 1] != "]":
                self.eat("-")
                if self.peek() == "\\":
                    hi = self.escape(True)["rs"][0][0]
                else:
                    hi = ord(self.eat())
                if hi < lo:
                    raise MachineryError("bad range in %r" % self.s)
                rs.append((lo, hi))
            else:
                rs.append((lo, lo))
        return _node("set", neg=neg, ws=ws, rs=rs)


def parse_regex(src):
    p = _P(src)
    n = p.alt()
    if p.i != len(src):
        raise MachineryError("trailing input in regex %r at %d" % (src, p.i))
    return n


def _split_row(line):
    """Split a markdown table row at the first ' | ' that is outside a code span; keep code text raw."""
    m = _pyre.match(r"^`(.*)`\s+\|\s+(`(.*)`|\*no symbol emitted\*)\s*$", line)
    if not m:
        return None
    return m.group(1), m.group(3)


def doc_rows(repo=None):
    """[(pattern_text_as_documented, symbol or None)] in document order."""
    path = os.path.join(repo or REPO, "doc", "grammar.md")
    with open(path, encoding="utf-8") as f:
        lines = f.read().split("\n")
    rows = []
    in_table = False
    for ln in lines:
        if _pyre.match(r"^Pattern\s+\|\s+Symbol\s*$", ln):
            in_table = True
            continue
        if in_table:
            if _pyre.match(r"^-+\s+\|\s+-+\s*$", ln):
                continue
            r = _split_row(ln)
            if r is None:
                in_table = False
                continue
            rows.append(r)
    if len(rows) < 20:
        raise MachineryError("doc/grammar.md: token pattern table not found (%d rows)" % len(rows))
    return rows


def load_table(repo=None):
    """-> {"patterns": [{"re": ast, "sym": str, "emit": bool, "src": str, "lit": bool}]}

    Decoding of a table cell (named decision; the document is a GitHub-flavoured markdown table):
    * symbol in "quotes" (a keyword/operator row): the pattern cell is the token text with every
      non-word character backslash-escaped, i.e. a plain regex in which `\\|` is a literal bar;
    * other rows: `\\|` is the markdown escape of the regex alternation bar (as in `true\\|false`).
    The two readings are told apart by the symbol column only; for quoted rows the decoded pattern is
    additionally required to spell exactly the quoted symbol (otherwise the document is inconsistent
    and this is reported as a machinery problem, not silently repaired).
    """
    pats = []
    for src, sym in doc_rows(repo):
        quoted = sym is not None and len(sym) >= 2 and sym[0] == '"' and sym[-1] == '"'
        if quoted:
            regex_text = src
        else:
            regex_text = src.replace("\\|", "|")
        ast = parse_regex(regex_text)
        if quoted:
            want = sym[1:-1]
            got = _literal_of(ast)
            if got != want:
                raise MachineryError("doc/grammar.md row %r | %r: pattern does not spell the quoted symbol" % (src, sym))
        pats.append({"re": ast, "sym": sym if sym is not None else "", "emit": sym is not None,
                     "src": regex_text, "lit": quoted})
    return {"patterns": pats}


def _literal_of(ast):
    def one(n):
        if n["k"] == "set" and not n["neg"] and not n["ws"] and len(n["rs"]) == 1 and n["rs"][0][0] == n["rs"][0][1]:
            return chr(n["rs"][0][0])
        return None
    if ast["k"] == "cat":
        parts = [one(s) for s in ast["subs"]]
        return None if None in parts else "".join(parts)
    return one(ast)
