"""C++ driver generation for the view checks.

The driver is generated from the abstract program: for every type it has a function that prints the
observation vector of a view in exactly the order spec/view/View.tla's ObsView produces it, and a main()
that executes *jobs*: enumerate buffers depth-first (one `arr` event per buffer), or replay an explicit
behaviour (writes, copies, equality queries, text round trips) produced by TLC.
"""
import json

from . import view_prog as vp

PRELUDE = r'''
#include <cstdint>
#include <cstdio>
#include <cstdlib>
#include <cstring>
#include <string>
#include <vector>
#include <type_traits>
#include "runtime/cpp/emboss_cpp_util.h"
#include "runtime/cpp/emboss_prelude.h"
#include "runtime/cpp/emboss_enum_view.h"
#include "runtime/cpp/emboss_text_util.h"
#include "HEADER"

struct Out {
  FILE *f;
  bool first;
  void ent(const std::string &k, const char *t, long long v) {
    std::fprintf(f, "%s[\"%s\",\"%s\",%lld]", first ? "" : ",", k.c_str(), t, v);
    first = false;
  }
};
template <class M> static int tri(M m) { return m.Known() ? (m.ValueOrDefault() ? 1 : 0) : -1; }
template <class T> static long long num(T x) { return static_cast<long long>(x); }

// Exact-size heap buffer so that ASan sees any access outside [0, n).
struct Buf {
  unsigned char *p; size_t n; size_t cap;
  explicit Buf(size_t cap_) : p(nullptr), n(0), cap(cap_) {}
  ~Buf() { std::free(p); }
  void set(const std::vector<unsigned char> &b) {
    std::free(p); n = b.size(); p = static_cast<unsigned char *>(std::malloc(n ? n : 1));
    if (n) std::memcpy(p, b.data(), n);
  }
};
'''


def _obs_fn_name(tn):
    return "obs_" + tn


def gen_obs_functions(prog):
    """One template function per type, mirroring View!ObsView / ObsField."""
    j = prog.to_json() if isinstance(prog, vp.Program) else prog
    out = []
    for tn in j["order"]:
        out.append("template <class V> static void %s(V v, const std::string &pfx, Out &o);" % _obs_fn_name(tn))
    for tn in j["order"]:
        T = j["types"][tn]
        size_call = "SizeInBytes" if T["unit"] == 8 else "SizeInBits"
        b = []
        b.append("template <class V> static void %s(V v, const std::string &pfx, Out &o) {" % _obs_fn_name(tn))
        b.append('  o.ent(pfx, "vok", v.Ok());')
        b.append('  o.ent(pfx, "vcomplete", v.IsComplete());')
        b.append('  o.ent(pfx, "sizeknown", v.SizeIsKnown());')
        b.append('  if (v.SizeIsKnown()) o.ent(pfx, "size", num(v.%s()));' % size_call)
        unit_name = "Bytes" if T["unit"] == 8 else "Bits"
        b.append('  o.ent(pfx, "minsize", num(v.MinSizeIn%s().Read()));' % unit_name)
        b.append('  o.ent(pfx, "maxsize", num(v.MaxSizeIn%s().Read()));' % unit_name)
        for f in T["fields"]:
            if f["kind"] == "sub" and f.get("anon"):
                continue
            n = f["name"]
            cn = n
            b.append("  {")
            b.append('    const std::string k = pfx + "%s";' % n)
            b.append("    const int h = tri(v.has_%s());" % cn)
            b.append('    o.ent(k, "has", h);')
            b.append('    o.ent(k, "ok", v.%s().Ok());' % cn)
            b.append("    if (h == 1) {")
            if f["kind"] == "scalar":
                b.append('      o.ent(k, "complete", v.%s().IsComplete());' % cn)
                b.append('      if (v.%s().Ok()) o.ent(k, "val", num(v.%s().Read()));' % (cn, cn))
            elif f["kind"] == "virt":
                target = f
                is_value = True
                if f["alias"]:
                    target = resolve_alias(j, tn, f["alias"])
                    is_value = target["kind"] in ("scalar", "virt")
                if is_value:
                    b.append('      if (v.%s().Ok()) o.ent(k, "val", num(v.%s().Read()));' % (cn, cn))
            elif f["kind"] == "sub":
                b.append('      %s(v.%s(), k + ".", o);' % (_obs_fn_name(f["type"]), cn))
            elif f["kind"] == "array":
                b.append('      o.ent(k, "complete", v.%s().IsComplete());' % cn)
                b.append('      o.ent(k, "count", num(v.%s().ElementCount()));' % cn)
                b.append("      if (v.%s().Ok()) {" % cn)
                b.append("        for (size_t i = 0; i < v.%s().ElementCount(); ++i) {" % cn)
                if f["elem"]["kind"] == "scalar":
                    b.append('          o.ent(k + "[" + std::to_string(i) + "]", "elem", num(v.%s()[i].Read()));' % cn)
                else:
                    b.append('          %s(v.%s()[i], k + "[" + std::to_string(i) + "].", o);' % (_obs_fn_name(f["elem"]["type"]), cn))
                b.append("        }")
                b.append("      }")
            b.append("    }")
            b.append("  }")
        b.append("}")
        out.append("\n".join(b))
    return "\n".join(out)


def resolve_alias(j, tn, path):
    T = j["types"][tn]
    f = next(x for x in T["fields"] if x["name"] == path[0])
    if len(path) == 1:
        if f["kind"] == "virt" and f["alias"]:
            return resolve_alias(j, tn, f["alias"])
        return f
    if f["kind"] == "virt" and f["alias"]:
        return resolve_alias(j, tn, f["alias"] + path[1:])
    return resolve_alias(j, f["type"], path[1:])


def ns_of(prog):
    j = prog.to_json() if isinstance(prog, vp.Program) else prog
    return "vt::" + j["name"].lower()


def make_view_expr(j, tn, params, ptr, size):
    T = j["types"][tn]
    args = ["static_cast<%s>(%s)" % (_cpp_int(p), v) for p, v in zip(T["params"], params)]
    return "%s::Make%sView(%s)" % (ns_of(j), tn, ", ".join(args + [ptr, size]))


def _cpp_int(p):
    for b in (8, 16, 32, 64):
        if p["bits"] <= b:
            return "::std::%sint%d_t" % ("" if p["signed"] else "u", b)


def gen_enum_driver(prog, header, jobs):
    """jobs: list of {"id", "t", "ps", "alphabet": [bytes], "maxlen": int|None, "budget": int}.

    For each job the driver walks all byte strings over `alphabet` depth-first up to length
    min(MaxSizeInBytes + 2, maxlen) -- exhaustively for the first Ls positions, then one chain per string up to the
    full length; alphabet and Ls shrink until the tree fits `budget` -- and prints one
    JSON object per job on its own line:  {"id":..,"t":..,"ps":[..],"ev":[{"e":"arr","n":..,"b":..,"o":[..]},..]}
    """
    j = prog.to_json() if isinstance(prog, vp.Program) else prog
    src = [PRELUDE.replace("HEADER", header), gen_obs_functions(j)]
    src.append(r'''
static unsigned long long tree_size(size_t a, size_t L) { unsigned long long s = 1, p = 1; for (size_t i = 0; i < L; ++i) { p *= a; s += p; if (s > (1ull<<40)) break; } return s; }
''')
    for job in jobs:
        tn = job["t"]
        src.append("static void job_%d(FILE *f) {" % job["id"])
        src.append("  std::vector<unsigned char> alpha = {%s};" % ", ".join(str(b) for b in job["alphabet"]))
        src.append("  size_t L = static_cast<size_t>(%s::%s::MaxSizeInBytes()) + 2;" % (ns_of(j), tn))
        if job.get("maxlen") is not None:
            src.append("  if (L > %d) L = %d;" % (job["maxlen"], job["maxlen"]))
        # all strings over the alphabet for the first Ls positions (half of the budget); every stride-th of them is then
        # continued by a single chain (fill byte alpha[0]) up to the full length L (other half), so that complete and
        # oversized buffers of long structures are reached as well
        src.append("  size_t Ls = L;")
        src.append("  while (tree_size(alpha.size(), Ls) > %dull) { if (alpha.size() > 2) alpha.pop_back(); else --Ls; }" % max(1, job["budget"] // 2))
        src.append("  unsigned long long leaves = 1; for (size_t i = 0; i < Ls && leaves < (1ull<<40); ++i) leaves *= alpha.size();")
        src.append("  unsigned long long stride = L > Ls ? (leaves * (L - Ls) + %dull - 1) / %dull : 1; if (stride == 0) stride = 1;" % (max(1, job["budget"] // 2), max(1, job["budget"] // 2)))
        src.append("  unsigned long long leafno = 0; bool chain = false;")
        src.append('  std::fprintf(f, "{\\"id\\":%d,\\"t\\":\\"%s\\",\\"ps\\":%s,\\"ev\\":[");' % (job["id"], tn, json.dumps(job["ps"])))
        src.append("  std::vector<unsigned char> cur; std::vector<size_t> idx; bool firstev = true; Buf buf(L);")
        src.append("  // depth-first: visit cur, then children")
        src.append("  long parent_len = -1; unsigned char lastb = 0;")
        src.append("  for (;;) {")
        src.append("    buf.set(cur);")
        src.append("    { auto v = %s;" % make_view_expr(j, tn, job["ps"], "buf.p", "buf.n"))
        src.append('      std::fprintf(f, "%s{\\"e\\":\\"arr\\",\\"n\\":%ld,\\"b\\":%d,\\"o\\":[", firstev ? "" : ",", parent_len, (int)lastb);')
        src.append("      Out o{f, true}; %s(v, \"\", o); std::fprintf(f, \"]}\"); firstev = false; }" % _obs_fn_name(tn))
        src.append("    if (cur.size() == Ls) chain = (leafno++ % stride == 0);")
        src.append("    if (cur.size() < Ls || (cur.size() < L && chain)) { idx.push_back(0); parent_len = (long)cur.size(); lastb = alpha[0]; cur.push_back(alpha[0]); continue; }")
        src.append("    // backtrack")
        src.append("    for (;;) {")
        src.append("      if (idx.empty()) goto done;")
        src.append("      size_t &ix = idx.back();")
        src.append("      if (ix + 1 < (cur.size() - 1 < Ls ? alpha.size() : 1)) { ++ix; cur.back() = alpha[ix]; parent_len = (long)cur.size() - 1; lastb = alpha[ix]; break; }")
        src.append("      idx.pop_back(); cur.pop_back();")
        src.append("    }")
        src.append("  }")
        src.append("  done:")
        src.append('  std::fprintf(f, "]}\\n");')
        src.append("}")
    src.append("int main(int argc, char **argv) {")
    src.append('  FILE *f = argc > 1 ? std::fopen(argv[1], "w") : stdout;')
    src.append("  if (!f) return 3;")
    for job in jobs:
        src.append("  job_%d(f);" % job["id"])
    src.append("  std::fclose(f);")
    src.append("  return 0;")
    src.append("}")
    return "\n".join(src)


# ------------------------------------------------------------------------------------------------
# Replay driver: executes behaviours (mem / wr / eq / cp commands) and records what the views did.
# ------------------------------------------------------------------------------------------------

def write_targets(prog, tn, depth=2):
    """Writable paths of struct tn: [{"path": [...], "st", "w", "extra": [...], "cast": "int"|"flag"|"enum"|"virt"}]."""
    j = prog.to_json() if isinstance(prog, vp.Program) else prog
    out = []

    def consts(e, acc):
        if isinstance(e, dict):
            if e.get("k") in ("int", "enum"):
                acc.append(e["v"])
            for v in e.values():
                consts(v, acc)
        elif isinstance(e, list):
            for v in e:
                consts(v, acc)

    def walk(t, prefix, d):
        T = j["types"][t]
        for f in T["fields"]:
            if f["kind"] == "scalar":
                ex = []
                consts(f.get("requires", []), ex)
                extra = sorted({v + k for v in ex for k in (-1, 0, 1)})
                cast = "flag" if f["st"] == "Flag" else ("enum" if f["st"].startswith("Enum") else "int")
                out.append({"path": prefix + [f["name"]], "st": f["st"], "w": f["w"], "extra": extra, "cast": cast})
            elif f["kind"] == "virt":
                if f["alias"]:
                    tgt = resolve_alias(j, t, f["alias"])
                    if tgt["kind"] == "scalar":
                        ex = []
                        consts(tgt.get("requires", []), ex)
                        cast = "flag" if tgt["st"] == "Flag" else ("enum" if tgt["st"].startswith("Enum") else "int")
                        out.append({"path": prefix + [f["name"]], "st": tgt["st"], "w": tgt["w"], "cast": cast,
                                    "extra": sorted({v + k for v in ex for k in (-1, 0, 1)})})
                elif f.get("xform"):
                    x = f["xform"][0]
                    tgt = resolve_alias(j, t, x["dest"])
                    if tgt["kind"] != "scalar":
                        continue
                    lo, hi = (-(1 << (tgt["w"] - 1)), (1 << (tgt["w"] - 1)) - 1) if tgt["st"] in ("Int", "EnumS") else (0, (1 << tgt["w"]) - 1)
                    ex = []
                    consts(f.get("requires", []), ex)
                    c = x["c"]
                    if x["op"] == "y+c":
                        edge = [lo + c - 1, lo + c, hi + c, hi + c + 1, c]
                    elif x["op"] == "y-c":
                        edge = [lo - c - 1, lo - c, hi - c, hi - c + 1, -c]
                    elif x["op"] == "expr":
                        e0, e1 = x["edges"][0], x["edges"][-1]
                        edge = [e0 - 1, e0, e0 + 1, e1 - 1, e1, e1 + 1, (e0 + e1) // 2]
                    else:
                        edge = [c - hi - 1, c - hi, c - lo, c - lo + 1, c]
                    out.append({"path": prefix + [f["name"]], "st": "Int", "w": min(24, tgt["w"] + 2), "cast": "virt",
                                "extra": sorted(set(edge + [v + k for v in ex for k in (-1, 0, 1)]))})
            elif f["kind"] == "sub" and d > 0 and not f.get("anon"):
                walk(f["type"], prefix + [f["name"]], d - 1)
    walk(tn, [], depth)
    return out


# (multiline, comments, base, digit grouping): the option sets doc/text-format.md / cpp-reference.md document as re-readable
TEXT_OPTS = [(0, 0, 10, 0), (0, 0, 16, 0), (0, 0, 2, 1), (0, 0, 10, 1), (1, 0, 10, 0), (1, 0, 16, 1), (1, 1, 10, 0), (1, 1, 16, 0), (1, 1, 2, 1), (1, 1, 10, 1)]


def gen_replay_driver(prog, header, structs, with_equals=True):
    """structs: [{"t": name, "targets": write_targets(...)}]; struct index in the command file = position."""
    j = prog.to_json() if isinstance(prog, vp.Program) else prog
    ns = ns_of(j)
    src = [PRELUDE.replace("HEADER", header), gen_obs_functions(j)]
    src.append(r'''
struct Reader {
  FILE *f; char tok[64];
  bool next() { return std::fscanf(f, "%63s", tok) == 1; }
  long long num() { long long v = 0; if (std::fscanf(f, "%lld", &v) != 1) std::exit(4); return v; }
};
static ::emboss::TextOutputOptions text_opt(int k) {
  // k = 1.. : see harness/view_driver.TEXT_OPTS
  static const int tbl[][4] = {TEXT_OPTS_TABLE};
  ::emboss::TextOutputOptions o;
  if (tbl[k - 1][0]) o = ::emboss::MultilineText();
  return o.WithComments(tbl[k - 1][1] != 0).WithNumericBase(static_cast<std::uint8_t>(tbl[k - 1][2])).WithDigitGrouping(tbl[k - 1][3] != 0);
}
static void print_chars(FILE *f, const std::string &s) {
  std::fputc('[', f); for (size_t i = 0; i < s.size(); ++i) std::fprintf(f, "%s%d", i ? "," : "", (int)(unsigned char)s[i]); std::fputc(']', f);
}
static void print_bytes(FILE *f, const unsigned char *p, size_t n) {
  std::fputc('[', f); for (size_t i = 0; i < n; ++i) std::fprintf(f, "%s%d", i ? "," : "", (int)p[i]); std::fputc(']', f);
}
'''.replace("TEXT_OPTS_TABLE", ", ".join("{%d,%d,%d,%d}" % o for o in TEXT_OPTS)))
    for si, S in enumerate(structs):
        tn = S["t"]
        T = j["types"][tn]
        # writer
        src.append("template <class V> static void write_%d(V v, int wid, long long x, int &could, int &tried) {" % si)
        src.append("  switch (wid) {")
        for k, tg in enumerate(S["targets"]):
            acc = "v" + "".join(".%s()" % p for p in tg["path"])
            if tg["cast"] == "flag":
                val = "(x != 0)"
            elif tg["cast"] == "enum":
                val = "static_cast<decltype(fv.Read())>(x)"
            else:
                val = "x"
            src.append("    case %d: { auto fv = %s; could = fv.CouldWriteValue(%s); tried = fv.TryToWrite(%s); break; }" % (k, acc, val, val))
        src.append("    default: std::exit(5);")
        src.append("  }")
        src.append("}")
        paths = "{" + ", ".join('"%s"' % json.dumps(tg["path"]).replace('"', '\\"') for tg in S["targets"]) + "}"
        npar = len(T["params"])
        pargs = "".join("static_cast<%s>(ps[%d]), " % (_cpp_int(p), i) for i, p in enumerate(T["params"]))
        src.append("static void trace_%d(Reader &in, FILE *f, const std::vector<long long> &ps, bool &have_tok) {" % si)
        src.append("  static const char *paths[] = %s;" % (paths if S["targets"] else '{""}'))
        src.append("  unsigned char *mem = nullptr; size_t n = 0; size_t wo[3] = {0,0,0}, wl[3] = {0,0,0}; bool firstev = true;")
        src.append('  std::fprintf(f, "{\\"t\\":\\"%s\\",\\"ps\\":[");' % tn)
        src.append('  for (size_t i = 0; i < ps.size(); ++i) std::fprintf(f, "%s%lld", i ? "," : "", ps[i]);')
        src.append('  std::fprintf(f, "],\\"ev\\":[");')
        src.append("  while ((have_tok = in.next())) {")
        src.append("    const char c = in.tok[0];")
        src.append("    if (c == 'T') break;")
        src.append('    std::fprintf(f, "%s", firstev ? "" : ","); firstev = false;')
        src.append("    #define VIEW(k) %s::Make%sView(%smem + wo[k], wl[k])" % (ns, tn, pargs))
        src.append("    if (c == 'M') {")
        src.append("      std::free(mem); n = (size_t)in.num(); mem = static_cast<unsigned char *>(std::malloc(n ? n : 1));")
        src.append("      for (size_t i = 0; i < n; ++i) mem[i] = (unsigned char)in.num();")
        src.append("      wo[1] = in.num(); wl[1] = in.num(); wo[2] = in.num(); wl[2] = in.num();")
        src.append('      std::fprintf(f, "{\\"e\\":\\"mem\\",\\"bytes\\":"); print_bytes(f, mem, n);')
        src.append('      std::fprintf(f, ",\\"a\\":[%zu,%zu],\\"b\\":[%zu,%zu],\\"o\\":[", wo[1], wl[1], wo[2], wl[2]);')
        src.append('      { Out o{f, true}; %s(VIEW(1), "", o); } std::fprintf(f, "]}");' % _obs_fn_name(tn))
        src.append("    } else if (c == 'W') {")
        src.append("      int win = (int)in.num(); int wid = (int)in.num(); long long x = in.num(); int could = 0, tried = 0;")
        src.append("      write_%d(VIEW(win), wid, x, could, tried);" % si)
        src.append('      std::fprintf(f, "{\\"e\\":\\"wr\\",\\"win\\":%d,\\"path\\":%s,\\"x\\":%lld,\\"could\\":%d,\\"tried\\":%d,\\"after\\":", win, paths[wid], x, could, tried);')
        src.append('      print_bytes(f, mem, n); std::fprintf(f, ",\\"o\\":[");')
        src.append('      { Out o{f, true}; %s(VIEW(win), "", o); } std::fprintf(f, "]}");' % _obs_fn_name(tn))
        src.append("    } else if (c == 'E') {")
        src.append("      auto va = VIEW(1); auto vb = VIEW(2); int skipped = !(va.Ok() && vb.Ok()); int ab = 0, ba = 0;")
        if with_equals:
            src.append("      if (!skipped) { ab = va.Equals(vb); ba = vb.Equals(va); }")
        else:
            src.append("      skipped = 2;  // Equals does not compile for this structure")
        src.append('      std::fprintf(f, "{\\"e\\":\\"eq\\",\\"skipped\\":%d,\\"ab\\":%d,\\"ba\\":%d}", skipped, ab, ba);')
        src.append("    } else if (c == 'Q') {")
        src.append("      // Equals against every single-bit variant of window 2, on exact-size copies of both windows")
        src.append("      unsigned char *pa = static_cast<unsigned char *>(std::malloc(wl[1] ? wl[1] : 1)); unsigned char *pb = static_cast<unsigned char *>(std::malloc(wl[2] ? wl[2] : 1));")
        src.append("      if (wl[1]) std::memcpy(pa, mem + wo[1], wl[1]); if (wl[2]) std::memcpy(pb, mem + wo[2], wl[2]);")
        src.append("      auto va = %s::Make%sView(%spa, wl[1]);" % (ns, tn, pargs))
        src.append('      std::fprintf(f, "{\\"e\\":\\"eqs\\",\\"skipped\\":%d,\\"res\\":[", ' + ("0" if with_equals else "2") + ");")
        if with_equals:
            src.append("      for (size_t i = 0; i < 8 * wl[2]; ++i) {")
            src.append("        pb[i / 8] ^= static_cast<unsigned char>(1u << (i % 8));")
            src.append("        auto vb = %s::Make%sView(%spb, wl[2]); int r = 2;" % (ns, tn, pargs))
            src.append("        if (va.Ok() && vb.Ok()) { int ab = va.Equals(vb), ba = vb.Equals(va); r = (ab == ba) ? ab : 3; }")
            src.append('        std::fprintf(f, "%s%d", i ? "," : "", r);')
            src.append("        pb[i / 8] ^= static_cast<unsigned char>(1u << (i % 8));")
            src.append("      }")
        src.append('      std::fprintf(f, "]}"); std::free(pa); std::free(pb);')
        src.append("    } else if (c == 'C') {")
        src.append("      int dst = (int)in.num();")
        src.append("      { // the same call on exact-size allocations of their own first (the sanitizers see every byte outside either window)")
        src.append("        size_t ls = wl[3 - dst], ld = wl[dst];")
        src.append("        unsigned char *qs = static_cast<unsigned char *>(std::malloc(ls ? ls : 1)); unsigned char *qd = static_cast<unsigned char *>(std::malloc(ld ? ld : 1));")
        src.append("        if (ls) std::memcpy(qs, mem + wo[3 - dst], ls); if (ld) std::memcpy(qd, mem + wo[dst], ld);")
        src.append("        auto vs = %s::Make%sView(%sqs, ls); auto vd = %s::Make%sView(%sqd, ld);" % (ns, tn, pargs, ns, tn, pargs))
        src.append("        (void)vd.TryToCopyFrom(vs); std::free(qs); std::free(qd); }")
        src.append("      int ok = VIEW(dst).TryToCopyFrom(VIEW(3 - dst));")
        src.append('      std::fprintf(f, "{\\"e\\":\\"cp\\",\\"dst\\":%d,\\"ok\\":%d,\\"after\\":", dst, ok); print_bytes(f, mem, n);')
        src.append('      std::fprintf(f, ",\\"o\\":["); { Out o{f, true}; %s(VIEW(dst), "", o); } std::fprintf(f, "]}");' % _obs_fn_name(tn))
        src.append("    } else if (c == 'X') {")
        src.append("      int oi = (int)in.num(); auto va = VIEW(1); int skipped = !va.Ok(); std::string s; int upd = 0;")
        src.append("      unsigned char *z = static_cast<unsigned char *>(std::calloc(wl[1] ? wl[1] : 1, 1));")
        src.append("      if (!skipped) { s = ::emboss::WriteToString(va, text_opt(oi)); auto vz = %s::Make%sView(%sz, wl[1]); upd = ::emboss::UpdateFromText(vz, s); }" % (ns, tn, pargs))
        src.append('      std::fprintf(f, "{\\"e\\":\\"text\\",\\"opt\\":%d,\\"skipped\\":%d,\\"upd\\":%d,\\"text\\":", oi, skipped, upd); print_chars(f, s);')
        src.append('      std::fprintf(f, ",\\"z\\":"); print_bytes(f, z, wl[1]); std::fprintf(f, "}"); std::free(z);')
        src.append("    } else { std::exit(6); }")
        src.append("    #undef VIEW")
        src.append("  }")
        src.append('  std::fprintf(f, "]}\\n"); std::free(mem);')
        src.append("}")
    src.append("int main(int argc, char **argv) {")
    src.append('  if (argc < 3) return 2; Reader in; in.f = std::fopen(argv[1], "r"); FILE *f = std::fopen(argv[2], "w"); if (!in.f || !f) return 3;')
    src.append("  bool have = in.next();")
    src.append("  while (have) {")
    src.append("    if (in.tok[0] != 'T') return 7;")
    src.append("    int si = (int)in.num(); int np = (int)in.num(); std::vector<long long> ps; for (int i = 0; i < np; ++i) ps.push_back(in.num());")
    src.append("    switch (si) {")
    for si in range(len(structs)):
        src.append("      case %d: trace_%d(in, f, ps, have); break;" % (si, si))
    src.append("      default: return 8;")
    src.append("    }")
    src.append("  }")
    src.append("  std::fclose(f); return 0;")
    src.append("}")
    return "\n".join(src)
