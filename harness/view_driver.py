"""C++ driver generation for the view checks.

The driver is generated from the abstract program: for every type it has a function that prints the
observation vector of a view in exactly the order spec/view/View.tla's ObsView produces it, and a main()
that executes *jobs*: enumerate buffers depth-first (one `arr` event per buffer), or replay an explicit
behaviour (writes, copies, equality queries, text round trips) produced by TLC.
"""
import json

from . import view_prog as vp

PRELUDE = r'''
#include <cstdint>
#include <cstdio>
#include <cstdlib>
#include <cstring>
#include <string>
#include <vector>
#include <type_traits>
#include "runtime/cpp/emboss_cpp_util.h"
#include "runtime/cpp/emboss_prelude.h"
#include "runtime/cpp/emboss_enum_view.h"
#include "runtime/cpp/emboss_text_util.h"
#include "HEADER"

struct Out {
  FILE *f;
  bool first;
  void ent(const std::string &k, const char *t, long long v) {
    std::fprintf(f, "%s[\"%s\",\"%s\",%lld]", first ? "" : ",", k.c_str(), t, v);
    first = false;
  }
};
template <class M> static int tri(M m) { return m.Known() ? (m.ValueOrDefault() ? 1 : 0) : -1; }
template <class T> static long long num(T x) { return static_cast<long long>(x); }

// Exact-size heap buffer so that ASan sees any access outside [0, n).
struct Buf {
  unsigned char *p; size_t n; size_t cap;
  explicit Buf(size_t cap_) : p(nullptr), n(0), cap(cap_) {}
  ~Buf() { std::free(p); }
  void set(const std::vector<unsigned char> &b) {
    std::free(p); n = b.size(); p = static_cast<unsigned char *>(std::malloc(n ? n : 1));
    if (n) std::memcpy(p, b.data(), n);
  }
};
'''


def _obs_fn_name(tn):
    return "obs_" + tn


def gen_obs_functions(prog):
    """One template function per type, mirroring View!ObsView / ObsField."""
    j = prog.to_json() if isinstance(prog, vp.Program) else prog
    out = []
    for tn in j["order"]:
        out.append("template <class V> static void %s(V v, const std::string &pfx, Out &o);" % _obs_fn_name(tn))
    for tn in j["order"]:
        T = j["types"][tn]
        size_call = "SizeInBytes" if T["unit"] == 8 else "SizeInBits"
        b = []
        b.append("template <class V> static void %s(V v, const std::string &pfx, Out &o) {" % _obs_fn_name(tn))
        b.append('  o.ent(pfx, "vok", v.Ok());')
        b.append('  o.ent(pfx, "vcomplete", v.IsComplete());')
        b.append('  o.ent(pfx, "sizeknown", v.SizeIsKnown());')
        b.append('  if (v.SizeIsKnown()) o.ent(pfx, "size", num(v.%s()));' % size_call)
        for f in T["fields"]:
            if f["kind"] == "sub" and f.get("anon"):
                continue
            n = f["name"]
            cn = n
            b.append("  {")
            b.append('    const std::string k = pfx + "%s";' % n)
            b.append("    const int h = tri(v.has_%s());" % cn)
            b.append('    o.ent(k, "has", h);')
            b.append('    o.ent(k, "ok", v.%s().Ok());' % cn)
            b.append("    if (h == 1) {")
            if f["kind"] == "scalar":
                b.append('      o.ent(k, "complete", v.%s().IsComplete());' % cn)
                b.append('      if (v.%s().Ok()) o.ent(k, "val", num(v.%s().Read()));' % (cn, cn))
            elif f["kind"] == "virt":
                target = f
                is_value = True
                if f["alias"]:
                    target = resolve_alias(j, tn, f["alias"])
                    is_value = target["kind"] in ("scalar", "virt")
                if is_value:
                    b.append('      if (v.%s().Ok()) o.ent(k, "val", num(v.%s().Read()));' % (cn, cn))
            elif f["kind"] == "sub":
                b.append('      %s(v.%s(), k + ".", o);' % (_obs_fn_name(f["type"]), cn))
            elif f["kind"] == "array":
                b.append('      o.ent(k, "complete", v.%s().IsComplete());' % cn)
                b.append('      o.ent(k, "count", num(v.%s().ElementCount()));' % cn)
                b.append("      if (v.%s().Ok()) {" % cn)
                b.append("        for (size_t i = 0; i < v.%s().ElementCount(); ++i) {" % cn)
                if f["elem"]["kind"] == "scalar":
                    b.append('          o.ent(k + "[" + std::to_string(i) + "]", "elem", num(v.%s()[i].Read()));' % cn)
                else:
                    b.append('          %s(v.%s()[i], k + "[" + std::to_string(i) + "].", o);' % (_obs_fn_name(f["elem"]["type"]), cn))
                b.append("        }")
                b.append("      }")
            b.append("    }")
            b.append("  }")
        b.append("}")
        out.append("\n".join(b))
    return "\n".join(out)


def resolve_alias(j, tn, path):
    T = j["types"][tn]
    f = next(x for x in T["fields"] if x["name"] == path[0])
    if len(path) == 1:
        if f["kind"] == "virt" and f["alias"]:
            return resolve_alias(j, tn, f["alias"])
        return f
    if f["kind"] == "virt" and f["alias"]:
        return resolve_alias(j, tn, f["alias"] + path[1:])
    return resolve_alias(j, f["type"], path[1:])


def ns_of(prog):
    j = prog.to_json() if isinstance(prog, vp.Program) else prog
    return "vt::" + j["name"].lower()


def make_view_expr(j, tn, params, ptr, size):
    T = j["types"][tn]
    args = ["static_cast<%s>(%s)" % (_cpp_int(p), v) for p, v in zip(T["params"], params)]
    return "%s::Make%sView(%s)" % (ns_of(j), tn, ", ".join(args + [ptr, size]))


def _cpp_int(p):
    for b in (8, 16, 32, 64):
        if p["bits"] <= b:
            return "::std::%sint%d_t" % ("" if p["signed"] else "u", b)


def gen_enum_driver(prog, header, jobs):
    """jobs: list of {"id", "t", "ps", "alphabet": [bytes], "maxlen": int|None, "budget": int}.

    For each job the driver walks all byte strings over `alphabet` depth-first up to length
    min(MaxSizeInBytes + 2, maxlen), shrinking the alphabet until the tree fits `budget`, and prints one
    JSON object per job on its own line:  {"id":..,"t":..,"ps":[..],"ev":[{"e":"arr","n":..,"b":..,"o":[..]},..]}
    """
    j = prog.to_json() if isinstance(prog, vp.Program) else prog
    src = [PRELUDE.replace("HEADER", header), gen_obs_functions(j)]
    src.append(r'''
static unsigned long long tree_size(size_t a, size_t L) { unsigned long long s = 1, p = 1; for (size_t i = 0; i < L; ++i) { p *= a; s += p; if (s > (1ull<<40)) break; } return s; }
''')
    for job in jobs:
        tn = job["t"]
        src.append("static void job_%d(FILE *f) {" % job["id"])
        src.append("  std::vector<unsigned char> alpha = {%s};" % ", ".join(str(b) for b in job["alphabet"]))
        src.append("  size_t L = static_cast<size_t>(%s::%s::MaxSizeInBytes()) + 2;" % (ns_of(j), tn))
        if job.get("maxlen") is not None:
            src.append("  if (L > %d) L = %d;" % (job["maxlen"], job["maxlen"]))
        src.append("  while (tree_size(alpha.size(), L) > %dull) { if (alpha.size() > 2) alpha.pop_back(); else --L; }" % job["budget"])
        src.append('  std::fprintf(f, "{\\"id\\":%d,\\"t\\":\\"%s\\",\\"ps\\":%s,\\"ev\\":[");' % (job["id"], tn, json.dumps(job["ps"])))
        src.append("  std::vector<unsigned char> cur; std::vector<size_t> idx; bool firstev = true; Buf buf(L);")
        src.append("  // depth-first: visit cur, then children")
        src.append("  long parent_len = -1; unsigned char lastb = 0;")
        src.append("  for (;;) {")
        src.append("    buf.set(cur);")
        src.append("    { auto v = %s;" % make_view_expr(j, tn, job["ps"], "buf.p", "buf.n"))
        src.append('      std::fprintf(f, "%s{\\"e\\":\\"arr\\",\\"n\\":%ld,\\"b\\":%d,\\"o\\":[", firstev ? "" : ",", parent_len, (int)lastb);')
        src.append("      Out o{f, true}; %s(v, \"\", o); std::fprintf(f, \"]}\"); firstev = false; }" % _obs_fn_name(tn))
        src.append("    if (cur.size() < L) { idx.push_back(0); parent_len = (long)cur.size(); lastb = alpha[0]; cur.push_back(alpha[0]); continue; }")
        src.append("    // backtrack")
        src.append("    for (;;) {")
        src.append("      if (idx.empty()) goto done;")
        src.append("      size_t &ix = idx.back();")
        src.append("      if (ix + 1 < alpha.size()) { ++ix; cur.back() = alpha[ix]; parent_len = (long)cur.size() - 1; lastb = alpha[ix]; break; }")
        src.append("      idx.pop_back(); cur.pop_back();")
        src.append("    }")
        src.append("  }")
        src.append("  done:")
        src.append('  std::fprintf(f, "]}\\n");')
        src.append("}")
    src.append("int main(int argc, char **argv) {")
    src.append('  FILE *f = argc > 1 ? std::fopen(argv[1], "w") : stdout;')
    src.append("  if (!f) return 3;")
    for job in jobs:
        src.append("  job_%d(f);" % job["id"])
    src.append("  std::fclose(f);")
    src.append("  return 0;")
    src.append("}")
    return "\n".join(src)
