"""C05: compile rendered cases with the REAL front end in a pool of forked workers.

The parent imports the compiler once (4-5 s, from harness.common.REPO's working tree) and forks;
each worker compiles in-process (about 35 ms per module) and transcribes the IR (bounds_ir).
"""
import multiprocessing
import traceback

from . import bounds_render
from .common import MachineryError, NCPU

_DEFS = None


def _one(case):
    from . import emb, bounds_ir
    text = bounds_render.render(case, _DEFS)
    rec = {"id": case["id"], "fam": case["fam"], "vars": case["vars"], "e": case["e"], "ty": case["ty"],
           "pos": case["pos"], "src": case.get("src", ""), "status": "accepted", "trees": [], "skipped": [], "errors": [], "emb": text,
           "nodes": 0}
    try:
        ir, _dbg, errors = emb.front_end({"m.emb": text}, "m.emb")
    except Exception as ex:  # the compiler raised: recorded, judged by the spec
        rec["status"] = "exception"
        rec["errors"] = ["%s: %s" % (type(ex).__name__, ex), traceback.format_exc()[-1500:]]
        return rec
    if errors:
        rec["status"] = "rejected"
        rec["errors"] = [[m["msg"] for m in g] for g in emb.flat_errors(errors)]
        return rec
    w = bounds_ir.Walker(ir, case["fam"])
    try:
        rec["trees"], rec["skipped"] = w.struct_trees()
    except bounds_ir.Unsupported as u:
        raise MachineryError("cannot transcribe IR of case %s: %s\n%s" % (case["id"], u, text))
    rec["nodes"] = w.nodes
    return rec


def compile_cases(cases, defs, nproc=None):
    """cases: list of case dicts (with "id").  Returns records in the same order."""
    global _DEFS
    _DEFS = defs
    from . import emb
    emb._mods()  # import the compiler before forking
    nproc = max(1, min(nproc or NCPU, len(cases)))
    if nproc == 1:
        return [_one(c) for c in cases]
    ctx = multiprocessing.get_context("fork")
    with ctx.Pool(nproc) as pool:
        return pool.map(_one, cases, chunksize=max(1, len(cases) // (nproc * 8)))
