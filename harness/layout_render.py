"""C14: abstract layout program (JSON printed by spec/layout/LayoutGen.tla) -> .emb text.

Only concrete syntax lives here.  Returns the text and, for the module attribute block (index 0)
and every type index i, the line span of the TOP-LEVEL definition that contains type i, so that
TLC can decide whether an error points into the right definition.

Also: the reserved-word list, read from the documentation (doc/grammar.md) of the repo under test
and classified by the name shapes of doc/language-reference.md ("Names").
"""
import os
import re

from .common import REPO


def value_text(v):
    n = int("".join(str(b) for b in v["mag"]), 2) if v["mag"] else 0
    return ("-%d" % n) if (v["neg"] and n) else str(n)


def attr_text(a):
    if a["vk"] == "str":
        val = '"%s"' % a["s"]
    elif a["vk"] == "int":
        val = str(a["n"])
    elif a["vk"] == "bool":
        val = "true" if a["n"] else "false"
    else:
        val = a["s"]
    return "[%s%s%s: %s]" % ("(%s) " % a["back"] if a["back"] else "", "$default " if a["dflt"] else "", a["name"], val)


def _dyn(x):
    return "n" if x < 0 else str(x)


class _R:
    def __init__(self, prog):
        self.p = prog
        self.types = prog["types"]
        self.lines = []
        self.by_name = {t["name"]: i for i, t in enumerate(self.types)}

    def add(self, ind, text):
        self.lines.append("  " * ind + text)

    def type_ref(self, user_idx, name):
        """How type `name` is written inside type user_idx."""
        j = self.by_name.get(name)
        if j is None:
            return name
        u = self.types[j]
        if u["parent"] == 0 or u["parent"] - 1 == user_idx:
            return name
        return "%s.%s" % (self.types[u["parent"] - 1]["name"], name)

    def field(self, ti, f, ind):
        t = self.types[ti]
        j = self.by_name.get(f["ty"])
        if f["k"] == "virt":
            self.add(ind, "let %s = n + 1" % f["name"])
        elif j is not None and self.types[j]["anon"]:
            self.add(ind, "%s [+%s]  bits:" % (_dyn(f["start"]), _dyn(f["size"])))
            for a in f["attrs"]:
                self.add(ind + 1, attr_text(a))
            for g in self.types[j]["fields"]:
                self.field(j, g, ind + 1)
            return
        else:
            ty = self.type_ref(ti, f["ty"])
            if f["w"] != 0:
                ty += ":%d" % (0 if f["w"] == -1 else f["w"])
            for d in f["dims"]:
                ty += "[]" if d == -1 else "[n]" if d == -2 else "[%d]" % d
            self.add(ind, "%s [+%s]  %s  %s" % (_dyn(f["start"]), _dyn(f["size"]), ty, f["name"]))
        for a in f["attrs"]:
            self.add(ind + 1, attr_text(a))

    def typedef(self, ti, ind):
        t = self.types[ti]
        self.add(ind, "%s %s:" % (t["k"], t["name"]))
        for a in t["attrs"]:
            self.add(ind + 1, attr_text(a))
        if t["k"] == "enum":
            for v in t["values"]:
                self.add(ind + 1, "%s = %s" % (v["name"], value_text(v)))
                for a in v["attrs"]:
                    self.add(ind + 2, attr_text(a))
            return
        for j, u in enumerate(self.types):          # nested definitions come before fields
            if u["parent"] - 1 == ti and not u["anon"]:
                self.typedef(j, ind + 1)
        for f in t["fields"]:
            self.field(ti, f, ind + 1)


SIBLING = ["struct SiblingScope:", '  [$default byte_order: "BigEndian"]',
           "  0 [+2]  UInt  sibling_field", "  2 [+2]  bits:", "    0 [+9]  UInt  sibling_bits"]


def render(prog):
    """Returns (text, spans) with spans[0] = module attribute lines, spans[i] = lines of the
    top-level definition containing type i (1-based type indices), each [l1, l2] ([0, 0] if absent)."""
    r = _R(prog)
    for a in prog["mattrs"]:
        r.add(0, attr_text(a))
    spans = [[1, len(r.lines)] if r.lines else [0, 0]] + [[0, 0] for _ in r.types]
    # Concrete context the abstract program knows nothing about: a sibling structure with `$default`s scoped to
    # ITSELF comes first.  "Defaults are inherited through (enclosing) scopes": a sibling's defaults reach nobody.
    for line in SIBLING:
        r.add(0, line)
    top_span = {}
    for i, t in enumerate(r.types):
        if t["parent"] == 0 and not t["anon"]:
            l1 = len(r.lines) + 1
            r.typedef(i, 0)
            top_span[i] = [l1, len(r.lines)]
    for i, t in enumerate(r.types):
        j = i
        while r.types[j]["parent"] != 0:
            j = r.types[j]["parent"] - 1
        spans[i + 1] = top_span.get(j, [0, 0])
    return "\n".join(r.lines) + "\n", spans


# ---------------------------------------------------------------------------------------------

SNAKE = re.compile(r"[a-z][a-z_0-9]*\Z")
SHOUTY = re.compile(r"[A-Z][A-Z_0-9]*[A-Z_][A-Z_0-9]*\Z")
CAMEL = re.compile(r"[A-Z][a-zA-Z0-9]*[a-z][a-zA-Z0-9]*\Z")


def reserved_words():
    """The reserved words the documentation lists (doc/grammar.md, "The following N keywords are
    reserved"), classified by the documented name shapes.  {"snake": [...], "camel": [...],
    "shouty": [...], "all": [...]}"""
    text = open(os.path.join(REPO, "doc", "grammar.md")).read()
    m = re.search(r"The following (\d+) keywords are\s+reserved.*?\n\n(.*)\Z", text, re.S)
    if not m:
        raise ValueError("reserved word list not found in doc/grammar.md")
    words = re.findall(r"`([^`]+)`", m.group(2))
    out = {"snake": [], "camel": [], "shouty": [], "all": sorted(set(words)), "declared": int(m.group(1))}
    for w in out["all"]:
        if SNAKE.match(w):
            out["snake"].append(w)
        elif SHOUTY.match(w):
            out["shouty"].append(w)
        elif CAMEL.match(w):
            out["camel"].append(w)
    return out
