"""C09 - the shipped parser tables are the parser of the documented grammar.

TLC decides, exhaustively:
  * LRBisim: the shipped tables (generated/cached_parser.py) and a parser generated NOW from
    module_ir.PRODUCTIONS + error_examples are bisimilar (all reachable state pairs, every symbol);
  * GrammarEq: productions(shipped) = module_ir.PRODUCTIONS + {S' -> start} = productions of
    doc/grammar.md; token pattern table of doc/grammar.md = the tokenizer's; what parser.py loads
    is the shipped table set with an empty mismatch report.
Python exports the real objects as JSON and reads TLC's verdicts.

Parts (for --only): facts, bisim-module, bisim-expression, renumber, control, sentences (thorough).
"""
import json
import os
import random

from .common import Scratch, MachineryError, dump_json, run_parallel
from . import grammar_tables as gt
from .grammar_tlc import tlc, trace_states, untla_str

LEVEL = "model_checking"

BISIM_INVARIANTS = ["InRange", "MatchKind", "MatchReduce", "MatchErrorCode", "MatchDefaultError",
                    "MatchGotoDomain", "MatchExpected"]
EQ_INVARIANTS = ["ShippedModuleGrammarIsSourceGrammar", "ShippedExpressionGrammarIsSourceGrammar",
                 "SourceGrammarIsDocumentedGrammar", "TokenTableIsDocumented",
                 "LoadedModuleParserIsShipped", "LoadedExpressionParserIsShipped"]


def _gather(chk, sc):
    """Import the real front end from REPO and write down what it contains."""
    from compiler.front_end.generated import cached_parser
    from compiler.front_end import make_parser, module_ir, parser, lr1

    real = {}
    real["cached_module"] = cached_parser.module_parser()
    real["cached_expr"] = cached_parser.expression_parser()
    fresh_errors = {}
    for name, build in (("fresh_module", make_parser.build_module_parser),
                        ("fresh_expr", make_parser.build_expression_parser)):
        try:
            real[name] = build()
        except make_parser.ParserGenerationError as e:       # the source grammar has no parser
            real[name] = None
            fresh_errors[name] = str(e)[:1500]
    # What embossc loads.  (If the production sets differ parser.py regenerates on the fly, which
    # can itself fail; that is the same verdict as a failing fresh generation.)
    mm_mod = mm_expr = (set(), set())
    try:
        real["loaded_module"] = parser.module_parser()
        mm_mod = parser.module_parser_cache_mismatch()
    except make_parser.ParserGenerationError as e:
        real["loaded_module"] = None
        fresh_errors["loaded_module"] = str(e)[:1500]
    try:
        real["loaded_expr"] = parser._load_expression_parser().parser
        mm_expr = parser._load_expression_parser().cache_mismatch
    except make_parser.ParserGenerationError as e:
        real["loaded_expr"] = None
        fresh_errors["loaded_expr"] = str(e)[:1500]

    tables = {k: (gt.export_parser(v) if v is not None else None) for k, v in real.items()}
    doc_prods, doc_rows = gt.read_grammar_md()
    if not doc_prods or not doc_rows:
        raise MachineryError("could not read productions / token table from doc/grammar.md")
    facts = {
        "ir_prods": [gt.prod_json(p) for p in module_ir.PRODUCTIONS],
        "ir_start": module_ir.START_SYMBOL,
        "ir_expr_start": module_ir.EXPRESSION_START_SYMBOL,
        "cached_module_prods": [gt.prod_json(p) for p in real["cached_module"].productions],
        "cached_expr_prods": [gt.prod_json(p) for p in real["cached_expr"].productions],
        "doc_prods": doc_prods,
        "doc_tokens": [[gt.canon_pattern(p), s] for p, s in doc_rows],
        "tokenizer_tokens": [[gt.canon_pattern(p), s] for p, s in gt.tokenizer_rows()],
        "cached_module_digest": gt.digest(tables["cached_module"]),
        "loaded_module_digest": gt.digest(tables["loaded_module"]) if tables["loaded_module"] else "not loadable",
        "cached_expr_digest": gt.digest(tables["cached_expr"]),
        "loaded_expr_digest": gt.digest(tables["loaded_expr"]) if tables["loaded_expr"] else "not loadable",
        "loaded_module_mismatch": [sorted(gt.prod_json(p) for p in mm_mod[0]), sorted(gt.prod_json(p) for p in mm_mod[1])],
        "loaded_expr_mismatch": [sorted(gt.prod_json(p) for p in mm_expr[0]), sorted(gt.prod_json(p) for p in mm_expr[1])],
    }
    return real, tables, facts, fresh_errors


def _bisim(sc, tag, a_path, b_path, workers, coverage):
    cap = int(os.environ.get("VERIF_PROCS") or 0)
    if cap and cap < 12:
        workers = min(cap, 4)
    return tlc(sc, "LRBisim", tag, invariants=BISIM_INVARIANTS, env={"TABLES_A": a_path, "TABLES_B": b_path},
               workers=workers, coverage=coverage, timeout=900)


def _describe_bisim(res, ta, tb):
    """Human description of the first mismatching pair TLC found (diagnostic only)."""
    st = trace_states(res.out)
    path = [untla_str(s.get("via", "")) for s in st][1:]
    last = st[-1] if st else {}
    try:
        p, q = int(last.get("p", "-1")), int(last.get("q", "-1"))
    except ValueError:
        p = q = -1
    diff = {}
    if 0 <= p < len(ta["states"]) and 0 <= q < len(tb["states"]):
        ra, rb = ta["states"][p], tb["states"][q]

        def show(t, row, x):
            a = row["a"].get(x)
            if a is None:
                return {"implicit error": row["d"]}
            if a["k"] == "r":
                return {"reduce": t["prods"][a["v"] - 1]}
            return {{"s": "shift", "a": "accept", "e": "error"}[a["k"]]: a["v"]}
        for x in sorted(set(ra["a"]) | set(rb["a"])):
            if show(ta, ra, x) != show(tb, rb, x) and not (
                    ra["a"].get(x, {}).get("k") == "s" and rb["a"].get(x, {}).get("k") == "s"):
                diff[x] = {"shipped": show(ta, ra, x), "fresh": show(tb, rb, x)}
        if ra["d"] != rb["d"]:
            diff["<default error>"] = {"shipped": ra["d"], "fresh": rb["d"]}
        if set(ra["g"]) != set(rb["g"]):
            diff["<goto symbols>"] = {"shipped": sorted(set(ra["g"]) - set(rb["g"])), "fresh": sorted(set(rb["g"]) - set(ra["g"]))}
    return {"invariants": res.invariant_violated, "symbols_from_start_state": path,
            "shipped_state": p, "fresh_state": q, "row_difference": dict(list(diff.items())[:8])}


def _permute_states(tables, seed):
    n = len(tables["states"])
    perm = list(range(1, n))
    random.Random(seed).shuffle(perm)
    ren = {0: 0}
    for i, s in enumerate(perm):
        ren[i + 1] = s
    out = [None] * n
    for s, row in enumerate(tables["states"]):
        a = {x: ({"k": "s", "v": ren[v["v"]]} if v["k"] == "s" else v) for x, v in row["a"].items()}
        g = {x: ren[t] for x, t in row["g"].items()}
        out[ren[s]] = {"a": a, "g": g, "d": row["d"]}
    prods = _renumber_prods(tables, out)
    return {"prods": prods, "states": out}


def _renumber_prods(tables, states):
    """Also reverse the production numbering (production numbers must not matter either)."""
    n = len(tables["prods"])
    for row in states:
        for x, v in list(row["a"].items()):
            if v["k"] == "r":
                row["a"][x] = {"k": "r", "v": n + 1 - v["v"]}
    return list(reversed(tables["prods"]))


def run(chk, only=None):
    want = lambda part: only is None or part in only
    thorough = chk.tier == "thorough"
    with Scratch("c09") as sc:
        real, tables, facts, fresh_errors = _gather(chk, sc)
        paths = {}
        for k, t in tables.items():
            if t is not None and not k.startswith("loaded"):
                paths[k] = sc.file(k + ".json")
                dump_json(paths[k], t)
        facts_path = sc.file("facts.json")
        dump_json(facts_path, facts)

        for name, msg in fresh_errors.items():
            chk.violation("fresh-generation-fails:" + name,
                          "make_parser could not generate a parser from the grammar in the source "
                          "(so the shipped tables cannot be its parser): " + msg, {"error": msg})

        jobs = []
        labels = []

        def add(label, fn):
            labels.append(label)
            jobs.append(fn)

        if want("facts"):
            add("facts", lambda: tlc(sc, "GrammarEq", "facts", invariants=["Inv_" + i for i in EQ_INVARIANTS],
                                     env={"FACTS_FILE": facts_path}, workers=1, extra=["-continue"], timeout=300))
        if want("bisim-module") and tables["fresh_module"] is not None:
            add("bisim-module", lambda: _bisim(sc, "module", paths["cached_module"], paths["fresh_module"], 6, True))
        if want("bisim-expression") and tables["fresh_expr"] is not None:
            add("bisim-expression", lambda: _bisim(sc, "expr", paths["cached_expr"], paths["fresh_expr"], 3, True))
        if want("renumber") and tables["fresh_expr"] is not None:
            ren = _permute_states(tables["fresh_expr"], chk.seed + 1)
            paths["renumbered"] = sc.file("fresh_expr_renumbered.json")
            dump_json(paths["renumbered"], ren)
            add("renumber", lambda: _bisim(sc, "renumber", paths["fresh_expr"], paths["renumbered"], 2, False))
        if want("control") and tables["fresh_expr"] is not None:
            bad = json.loads(json.dumps(tables["fresh_expr"]))
            bad["states"][-1]["d"] = ["verif-negative-control"]
            paths["control"] = sc.file("fresh_expr_corrupted.json")
            dump_json(paths["control"], bad)
            add("control", lambda: _bisim(sc, "control", paths["fresh_expr"], paths["control"], 2, False))

        cap = int(os.environ.get("VERIF_PROCS") or 0)
        results = dict(zip(labels, run_parallel(jobs, nproc=5 if not cap or cap >= 12 else 1)))

        # ---- verdicts (all taken from TLC's output) ------------------------------------------
        if "facts" in results:
            res = results["facts"]
            chk.add_tlc(res, part="grammar-equalities")
            diffs = (res.printed_json() or [{}])[0]
            chk.extra["grammar_facts"] = {k: v for k, v in diffs.items() if k.startswith("n_")}
            chk.extra["terminals_not_in_documented_token_table"] = diffs.get("undocumented_terminals", [])
            chk.evaluations += len(EQ_INVARIANTS)
            for inv in sorted(set(i[4:] for i in res.invariant_violated)):
                chk.violation("grammar-eq:" + inv,
                              "%s is false.  Differences computed by TLC: %s" % (
                                  inv, json.dumps({k: v for k, v in diffs.items() if not k.startswith("n_") and v}, sort_keys=True)[:1500]),
                              {"invariant": inv, "diffs": diffs,
                               "loaded_module_mismatch": facts["loaded_module_mismatch"],
                               "loaded_expr_mismatch": facts["loaded_expr_mismatch"]})
            if not res.invariant_violated and not res.clean:
                raise MachineryError("GrammarEq did not complete:\n" + res.error_trace_tail())
        for label, a, b in (("bisim-module", "cached_module", "fresh_module"), ("bisim-expression", "cached_expr", "fresh_expr")):
            if label not in results:
                continue
            res = results[label]
            chk.add_tlc(res, part=label)
            chk.evaluations += res.generated
            chk.nontrivial_count += res.distinct
            if res.invariant_violated:
                d = _describe_bisim(res, tables[a], tables[b])
                chk.violation("%s:%s" % (label, res.invariant_violated[0]),
                              "shipped %s tables and a freshly generated parser differ (%s) after the symbols %s: %s" % (
                                  a, ",".join(res.invariant_violated), " ".join(d["symbols_from_start_state"]) or "<start state>",
                                  json.dumps(d["row_difference"], sort_keys=True)[:1200]), d)
            elif not res.clean:
                raise MachineryError("LRBisim did not complete:\n" + res.error_trace_tail())
            else:
                n_fresh = len(tables[b]["states"])
                chk.extra[label] = {"reachable_pairs": res.distinct, "shipped_states": len(tables[a]["states"]),
                                    "fresh_states": n_fresh, "transitions": res.generated}
                if res.distinct < n_fresh:
                    chk.extra[label]["note"] = "fewer pairs than states: some table states are unreachable"
        if "renumber" in results:
            res = results["renumber"]
            chk.add_tlc(res, part="selftest-renumbered-states")
            if not res.clean:
                raise MachineryError("LRBisim is sensitive to state/production numbering (self-test failed):\n" + res.error_trace_tail())
            chk.extra["selftest_renumbered"] = "fresh expression parser vs the same tables with states permuted and productions renumbered: bisimilar (%d pairs)" % res.distinct
        if "control" in results:
            res = results["control"]
            if "MatchDefaultError" in res.invariant_violated:
                chk.extra["selftest_negative_control"] = "corrupting the default error of the highest-numbered state is detected (MatchDefaultError)"
            elif chk.violations:
                # the tables under test already differ from the shipped ones (reported above): the control, which corrupts a copy
                # of them, says nothing in that situation and must not turn the verdict into a machinery failure
                chk.extra["selftest_negative_control"] = "not evaluated: the real tables already fail the bisimulation"
            else:
                raise MachineryError("negative control (default error of the last state altered) was not detected by LRBisim")

        if thorough and want("sentences") and real["fresh_module"] is not None:
            _sentence_crosscheck(chk, sc, real)

        chk.exhaustive = True
        chk.rule = ("all state pairs reachable from (0,0) by following every shift and goto of both table sets in "
                    "lock-step; at each pair every terminal mentioned by either row is compared (kind, reduce production, "
                    "error code), plus default error, goto domain, expected set; every pair is a distinct non-trivial case")
        for s in ({"pair": "(0,0)", "parser": "module", "symbols_compared": len(tables["cached_module"]["states"][0]["a"])},
                  {"shipped_module_states": len(tables["cached_module"]["states"]),
                   "explicit_error_entries": sum(1 for r in tables["cached_module"]["states"] for v in r["a"].values() if v["k"] == "e"),
                   "default_errors": sum(1 for r in tables["cached_module"]["states"] if r["d"])},
                  {"doc_productions": len(facts["doc_prods"]), "doc_token_rows": len(facts["doc_tokens"])}):
            chk.sample(s)
        chk.assumptions += [
            "both parsers are driven by the same lr1.Parser.parse driver (C08 checks that driver against LRTables!StepCfg)",
            "tokens carry only their symbol into parser decisions (Parser.parse looks at token.symbol only)",
            "Markdown table cells cannot hold a bare '|': '\\|' and '|' are identified when comparing token pattern text",
            "the fresh parser is built by make_parser.build_module_parser()/build_expression_parser() from the working tree (module_ir.PRODUCTIONS, error_examples)",
        ]


def _sentence_crosscheck(chk, sc, real):
    """V cross-check (thorough): sentences / mutants of the real grammar (SentenceGen.tla) parsed by the
    shipped and by the fresh module parser; the two recorded outcomes are compared by TLC (ParsePairs.tla)."""
    from . import grammar_gen
    from . import grammar_cases as gc
    cap = int(os.environ.get("VERIF_PROCS") or 0)
    gen = grammar_gen.generate(chk.seed + 17, 700, 60, scratch=sc, mutants=2, procs=min(cap or 6, 6),
                               add_tlc=lambda r: chk.add_tlc(r, part="sentencegen"))
    recs = []
    for i, c in enumerate(gen):
        o = [gc.parse_outcome(real[key], c["w"]) for key in ("cached_module", "fresh_module")]
        recs.append({"id": i, "w": c["w"], "a": o[0], "b": o[1]})
    path = sc.file("pairs.json")
    dump_json(path, recs)
    res = tlc(sc, "ParsePairs", "pairs", invariants=["Checked"], env={"CASES_FILE": path}, workers=1, timeout=1800)
    chk.add_tlc(res, part="sentence-crosscheck")
    printed = [r for r in res.printed_json() if isinstance(r, dict)]
    bad = [r for r in printed if r.get("clause")]
    done = [r for r in printed if "checked" in r]
    if not res.clean or not done or done[-1]["checked"] != len(recs):
        raise MachineryError("ParsePairs did not consume all cases:\n" + res.error_trace_tail())
    chk.traces += len(recs)
    for r in bad[:5]:
        chk.violation("sentence-crosscheck:" + r["clause"],
                      "shipped and freshly generated module parser disagree (%s) on the token sequence: %s" % (
                          r["clause"], " ".join(recs[r["id"]]["w"])),
                      {"case": recs[r["id"]], "tlc": r})
    chk.extra["sentence_crosscheck"] = {"cases": len(recs), "accepted_by_shipped": sum(1 for r in recs if r["a"]["ok"]),
                                        "with_error_code": sum(1 for r in recs if r["a"]["code"])}


def replay(chk, path):
    run(chk)
