"""C19 plumbing: TLC-generated enum definitions -> .emb -> REAL compiler -> header -> C++ driver.

Python here renders (definitions to .emb text, probe lists to C++), runs the real code and records
what it did.  What is *expected* is computed only by spec/enum/EnumCheck.tla.
"""
import json
import os
import subprocess

from . import cpp
from .common import SPEC, MachineryError, run_parallel, run_tlc
from .scalar_rt import max_procs

ENUM_DIR = os.path.join(SPEC, "enum")

# decimal rendering of the landmark ids used by spec/enum/EnumSem.tla (LandmarkNames, same order)
LANDMARKS = [-2**63, -2**31 - 1, -2**31, -129, -128, -1, 0, 1, 127, 128, 255, 256, 2**31 - 1, 2**31,
             2**32 - 1, 2**32, 2**63 - 1, 2**63, 2**64 - 1]


def generate(scratch_dir, n_random, seed, drive_matrix_every, fields_every=1):
    """Run EnumGen.tla; returns (cases, summary, TLCResult)."""
    res = run_tlc(os.path.join(ENUM_DIR, "EnumGen.tla"), os.path.join(ENUM_DIR, "EnumGen.cfg"), workers=1,
                  env={"GEN_N": n_random, "GEN_SEED": seed % 1000, "GEN_DRIVE_MATRIX_EVERY": drive_matrix_every,
                       "GEN_FIELDS_EVERY": fields_every},
                  timeout=1800, heap="2g", metadir=os.path.join(scratch_dir, "meta-enumgen"))
    if not res.clean:
        raise MachineryError("EnumGen failed:\n" + res.error_trace_tail(60))
    cases, summary = [], None
    for obj in res.printed_json():
        if isinstance(obj, dict) and obj.get("summary"):
            summary = obj
        elif isinstance(obj, dict) and "def" in obj:
            cases.append(obj)
    if summary is None or summary["emitted"] != len(cases):
        raise MachineryError("EnumGen output incomplete: summary=%s cases=%d" % (summary, len(cases)))
    return cases, summary, res


def name_of(chars):
    return "".join(chars)


def _case_attr(cases):
    return '"%s"' % ", ".join(cases)


def render_enum(case, type_name):
    """Returns the lines of one enum definition."""
    e = case["def"]
    lines = ["enum %s:" % type_name]
    if e["maxBitsAttr"]:
        lines.append("  [maximum_bits: %d]" % e["maxBitsAttr"])
    if e["signedAttr"] != "none":
        lines.append("  [is_signed: %s]" % e["signedAttr"])
    if e["enumCases"]:
        lines.append("  [(cpp) $default enum_case: %s]" % _case_attr(e["enumCases"]))
    for v in e["vals"]:
        line = "  %s = %d" % (name_of(v["n"]), LANDMARKS[v["v"] - 1])
        if v["cases"]:
            line += "  [(cpp) enum_case: %s]" % _case_attr(v["cases"])
        lines.append(line)
    lines.append("")
    return lines


def render_module(ns, module_cases, cases, with_holders):
    """One module with the given enums.  Returns (text, {case id: (first line, last line)})."""
    lines = ['[(cpp) namespace: "%s"]' % ns]
    if module_cases:
        lines.append("[(cpp) $default enum_case: %s]" % _case_attr(module_cases))
    lines.append("")
    spans = {}
    for c in cases:
        tn = "En%d" % c["id"]
        start = len(lines) + 1
        lines += render_enum(c, tn)
        spans[c["id"]] = (start, len(lines))
        if with_holders and c["widths"]:
            lines.append("bits Fields%s:" % tn)
            for wi, w in enumerate(c["widths"]):
                lines.append("  0 [+%d]  %s  f%d" % (w, tn, wi))
            lines.append("  63 [+1]  Flag  anchor")
            lines.append("")
            # ... and every width once more in the tightest byte-sized container (the carrier integer type of the field view
            # then ranges over uint8/16/32/64, not only uint64)
            for wi, w in enumerate(c["widths"]):
                cw = 8 * ((w + 7) // 8)
                lines.append("bits Tight%sx%d:" % (tn, wi))
                lines.append("  0 [+%d]  %s  f" % (w, tn))
                if w < cw:
                    lines.append("  %d [+1]  Flag  anchor" % (cw - 1))
                lines.append("")
            lines.append("struct Holder%s:" % tn)
            lines.append("  0 [+8]  Fields%s  f" % tn)
            lines.append('    [byte_order: "LittleEndian"]')
            off = 8
            for wi, w in enumerate(c["widths"]):
                nb = (w + 7) // 8
                lines.append("  %d [+%d]  Tight%sx%d  t%d" % (off, nb, tn, wi, wi))
                if nb > 1:
                    lines.append('    [byte_order: "%s"]' % ("LittleEndian" if wi % 2 == 0 else "BigEndian"))
                off += nb
            lines.append("")
    return "\n".join(lines) + "\n", spans


def _compile_job(item):
    """Worker: compile one module with the REAL compiler; returns (key, header, error lines, exception)."""
    from . import emb
    key, text = item
    name = "%s.emb" % key
    try:
        header, ir, errors = emb.compile_header({name: text}, name)
    except Exception as ex:  # the compiler crashed
        return key, None, [], "%s: %s" % (type(ex).__name__, ex)
    err_lines = []
    for group in emb.flat_errors(errors):
        for m in group:
            if m["sev"].lower().endswith("error"):
                err_lines.append((m["l1"], m["msg"]))
    return key, header, err_lines, None


def compile_many(texts, nproc=8):
    import multiprocessing
    from . import emb
    emb._mods()
    items = sorted(texts.items())
    if not items:
        return {}
    ctx = multiprocessing.get_context("fork")
    with ctx.Pool(min(nproc, len(items), max_procs())) as pool:
        res = pool.map(_compile_job, items, chunksize=1)
    return {key: (header, errs, exc) for key, header, errs, exc in res}


def module_key(cases_list):
    return "+".join(cases_list) if cases_list else "none"


def decide_acceptance(cases, scratch_dir):
    """Compile every emitted enum (grouped by module-level enum_case) and record, per enum,
    whether the compiler reported an error inside its lines / crashed.  Returns {id: dict}."""
    groups = {}
    for c in cases:
        groups.setdefault(module_key(c["def"]["moduleCases"]), []).append(c)
    texts, spans_of = {}, {}
    for gi, (key, cs) in enumerate(sorted(groups.items())):
        text, spans = render_module("enumgen::a%d" % gi, cs[0]["def"]["moduleCases"], cs, False)
        texts["a%d" % gi] = text
        spans_of["a%d" % gi] = (cs, spans)
    results = compile_many(texts)
    verdict = {}
    retry = {}
    for key, (header, errs, exc) in results.items():
        cs, spans = spans_of[key]
        if exc is not None:
            # isolate: compile each enum of the crashing module on its own
            for c in cs:
                text, _ = render_module("enumgen::solo", c["def"]["moduleCases"], [c], False)
                retry["solo%d" % c["id"]] = text
            continue
        for c in cs:
            lo, hi = spans[c["id"]]
            mine = [m for (l, m) in errs if l is not None and lo <= l <= hi]
            verdict[c["id"]] = dict(accepted=0 if mine else 1, crashed=0, errors=mine[:2])
        stray = [(l, m) for (l, m) in errs if l is None or not any(lo <= l <= hi for lo, hi in spans.values())]
        if stray:
            raise MachineryError("compiler error outside any generated enum: %s\n%s" % (stray[:3], texts[key][:800]))
    if retry:
        by_id = {c["id"]: c for c in cases}
        for key, (header, errs, exc) in compile_many(retry).items():
            cid = int(key[4:])
            verdict[cid] = dict(accepted=0 if (errs or exc) else 1, crashed=1 if exc else 0,
                                errors=[exc] if exc else [m for _, m in errs][:2])
    for c in cases:
        if c["id"] not in verdict:
            raise MachineryError("no verdict for enum %d" % c["id"])
    return verdict


# ------------------------------------------------------------------------------------------------
# C++ driver
# ------------------------------------------------------------------------------------------------

DRIVER_PRELUDE = r'''
// ---- generated by harness/enum_gen.py ----
#include <cstdint>
#include <cstdio>
#include <cstring>
#include <sstream>
#include <string>
#include <type_traits>

static int g_chk = 0;
#define EMBOSS_CHECK(x) ((x) ? (void)0 : (void)(++g_chk))
#define EMBOSS_CHECK_ABORTS false
#define EMBOSS_DCHECK(x) ((x) ? (void)0 : (void)(++g_chk))
#define EMBOSS_DCHECK_ABORTS false

#include "%(header)s"

namespace drv {
template <class E>
static ::std::uint64_t image(E v) {
  using U = typename ::std::underlying_type<E>::type;
  return ::std::is_signed<U>::value ? (::std::uint64_t)(::std::int64_t)static_cast<U>(v)
                                    : (::std::uint64_t)static_cast<U>(v);
}
static void put_image(::std::uint64_t x) {
  printf("[");
  for (int i = 0; i < 8; ++i) printf(i ? ",%%u" : "%%u", (unsigned)((x >> (8 * i)) & 0xff));
  printf("]");
}
static void put_string(const char *s) {
  putchar('"');
  for (const unsigned char *p = (const unsigned char *)s; *p; ++p) {
    if (*p == '"' || *p == '\\' || *p < 0x20 || *p > 0x7e) printf("\\u%%04x", (unsigned)*p);
    else putchar(*p);
  }
  putchar('"');
}
}  // namespace drv

// Is IDENT an enumerator of T?  (SFINAE: a missing enumerator must not break the build.)
#define PROBE_IDENT(TAG, IDENT)                                                                       \
  template <class T, class = void> struct has_##TAG : ::std::false_type {};                           \
  template <class T> struct has_##TAG<T, decltype((void)T::IDENT)> : ::std::true_type {};             \
  template <class T>                                                                                  \
  static typename ::std::enable_if<has_##TAG<T>::value, bool>::type get_##TAG(::std::uint64_t *out) { \
    *out = drv::image(T::IDENT);                                                                      \
    return true;                                                                                      \
  }                                                                                                   \
  template <class T>                                                                                  \
  static typename ::std::enable_if<!has_##TAG<T>::value, bool>::type get_##TAG(::std::uint64_t *) {   \
    return false;                                                                                     \
  }
'''


def cpp_literal(v):
    if v < 0:
        return "(%dLL - 1)" % (v + 1)
    return "%dULL" % v


def cpp_string(chars):
    out = []
    for ch in chars:
        if ch in ('"', "\\"):
            out.append("\\" + ch)
        else:
            out.append(ch)
    return '"' + "".join(out) + '"'


def driver_source(header_name, ns, cases):
    src = [DRIVER_PRELUDE % {"header": header_name}, "namespace gm = %s;" % ns]
    for c in cases:
        tn = "En%d" % c["id"]
        for k, ident in enumerate(c["idents"]):
            src.append("PROBE_IDENT(%s_%d, %s)" % (tn, k, name_of(ident)))
        src.append("static void run_%s() {" % tn)
        src.append("  using E = gm::%s; using U = ::std::underlying_type<E>::type;" % tn)
        src.append('  printf("{\\"id\\":%d,\\"ubits\\":%%d,\\"usigned\\":%%d,\\"idents\\":[", (int)sizeof(U) * 8, ::std::is_signed<U>::value ? 1 : 0);' % c["id"])
        for k, ident in enumerate(c["idents"]):
            src.append("  { ::std::uint64_t v = 0; bool p = get_%s_%d<E>(&v); printf(\"%s{\\\"present\\\":%%d,\\\"v\\\":\", p ? 1 : 0); drv::put_image(v); printf(\"}\"); }" % (tn, k, "," if k else ""))
        src.append('  printf("],\\"names\\":[");')
        for k, s in enumerate(c["names"]):
            src.append("  { E r = static_cast<E>(static_cast<U>(1)); bool f = gm::TryToGetEnumFromName(%s, &r); printf(\"%s{\\\"found\\\":%%d,\\\"v\\\":\", f ? 1 : 0); drv::put_image(drv::image(r)); printf(\"}\"); }" % (cpp_string(s), "," if k else ""))
        src.append('  printf("],\\"values\\":[");')
        for k, val in enumerate(c["values"]):
            lit = cpp_literal(LANDMARKS[val["lm"] - 1] + val["d"])
            src.append("  { E e = static_cast<E>(static_cast<U>(%s)); const char *n = gm::TryToGetNameFromEnum(e); ::std::ostringstream os; os << e;" % lit)
            src.append("    printf(\"%s{\\\"hasName\\\":%%d,\\\"name\\\":\", n ? 1 : 0); drv::put_string(n ? n : \"\"); printf(\",\\\"known\\\":%%d,\\\"os\\\":\", gm::EnumIsKnown(e) ? 1 : 0); drv::put_string(os.str().c_str()); printf(\"}\"); }" % ("," if k else ""))
        src.append('  printf("],\\"fields\\":[");')
        first = True
        total = 8 + sum((w + 7) // 8 for w in c["widths"])
        for wi, w in enumerate(c["widths"]):
          for acc in ("f().f%d()" % wi, "t%d().f()" % wi):
            for k, val in enumerate(c["values"]):
                lit = cpp_literal(LANDMARKS[val["lm"] - 1] + val["d"])
                src.append("  { alignas(8) unsigned char buf[%d] = {0}; auto view = gm::MakeHolder%sView(buf, sizeof buf); auto f = view.%s;" % (total, tn, acc))
                src.append("    E e = static_cast<E>(static_cast<U>(%s)); g_chk = 0; bool could = f.CouldWriteValue(e); bool tried = f.TryToWrite(e); bool ok = f.Ok();" % lit)
                src.append("    printf(\"%s{\\\"w\\\":%d,\\\"vi\\\":%d,\\\"could\\\":%%d,\\\"tried\\\":%%d,\\\"ok\\\":%%d,\\\"chk\\\":%%d,\\\"v\\\":\", could ? 1 : 0, tried ? 1 : 0, ok ? 1 : 0, g_chk); drv::put_image(ok ? drv::image(f.Read()) : 0); printf(\"}\"); }" % ("" if first else ",", w, k))
                first = False
        src.append('  printf("]}\\n");')
        src.append("}")
    src.append("int main() {")
    for c in cases:
        src.append("  run_En%d();" % c["id"])
    src.append("  return 0;\n}")
    return "\n".join(src) + "\n"


def drive(cases, verdict, scratch_dir, per_tu=45):
    """Build module B_k (+ holders) for the enums TLC wants driven and the compiler accepted;
    returns ({id: observation dict}, info)."""
    todo = [c for c in cases if c["drive"] and verdict[c["id"]]["accepted"] and not verdict[c["id"]]["crashed"]]
    groups = {}
    for c in todo:
        groups.setdefault(module_key(c["def"]["moduleCases"]), []).append(c)
    batches = []
    for key, cs in sorted(groups.items()):
        for i in range(0, len(cs), per_tu):
            batches.append(cs[i:i + per_tu])
    texts = {}
    for bi, cs in enumerate(batches):
        text, _ = render_module("enumgen::b%d" % bi, cs[0]["def"]["moduleCases"], cs, True)
        texts["b%d" % bi] = text
    compiled = compile_many(texts)
    jobs = []
    for bi, cs in enumerate(batches):
        header, errs, exc = compiled["b%d" % bi]
        if exc or errs or header is None:
            raise MachineryError("module with accepted enums and holder structs was rejected: %s %s\n%s" % (
                exc, errs[:3], texts["b%d" % bi][:1500]))
        hp = os.path.join(scratch_dir, "b%d.emb.h" % bi)
        with open(hp, "w") as f:
            f.write(header)
        with open(os.path.join(scratch_dir, "b%d.emb" % bi), "w") as f:
            f.write(texts["b%d" % bi])
        cc = os.path.join(scratch_dir, "enum_b%d.cc" % bi)
        with open(cc, "w") as f:
            f.write(driver_source("b%d.emb.h" % bi, "enumgen::b%d" % bi, cs))
        jobs.append((cc, cs))

    def job(cc):
        exe = cc[:-3]
        rc, out = cpp.build(cc, exe, includes=[scratch_dir], opt="-O0", timeout=3000)
        if rc != 0:
            return None, out
        rc, so, se = cpp.run(exe, timeout=600)
        if rc != 0:
            return None, "driver exited with %d: %s" % (rc, se[-1500:])
        return so, None

    outs = run_parallel([lambda cc=cc: job(cc) for cc, _ in jobs], nproc=max_procs())
    obs, build_failures = {}, []
    for (cc, cs), (so, err) in zip(jobs, outs):
        if so is None:
            build_failures.append((cc, [c["id"] for c in cs], err))
            continue
        for line in so.splitlines():
            if line.strip():
                o = json.loads(line)
                obs[o["id"]] = o
    return obs, dict(driven=len(todo), translation_units=len(jobs), build_failures=build_failures, texts=texts)


def chars(s):
    return list(s)


def make_records(cases, verdict, obs):
    """Join TLC's definitions/probes with what the implementation did (format conversion only)."""
    recs = []
    for c in cases:
        v = verdict[c["id"]]
        r = dict(id=c["id"], accepted=v["accepted"], crashed=v["crashed"], hasObs=0, ubits=0, usigned=0,
                 idents=[], names=[], values=[], fields=[])
        r["def"] = c["def"]
        o = obs.get(c["id"])
        if o is not None:
            r["hasObs"] = 1
            r["ubits"], r["usigned"] = o["ubits"], o["usigned"]
            r["idents"] = [dict(id=ident, present=x["present"], v=x["v"]) for ident, x in zip(c["idents"], o["idents"])]
            r["names"] = [dict(s=s, found=x["found"], v=x["v"]) for s, x in zip(c["names"], o["names"])]
            r["values"] = [dict(val=val, hasName=x["hasName"], name=chars(x["name"]), known=x["known"], os=chars(x["os"]))
                           for val, x in zip(c["values"], o["values"])]
            r["fields"] = [dict(w=x["w"], val=c["values"][x["vi"]], could=x["could"], tried=x["tried"], ok=x["ok"],
                                chk=x["chk"], v=x["v"]) for x in o["fields"]]
            if (len(r["idents"]), len(r["names"]), len(r["values"])) != (len(c["idents"]), len(c["names"]), len(c["values"])):
                raise MachineryError("driver output for enum %d is incomplete" % c["id"])
        recs.append(r)
    return recs


def check(records, scratch_dir, nparts):
    """Run EnumCheck.tla over the records (sharded).  Returns (results, mismatches, summaries)."""
    nparts = max(1, min(nparts, (len(records) + 99) // 100))
    k = (len(records) + nparts - 1) // nparts
    files = []
    for i in range(nparts):
        part = records[i * k:(i + 1) * k]
        if not part:
            continue
        p = os.path.join(scratch_dir, "enumrec_%02d.ndjson" % i)
        with open(p, "w") as f:
            for r in part:
                f.write(json.dumps(r, separators=(",", ":")) + "\n")
        files.append(p)

    def job(i, p):
        return run_tlc(os.path.join(ENUM_DIR, "EnumCheck.tla"), os.path.join(ENUM_DIR, "EnumCheck.cfg"), workers=1,
                       env={"CASES_FILE": p}, timeout=3000, heap="2g",
                       metadir=os.path.join(scratch_dir, "meta-enumcheck-%d" % i))

    results = run_parallel([lambda i=i, p=p: job(i, p) for i, p in enumerate(files)], nproc=max_procs())
    mism, summ = [], []
    for p, res in zip(files, results):
        if not res.clean:
            raise MachineryError("EnumCheck did not complete on %s:\n%s" % (p, res.error_trace_tail(60)))
        got = False
        for obj in res.printed_json():
            if isinstance(obj, dict) and obj.get("summary"):
                summ.append(obj)
                got = True
            elif isinstance(obj, dict) and "clause" in obj:
                mism.append(obj)
        if not got:
            raise MachineryError("EnumCheck printed no summary for %s" % p)
    return results, mism, summ
