"""C15 -- dependency cycles are always rejected; field order respects dependencies.

spec/deps/Deps.tla        reference graph (DependsOn), HasCycle by transitive closure, SCCs, StableTopo
spec/deps/DepsOrder(MC)   the greedy ordering loop as a state machine, checked from EVERY digraph
spec/deps/DepsGen.tla     TLC enumerates / samples dependency graphs and decorates them into cases
spec/deps/DepsCheck.tla   TLC decides every recorded compile against Deps

parts: mc, struct, static, mods, selftest   (./check C15 --only struct,mc)
"""
import json
import multiprocessing
import os
import random
import sys
import time

from . import deps_render as R
from .common import (NCPU, SPEC, MachineryError, Scratch, chunks, run_parallel, run_tlc, write_cfg)

LEVEL = "model_checking"
AREA = os.path.join(SPEC, "deps")
BATCH = 32
NPROC = int(os.environ.get("VERIF_NPROC", "0")) or max(2, min(8, NCPU // 2))   # concurrent processes


# ------------------------------------------------------------------------------------------------
# design-level model checking
# ------------------------------------------------------------------------------------------------

def _mc(chk, sc):
    invs = ["TypeOK", "NeededSorted", "PrefixRespects", "ScannedNotReady", "NeverStuck", "AtDone", "CycleDefsAgree"]
    plan = [(1, True, 1), (2, True, 1), (3, True, 1), (4, True, min(4, NPROC))]
    if chk.tier == "thorough":
        plan.append((5, False, NPROC))

    def one(nn, selfloops, workers):
        cfg = sc.file("order%d.cfg" % nn)
        props = ["Decreases"] + (["Terminates"] if nn <= 3 else [])
        write_cfg(cfg, spec="Spec", invariants=invs, properties=props,
                  constants={"NN": nn, "SelfLoops": "TRUE" if selfloops else "FALSE"})
        return nn, run_tlc(os.path.join(AREA, "DepsOrderMC.tla"), cfg, workers=workers, coverage=True,
                           timeout=2400 if nn <= 4 else 7200, metadir=os.path.join(sc.sub("meta"), "mc%d" % nn))

    results = run_parallel([lambda a=a: one(*a) for a in plan], nproc=2)
    cover = {}
    for nn, res in results:
        chk.add_tlc(res, part="mc-order-n%d" % nn)
        for k, v in res.coverage().items():
            cover[k] = cover.get(k, 0) + v[1]
        if not res.clean:
            what = res.invariant_violated or res.action_prop_violated or ["temporal/deadlock"]
            chk.violation("spec-mc:%s" % what[0],
                          "DepsOrderMC NN=%d: %s violated (design-level: the greedy loop / the cycle "
                          "definitions)\n%s" % (nn, what, res.error_trace_tail(40)), {"NN": nn})
    never = [a for a in ("Build", "Skip", "Take", "Stop") if not cover.get(a)]
    chk.extra["mc_action_coverage"] = {a: cover.get(a, 0) for a in ("Build", "Skip", "Take", "Stop")}
    chk.extra["mc_actions_never_taken"] = never
    chk.extra["mc_graphs"] = {"n<=4": "all digraphs (2^(n*n))", "n=5": "all digraphs without self edges (thorough)"}


# ------------------------------------------------------------------------------------------------
# generation (TLC)
# ------------------------------------------------------------------------------------------------

def _gen(sc, fam, segs, seed, nproc):
    """segs: segments {n, lo, cnt, stride, only, nmin, nmax} (see DepsGen.tla), dealt over `nproc`
    generator processes (JVM start + parsing cost as much as ~1000 cases, so few processes)."""
    cfgx = sc.file("genx.cfg")
    write_cfg(cfgx, init="InitX", next_="NextX")
    pieces = []
    for sg in segs:
        per = 2048 if sg["only"] == "acyclic" else 512
        k = 0
        while k < sg["cnt"]:
            c = min(per, sg["cnt"] - k)
            if sg["only"] == "rand":
                lo = sg["lo"] + k
            else:
                mod = 1 << (sg["n"] * (sg["n"] - 1 if sg["only"] == "acyclic" else sg["n"]))
                lo = (sg["lo"] + k * sg["stride"]) % mod
            pieces.append(dict(sg, lo=lo, cnt=c))
            k += c
    nproc = max(1, min(nproc, len(pieces)))
    plans = [pieces[i::nproc] for i in range(nproc)]

    def runx(k, plan):
        path = sc.file("plan-%s-%d.json" % (fam, k))
        out = sc.file("cases-%s-%d.ndjson" % (fam, k))
        with open(path, "w") as f:
            json.dump(plan, f)
        env = {"GEN_FAM": fam, "GEN_SALT": seed % 1000, "GEN_TAG": "%s%d." % (fam[:2], k), "GEN_PLAN": path,
               "GEN_OUT": out}
        res = run_tlc(os.path.join(AREA, "DepsGen.tla"), cfgx, workers=1, env=env, timeout=2400,
                      metadir=os.path.join(sc.sub("meta"), "genx-%s-%d" % (fam, k)))
        told = [j["emitted"] for j in res.printed_json() if "emitted" in j]
        if not res.completed or len(told) != 1:
            raise MachineryError("DepsGen did not complete:\n" + res.error_trace_tail(30))
        with open(out) as f:
            got = [json.loads(l) for l in f if l.strip()]
        if len(got) != told[0]:
            raise MachineryError("DepsGen wrote %d cases but reports %d" % (len(got), told[0]))
        return res, got

    results = run_parallel([lambda k=k, pl=pl: runx(k, pl) for k, pl in enumerate(plans)], nproc=NPROC)
    cases, seen = [], set()
    for _, got in results:
        for c in got:
            key = json.dumps(c["nodes"], sort_keys=True)
            if key in seen:
                continue
            seen.add(key)
            c["id"] = "%s#%d" % (c["id"], len(cases))
            cases.append(c)
    return cases, [r for r, _ in results]


def _plan(fam, tier, seed):
    """-> (segments, generator processes)"""
    rnd = random.Random(seed * 7919 + {"struct": 1, "static": 2, "mods": 3}[fam])
    odd = lambda: rnd.randrange(1, 1 << 15) * 2 + 1

    def seg(n, lo, cnt, stride=1, only="all", nmin=0, nmax=0):
        return dict(n=n, lo=lo, cnt=cnt, stride=stride, only=only, nmin=nmin, nmax=nmax)

    def rand(cnt, nmin, nmax):
        return seg(0, rnd.randrange(1 << 20), cnt, 1, "rand", nmin, nmax)

    full = [seg(n, 0, 1 << (n * n)) for n in (1, 2, 3)]
    quick = tier == "quick"
    if fam == "struct":
        segs = full + [seg(4, 0, 1 << 12, only="acyclic")]               # all 543 DAGs on 4 nodes
        if quick:
            return segs + [seg(4, rnd.randrange(1 << 16), 1536, odd()), rand(1200, 5, 8)], 3
        return segs + [seg(4, 0, 1 << 16), seg(5, rnd.randrange(1 << 20), 1 << 16, odd(), "acyclic"),
                       rand(20000, 5, 8)], 12
    if fam == "static":
        if quick:
            return full + [seg(4, rnd.randrange(1 << 16), 512, odd()), rand(256, 5, 8)], 1
        return full + [seg(4, 0, 1 << 16), rand(4000, 5, 8)], 10
    if quick:
        return full + [seg(4, rnd.randrange(1 << 16), 128, odd()), rand(64, 5, 6)], 1
    return full + [seg(4, 0, 1 << 16), rand(1000, 5, 6)], 10


# ------------------------------------------------------------------------------------------------
# running the real compiler
# ------------------------------------------------------------------------------------------------

_POOL = None


def _dbg(msg):
    if os.environ.get("VERIF_DEBUG"):
        print("[c15] " + msg, file=sys.stderr)


def _pool():
    """The compiler is imported ONCE, here in the parent (it costs several CPU-seconds: a 2.6 MB
    parser table is compiled from source because nothing may be cached), then the workers are forked."""
    global _POOL
    if _POOL is None:
        from . import deps_run
        deps_run._init()
        ctx = multiprocessing.get_context("fork")
        _POOL = ctx.Pool(NPROC, initializer=deps_run._init)
    return _POOL


def _close_pool():
    global _POOL
    if _POOL is not None:
        _POOL.terminate()
        _POOL.join()
        _POOL = None


def _run_jobs(jobs):
    from . import deps_run
    return list(_pool().imap(deps_run.dispatch, jobs, chunksize=1))


def _observe(fam, cases):
    """-> {case id: obs}.  Two rounds for text families (see deps_run)."""
    byid = {c["id"]: c for c in cases}
    obs = {}
    if fam == "mods":
        for r in _run_jobs([{"fam": fam, "cases": ch, "full": True} for ch in chunks(cases, NPROC * 4) if ch]):
            obs.update(r["obs"])
        return obs

    def round_(cs, full):
        got, retry = {}, []
        groups = [cs[i:i + BATCH] for i in range(0, len(cs), BATCH)]
        for r in _run_jobs([{"fam": fam, "cases": g, "full": full} for g in groups]):
            if "retry" in r:
                retry += r["retry"]
            else:
                got.update(r["obs"])
        if retry:
            _dbg("%s: %d cases re-run one per module" % (fam, len(retry)))
            for r in _run_jobs([{"fam": fam, "cases": [byid[i]], "full": full} for i in retry]):
                got.update(r["obs"])
        return got

    t0 = time.time()
    obs = round_(cases, False)
    _dbg("%s round 1: %d cases %.1fs" % (fam, len(cases), time.time() - t0))
    clean = [c for c in cases if not (obs[c["id"]]["groups"] or obs[c["id"]]["other"] or obs[c["id"]]["hang"] or obs[c["id"]]["exc"])]
    if clean:
        t0 = time.time()
        obs.update(round_(clean, True))
        _dbg("%s round 2: %d cases %.1fs" % (fam, len(clean), time.time() - t0))
    return obs


def _render_one(case):
    if case["fam"] == "mods":
        files, main, _ = R.render_mods(case, "c0")
        return {"files": files, "main": main}
    ls = list(R.HEADER) + (R.render_struct(case, "Sx0")[0] if case["fam"] == "struct" else R.render_static(case, "x0x")[0])
    return {"files": {"m.emb": "\n".join(ls) + "\n"}, "main": "m.emb"}


# ------------------------------------------------------------------------------------------------
# TLC decides
# ------------------------------------------------------------------------------------------------

def _decide(sc, name, records, nshards=None):
    """-> (failures [dict], summaries [dict], tlc results)"""
    if not records:
        return [], [], []
    cfg = sc.file("check.cfg")
    write_cfg(cfg)
    nshards = nshards or max(1, min(NPROC, len(records) // 1500 + 1))
    shards = [s for s in chunks(records, nshards) if s]

    def one(k, shard):
        path = sc.file("recs-%s-%d.ndjson" % (name, k))
        with open(path, "w") as f:
            for r in shard:
                f.write(json.dumps(r, separators=(",", ":")) + "\n")
        res = run_tlc(os.path.join(AREA, "DepsCheck.tla"), cfg, workers=1, env={"RECS_FILE": path},
                      metadir=os.path.join(sc.sub("meta"), "chk-%s-%d" % (name, k)), timeout=1500)
        if not res.completed:
            raise MachineryError("DepsCheck did not complete:\n" + res.error_trace_tail(30))
        return res

    results = run_parallel([lambda k=k, s=s: one(k, s) for k, s in enumerate(shards)], nproc=NPROC)
    fails, sums = [], []
    for res in results:
        for j in res.printed_json():
            (sums if j.get("summary") else fails).append(j)
    if sum(s["records"] for s in sums) != len(records):
        raise MachineryError("DepsCheck consumed %d of %d records" % (sum(s["records"] for s in sums), len(records)))
    return fails, sums, results


def _family(chk, sc, fam):
    segs, nproc = _plan(fam, chk.tier, chk.seed)
    t0 = time.time()
    cases, gres = _gen(sc, fam, segs, chk.seed, nproc)
    _dbg("%s gen: %d cases %.1fs" % (fam, len(cases), time.time() - t0))
    for r in gres:
        chk.add_tlc(r, part="gen-" + fam)
    obs = _observe(fam, cases)
    records = [dict(c, obs=obs[c["id"]]) for c in cases]
    t0 = time.time()
    fails, sums, cres = _decide(sc, fam, records)
    _dbg("%s decide: %.1fs" % (fam, time.time() - t0))
    for r in cres:
        chk.add_tlc(r, part="check-" + fam)
    byid = {r["id"]: r for r in records}
    for f in fails:
        rec = byid[f["id"]]
        chk.violation("%s:%s" % (f["clause"], fam),
                      "C15 %s family, case %s: clause %s -- expected %s, got %s\n%s" % (
                          fam, f["id"], f["clause"], f["expected"], f["got"],
                          "\n".join("--- %s\n%s" % kv for kv in _render_one(rec)["files"].items())[:1500]),
                      {"record": rec, "rendered": _render_one(rec)})
    stats = {}
    for s in sums:
        for k, v in s["stats"].items():
            stats[k] = stats.get(k, 0) + v
    chk.traces += len(records)
    chk.evaluations += len(records)
    chk.extra.setdefault("classes", {})[fam] = stats
    chk.extra.setdefault("cases", {})[fam] = len(records)
    full = [o["full"] for o in obs.values()]
    chk.extra.setdefault("accepted_by_whole_front_end", {})[fam] = {"ok": full.count("ok"), "err": full.count("err")}
    nontriv = sum(v for k, v in stats.items() if k.startswith("cyc-") or k == "acyclic-reorder-needed")
    chk.nontrivial_count += nontriv
    for r in records[len(records) // 2:len(records) // 2 + 2]:
        chk.sample({"id": r["id"], "fam": fam, "rendered": _render_one(r)["files"], "obs": r["obs"]})
    return records


def _selftest(chk, sc, records):
    """The binding must bite: corrupt recorded observations and require DepsCheck to flag each."""
    bad = []
    cyc = [r for r in records if r["obs"]["groups"]]
    acy = [r for r in records if r["fam"] == "struct" and len(r["obs"]["order"]) >= 4 and r["obs"]["order"] != r["obs"]["src"]]
    same = [r for r in records if r["fam"] == "struct" and len(r["obs"]["order"]) >= 5 and r["obs"]["order"] == r["obs"]["src"]]
    if cyc:
        r = json.loads(json.dumps(cyc[0])); r["id"] = "st-missed"; r["obs"]["groups"] = []; bad.append((r, "cycle-missed"))
    if acy:
        r = json.loads(json.dumps(acy[0])); r["id"] = "st-spurious"; r["obs"]["groups"] = [[1]]; r["obs"]["src"] = []; r["obs"]["order"] = []
        bad.append((r, "cycle-spurious"))
        r = json.loads(json.dumps(acy[0])); r["id"] = "st-order"; r["obs"]["order"] = list(r["obs"]["src"]); bad.append((r, "order-ignores-dependency"))
        r = json.loads(json.dumps(acy[0])); r["id"] = "st-perm"; r["obs"]["order"] = r["obs"]["order"][:-1]; bad.append((r, "order-not-permutation"))
    if same:
        r = json.loads(json.dumps(same[0])); r["id"] = "st-stable"
        o = r["obs"]["order"]; o[-1], o[-2] = o[-2], o[-1]
        bad.append((r, None))       # either unstable or dependency-ignoring, depending on the tail
    if len(bad) < 4:
        raise MachineryError("selftest: not enough material (%d)" % len(bad))
    fails, _, res = _decide(sc, "selftest", [b[0] for b in bad], nshards=1)
    for r in res:
        chk.add_tlc(r, part="selftest")
    flagged = {}
    for f in fails:
        flagged.setdefault(f["id"], set()).add(f["clause"])
    for r, clause in bad:
        got = flagged.get(r["id"], set())
        if not got or (clause and clause not in got):
            raise MachineryError("selftest: corrupted record %s not rejected as %s (got %s)" % (r["id"], clause, sorted(got)))
    chk.extra["selftest_corruptions_rejected"] = len(bad)


# ------------------------------------------------------------------------------------------------

def run(chk, only=None):
    want = lambda p: only is None or p in only
    with Scratch("c15") as sc:
        try:
            if want("struct") or want("static") or want("mods"):
                _pool()       # fork the compile workers before any thread exists
            jobs = []
            if want("mc"):
                jobs.append(lambda: _mc(chk, sc))
            allrec = []

            def fams():
                for fam in ("struct", "static", "mods"):
                    if want(fam):
                        allrec.extend(_family(chk, sc, fam))
                if want("selftest") and allrec:
                    _selftest(chk, sc, allrec)
            jobs.append(fams)
            run_parallel(jobs, nproc=2)
        finally:
            _close_pool()
    from . import deps_run
    chk.rule = ("TLC (DepsGen) enumerates all digraphs on <=3 nodes (thorough: <=4), all acyclic digraphs on 4 nodes, "
                "a seeded sample of 4-node digraphs and seeded random digraphs on 5-8 nodes (dag / mixed / one long "
                "ring / two rings); each is decorated into (a) one structure whose fields mention each other through "
                "start, size, array length, existence condition, argument, `let` value, alias, $next and "
                "$size_in_bytes, with parameters as sinks, (b) enum values and constant virtual fields mentioning "
                "each other statically across two enums / two structs, (c) modules importing each other.  The real "
                "front end is run to just after set_dependency_order (and, when no error, to the end); TLC "
                "(DepsCheck) decides cycle error <=> HasCycle by transitive closure, members of each reported group "
                "lie on a cycle, IR field list keeps source order, fields_in_dependency_order is a StableTopo.  "
                "Non-trivial = graph has a cycle, or is acyclic with a source order that must be changed.")
    chk.assumptions += [
        "cycle errors are told apart from other errors by wrapping dependency_checker.find_dependency_cycles (pass attribution), not by message text; members are mapped to nodes by source line (automatically generated fields, which have no line, by the name in the message)",
        "the three automatically generated fields are modelled as: $size_in_bytes mentions what every physical field's start/size/condition mentions; $max_/$min_size_in_bytes mention $size_in_bytes (language-reference.md); their position in the field list is taken from the IR, not assumed",
        "static references Type.field inside the same structure are not generated (see report: the ordering ignores them)",
        "WriteToString order (back end) is C06's observation; here the IR's fields_in_dependency_order is observed",
    ]
    chk.exhaustive = False
    chk.extra["stop_before_step"] = deps_run.STOP


def replay(chk, path):
    """Re-run one recorded violation: render the case again, compile it with the current tree, let TLC decide."""
    with open(path) as f:
        rp = json.load(f)
    case = {k: v for k, v in rp["case"]["record"].items() if k != "obs"}
    fam = case["fam"]
    with Scratch("c15r") as sc:
        try:
            _pool()
            obs = _observe(fam, [case])
            rec = dict(case, obs=obs[case["id"]])
            fails, _, res = _decide(sc, "replay", [rec], nshards=1)
            for r in res:
                chk.add_tlc(r, part="replay")
            chk.traces = 1
            for fl in fails:
                chk.violation("%s:%s" % (fl["clause"], fam),
                              "C15 replay %s: clause %s -- expected %s, got %s" % (case["id"], fl["clause"], fl["expected"], fl["got"]),
                              {"record": rec, "rendered": _render_one(rec)})
        finally:
            _close_pool()
    chk.rule = "replay of " + path
