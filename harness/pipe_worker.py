"""Worker process for the pipeline checks + the pool that drives workers from the check process.

A worker is a fresh interpreter (`python -m harness.pipe_worker OUT`) that imports the REAL compiler
from common.REPO once (4-5 s), installs the probes of pipe_probe, writes a Start event, and then
executes one job per stdin line, appending the recorded events to OUT (ndjson) and acknowledging
each job on stdout.  The whole life of a worker is one event stream = one OS process of
spec/pipe/Pipeline.tla, so cache/counter clauses bind across the compilations it performed.

Jobs:
  {"op":"c16", "fam":..., ...}        one or more compilations of a generated input (pipe_inputs)
  {"op":"scen", "tid":..., "scen":[...]}  replay a TLC-generated pass-outcome scenario into the real
                                      glue.process_ir with stub passes
  {"op":"sched", ...}                 C17: replay a TLC-generated schedule in forked children
  {"op":"files", ...}                 compile explicit files
"""
import json
import os
import select
import subprocess
import sys
import threading
import time

from .common import REPO, VERIF, MachineryError


# ------------------------------------------------------------------------------------------------
# worker side
# ------------------------------------------------------------------------------------------------

COMPILE_TIMEOUT = int(os.environ.get("VERIF_COMPILE_TIMEOUT", "90"))
MEMORY_LIMIT = 3 * 2 ** 30


class CompileTimeout(BaseException):
    pass


class Ctx:
    def __init__(self, out_path):
        from . import pipe_probe, pipe_inputs
        self.pp = pipe_probe
        self.pi = pipe_inputs
        self.P = pipe_probe.Probes()
        self.out_path = out_path
        self.out = open(out_path, "a", encoding="utf-8")
        self.corpus = None
        self.prelude = pipe_inputs.prelude_text()
        self.seedenv = os.environ.get("PYTHONHASHSEED", "random")
        self.trunc_cache = {}

    def write(self, events):
        for e in events:
            self.out.write(json.dumps(e, separators=(",", ":")) + "\n")
        self.out.flush()

    def tokenize(self, text, name):
        return self.P.orig[("compiler.front_end.tokenizer", "tokenize")](text, name)

    def get_corpus(self):
        if self.corpus is None:
            self.corpus = self.pi.load_corpus()
        return self.corpus

    def compile(self, files, main, tid, **kw):
        """One traced compilation under a CPU-time watchdog: a compilation that does not finish within
        COMPILE_TIMEOUT seconds is recorded as a Timeout event (Total: "compilation terminates")."""
        import signal

        def on_alarm(sig, frm):
            raise CompileTimeout()

        old = signal.signal(signal.SIGALRM, on_alarm)
        signal.alarm(COMPILE_TIMEOUT)
        try:
            ev, out = self.pp.traced_compile(self.P, files, main, tid=tid, prelude_text=self.prelude, **kw)
        except CompileTimeout:
            self.P.on = False
            ev, out = list(self.P.events), {}
            ev.append({"ev": "Timeout", "tid": tid, "job": "", "limit_s": COMPILE_TIMEOUT})
        except MemoryError:
            self.P.on = False
            ev, out = list(self.P.events), {}
            ev.append({"ev": "Exception", "type": "MemoryError", "site": "MemoryError@address-space-limit", "stage": "?"})
        finally:
            signal.alarm(0)
            signal.signal(signal.SIGALRM, old)
        self.write(ev)
        return ev, out


def c16_inputs(ctx, job):
    """Yields (tid, files, main) for a C16 job descriptor."""
    pi = ctx.pi
    fam, seed = job["fam"], job["seed"]
    if fam == "texts":
        for item in job["items"]:
            yield item["tid"], {"m.emb": item["text"]}, "m.emb"
    elif fam in ("bytes", "soup", "gram", "nest", "imports", "valid", "xmod", "semsoup"):
        for idx in range(job["start"], job["start"] + job["count"]):
            r = pi.rng_for(seed, fam, idx)
            tid = "%s:%d" % (fam, idx)
            if fam == "xmod":
                files, main, name = pi.gen_xmod(r, idx)
                yield "%s:%s" % (tid, name), files, main
            elif fam == "semsoup":
                yield tid, {"m.emb": pi.gen_semsoup(r)}, "m.emb"
            elif fam == "bytes":
                yield tid, {"m.emb": pi.gen_bytes(r)}, "m.emb"
            elif fam == "soup":
                yield tid, {"m.emb": pi.gen_soup(r)}, "m.emb"
            elif fam == "nest":
                yield tid, {"m.emb": pi.gen_nest(r)}, "m.emb"
            elif fam == "valid":
                yield tid, {"m.emb": pi.gen_valid(r)}, "m.emb"
            elif fam == "imports":
                files, main = pi.gen_import_set(r)
                yield tid, files, main
            else:
                imps = [n for n in ("a", "b") if r.random() < 0.3]
                files = {"m.emb": pi.gen_program(r, imps)}
                for n in imps:
                    files[n + ".emb"] = pi.gen_program(r, [])
                yield tid, files, "m.emb"
    elif fam == "corpus":
        corpus = ctx.get_corpus()
        for name in job["names"]:
            yield "corpus:%s" % name, corpus, name
    elif fam == "mut":
        corpus = ctx.get_corpus()
        mains = pi.corpus_mains(corpus)
        for idx in range(job["start"], job["start"] + job["count"]):
            r = pi.rng_for(seed, fam, idx)
            name = mains[idx % len(mains)]
            kind, text = pi.gen_mutation(r, corpus[name], ctx.tokenize)
            files = dict(corpus)
            files[name] = text
            yield "mut:%d:%s:%s" % (idx, kind, name), files, name
    elif fam == "trunc":
        corpus = ctx.get_corpus()
        name = job["name"]
        pts = pi.truncation_points(corpus[name], ctx.tokenize)
        for k in range(job["start"], len(pts), job["step"]):
            files = dict(corpus)
            files[name] = pi.truncate_at(corpus[name], pts[k], keep_newline=bool(k & 1) and job.get("nl", True))
            yield "trunc:%s:%d" % (name, k), files, name
    else:
        raise ValueError(fam)


def regenerate_input(tid, seed):
    """Re-create the input of a C16 compilation from its tid (for replay files / triage)."""
    ctx = Ctx(os.devnull)
    parts = tid.split(":")
    fam = parts[0]
    if fam in ("bytes", "soup", "gram", "nest", "imports", "valid", "xmod", "semsoup"):
        job = {"fam": fam, "seed": seed, "start": int(parts[1]), "count": 1}
    elif fam == "corpus":
        job = {"fam": fam, "seed": seed, "names": [":".join(parts[1:])]}
    elif fam == "mut":
        job = {"fam": fam, "seed": seed, "start": int(parts[1]), "count": 1}
    elif fam == "trunc":
        job = {"fam": fam, "seed": seed, "name": ":".join(parts[1:-1]), "start": int(parts[-1]), "step": 10 ** 9}
    else:
        return None
    for t, files, main in c16_inputs(ctx, job):
        return {"main": main, "files": files}
    return None


def run_scenario(ctx, job):
    """G binding for the control flow of the pass pipeline: the twelve pass attributes are replaced by
    stubs returning the scripted outcome; the REAL glue.process_ir runs over them."""
    P = ctx.P
    from compiler.util import error as error_mod, parser_types, ir_data
    scen = job["scen"]
    saved = []
    P.events = []
    P.on = True
    try:
        P.emit("Compile", tid=job["tid"], main="n:m.emb", mode="passes", key="")
        for k, ((mod, attr), outcome) in enumerate(zip(P.pass_mods, scen), 1):
            cur = getattr(mod, attr)
            saved.append((mod, attr, cur))
            groups = []
            nsyn, nuser = outcome.get("synth", 0), outcome.get("user", 0)
            for i in range(max(nsyn, nuser)):
                # interleave so that order preservation is visible
                if i < nsyn:
                    loc = parser_types.SourceLocation((1, 1), (1, 2), is_synthetic=True)
                    groups.append([error_mod.error("m.emb", loc, "synthetic %d.%d" % (k, i)),
                                   error_mod.note("m.emb", parser_types.SourceLocation((1, 1), (1, 2)), "note")])
                if i < nuser:
                    loc = parser_types.SourceLocation((1, 1), (1, 2))
                    groups.append([error_mod.error("m.emb", loc, "natural %d.%d" % (k, i))])

            def stub(ir, _g=groups):
                return list(_g)

            stub.__name__ = P.orig[(mod.__name__, attr)].__name__

            def rec(ir, _stub=stub, _k=k, _nm=attr):
                r = _stub(ir)
                P.emit("Pass", k=_k, name=_nm, groups=ctx.pp.groups_sig(r))
                return r

            rec.__name__ = stub.__name__
            setattr(mod, attr, rec)
        try:
            ir = ir_data.EmbossIr(module=[])
            res_ir, errors = P.glue.process_ir(ir, None)
            P.emit("Front", kind=("errors" if errors else "ir"), groups=[g[1] for g in ctx.pp.groups_sig(errors)],
                   has_ir=res_ir is not None)
            rep = {"kind": "errors" if errors else "done", "key": "", "anon": [],
                   "errors": [], "groups": [g[1] for g in ctx.pp.groups_sig(errors)], "lens": [],
                   "plain": "ok", "colour": "ok"}
            # the scripted messages are not user input: positions are not judged, only the flow
            for k2 in ("ir_json", "header", "stderr"):
                rep[k2 + "_raw"] = rep[k2 + "_norm"] = "-"
            if errors:
                rep["errors"] = [[{"file": "n:m.emb", "sev": "error", "l1": 1, "c1": 1, "l2": 1, "c2": 2, "syn": False}]]
                rep["lens"] = [["n:m.emb", [10]]]
                # has the ir been withheld, as documented ("If errors is not an empty list, ir will be None")?
                if res_ir is not None:
                    rep["kind"] = "done"
            P.emit("Report", **rep)
        except Exception as e:
            P.emit("Exception", type=type(e).__name__, site=ctx.pp.exc_site(e), stage="passes")
    finally:
        for mod, attr, cur in saved:
            setattr(mod, attr, cur)
        P.on = False
    ctx.write(P.events)


def run_schedule(ctx, job):
    """C17: replay one TLC-generated schedule.  Every spec process is a forked child of this pristine
    interpreter (nothing compiled yet in the parent), so its cache and counter start exactly like a
    fresh process with this interpreter's hash seed; children run strictly one after the other in
    schedule order and append to the same stream."""
    steps = job["steps"]
    # group consecutive steps by process incarnation: a new incarnation when `fresh`
    i = 0
    n = len(steps)
    incarnation = {}
    plan = []   # list of (pname, [step...]) in order; a process' steps may be split by other processes
    for st in steps:
        p = st["p"]
        if st["fresh"]:
            incarnation[p] = incarnation.get(p, 0) + 1
        plan.append((p, incarnation.get(p, 0), st))
    # children are long-lived: one per (p, incarnation); driven over pipes, strictly sequentially
    children = {}
    order = []

    def child_path(keyp):
        return "%s.%s.%s-%d.child" % (ctx.out_path, job["tid"], keyp[0], keyp[1])

    try:
        for p, inc, st in plan:
            keyp = (p, inc)
            if keyp not in children:
                r1, w1 = os.pipe()
                r2, w2 = os.pipe()
                pid = os.fork()
                if pid == 0:
                    try:
                        os.close(w1)
                        os.close(r2)
                        for _pid, _fw, _fr in children.values():   # ends of the siblings' pipes
                            try:
                                os.close(_fw.fileno())
                                os.close(_fr.fileno())
                            except OSError:
                                pass
                        # every process incarnation is its own event stream (appended to the
                        # worker's stream, whole, when the schedule is over)
                        ctx.out = open(child_path(keyp), "w", encoding="utf-8")
                        fin = os.fdopen(r1, "r")
                        fout = os.fdopen(w2, "w")
                        ctx.write([{"ev": "Start", "seed": ctx.seedenv, "proc": "%s/%s#%d" % (job["tid"], p, inc)}])
                        for line in fin:
                            s = json.loads(line)
                            ctx.compile(None, s["main"], s["tid"], mode=s["mode"], key=s["key"], want_outputs=True,
                                        dirs=s["dirs"])
                            fout.write("ok\n")
                            fout.flush()
                        ctx.write([{"ev": "Exit"}])
                    finally:
                        os._exit(0)
                os.close(r1)
                os.close(w2)
                children[keyp] = (pid, os.fdopen(w1, "w"), os.fdopen(r2, "r"))
                order.append(keyp)
            pid, fw, fr = children[keyp]
            fw.write(json.dumps(st["job"]) + "\n")
            fw.flush()
            ack = fr.readline()
            if not ack:
                raise RuntimeError("schedule child died")
    finally:
        for pid, fw, fr in children.values():
            try:
                fw.close()
            except Exception:
                pass
        for pid, fw, fr in children.values():
            os.waitpid(pid, 0)
            fr.close()
        for keyp in order:
            cp = child_path(keyp)
            if os.path.exists(cp):
                with open(cp, encoding="utf-8") as f:
                    ctx.out.write(f.read())
                os.unlink(cp)
        ctx.out.flush()


def run_ir_job(ctx, job):
    """C18: serialize / re-read every IR the front end produces for the given source sets; write the
    records judged by spec/pipe/IRJsonCheck.tla to job["out"]; return coverage."""
    from . import pipe_ir
    P = ctx.P
    schema = job["schema"]
    ser = P.ir_data_utils.IrDataSerializer
    cov = pipe_ir.Coverage()
    seen_mods = set()
    with open(job["out"], "a", encoding="utf-8") as out:
        for st in job["sets"]:
            files, main, name = st["files"], st["main"], st["name"]

            def rd(n, files=files):
                return (files[n], None) if n in files else (None, ["not found"])

            for stop in [None] + list(st.get("stops", [])):
                rid = name + ("" if stop is None else "@before:" + stop)
                top = {"kind": "top", "id": rid, "json1": "-", "json2": "-", "header1": "-", "header2": "-",
                       "nmod1": 0, "nmod2": 0, "nmodj": 0, "extra": [], "exc": "", "accepted": False}
                try:
                    try:
                        ir, _dbg, errors = P.glue.parse_emboss_file(main, rd, stop_before_step=stop)
                    except Exception as e:
                        # a crashing front end produces no IR: that is C16's subject, not C18's
                        top["front_end_crashed"] = ctx.pp.exc_site(e)
                        out.write(json.dumps(top) + "\n")
                        continue
                    if errors or ir is None:
                        top["exc"] = ""
                        top["rejected"] = True
                        out.write(json.dumps(top) + "\n")
                        continue
                    top["accepted"] = True
                    t1 = pipe_ir.project(ir, schema, cov)
                    js1 = ser(ir).to_json()
                    j1 = pipe_ir.parse_json_text(js1)
                    ir2 = ser.from_json(P.ir_data.EmbossIr, js1)
                    t2 = pipe_ir.project(ir2, schema, pipe_ir.Coverage())
                    js2 = ser(ir2).to_json()
                    top.update(json1=ctx.pp.h(js1, 16), json2=ctx.pp.h(js2, 16),
                               nmod1=len(t1["fields"]["module"]["v"]), nmod2=len(t2["fields"]["module"]["v"]),
                               nmodj=len(j1.get("module", [])), extra=sorted(k for k in j1 if k != "module"))
                    if stop is None:
                        h1, e1 = P.hg.generate_header(ir, P.hg.Config(include_enum_traits=True))
                        h2, e2 = P.hg.generate_header(ir2, P.hg.Config(include_enum_traits=True))
                        top["header1"] = ctx.pp.h(h1, 16) if h1 is not None else "errors:%d" % len(e1)
                        top["header2"] = ctx.pp.h(h2, 16) if h2 is not None else "errors:%d" % len(e2)
                    out.write(json.dumps(top) + "\n")
                    n = min(len(t1["fields"]["module"]["v"]), len(t2["fields"]["module"]["v"]), len(j1.get("module", [])))
                    for k in range(n):
                        m1 = t1["fields"]["module"]["v"][k]["v"]
                        m2 = t2["fields"]["module"]["v"][k]["v"]
                        jm = pipe_ir.tag_json(j1["module"][k])
                        rec = {"kind": "tree", "id": "%s#module[%d]" % (rid, k), "t1": m1, "j1": jm, "t2": m2}
                        line = json.dumps(rec, separators=(",", ":"))
                        sig = ctx.pp.h(json.dumps([m1, jm, m2], sort_keys=True), 20)
                        if sig in seen_mods:      # the prelude module repeats verbatim in every IR
                            continue
                        seen_mods.add(sig)
                        out.write(line + "\n")
                except Exception as e:
                    top["exc"] = ctx.pp.exc_site(e)
                    out.write(json.dumps(top) + "\n")
    with open(job["out"] + ".cov", "w") as f:
        json.dump({"classes": cov.classes, "fields": cov.fields, "flags": sorted(cov.flags), "nodes": cov.nodes,
                   "big_numbers": cov.big_numbers}, f)


def worker_main(argv):
    try:
        import resource
        resource.setrlimit(resource.RLIMIT_AS, (MEMORY_LIMIT, MEMORY_LIMIT))
    except Exception:
        pass
    out_path = argv[0]
    ctx = Ctx(out_path)
    pristine = "--pristine" in argv
    if pristine:
        # children are forked from this interpreter: keep the garbage collector from touching (and so
        # copying) the 0.5 GB of parser tables in every child
        # ... and load the LR tables now (tokenize + parse the empty text through the public entry
        # points; touches neither the parse cache nor the anonymous counter) instead of in every child
        toks, _errs = ctx.tokenize("", "")
        ctx.P.orig[("compiler.front_end.parser", "parse_module")](toks)
        import gc
        gc.collect()
        gc.freeze()
    if not pristine:
        ctx.write([{"ev": "Start", "seed": ctx.seedenv}])
    sys.stdout.write("ready\n")
    sys.stdout.flush()
    for line in sys.stdin:
        line = line.strip()
        if not line:
            continue
        job = json.loads(line)
        op = job["op"]
        if op == "c16":
            for tid, files, main in c16_inputs(ctx, job):
                ctx.compile(files, main, tid)
        elif op == "scen":
            for item in job["items"]:
                run_scenario(ctx, item)
        elif op == "sched":
            run_schedule(ctx, job)
        elif op == "ir":
            run_ir_job(ctx, job)
        elif op == "files":
            ctx.compile(job["files"], job["main"], job["tid"], mode=job.get("mode", "inproc"), key=job.get("key", ""),
                        want_outputs=bool(job.get("key")))
        else:
            raise ValueError(op)
        sys.stdout.write("done %s\n" % job.get("jid", ""))
        sys.stdout.flush()
    if not pristine:
        ctx.write([{"ev": "Exit"}])


# ------------------------------------------------------------------------------------------------
# pool (check-process side)
# ------------------------------------------------------------------------------------------------

class Pool:
    """Runs jobs on N worker processes; restarts a worker that dies or exceeds the per-job timeout
    (recording a Timeout event for the compilation in flight).  Returns the list of stream files."""

    def __init__(self, scratch_dir, nworkers, *, job_timeout=120, hashseed="0", pristine=False, name="w",
                 compile_timeout=None):
        self.dir = scratch_dir
        self.n = nworkers
        self.job_timeout = job_timeout
        self.hashseed = hashseed
        self.pristine = pristine
        self.name = name
        self.compile_timeout = compile_timeout
        self.streams = []
        self.timeouts = []
        self.crashes = []
        self.lock = threading.Lock()

    def _spawn(self, slot, inc):
        out = os.path.join(self.dir, "%s%d-%d.ndjson" % (self.name, slot, inc))
        env = dict(os.environ)
        env["PYTHONHASHSEED"] = str(self.hashseed)
        env["PYTHONDONTWRITEBYTECODE"] = "1"
        env["EMBOSS_REPO"] = REPO
        if self.compile_timeout:
            env["VERIF_COMPILE_TIMEOUT"] = str(self.compile_timeout)
        cmd = [sys.executable, "-m", "harness.pipe_worker", out] + (["--pristine"] if self.pristine else [])
        p = subprocess.Popen(cmd, cwd=VERIF, env=env, stdin=subprocess.PIPE, stdout=subprocess.PIPE,
                             stderr=open(out + ".stderr", "w"), text=True, bufsize=1)
        with self.lock:
            self.streams.append(out)
        return p, out

    @staticmethod
    def _readline(p, timeout):
        r, _, _ = select.select([p.stdout], [], [], timeout)
        if not r:
            return None
        return p.stdout.readline()

    def _run_slot(self, slot, jobs):
        inc = 0
        i = 0
        while i < len(jobs):
            p, out = self._spawn(slot, inc)
            inc += 1
            line = self._readline(p, 900)
            if not line or not line.startswith("ready"):
                p.kill()
                err = open(out + ".stderr").read()[-2000:]
                raise MachineryError("pipeline worker failed to start (%s; slot %d incarnation %d, next job %s): %s"
                                     % ("timeout" if line is None else "exited" if line == "" else repr(line),
                                        slot, inc, json.dumps(jobs[i])[:200], err))
            dead = False
            while i < len(jobs) and not dead:
                try:
                    p.stdin.write(json.dumps(jobs[i]) + "\n")
                    p.stdin.flush()
                except BrokenPipeError:
                    line = ""
                else:
                    line = self._readline(p, self.job_timeout)
                if line is None:
                    p.kill()
                    p.wait()
                    self._close_stream(out, "Timeout", jobs[i])
                    dead = True
                elif line == "":
                    p.wait()
                    self._close_stream(out, "Crash", jobs[i], rc=p.returncode, stderr=open(out + ".stderr").read()[-1500:])
                    dead = True
                i += 1
            if not dead:
                p.stdin.close()
                p.wait()

    def _close_stream(self, out, what, job, **kw):
        # which compilation was in flight?  the last Compile event without a Report/Exception after it
        tid = None
        try:
            with open(out, encoding="utf-8") as f:
                for line in f:
                    try:
                        e = json.loads(line)
                    except ValueError:
                        continue
                    if e.get("ev") == "Compile":
                        tid = e.get("tid")
                    elif e.get("ev") in ("Report", "Exception"):
                        tid = None
        except OSError:
            pass
        with open(out, "a", encoding="utf-8") as f:
            if what == "Timeout":
                f.write(json.dumps({"ev": "Timeout", "tid": tid or "", "job": job.get("jid", "")}) + "\n")
            else:
                site = "process-died(rc=%s)" % kw.get("rc")
                f.write(json.dumps({"ev": "Exception", "type": "ProcessDied", "site": site, "stage": "?",
                                    "msg": kw.get("stderr", "")[-300:]}) + "\n")
        with self.lock:
            (self.timeouts if what == "Timeout" else self.crashes).append((tid, job))

    def run(self, jobs):
        jobs = list(jobs)
        for k, j in enumerate(jobs):
            j.setdefault("jid", str(k))
        slots = [jobs[s::self.n] for s in range(self.n)]
        threads = []
        errs = []

        def go(s, js):
            try:
                self._run_slot(s, js)
            except BaseException as e:  # noqa
                errs.append(e)

        for s, js in enumerate(slots):
            if js:
                t = threading.Thread(target=go, args=(s, js))
                t.start()
                threads.append(t)
        for t in threads:
            t.join()
        if errs:
            raise errs[0]
        return list(self.streams)


def read_stream(path):
    evs = []
    with open(path, encoding="utf-8") as f:
        for line in f:
            line = line.strip()
            if line:
                evs.append(json.loads(line))
    return evs


if __name__ == "__main__":
    worker_main(sys.argv[1:])
