"""Shared machinery: scratch dirs, TLC runner, evidence writer, verdict/known-finding handling.

Everything a check needs from TLC goes through run_tlc(); everything a check tells the outside
world goes through Check (evidence file, VIOLATION / KNOWN-FINDING lines, exit code).
"""
import json
import os
import re
import shutil
import subprocess
import sys
import time

VERIF = os.path.dirname(os.path.dirname(os.path.abspath(__file__)))
REPO = os.environ.get("EMBOSS_REPO", "/repo")
SPEC = os.path.join(VERIF, "spec")
SCRATCH_ROOT = os.path.join(VERIF, ".scratch")
TLA_JARS = "/opt/veriftools/tla/tla2tools.jar:/opt/veriftools/tla/CommunityModules-deps.jar"
NCPU = os.cpu_count() or 4


class MachineryError(Exception):
    """Something in the tool chain failed; this is never a verdict about emboss."""


class Scratch:
    """A directory under /verif/.scratch that disappears when the check ends."""

    def __init__(self, name):
        self.path = os.path.join(SCRATCH_ROOT, "%s-%d" % (name, os.getpid()))

    def __enter__(self):
        shutil.rmtree(self.path, ignore_errors=True)
        os.makedirs(self.path)
        return self

    def __exit__(self, *exc):
        if not os.environ.get("VERIF_KEEP_SCRATCH"):
            shutil.rmtree(self.path, ignore_errors=True)
        return False

    def sub(self, name):
        p = os.path.join(self.path, name)
        os.makedirs(p, exist_ok=True)
        return p

    def file(self, name):
        return os.path.join(self.path, name)


class TLCResult:
    def __init__(self, rc, out, wall):
        self.rc = rc
        self.out = out
        self.wall = wall
        self.generated = 0
        self.distinct = 0
        m = None
        for m in re.finditer(r"(\d+) states generated, (\d+) distinct states found", out):
            pass
        if m:
            self.generated, self.distinct = int(m.group(1)), int(m.group(2))
        else:
            # -simulate prints a different summary
            m = re.search(r"The number of states generated: (\d+)", out)
            if m:
                self.generated = self.distinct = int(m.group(1))
        self.invariant_violated = re.findall(r"Invariant (\S+) is violated", out)
        self.action_prop_violated = re.findall(r"Action property (\S+) is violated", out)
        self.temporal_violated = "Temporal properties were violated" in out
        self.postcondition_failed = "POSTCONDITION" in out and "is false" in out or "Evaluating postcondition" in out and "failed" in out
        self.deadlock = "Deadlock reached" in out
        self.completed = ("Model checking completed. No error has been found." in out) or (
            "Finished in" in out and not self.invariant_violated
        )
        self.tlc_error = bool(
            re.search(r"^Error: ", out, re.M)
            and not self.invariant_violated
            and not self.action_prop_violated
            and not self.deadlock
            and not self.temporal_violated
        )

    @property
    def clean(self):
        return (
            self.rc == 0
            and not self.invariant_violated
            and not self.action_prop_violated
            and not self.temporal_violated
            and not self.deadlock
            and not self.tlc_error
        )

    def printed_json(self):
        """Values emitted by PrintT(ToJson(x)): one quoted JSON string per line."""
        res = []
        for line in self.out.splitlines():
            if line.startswith('"') and line.endswith('"') and len(line) > 1:
                try:
                    inner = json.loads(line)
                    res.append(json.loads(inner))
                except ValueError:
                    pass
        return res

    def coverage(self):
        """Per-action counts from -coverage output: {action: (distinct, total)}."""
        cov = {}
        for m in re.finditer(r"^<(\w+) line \d+, col \d+ to line \d+, col \d+ of module (\w+)>: (\d+):(\d+)", self.out, re.M):
            name = m.group(1)
            d, t = int(m.group(3)), int(m.group(4))
            od, ot = cov.get(name, (0, 0))
            cov[name] = (max(od, d), max(ot, t))
        return cov

    def error_trace_tail(self, n=60):
        lines = self.out.splitlines()
        for i, l in enumerate(lines):
            if l.startswith("Error:"):
                return "\n".join(lines[i : i + n])
        return "\n".join(lines[-n:])


def write_cfg(path, *, init="Init", next_="Next", spec=None, invariants=(), properties=(), constants=None,
              constraints=(), action_constraints=(), postcondition=None, check_deadlock=False, view=None,
              symmetry=None):
    lines = []
    if spec:
        lines.append("SPECIFICATION %s" % spec)
    else:
        lines.append("INIT %s" % init)
        lines.append("NEXT %s" % next_)
    for k, v in (constants or {}).items():
        lines.append("CONSTANT %s = %s" % (k, v) if not str(v).startswith("<-") else "CONSTANT %s %s" % (k, v))
    for i in invariants:
        lines.append("INVARIANT %s" % i)
    for p in properties:
        lines.append("PROPERTY %s" % p)
    for c in constraints:
        lines.append("CONSTRAINT %s" % c)
    for c in action_constraints:
        lines.append("ACTION_CONSTRAINT %s" % c)
    if postcondition:
        lines.append("POSTCONDITION %s" % postcondition)
    if view:
        lines.append("VIEW %s" % view)
    if symmetry:
        lines.append("SYMMETRY %s" % symmetry)
    lines.append("CHECK_DEADLOCK %s" % ("TRUE" if check_deadlock else "FALSE"))
    with open(path, "w") as f:
        f.write("\n".join(lines) + "\n")


def tla_library(*areas):
    return os.pathsep.join([os.path.join(SPEC, a) for a in areas] + [os.path.join(SPEC, "common")])


def run_tlc(module_path, cfg_path, *, lib_areas=(), workers=None, simulate=None, depth=None, seed=0,
            env=None, timeout=1800, coverage=False, metadir=None, heap="4g", dfs=False, extra=()):
    """Run TLC on module_path with cfg_path.  Returns TLCResult; raises MachineryError on timeout/crash."""
    workers = workers or NCPU
    moddir = os.path.dirname(os.path.abspath(module_path))
    metadir = metadir or os.path.join(moddir, "meta-%s-%d" % (os.path.basename(module_path), int(time.time() * 1000) % 10**9))
    # many small single-worker JVMs run side by side: a serial collector and a capped JIT keep them from
    # fighting over the cores; big multi-worker runs keep the parallel collector
    gc = ["-XX:+UseSerialGC", "-XX:CICompilerCount=2", "-XX:TieredStopAtLevel=4"] if workers <= 2 else ["-XX:+UseParallelGC", "-XX:ParallelGCThreads=%d" % max(2, min(workers, 8))]
    java = ["java"] + gc + ["-Xmx" + heap, "-Xss64m", "-DTLA-Library=" + tla_library(*lib_areas)]
    if dfs:
        java.append("-Dtlc2.tool.queue.IStateQueue=StateDeque")
    cmd = java + ["-cp", TLA_JARS, "tlc2.TLC", "-workers", str(workers), "-metadir", metadir,
                  "-noGenerateSpecTE", "-config", cfg_path]
    if coverage:
        cmd += ["-coverage", "1"]
    if simulate is not None:
        cmd += ["-simulate", "num=%d" % simulate]
        if depth:
            cmd += ["-depth", str(depth)]
        cmd += ["-seed", str(seed)]
    elif depth:
        pass
    cmd += list(extra)
    cmd.append(os.path.basename(module_path))
    e = dict(os.environ)
    e.pop("JAVA_TOOL_OPTIONS", None)
    if env:
        e.update({k: str(v) for k, v in env.items()})
    t0 = time.time()
    try:
        p = subprocess.run(cmd, cwd=moddir, env=e, stdout=subprocess.PIPE, stderr=subprocess.STDOUT,
                           timeout=timeout, text=True, errors="replace")
    except subprocess.TimeoutExpired as ex:
        subprocess.run(["pkill", "-f", metadir], check=False)
        raise MachineryError("TLC timed out after %ss on %s" % (timeout, module_path)) from ex
    finally:
        shutil.rmtree(metadir, ignore_errors=True)
    res = TLCResult(p.returncode, p.stdout, time.time() - t0)
    if res.tlc_error or (p.returncode != 0 and not (res.invariant_violated or res.action_prop_violated or res.deadlock or res.temporal_violated)):
        # parse errors, evaluation errors, OOM: machinery, unless the caller wants to look
        if "Evaluating assertion" in p.stdout or "The first argument of Assert evaluated to FALSE" in p.stdout:
            return res
        raise MachineryError("TLC failed (rc=%d) on %s:\n%s" % (p.returncode, module_path, res.error_trace_tail(80)))
    return res


def run_parallel(jobs, nproc=None):
    """jobs: list of zero-arg callables; run in a thread pool (each spawns subprocesses)."""
    from concurrent.futures import ThreadPoolExecutor
    with ThreadPoolExecutor(max_workers=nproc or NCPU) as ex:
        futs = [ex.submit(j) for j in jobs]
        return [f.result() for f in futs]


# ------------------------------------------------------------------------------------------------
# Verdicts, evidence, known findings
# ------------------------------------------------------------------------------------------------

def load_known_findings():
    p = os.path.join(VERIF, "known_findings.json")
    if not os.path.exists(p):
        return {"findings": [], "fixed": []}
    with open(p) as f:
        return json.load(f)


class Check:
    """Collects what one check run covered and what it found; writes evidence; sets the exit code."""

    def __init__(self, prop, tier, seed, level="model_checking"):
        self.prop = prop
        self.tier = tier
        self.seed = seed
        self.level = level
        self.t0 = time.time()
        self.states = 0
        self.transitions = 0
        self.traces = 0
        self.evaluations = 0
        self.nontrivial = set()
        self.nontrivial_count = 0
        self.rule = ""
        self.samples = []
        self.assumptions = []
        self.extra = {}
        self.violations = []   # (key, description, replay_payload)
        self.known_hits = {}
        self.exhaustive = None
        self.parts = {}
        kf = load_known_findings()
        self.known = [k for k in kf.get("findings", []) if k.get("property") == prop or prop in k.get("properties", [])]

    # --- accounting
    def add_tlc(self, res, part=None):
        self.states += res.distinct
        self.transitions += res.generated
        if part:
            d = self.parts.setdefault(part, {"states": 0, "transitions": 0, "wall_s": 0.0})
            d["states"] += res.distinct
            d["transitions"] += res.generated
            d["wall_s"] = round(d["wall_s"] + res.wall, 2)
            cov = res.coverage()
            if cov:
                d["action_coverage"] = {k: v[1] for k, v in sorted(cov.items())}

    def sample(self, s, limit=6):
        if len(self.samples) < limit:
            self.samples.append(s)

    def note_nontrivial(self, key):
        self.nontrivial.add(key)

    # --- verdicts
    def violation(self, key, desc, payload=None):
        """key: a stable identifier of *what* fails (input class / call site), matched against known findings."""
        for k in self.known:
            if re.search(k["match"], key):
                self.known_hits.setdefault(k["id"], []).append(key)
                return
        self.violations.append((key, desc, payload))

    def finish(self):
        wall = time.time() - self.t0
        evdir = os.environ.get("VERIF_EVIDENCE_DIR") or os.path.join(VERIF, "evidence")
        rpdir = os.environ.get("VERIF_REPLAY_DIR") or os.path.join(VERIF, "replays")
        os.makedirs(evdir, exist_ok=True)
        os.makedirs(rpdir, exist_ok=True)
        for k in self.known:
            if k["id"] in self.known_hits:
                print("KNOWN-FINDING: property=%s %s (%d occurrences this run)" % (self.prop, k["what"], len(self.known_hits[k["id"]])))
        seen = set()
        n = 0
        for key, desc, payload in self.violations:
            if key in seen:
                continue
            seen.add(key)
            n += 1
            if n > 20:
                continue
            path = os.path.join(rpdir, "%s-%d.json" % (self.prop, n))
            with open(path, "w") as f:
                json.dump({"property": self.prop, "key": key, "what": desc, "case": payload, "seed": self.seed, "tier": self.tier}, f, indent=1, default=str)
            print("VIOLATION property=%s replay=%s" % (self.prop, path))
            print("  " + desc.replace("\n", "\n  ")[:2000])
        cov = {
            "states": self.states,
            "transitions": self.transitions,
            "traces_validated_against_impl": self.traces,
            "evaluations": max(self.evaluations, self.traces, 1),
            "distinct_nontrivial": len(self.nontrivial) + self.nontrivial_count,
            "rule": self.rule,
            "samples": self.samples or ["(none recorded)"],
            "parts": self.parts,
        }
        if self.exhaustive is not None:
            cov["exhaustive"] = self.exhaustive
        for k, v in self.extra.items():
            # keys the evidence schema reserves keep the type it prescribes (a stray dict would invalidate the file)
            if k in ("programs", "obligations", "discharged", "disagreements_checked") and not isinstance(v, int):
                k = k + "_detail"
            cov[k] = v
        if self.known_hits:
            cov["known_findings_hit"] = {k: len(v) for k, v in self.known_hits.items()}
        ev = {
            "property_id": self.prop,
            "tier": self.tier,
            "seed": self.seed,
            "level": self.level,
            "coverage": cov,
            "assumptions": self.assumptions,
            "wall_s": round(wall, 2),
            "violations": len(seen),
        }
        with open(os.path.join(evdir, "%s.json" % self.prop), "w") as f:
            json.dump(ev, f, indent=1, default=str)
            f.write("\n")
        print("%s %s: states=%d transitions=%d traces=%d evaluations=%d nontrivial=%d violations=%d wall=%.1fs" % (
            self.prop, self.tier, self.states, self.transitions, self.traces, cov["evaluations"],
            cov["distinct_nontrivial"], len(seen), wall))
        return 1 if seen else 0


def chunks(seq, n):
    seq = list(seq)
    k = max(1, (len(seq) + n - 1) // n)
    return [seq[i : i + k] for i in range(0, len(seq), k)]


def dump_json(path, obj):
    with open(path, "w") as f:
        json.dump(obj, f, separators=(",", ":"))


def tla_str(s):
    return '"' + s.replace("\\", "\\\\").replace('"', '\\"') + '"'


def tla_val(x):
    """Python value -> TLA+ literal (for generated constant modules)."""
    if isinstance(x, bool):
        return "TRUE" if x else "FALSE"
    if isinstance(x, int):
        assert abs(x) < 2**31, x
        return str(x)
    if isinstance(x, str):
        return tla_str(x)
    if isinstance(x, (list, tuple)):
        return "<<" + ", ".join(tla_val(v) for v in x) + ">>"
    if isinstance(x, (set, frozenset)):
        return "{" + ", ".join(tla_val(v) for v in sorted(x, key=repr)) + "}"
    if isinstance(x, dict):
        if not x:
            return "<<>>"
        return "[" + ", ".join("%s |-> %s" % (k, tla_val(v)) for k, v in x.items()) + "]"
    raise TypeError(type(x))
