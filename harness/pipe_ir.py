"""C18 helpers: export the IR class table by reflection, project in-memory IR objects to the abstract
trees of spec/pipe/IRJson.tla, and turn JSON text into the tagged JSON values of that module.

Independence: the projection reads dataclass fields and attributes directly (dataclasses.fields,
getattr, typing hints); it does not go through ir_data_utils (the code under test), nor through
SourceLocation.__str__ / from_str.
"""
import dataclasses
import enum
import json
import sys
import typing

from .common import REPO

if REPO not in sys.path:
    sys.path.insert(0, REPO)
sys.dont_write_bytecode = True


def _mods():
    from compiler.util import ir_data, parser_types
    return ir_data, parser_types


def ir_classes():
    ir_data, _ = _mods()
    out = {}
    for name, v in vars(ir_data).items():
        if isinstance(v, type) and dataclasses.is_dataclass(v) and v is not ir_data.Message and issubclass(v, ir_data.Message):
            out[name] = v
    return out


def export_schema():
    """{"classes": {C: [{name, kind, type, container, oneof}]}, "enums": {E: [[name, "number"]]}}"""
    ir_data, parser_types = _mods()
    classes = ir_classes()
    ns = dict(vars(ir_data))
    enums = {}
    out = {}
    for cname, cls in classes.items():
        specs = []
        hints = typing.get_type_hints(cls, globalns=ns)
        for f in dataclasses.fields(cls):
            if f.name.startswith("_"):
                continue
            hint = hints[f.name]
            container = "none"
            origin = typing.get_origin(hint)
            if origin is typing.Union:
                args = [a for a in typing.get_args(hint) if a is not type(None)]
                hint = args[0]
                container = "optional"
            elif origin is list:
                hint = typing.get_args(hint)[0]
                container = "list"
            if isinstance(hint, str):
                hint = ns[hint]
            if isinstance(hint, typing.ForwardRef):
                hint = ns[hint.__forward_arg__]
            if isinstance(hint, type) and dataclasses.is_dataclass(hint):
                kind, tname = "msg", hint.__name__
            elif hint is parser_types.SourceLocation:
                kind, tname = "loc", "SourceLocation"
            elif isinstance(hint, type) and issubclass(hint, enum.Enum):
                kind, tname = "enum", hint.__name__
                enums[tname] = [[m.name, str(int(m.value))] for m in hint]
            elif hint is bool:
                kind, tname = "bool", "bool"
            elif hint is int:
                kind, tname = "int", "int"
            elif hint is str:
                kind, tname = "str", "str"
            else:
                raise TypeError("IR field %s.%s has a type the model does not know: %r" % (cname, f.name, hint))
            specs.append({"name": f.name, "kind": kind, "type": tname, "container": container,
                          "oneof": f.metadata.get("oneof") or ""})
        out[cname] = specs
    return {"classes": out, "enums": enums}


class Coverage:
    def __init__(self):
        self.classes = {}
        self.fields = {}
        self.flags = set()
        self.nodes = 0
        self.big_numbers = 0

    def merge(self, other):
        for k, v in other.classes.items():
            self.classes[k] = self.classes.get(k, 0) + v
        for k, v in other.fields.items():
            self.fields[k] = self.fields.get(k, 0) + v
        self.flags |= other.flags
        self.nodes += other.nodes
        self.big_numbers += other.big_numbers


def _scalar(kind, v, cov):
    if kind == "loc":
        cov.flags.add("loc:dj=%d,syn=%d,zero=%d" % (bool(v.is_disjoint_from_parent), bool(v.is_synthetic), v.start.line == 0))
        return {"k": "loc", "v": {"l1": int(v.start.line), "c1": int(v.start.column), "l2": int(v.end.line),
                                  "c2": int(v.end.column), "dj": bool(v.is_disjoint_from_parent), "syn": bool(v.is_synthetic)}}
    if kind == "enum":
        return {"k": "enum", "v": v.name if isinstance(v, enum.Enum) else "#%d" % int(v)}
    if kind == "bool":
        if not isinstance(v, bool):
            return {"k": "not-a-bool", "v": repr(v)}
        if v is False:
            cov.flags.add("bool:false")
        return {"k": "bool", "v": bool(v)}
    if kind == "int":
        return {"k": "int", "v": str(int(v))}
    if kind == "str":
        if not isinstance(v, str):
            return {"k": "not-a-str", "v": repr(v)}
        if v == "":
            cov.flags.add("str:empty")
        if v.lstrip("-").isdigit() and abs(int(v)) >= 2 ** 64:
            cov.big_numbers += 1
        return {"k": "str", "v": v}
    raise TypeError(kind)


def project(node, schema, cov):
    """In-memory IR node -> abstract tree (set/unset, list lengths, scalars)."""
    cname = type(node).__name__
    specs = schema["classes"][cname]
    cov.classes[cname] = cov.classes.get(cname, 0) + 1
    cov.nodes += 1
    fields = {}
    for s in specs:
        v = getattr(node, s["name"], None)
        if s["container"] == "list":
            if v is None:
                fields[s["name"]] = {"k": "none-list", "v": ""}
                continue
            elems = []
            for x in v:
                elems.append({"k": "msg", "v": project(x, schema, cov)} if s["kind"] == "msg" else _scalar(s["kind"], x, cov))
            if elems:
                cov.fields[cname + "." + s["name"]] = cov.fields.get(cname + "." + s["name"], 0) + 1
            fields[s["name"]] = {"k": "list", "v": elems}
        elif v is not None:
            cov.fields[cname + "." + s["name"]] = cov.fields.get(cname + "." + s["name"], 0) + 1
            fields[s["name"]] = {"k": "msg", "v": project(v, schema, cov)} if s["kind"] == "msg" else _scalar(s["kind"], v, cov)
    return {"cls": cname, "fields": fields}


def tag_json(j):
    """Parsed JSON -> tagged JSON value of IRJson.tla (numbers as decimal strings)."""
    if isinstance(j, dict):
        return {"j": "obj", "v": {k: tag_json(v) for k, v in j.items()}}
    if isinstance(j, list):
        return {"j": "arr", "v": [tag_json(v) for v in j]}
    if isinstance(j, bool):
        return {"j": "bool", "v": j}
    if isinstance(j, int):
        return {"j": "num", "v": str(j)}
    if isinstance(j, str):
        return {"j": "str", "v": j}
    if j is None:
        return {"j": "null", "v": ""}
    return {"j": "other", "v": repr(j)}


def parse_json_text(text):
    return json.loads(text, parse_float=lambda s: "float:" + s)
