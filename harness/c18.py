"""C18 - the IR survives serialization; split and in-process pipelines agree.

spec/pipe/IRJson.tla models the IR class table (exported by reflection from the tree under test) and
ToJson / FromJson on abstract trees.
  (MC) IRJsonMC: on the real class table, trees of every class grown field by field: WellFormed,
       FromJson(ToJson(t)) = t, ToJson idempotent; defective ToJson variants must be caught.
  (V)  for every IR the front end produces from the corpus and a node-kind-covering family (final IRs
       and IRs stopped before selected passes): the in-memory IR projected by reflection (t1), the JSON
       actually written (j1), the re-read IR projected again (t2), hashes of both JSON texts and of the
       headers generated from both IRs; TLC (IRJsonCheck) checks WellFormed(t1), Renders(t1, j1),
       t2 = t1, idempotence, equal headers.
  (V)  emboss_front_end --output-file | emboss_codegen_cpp --input-file versus embossc as real
       subprocesses: same exit, identical header, identical diagnostics.
"""
import json
import os
import subprocess
import sys

from .common import REPO, SPEC, NCPU, Scratch, MachineryError, run_tlc, write_cfg, run_parallel, tla_str
from . import pipe_tlc, pipe_worker, pipe_inputs, pipe_ir, pipe_probe

LEVEL = "model_checking"

STOPS = ["resolve_symbols", "annotate_types", "normalize_and_verify", "set_write_methods"]

QUICK = dict(mc_fields=2, cli=10, gram=150, workers=8, stops_every=3)
THOROUGH = dict(mc_fields=3, cli=40, gram=3000, workers=12, stops_every=1)

JSON_VARIANTS = ("drop-falsy", "loc-loses-synthetic")


def run_irjson_mc(chk, sc, schema_path, max_fields):
    def one(variant):
        d = pipe_tlc._spec_copy(sc, "irmc-" + variant)
        cfg = os.path.join(d, "irmc.cfg")
        write_cfg(cfg, constants={"Variant": tla_str(variant), "MaxFields": max_fields if variant == "doc" else 2},
                  invariants=("WF", "RoundTrip", "Idempotent", "RendersSelf"))
        return variant, run_tlc(os.path.join(d, "IRJsonMC.tla"), cfg, workers=pipe_tlc.max_par(6 if variant == "doc" else 3),
                                env={"SCHEMA_FILE": schema_path}, timeout=2400, heap="4g", coverage=(variant == "doc"))

    for variant, res in run_parallel([(lambda v=v: one(v)) for v in ("doc",) + JSON_VARIANTS], nproc=pipe_tlc.max_par(3)):
        chk.add_tlc(res, part="irjson-mc-" + variant)
        if variant == "doc":
            if not res.clean or not res.completed:
                chk.violation("design:irjson:%s" % ",".join(res.invariant_violated or ["tlc"]),
                              "IRJson design-level check failed on the exported class table:\n" + res.error_trace_tail(50), None)
        else:
            if "RoundTrip" not in res.invariant_violated:
                raise MachineryError("IRJson properties are vacuous: ToJson variant %r was not caught (%s)"
                                     % (variant, res.invariant_violated))
            chk.extra.setdefault("json_variants_caught_by_design_MC", {})[variant] = res.invariant_violated[0]


def cli_pair(sc, name, files, main):
    """Real two-program build path versus the embossc driver, as subprocesses."""
    d = sc.sub("cli-" + name.replace("/", "_"))
    src = os.path.join(d, "src")
    for n, t in files.items():
        p = os.path.join(src, n)
        os.makedirs(os.path.dirname(p), exist_ok=True)
        with open(p, "w", encoding="utf-8") as f:
            f.write(t)
    cwd = os.path.join(d, "cwd")
    os.makedirs(cwd, exist_ok=True)
    env = dict(os.environ, PYTHONDONTWRITEBYTECODE="1", PYTHONHASHSEED="0", PYTHONPATH=REPO)
    py = sys.executable
    out = {"kind": "cli", "id": name, "tb": ""}

    def run(cmd):
        p = subprocess.run(cmd, cwd=cwd, env=env, stdout=subprocess.PIPE, stderr=subprocess.PIPE, timeout=600)
        return p.returncode, p.stderr.decode("utf-8", "replace")

    irj = os.path.join(d, "ir.json")
    h_split = os.path.join(d, "split.h")
    rc1, err1 = run([py, "-m", "compiler.front_end.emboss_front_end", "--color-output", "never", "--import-dir", src,
                     "--output-file", irj, main])
    rc2, err2 = (0, "")
    if rc1 == 0:
        rc2, err2 = run([py, "-m", "compiler.back_end.cpp.emboss_codegen_cpp", "--color-output", "never",
                         "--input-file", irj, "--output-file", h_split])
    rc3, err3 = run([py, os.path.join(REPO, "embossc"), "--color-output", "never", "--import-dir", src,
                     "--output-path", os.path.join(d, "out"), main])
    h_emb = os.path.join(d, "out", main + ".h")

    def hf(p):
        return pipe_probe.h(open(p, "rb").read(), 16) if os.path.exists(p) else "-"

    for e in (err1, err2, err3):
        if "Traceback (most recent call last)" in e:
            from .c16 import traceback_site
            out["tb"] = traceback_site(e)
    out.update(exit_split=max(rc1, rc2), exit_embossc=rc3, header_split=hf(h_split), header_embossc=hf(h_emb),
               stderr_split=pipe_probe.h(err1 + err2, 16), stderr_embossc=pipe_probe.h(err3, 16))
    return out


def selftest(chk, sc, schema_path, recs):
    """The binding bites: corrupt one recorded field of good records; IRJsonCheck must reject each."""
    import copy
    def first_path(node, pred, path=()):
        """path to the first (field dict, name) satisfying pred in an abstract tree"""
        for n, v in node["fields"].items():
            if pred(n, v):
                return node, n
            subs = [v["v"]] if v["k"] == "msg" else [x["v"] for x in v["v"] if isinstance(x, dict) and x.get("k") == "msg"] if v["k"] == "list" else []
            for sub in subs:
                r = first_path(sub, pred)
                if r:
                    return r
        return None

    tree = top = None
    for _sz, line in sorted(recs, key=lambda x: x[0]):
        r = json.loads(line)
        if (r.get("kind") == "tree" and tree is None and len(line) > 3000
                and first_path(r["t2"], lambda n, v: v["k"] == "bool") and first_path(r["t2"], lambda n, v: v["k"] == "loc")):
            tree = r
        if r.get("kind") == "top" and top is None and r.get("header1", "-") not in ("-",) and not r.get("exc"):
            top = r
        if tree is not None and top is not None:
            break
    if tree is None or top is None:
        chk.extra["corruption_selftest"] = "skipped"
        return

    cases = []
    c = copy.deepcopy(tree)
    node, n = first_path(c["t2"], lambda n, v: v["k"] == "bool")
    node["fields"][n]["v"] = not node["fields"][n]["v"]
    c["id"] = "selftest:flip-bool-after-reread"
    cases.append((c, "RoundTrip"))
    c = copy.deepcopy(tree)
    node, n = first_path(c["t2"], lambda n, v: v["k"] == "loc")
    del node["fields"][n]
    c["id"] = "selftest:location-lost-after-reread"
    cases.append((c, "RoundTrip"))
    c = copy.deepcopy(tree)
    j = c["j1"]
    while True:   # descend to some object with a scalar member and drop it
        scal = [k for k, v in j["v"].items() if v["j"] in ("str", "bool", "num")]
        if scal:
            del j["v"][scal[0]]
            break
        k = next(k for k, v in j["v"].items() if v["j"] in ("obj", "arr"))
        j = j["v"][k] if j["v"][k]["j"] == "obj" else j["v"][k]["v"][0]
    c["id"] = "selftest:member-missing-in-json"
    cases.append((c, "ToJson-renders-the-IR"))
    c = copy.deepcopy(top)
    c["header2"] = "0" * 16
    c["id"] = "selftest:header-differs"
    cases.append((c, "SplitEqualsInProc-header"))
    c = copy.deepcopy(top)
    c["json2"] = "0" * 16
    c["id"] = "selftest:json-not-idempotent"
    cases.append((c, "Idempotent"))
    d = pipe_tlc._spec_copy(sc, "irchk-selftest")
    cf = os.path.join(d, "cases.ndjson")
    with open(cf, "w", encoding="utf-8") as f:
        for c, _x in cases:
            f.write(json.dumps(c) + "\n")
    cfgp = os.path.join(d, "chk.cfg")
    write_cfg(cfgp)
    res = run_tlc(os.path.join(d, "IRJsonCheck.tla"), cfgp, workers=1, env={"SCHEMA_FILE": schema_path, "CASES_FILE": cf},
                  timeout=900, heap="3g")
    chk.add_tlc(res, part="corruption-selftest")
    got = {v["id"]: set(v["clauses"]) for v in res.printed_json() if isinstance(v, dict) and "clauses" in v}
    missed = [c["id"] for c, x in cases if x not in got.get(c["id"], set())]
    chk.extra["corruption_selftest"] = {"corruptions": len(cases), "rejected": len(cases) - len(missed)}
    if missed:
        raise MachineryError("IRJsonCheck is vacuous: corrupted records were accepted: %s (%s)" % (missed, got))


def run(chk, only=None):
    cfg = QUICK if chk.tier == "quick" else THOROUGH
    want = lambda p: only is None or p in only
    chk.rule = ("every IR the real front end produces for the repository's .emb corpus, a hand-written node-kind-covering "
                "family and accepted grammar-shaped programs (final IR, and IR stopped before selected passes); one record "
                "per IR module; non-trivial = the record exercises a distinct (class, field spec) pair of the IR data model")
    chk.assumptions += [
        "JSON numbers travel as decimal strings; integers beyond 64 bits are digit strings in the IR itself",
        "location flag suffixes ('^' disjoint, '*' synthetic) are a named modelling decision (SourceLocation documents them; doc/*.md shows only the plain form)",
        "an enum value may be written as its number or its name (documentation silent; both are read back)",
    ]
    with Scratch("c18") as sc:
        schema = pipe_ir.export_schema()
        schema_path = sc.file("schema.json")
        with open(schema_path, "w") as f:
            json.dump(schema, f)
        nclasses = len(schema["classes"])
        nspecs = sum(len(v) for v in schema["classes"].values())
        chk.extra["ir_classes"] = nclasses
        chk.extra["ir_field_specs"] = nspecs
        if want("mc"):
            run_irjson_mc(chk, sc, schema_path, cfg["mc_fields"])
            # the split pipeline as a process (Serialize/Deserialize actions, SplitEqualsInProc)
            pipe_tlc.run_mc(chk, sc, choice_set="wide", max_compiles=1, part="pipeline-mc-design")
        if not want("bind"):
            return
        # ---------------- source sets ----------------
        corpus = pipe_inputs.load_corpus()
        sets = []
        for k, name in enumerate(pipe_inputs.corpus_mains(corpus)):
            sets.append({"name": "corpus:" + name, "files": corpus, "main": name,
                         "stops": STOPS if k % cfg["stops_every"] == 0 else []})
        for name, files, main in pipe_inputs.covering_sets():
            sets.append({"name": "cover:" + name, "files": files, "main": main, "stops": STOPS})
        for i in range(cfg["gram"]):
            r = pipe_inputs.rng_for(chk.seed, "c18gram", i)
            sets.append({"name": "gram:%d" % i, "files": {"m.emb": pipe_inputs.gen_program(r)}, "main": "m.emb", "stops": []})
        nw = pipe_tlc.max_par(min(cfg["workers"], max(2, NCPU - 2)))
        jobs = []
        outs = []
        chunk = max(1, (len(sets) + nw * 3 - 1) // (nw * 3))
        for i in range(0, len(sets), chunk):
            out = sc.file("ir-%d.ndjson" % i)
            outs.append(out)
            jobs.append({"op": "ir", "sets": sets[i:i + chunk], "out": out, "schema": schema})
        pool = pipe_worker.Pool(sc.sub("streams"), nw, job_timeout=900)
        cli_res = []

        def do_cli():
            if not want("cli"):
                return
            picks = [s for s in sets if s["name"].startswith(("corpus:", "cover:"))]
            step = max(1, len(picks) // cfg["cli"])
            picks = picks[chk.seed % step::step][:cfg["cli"]]
            picks.append({"name": "rejected", "files": {"m.emb": "struct Foo:\n  0 [+1]  UInt  x\n  0 [+1]  UInt  x\n"}, "main": "m.emb"})
            cli_res.extend(run_parallel([(lambda s=s: cli_pair(sc, s["name"], s["files"], s["main"])) for s in picks], nproc=pipe_tlc.max_par(3)))

        import threading
        th = threading.Thread(target=do_cli)
        th.start()
        pool.run(jobs)
        th.join()
        if pool.timeouts or pool.crashes:
            raise MachineryError("IR worker died or timed out: %r %r" % (pool.timeouts[:2], pool.crashes[:2]))
        # ---------------- coverage of the data model (descriptive) ----------------
        cov = pipe_ir.Coverage()
        for o in outs:
            if os.path.exists(o + ".cov"):
                c = json.load(open(o + ".cov"))
                k = pipe_ir.Coverage()
                k.classes, k.fields, k.flags, k.nodes, k.big_numbers = c["classes"], c["fields"], set(c["flags"]), c["nodes"], c["big_numbers"]
                cov.merge(k)
        all_fields = {"%s.%s" % (c, s["name"]) for c, v in schema["classes"].items() for s in v}
        chk.extra["ir_classes_seen"] = len(cov.classes)
        chk.extra["ir_classes_never_seen"] = sorted(set(schema["classes"]) - set(cov.classes))
        chk.extra["ir_field_specs_seen_set"] = len(set(cov.fields) & all_fields)
        chk.extra["ir_field_specs_never_set"] = sorted(all_fields - set(cov.fields))
        chk.extra["scalar_shapes_seen"] = sorted(cov.flags)
        chk.extra["ir_nodes_projected"] = cov.nodes
        chk.extra["digit_strings_beyond_64_bits"] = cov.big_numbers
        for f in cov.fields:
            chk.note_nontrivial(f)
        # ---------------- TLC judges ----------------
        recs = []
        ntree = ntop = nacc = 0
        for o in outs:
            if not os.path.exists(o):
                continue
            with open(o, encoding="utf-8") as f:
                for line in f:
                    if not line.strip():
                        continue
                    if '"kind": "top"' in line[:40] or line.startswith('{"kind": "top"'):
                        t = json.loads(line)
                        if not t.get("accepted") and not t.get("exc"):
                            continue
                        ntop += 1
                        nacc += 1 if t.get("accepted") else 0
                        for k in ("accepted", "rejected", "front_end_crashed"):
                            t.pop(k, None)
                        recs.append((len(line), json.dumps(t)))
                    else:
                        ntree += 1
                        recs.append((len(line), line.strip()))
        for c in cli_res:
            recs.append((200, json.dumps(c)))
        chk.extra["irs_serialized"] = nacc
        chk.extra["module_tree_records"] = ntree
        chk.extra["cli_pairs"] = len(cli_res)
        chk.traces = ntree + ntop + len(cli_res)
        if len(chk.samples) < 3 and cli_res:
            chk.sample(cli_res[0])
        # balance shards by size
        nsh = 6
        shards = [[] for _ in range(nsh)]
        sizes = [0] * nsh
        for sz, line in sorted(recs, key=lambda x: -x[0]):
            i = sizes.index(min(sizes))
            shards[i].append(line)
            sizes[i] += sz

        def one(i):
            if not shards[i]:
                return None
            d = pipe_tlc._spec_copy(sc, "irchk-%d" % i)
            cases = os.path.join(d, "cases.ndjson")
            with open(cases, "w", encoding="utf-8") as f:
                f.write("\n".join(shards[i]) + "\n")
            cfgp = os.path.join(d, "chk.cfg")
            write_cfg(cfgp)
            return run_tlc(os.path.join(d, "IRJsonCheck.tla"), cfgp, workers=1,
                           env={"SCHEMA_FILE": schema_path, "CASES_FILE": cases}, timeout=2400, heap="5g")

        failing = []
        total = 0
        for res in run_parallel([(lambda i=i: one(i)) for i in range(nsh)], nproc=pipe_tlc.max_par(nsh)):
            if res is None:
                continue
            chk.add_tlc(res, part="irjson-check")
            if not res.clean or not res.completed:
                raise MachineryError("IRJsonCheck did not complete:\n" + res.error_trace_tail(40))
            ok = False
            for v in res.printed_json():
                if isinstance(v, dict) and v.get("summary"):
                    ok = True
                    total += v["cases"]
                elif isinstance(v, dict) and "clauses" in v:
                    failing.append(v)
            if not ok:
                raise MachineryError("IRJsonCheck ended without summary:\n" + res.out[-1000:])
        chk.evaluations = total
        selftest(chk, sc, schema_path, recs)
        seen = set()
        for v in failing:
            for cl in v["clauses"]:
                at = v.get("at") or []
                where = ""
                if at and isinstance(at[0], str):
                    # class path without list indices: a stable name of the IR location
                    import re
                    where = re.sub(r"\[\d+\]", "[]", at[0])
                key = "%s:%s%s" % (cl, v["kind"], (":" + where) if where else "")
                payload = None
                if key not in seen:
                    seen.add(key)
                    payload = {"record": v["id"], "first_difference": at}
                chk.violation(key, "%s fails for %s at %s" % (cl, v["id"], json.dumps(at)[:600]), payload)
